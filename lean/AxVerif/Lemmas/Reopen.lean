/-
  Lemmas for C09 (`Thm/C09.lean`).

  The restarting machine and the never-restarting machine are compared through an *erasure* `E k` of a state of the
  MVCC machine: of a finished (committed / rolled-back) transaction only the status is kept, of an active one
  everything, with its `startTs` counted from position `k` of the commit log; the first `k` entries of the commit
  log are dropped.  Every operation of `Db.stepCore` commutes with the erasure (`stepCore_E`), for every setting of
  the defect flags of `Model/Db.lean`: no operation reads more of a state than its erasure.
-/
import AxVerif.Model.Reopen
namespace AxVerif.Reopen
open AxVerif.Db

/-! ### erasure -/

def dummySnap : Snapshot := ⟨0, Option.none, [], []⟩

def eraseTxn (k : Nat) (t : Txn) : Txn :=
  if t.status = .active then { t with startTs := t.startTs - k } else ⟨dummySnap, t.status, [], 0⟩

def E (k : Nat) (σ : Db.State) : Db.State := { σ with txns := σ.txns.map (eraseTxn k), clog := σ.clog.drop k }

theorem eraseTxn_status (k : Nat) (t : Txn) : (eraseTxn k t).status = t.status := by
  unfold eraseTxn; split <;> rfl

theorem eraseTxn_active {k : Nat} {t : Txn} (h : t.status = .active) :
    eraseTxn k t = { t with startTs := t.startTs - k } := by
  unfold eraseTxn; simp [h]

theorem eraseTxn_dead {k : Nat} {t : Txn} (h : t.status ≠ .active) :
    eraseTxn k t = ⟨dummySnap, t.status, [], 0⟩ := by
  unfold eraseTxn; simp [h]

theorem eraseTxn_idem (k : Nat) (t : Txn) : eraseTxn 0 (eraseTxn k t) = eraseTxn k t := by
  by_cases h : t.status = .active
  · rw [eraseTxn_active h, eraseTxn_active (by simpa using h)]
    simp
  · rw [eraseTxn_dead h, eraseTxn_dead (by simpa using h)]

theorem E_idem (k : Nat) (σ : Db.State) : E 0 (E k σ) = E k σ := by
  simp [E, eraseTxn_idem, Function.comp_def]

@[simp] theorem E_cat (k : Nat) (σ : Db.State) : (E k σ).cat = σ.cat := rfl
@[simp] theorem E_rows (k : Nat) (σ : Db.State) : (E k σ).rows = σ.rows := rfl
@[simp] theorem E_lc (k : Nat) (σ : Db.State) : (E k σ).lastCommitted = σ.lastCommitted := rfl
@[simp] theorem E_sessions (k : Nat) (σ : Db.State) : (E k σ).sessions = σ.sessions := rfl
@[simp] theorem E_clock (k : Nat) (σ : Db.State) : (E k σ).clock = σ.clock := rfl
@[simp] theorem E_index (k : Nat) (σ : Db.State) : (E k σ).index = σ.index := rfl
@[simp] theorem E_txns (k : Nat) (σ : Db.State) : (E k σ).txns = σ.txns.map (eraseTxn k) := rfl
@[simp] theorem E_clog (k : Nat) (σ : Db.State) : (E k σ).clog = σ.clog.drop k := rfl

theorem E_txns_length (k : Nat) (σ : Db.State) : (E k σ).txns.length = σ.txns.length := by simp

theorem E_get (k : Nat) (σ : Db.State) (i : Nat) : (E k σ).txns[i]? = (σ.txns[i]?).map (eraseTxn k) := by simp

/-- the transactions with a given status are the same after erasure -/
theorem idsWith_erase (st : Status) (k : Nat) : ∀ (txns : List Txn) (i : Nat),
    idsWith st (txns.map (eraseTxn k)) i = idsWith st txns i
  | [], _ => rfl
  | t :: ts, i => by
    simp only [List.map_cons, idsWith, eraseTxn_status, idsWith_erase st k ts (i + 1)]

theorem freshSnap_E (D : Db.Defects) (k : Nat) (σ : Db.State) : (E k σ).freshSnap D = σ.freshSnap D := by
  simp [State.freshSnap, idsWith_erase]

/-! ### well-formedness needed for the erasure to commute with the operations -/

structure Wf (k : Nat) (σ : Db.State) : Prop where
  kle : k ≤ σ.clog.length
  act : ∀ (i : Nat) (t : Txn), σ.txns[i]? = some t → t.status = .active → k ≤ t.startTs
  /-- every session holds an active transaction -/
  sessAct : ∀ (s : String) (tid : Nat), lookup s σ.sessions = some tid → ∃ t, σ.txns[tid]? = some t ∧ t.status = .active
  /-- no two sessions hold the same transaction -/
  sessInj : ∀ (s1 s2 : String) (tid : Nat), lookup s1 σ.sessions = some tid → lookup s2 σ.sessions = some tid → s1 = s2

theorem Wf.erased {k : Nat} {σ : Db.State} (h : Wf k σ) : Wf 0 (E k σ) := by
  refine ⟨Nat.zero_le _, fun _ _ _ _ => Nat.zero_le _, ?_, h.sessInj⟩
  intro s tid hs
  obtain ⟨t, ht, hact⟩ := h.sessAct s tid hs
  exact ⟨eraseTxn k t, by simp [ht], by rw [eraseTxn_status]; exact hact⟩

/-! ### the primitives of the coordinator commute with the erasure -/

theorem map_erase_modify (k i : Nat) (f : Txn → Txn) (txns : List Txn)
    (hf : ∀ t, eraseTxn 0 (f (eraseTxn k t)) = eraseTxn k (f t)) :
    (txns.modify i f).map (eraseTxn k) = ((txns.map (eraseTxn k)).modify i f).map (eraseTxn 0) := by
  apply List.ext_getElem?
  intro j
  simp only [List.getElem?_map, List.getElem?_modify]
  cases txns[j]? with
  | none => rfl
  | some t =>
    by_cases e : i = j
    · simp [e, hf]
    · simp [e, eraseTxn_idem]

theorem erase_setStatus (k : Nat) (st : Status) (hst : st ≠ .active) (t : Txn) :
    eraseTxn 0 ({ eraseTxn k t with status := st }) = eraseTxn k { t with status := st } := by
  unfold eraseTxn
  by_cases h : t.status = .active <;> simp [h, hst]

theorem erase_addWs (k : Nat) (w : List Rid) (t : Txn) :
    eraseTxn 0 ({ eraseTxn k t with ws := (eraseTxn k t).ws ++ w }) = eraseTxn k { t with ws := t.ws ++ w } := by
  unfold eraseTxn
  by_cases h : t.status = .active <;> simp [h]

theorem E_setStatus (k tid : Nat) (st : Status) (hst : st ≠ .active) (txns : List Txn) :
    (setStatus txns tid st).map (eraseTxn k) = (setStatus (txns.map (eraseTxn k)) tid st).map (eraseTxn 0) :=
  map_erase_modify k tid _ txns (erase_setStatus k st hst)

theorem beginTxn_E (D : Db.Defects) (k : Nat) (σ : Db.State) (hk : k ≤ σ.clog.length) :
    E k (σ.beginTxn D).1 = E 0 ((E k σ).beginTxn D).1 ∧ (σ.beginTxn D).2 = ((E k σ).beginTxn D).2 := by
  constructor
  · have hf := freshSnap_E D k σ
    have hnew : ∀ n, eraseTxn n ⟨σ.freshSnap D, .active, [], σ.clog.length⟩ =
        ⟨σ.freshSnap D, .active, [], σ.clog.length - n⟩ := by intro n; simp [eraseTxn]
    have hnew0 : eraseTxn 0 ⟨σ.freshSnap D, .active, [], σ.clog.length - k⟩ =
        ⟨σ.freshSnap D, .active, [], σ.clog.length - k⟩ := by simp [eraseTxn]
    simp only [State.beginTxn, E] at hf ⊢
    simp [eraseTxn_idem, Function.comp_def, hf, hnew, hnew0]
  · simp [State.beginTxn]

theorem abortTxn_E (k tid : Nat) (σ : Db.State) : E k (σ.abortTxn tid) = E 0 ((E k σ).abortTxn tid) := by
  simp only [State.abortTxn, E, E_setStatus k tid .aborted (by decide)]
  simp

theorem conflictIn_E (k : Nat) (clog : List (Nat × List Rid)) (t : Txn) (hact : t.status = .active)
    (hk : k ≤ t.startTs) : conflictIn (clog.drop k) (eraseTxn k t) = conflictIn clog t := by
  rw [eraseTxn_active hact]
  simp only [conflictIn, List.drop_drop]
  rw [show k + (t.startTs - k) = t.startTs by omega]

theorem commitTxn_E (k tid : Nat) (σ : Db.State) (t : Txn) (ht : σ.txns[tid]? = some t) (hact : t.status = .active)
    (hk : k ≤ t.startTs) (hkl : k ≤ σ.clog.length) :
    E k (σ.commitTxn tid).1 = E 0 ((E k σ).commitTxn tid).1 ∧ (σ.commitTxn tid).2 = ((E k σ).commitTxn tid).2 := by
  have hws : (eraseTxn k t).ws = t.ws := by rw [eraseTxn_active hact]
  simp only [State.commitTxn, ht, E_get, Option.map_some, E_clog, conflictIn_E k σ.clog t hact hk]
  by_cases hc : conflictIn σ.clog t = true
  · simp only [hc, if_true]
    refine ⟨?_, trivial⟩
    simp only [E, E_setStatus k tid .aborted (by decide)]
    simp
  · simp only [hc, Bool.false_eq_true, if_false]
    refine ⟨?_, trivial⟩
    simp only [E, E_setStatus k tid .committed (by decide), hws]
    simp [List.drop_append_of_le_length hkl]

theorem snapOf_E (k tid : Nat) (σ : Db.State) (t : Txn) (ht : σ.txns[tid]? = some t) (hact : t.status = .active) :
    (E k σ).snapOf tid = σ.snapOf tid := by
  simp [State.snapOf, ht, eraseTxn_active hact]

theorem write_E (D : Db.Defects) (k tid : Nat) (σ : Db.State) (t : Txn) (ht : σ.txns[tid]? = some t)
    (hact : t.status = .active) (es : List Effect) :
    E k (σ.write D tid es) = E 0 ((E k σ).write D tid es) := by
  have hs := snapOf_E k tid σ t ht hact
  simp only [State.write, hs, E_rows, E_cat, E_index, E_txns]
  by_cases hw : D.writeSetNeverRecorded = true
  · simp [hw, E, eraseTxn_idem, Function.comp_def]
  · simp only [hw, Bool.false_eq_true, if_false]
    have := map_erase_modify k tid (fun t => { t with ws := t.ws ++ es.map Effect.rid }) σ.txns
      (fun t => erase_addWs k (es.map Effect.rid) t)
    simp [E, this]

theorem stmt_E (D : Db.Defects) (k tid : Nat) (σ : Db.State) (t : Txn) (ht : σ.txns[tid]? = some t)
    (hact : t.status = .active) (j0 : Nat) (st : Stmt) :
    E k (σ.stmt D tid j0 st).1 = E 0 ((E k σ).stmt D tid j0 st).1 ∧
    (σ.stmt D tid j0 st).2 = ((E k σ).stmt D tid j0 st).2 := by
  have hs := snapOf_E k tid σ t ht hact
  simp only [State.stmt, hs, E_rows, E_cat, E_index, E_clock]
  generalize planStmt _ σ.cat σ.clock j0 (view D (σ.snapOf tid) σ.rows) st = p
  by_cases h : (p.out.isErr && !D.stmtNotAtomicInSession) = true
  · simp only [h, if_true]
    exact ⟨(E_idem k σ).symm, trivial⟩
  · simp only [h, Bool.false_eq_true, if_false]
    exact ⟨write_E D k tid σ t ht hact _, trivial⟩

/-! ### what the operations leave alone: statuses, start times, commit log, sessions -/

/-- `σ'` has the transactions of `σ` with the same statuses and start times, the same commit log and sessions -/
structure Same (σ σ' : Db.State) : Prop where
  clog : σ'.clog = σ.clog
  sessions : σ'.sessions = σ.sessions
  fwd : ∀ (i : Nat) (t : Txn), σ.txns[i]? = some t → ∃ t', σ'.txns[i]? = some t' ∧ t'.status = t.status ∧ t'.startTs = t.startTs
  bwd : ∀ (i : Nat) (t' : Txn), σ'.txns[i]? = some t' → ∃ t, σ.txns[i]? = some t ∧ t'.status = t.status ∧ t'.startTs = t.startTs

theorem Same.refl (σ : Db.State) : Same σ σ :=
  ⟨rfl, rfl, fun _ t h => ⟨t, h, rfl, rfl⟩, fun _ t h => ⟨t, h, rfl, rfl⟩⟩

theorem Same.trans {σ σ' σ'' : Db.State} (h1 : Same σ σ') (h2 : Same σ' σ'') : Same σ σ'' := by
  refine ⟨h2.clog.trans h1.clog, h2.sessions.trans h1.sessions, ?_, ?_⟩
  · intro i t ht
    obtain ⟨t', ht', e1, e2⟩ := h1.fwd i t ht
    obtain ⟨t'', ht'', f1, f2⟩ := h2.fwd i t' ht'
    exact ⟨t'', ht'', f1.trans e1, f2.trans e2⟩
  · intro i t'' ht''
    obtain ⟨t', ht', e1, e2⟩ := h2.bwd i t'' ht''
    obtain ⟨t, ht, f1, f2⟩ := h1.bwd i t' ht'
    exact ⟨t, ht, e1.trans f1, e2.trans f2⟩

theorem Wf.same {k : Nat} {σ σ' : Db.State} (h : Wf k σ) (hs : Same σ σ') : Wf k σ' := by
  refine ⟨by rw [hs.clog]; exact h.kle, ?_, ?_, ?_⟩
  · intro i t' ht' hact
    obtain ⟨t, ht, e1, e2⟩ := hs.bwd i t' ht'
    rw [e2]; exact h.act i t ht (e1 ▸ hact)
  · intro s tid hl
    rw [hs.sessions] at hl
    obtain ⟨t, ht, hact⟩ := h.sessAct s tid hl
    obtain ⟨t', ht', e1, _⟩ := hs.fwd tid t ht
    exact ⟨t', ht', e1.trans hact⟩
  · intro s1 s2 tid h1 h2
    rw [hs.sessions] at h1 h2
    exact h.sessInj s1 s2 tid h1 h2

theorem write_same (D : Db.Defects) (σ : Db.State) (tid : Nat) (es : List Effect) : Same σ (σ.write D tid es) := by
  refine ⟨rfl, rfl, ?_, ?_⟩
  · intro i t ht
    simp only [State.write]
    split
    · exact ⟨t, ht, rfl, rfl⟩
    · simp only [List.getElem?_modify, ht, Option.map_some]
      by_cases e : tid = i <;> simp [e]
  · intro i t' ht'
    simp only [State.write] at ht'
    split at ht'
    · exact ⟨t', ht', rfl, rfl⟩
    · simp only [List.getElem?_modify] at ht'
      cases h : σ.txns[i]? with
      | none => simp [h] at ht'
      | some t =>
        simp only [h, Option.map_eq_map, Option.map_some, Option.some.injEq] at ht'
        refine ⟨t, rfl, ?_, ?_⟩ <;> (rw [← ht']; by_cases e : tid = i <;> simp [e])

theorem stmt_same (D : Db.Defects) (σ : Db.State) (tid j0 : Nat) (st : Stmt) : Same σ (σ.stmt D tid j0 st).1 := by
  simp only [State.stmt]
  generalize planStmt _ σ.cat σ.clock j0 (view D (σ.snapOf tid) σ.rows) st = p
  by_cases h : (p.out.isErr && !D.stmtNotAtomicInSession) = true
  · simp only [h, if_true]
    exact Same.refl σ
  · simp only [h, Bool.false_eq_true, if_false]
    exact write_same D σ tid _

theorem same_get_active {σ σ' : Db.State} (hs : Same σ σ') {tid : Nat} {t : Txn} (ht : σ.txns[tid]? = some t)
    (hact : t.status = .active) : ∃ t', σ'.txns[tid]? = some t' ∧ t'.status = .active := by
  obtain ⟨t', ht', e1, _⟩ := hs.fwd tid t ht
  exact ⟨t', ht', e1.trans hact⟩

theorem batch_same (D : Db.Defects) (tid : Nat) : ∀ (sts : List Stmt) (σ : Db.State) (j0 : Nat),
    Same σ (State.batch D σ tid j0 sts).1
  | [], σ, _ => Same.refl σ
  | st :: sts, σ, j0 => by
    simp only [State.batch]
    have h1 := stmt_same D σ tid j0 st
    generalize σ.stmt D tid j0 st = r at h1
    obtain ⟨σ', p⟩ := r
    simp only
    cases hp : p.out with
    | err e => exact h1
    | okN n => exact h1.trans (batch_same D tid sts σ' _)
    | rows rs => exact h1.trans (batch_same D tid sts σ' _)

theorem batch_E (D : Db.Defects) (k tid : Nat) : ∀ (sts : List Stmt) (σ : Db.State) (t : Txn) (j0 : Nat),
    σ.txns[tid]? = some t → t.status = .active →
    E k (State.batch D σ tid j0 sts).1 = E 0 (State.batch D (E k σ) tid j0 sts).1 ∧
    (State.batch D σ tid j0 sts).2 = (State.batch D (E k σ) tid j0 sts).2
  | [], σ, _, _, _, _ => ⟨(E_idem k σ).symm, rfl⟩
  | st :: sts, σ, t, j0, ht, hact => by
    simp only [State.batch]
    obtain ⟨h1, h2⟩ := stmt_E D k tid σ t ht hact j0 st
    have hsame := stmt_same D σ tid j0 st
    have hsame' := stmt_same D (E k σ) tid j0 st
    generalize σ.stmt D tid j0 st = r at h1 h2 hsame
    generalize (E k σ).stmt D tid j0 st = r' at h1 h2 hsame'
    obtain ⟨σ1, p⟩ := r
    obtain ⟨σ1', p'⟩ := r'
    simp only at h1 h2 hsame hsame'
    subst h2
    simp only
    cases hp : p.out with
    | err e => exact ⟨h1, rfl⟩
    | okN n =>
      simp only
      obtain ⟨t1, ht1, hact1⟩ := same_get_active hsame ht hact
      obtain ⟨g1, g2⟩ := batch_E D k tid sts σ1 t1 (j0 + countIns p.effs) ht1 hact1
      -- the same batch from `σ1'`, whose erasure is the erasure of `σ1`
      have ht' : (E k σ).txns[tid]? = some (eraseTxn k t) := by simp [ht]
      obtain ⟨t1', ht1', hact1'⟩ := same_get_active hsame' ht' (by rw [eraseTxn_status]; exact hact)
      obtain ⟨f1, f2⟩ := batch_E D 0 tid sts σ1' t1' (j0 + countIns p.effs) ht1' hact1'
      rw [← h1] at f1 f2
      have e2 := g2.trans f2.symm
      refine ⟨?_, ?_⟩
      · rw [g1, f1]
      · simp only [e2]
    | rows rs =>
      simp only
      obtain ⟨t1, ht1, hact1⟩ := same_get_active hsame ht hact
      obtain ⟨g1, g2⟩ := batch_E D k tid sts σ1 t1 (j0 + countIns p.effs) ht1 hact1
      have ht' : (E k σ).txns[tid]? = some (eraseTxn k t) := by simp [ht]
      obtain ⟨t1', ht1', hact1'⟩ := same_get_active hsame' ht' (by rw [eraseTxn_status]; exact hact)
      obtain ⟨f1, f2⟩ := batch_E D 0 tid sts σ1' t1' (j0 + countIns p.effs) ht1' hact1'
      rw [← h1] at f1 f2
      have e2 := g2.trans f2.symm
      refine ⟨?_, ?_⟩
      · rw [g1, f1]
      · simp only [e2]

theorem commitC_E (D : Db.Defects) (k tid : Nat) (σ : Db.State) (t : Txn) (ht : σ.txns[tid]? = some t)
    (hact : t.status = .active) (hk : k ≤ t.startTs) (hkl : k ≤ σ.clog.length) :
    E k (σ.commitC D tid).1 = E 0 ((E k σ).commitC D tid).1 ∧ (σ.commitC D tid).2 = ((E k σ).commitC D tid).2 := by
  obtain ⟨h1, h2⟩ := commitTxn_E k tid σ t ht hact hk hkl
  have hrows : ((E k σ).commitTxn tid).1.rows = (σ.commitTxn tid).1.rows := by
    have := congrArg Db.State.rows h1
    simpa using this.symm
  have hfresh : ((E k σ).commitTxn tid).1.freshSnap D = (σ.commitTxn tid).1.freshSnap D := by
    have := congrArg (Db.State.freshSnap D) h1
    rw [freshSnap_E, freshSnap_E] at this
    exact this.symm
  have hkt : (E k σ).keyTaken tid = σ.keyTaken tid := by
    have ht' : (E k σ).txns[tid]? = some (eraseTxn k t) := by simp [ht]
    have hd : (σ.clog.drop k).drop (t.startTs - k) = σ.clog.drop t.startTs := by
      rw [List.drop_drop]; congr 1; omega
    unfold State.keyTaken
    rw [ht', ht, eraseTxn_active hact]
    simp only [E_clog, E_cat, E_rows, hd]
  simp only [State.commitC, ← h2, hrows, hfresh, hkt, E_cat]
  by_cases hb : (σ.commitTxn tid).2 = true
  · simp only [hb, if_true]
    split
    · exact ⟨abortTxn_E k tid σ, rfl⟩
    · exact ⟨h1, rfl⟩
  · simp only [hb, Bool.false_eq_true, if_false]
    exact ⟨h1, trivial⟩

/-! ### twins: a state and a state with the same erasure -/

/-- `ρ` is an erased twin of `σ` -/
def Tw (k : Nat) (σ ρ : Db.State) : Prop := E k σ = E 0 ρ

theorem Tw.self (k : Nat) (σ : Db.State) : Tw k σ (E k σ) := (E_idem k σ).symm

theorem Tw.get {k : Nat} {σ ρ : Db.State} (h : Tw k σ ρ) {i : Nat} {t : Txn} (ht : σ.txns[i]? = some t) :
    ∃ t', ρ.txns[i]? = some t' ∧ eraseTxn k t = eraseTxn 0 t' := by
  have := congrArg (fun s => s.txns[i]?) h
  simp only [E_get, ht, Option.map_some] at this
  cases h' : ρ.txns[i]? with
  | none => simp [h'] at this
  | some t' =>
    simp only [h', Option.map_some, Option.some.injEq] at this
    exact ⟨t', rfl, this⟩

theorem Tw.active {k : Nat} {σ ρ : Db.State} (h : Tw k σ ρ) {i : Nat} {t : Txn} (ht : σ.txns[i]? = some t)
    (hact : t.status = .active) : ∃ t', ρ.txns[i]? = some t' ∧ t'.status = .active := by
  obtain ⟨t', ht', e⟩ := h.get ht
  refine ⟨t', ht', ?_⟩
  have := congrArg Txn.status e
  rw [eraseTxn_status, eraseTxn_status] at this
  rw [← this]; exact hact

theorem Tw.sessions {k : Nat} {σ ρ : Db.State} (h : Tw k σ ρ) : ρ.sessions = σ.sessions := by
  have := congrArg Db.State.sessions h
  simpa using this.symm

theorem Tw.length {k : Nat} {σ ρ : Db.State} (h : Tw k σ ρ) : ρ.txns.length = σ.txns.length := by
  have := congrArg (fun s => s.txns.length) h
  simpa using this.symm

/-- how a one-sided commutation lemma turns into a statement about twins -/
theorem Tw.lift {k : Nat} {σ ρ : Db.State} (h : Tw k σ ρ) (f : Db.State → Db.State)
    (h1 : E k (f σ) = E 0 (f (E k σ))) (h2 : E 0 (f ρ) = E 0 (f (E 0 ρ))) : Tw k (f σ) (f ρ) := by
  unfold Tw at *
  rw [h1, h2, h]

/-! ### session table -/

theorem lookup_cons' (s k : String) (v : α) (l : List (String × α)) :
    lookup s ((k, v) :: l) = if k = s then some v else lookup s l := by
  simp [lookup]

theorem lookup_erase' (s k : String) : ∀ (l : List (String × α)),
    lookup s (erase k l) = if s = k then Option.none else lookup s l
  | [] => by simp [erase, lookup]
  | (k', v) :: rest => by
    simp only [erase, lookup]
    by_cases e : k' = k
    · subst e
      simp only [beq_self_eq_true, if_true]
      rw [lookup_erase' s k' rest]
      by_cases e2 : s = k'
      · simp [e2]
      · have : (k' == s) = false := by simpa using fun h => e2 h.symm
        simp [e2, this]
    · have hb : (k' == k) = false := by simpa using e
      simp only [hb, Bool.false_eq_true, if_false, lookup]
      rw [lookup_erase' s k rest]
      by_cases e2 : s = k
      · subst e2
        have : (k' == s) = false := by simpa using e
        simp [this]
      · simp [e2]

/-! ### well-formedness is kept -/

theorem getElem?_lt' {l : List α} {t : α} {i : Nat} (h : l[i]? = some t) : i < l.length := by
  by_cases e : i < l.length
  · exact e
  · rw [List.getElem?_eq_none (by omega)] at h; cases h

theorem Wf.begin {k : Nat} {σ : Db.State} (D : Db.Defects) (h : Wf k σ) : Wf k (σ.beginTxn D).1 := by
  refine ⟨h.kle, ?_, ?_, h.sessInj⟩
  · intro i t ht hact
    simp only [State.beginTxn] at ht
    by_cases e : i < σ.txns.length
    · rw [List.getElem?_append_left e] at ht
      exact h.act i t ht hact
    · have : i = σ.txns.length := by
        have := getElem?_lt' ht
        simp at this; omega
      subst this
      simp at ht
      subst ht
      exact h.kle
  · intro s tid hl
    obtain ⟨t, ht, hact⟩ := h.sessAct s tid hl
    refine ⟨t, ?_, hact⟩
    simp only [State.beginTxn]
    rw [List.getElem?_append_left (getElem?_lt' ht)]
    exact ht

/-- a transaction is finished (or stays as it is when it does not exist) and no session refers to it any more -/
theorem Wf.finish {k : Nat} {σ σ' : Db.State} (h : Wf k σ) (tid : Nat)
    (hclog : k ≤ σ'.clog.length)
    (htx : ∀ i, i ≠ tid → σ'.txns[i]? = σ.txns[i]?)
    (htid : ∀ t', σ'.txns[tid]? = some t' → t'.status ≠ .active)
    (hsess : ∀ s tid', lookup s σ'.sessions = some tid' → lookup s σ.sessions = some tid' ∧ tid' ≠ tid) :
    Wf k σ' := by
  refine ⟨hclog, ?_, ?_, ?_⟩
  · intro i t ht hact
    by_cases e : i = tid
    · subst e; exact (htid t ht hact).elim
    · rw [htx i e] at ht; exact h.act i t ht hact
  · intro s tid' hl
    obtain ⟨h1, h2⟩ := hsess s tid' hl
    obtain ⟨t, ht, hact⟩ := h.sessAct s tid' h1
    exact ⟨t, by rw [htx tid' h2]; exact ht, hact⟩
  · intro s1 s2 tid' h1 h2
    exact h.sessInj s1 s2 tid' (hsess s1 tid' h1).1 (hsess s2 tid' h2).1

theorem setStatus_get_ne (txns : List Txn) (tid i : Nat) (st : Status) (e : i ≠ tid) :
    (setStatus txns tid st)[i]? = txns[i]? := by
  simp only [setStatus, List.getElem?_modify]
  cases txns[i]? with
  | none => rfl
  | some t =>
    have : ¬ tid = i := fun h => e h.symm
    simp [this]

theorem setStatus_get_self (txns : List Txn) (tid : Nat) (st : Status) (t' : Txn)
    (h : (setStatus txns tid st)[tid]? = some t') : t'.status = st := by
  simp only [setStatus, List.getElem?_modify] at h
  cases h' : txns[tid]? with
  | none => simp [h'] at h
  | some t =>
    simp only [h', Option.map_eq_map, Option.map_some, if_true, Option.some.injEq] at h
    rw [← h]

theorem commitTxn_get_ne (σ : Db.State) (tid i : Nat) (e : i ≠ tid) : (σ.commitTxn tid).1.txns[i]? = σ.txns[i]? := by
  simp only [State.commitTxn]
  split
  · rfl
  · split <;> exact setStatus_get_ne _ _ _ _ e

theorem commitTxn_get_self (σ : Db.State) (tid : Nat) (t : Txn) (ht : σ.txns[tid]? = some t) (t' : Txn)
    (h : (σ.commitTxn tid).1.txns[tid]? = some t') : t'.status ≠ .active := by
  simp only [State.commitTxn, ht] at h
  split at h
  · rw [setStatus_get_self _ _ _ _ h]; decide
  · rw [setStatus_get_self _ _ _ _ h]; decide

theorem commitTxn_clog_le (σ : Db.State) (tid : Nat) : σ.clog.length ≤ (σ.commitTxn tid).1.clog.length := by
  simp only [State.commitTxn]
  split
  · exact Nat.le_refl _
  · split
    · exact Nat.le_refl _
    · simp

theorem commitTxn_sessions' (σ : Db.State) (tid : Nat) : (σ.commitTxn tid).1.sessions = σ.sessions := by
  simp only [State.commitTxn]
  split
  · rfl
  · split <;> rfl

theorem commitC_get_ne (D : Db.Defects) (σ : Db.State) (tid i : Nat) (e : i ≠ tid) :
    (σ.commitC D tid).1.txns[i]? = σ.txns[i]? := by
  simp only [State.commitC]
  split
  · split
    · exact setStatus_get_ne _ _ _ _ e
    · exact commitTxn_get_ne σ tid i e
  · exact commitTxn_get_ne σ tid i e

theorem commitC_get_self (D : Db.Defects) (σ : Db.State) (tid : Nat) (t : Txn) (ht : σ.txns[tid]? = some t) (t' : Txn)
    (h : (σ.commitC D tid).1.txns[tid]? = some t') : t'.status ≠ .active := by
  simp only [State.commitC] at h
  split at h
  · split at h
    · rw [setStatus_get_self _ _ _ _ h]; decide
    · exact commitTxn_get_self σ tid t ht t' h
  · exact commitTxn_get_self σ tid t ht t' h

theorem commitC_clog_le (D : Db.Defects) (σ : Db.State) (tid : Nat) : σ.clog.length ≤ (σ.commitC D tid).1.clog.length := by
  simp only [State.commitC]
  split
  · split
    · exact Nat.le_refl _
    · exact commitTxn_clog_le σ tid
  · exact commitTxn_clog_le σ tid

theorem commitC_sessions (D : Db.Defects) (σ : Db.State) (tid : Nat) : (σ.commitC D tid).1.sessions = σ.sessions := by
  simp only [State.commitC]
  split
  · split
    · rfl
    · exact commitTxn_sessions' σ tid
  · exact commitTxn_sessions' σ tid

/-- the transaction of session `s` is finished and the session ends -/
theorem Wf.endSess {k : Nat} {σ σ' : Db.State} (h : Wf k σ) (s : String) (tid : Nat)
    (hl : lookup s σ.sessions = some tid) (hclog : k ≤ σ'.clog.length) (hsess : σ'.sessions = erase s σ.sessions)
    (htx : ∀ i, i ≠ tid → σ'.txns[i]? = σ.txns[i]?)
    (htid : ∀ t', σ'.txns[tid]? = some t' → t'.status ≠ .active) : Wf k σ' := by
  refine h.finish tid hclog htx htid ?_
  intro s' tid' hl'
  rw [hsess, lookup_erase'] at hl'
  by_cases e : s' = s
  · simp [e] at hl'
  · simp only [e, if_false] at hl'
    refine ⟨hl', ?_⟩
    intro e2
    subst e2
    exact e (h.sessInj s' s tid' hl' hl)

/-- an autocommit transaction: begun, worked in, finished -/
theorem Wf.autoFinish {k : Nat} {σ σ2 σ3 : Db.State} (D : Db.Defects) (h : Wf k σ) (hs : Same (σ.beginTxn D).1 σ2)
    (hclog : σ2.clog.length ≤ σ3.clog.length) (hsess : σ3.sessions = σ2.sessions)
    (htx : ∀ i, i ≠ σ.txns.length → σ3.txns[i]? = σ2.txns[i]?)
    (htid : ∀ t', σ3.txns[σ.txns.length]? = some t' → t'.status ≠ .active) : Wf k σ3 := by
  have h2 : Wf k σ2 := (Wf.begin D h).same hs
  refine h2.finish σ.txns.length (Nat.le_trans h2.kle hclog) htx htid ?_
  intro s tid' hl
  rw [hsess] at hl
  refine ⟨hl, ?_⟩
  rw [hs.sessions] at hl
  obtain ⟨t, ht, _⟩ := h.sessAct s tid' hl
  exact Nat.ne_of_lt (getElem?_lt' ht)

theorem abortTxn_get_ne (σ : Db.State) (tid i : Nat) (e : i ≠ tid) : (σ.abortTxn tid).txns[i]? = σ.txns[i]? :=
  setStatus_get_ne _ _ _ _ e

theorem abortTxn_get_self (σ : Db.State) (tid : Nat) (t' : Txn) (h : (σ.abortTxn tid).txns[tid]? = some t') :
    t'.status ≠ .active := by
  rw [setStatus_get_self _ _ _ _ h]; decide

theorem Wf.abortSess {k : Nat} {σ : Db.State} (h : Wf k σ) (s : String) (tid : Nat)
    (hl : lookup s σ.sessions = some tid) : Wf k ((σ.abortTxn tid).endSession s) :=
  h.endSess s tid hl h.kle rfl (fun i e => abortTxn_get_ne σ tid i e) (fun t' ht' => abortTxn_get_self σ tid t' ht')

theorem stepCore_wf (D : Db.Defects) {k : Nat} {σ : Db.State} (h : Wf k σ) (op : Op) : Wf k (stepCore D σ op).1 := by
  cases op with
  | begin s =>
    -- the state after an older transaction of the session has been rolled back
    have h1 : ∃ σ1, (stepCore D σ (.begin s)).1 =
          { (σ1.beginTxn D).1 with sessions := (s, (σ1.beginTxn D).2) :: (σ1.beginTxn D).1.sessions } ∧
        Wf k σ1 ∧ lookup s σ1.sessions = Option.none := by
      cases hl : lookup s σ.sessions with
      | none => exact ⟨σ, by simp [stepCore, hl], h, hl⟩
      | some old =>
        refine ⟨(σ.abortTxn old).endSession s, by simp [stepCore, hl], h.abortSess s old hl, ?_⟩
        simp [State.endSession, State.abortTxn, lookup_erase']
    obtain ⟨σ1, e1, w1, n1⟩ := h1
    rw [e1]
    have w2 := Wf.begin D w1
    refine ⟨w2.kle, w2.act, ?_, ?_⟩
    · intro s' tid hl
      simp only [lookup_cons'] at hl
      by_cases c : s = s'
      · simp only [c, if_true, Option.some.injEq] at hl
        rw [← hl]
        exact ⟨⟨σ1.freshSnap D, .active, [], σ1.clog.length⟩, by simp [State.beginTxn], rfl⟩
      · simp only [c, if_false] at hl
        exact w2.sessAct s' tid hl
    · intro s1 s2 tid hl1 hl2
      simp only [lookup_cons'] at hl1 hl2
      have hlt : ∀ s' tid', lookup s' (σ1.beginTxn D).1.sessions = some tid' → tid' ≠ (σ1.beginTxn D).2 := by
        intro s' tid' hl
        obtain ⟨t, ht, _⟩ := w1.sessAct s' tid' hl
        exact Nat.ne_of_lt (getElem?_lt' ht)
      by_cases c1 : s = s1 <;> by_cases c2 : s = s2
      · exact c1.symm.trans c2
      · subst c1
        simp only [if_true, c2, if_false, Option.some.injEq] at hl1 hl2
        rw [← hl1] at hl2
        exact (hlt s2 _ hl2 rfl).elim
      · subst c2
        simp only [c1, if_false, if_true, Option.some.injEq] at hl1 hl2
        rw [← hl2] at hl1
        exact (hlt s1 _ hl1 rfl).elim
      · simp only [c1, if_false, c2] at hl1 hl2
        exact w1.sessInj s1 s2 tid hl1 hl2
  | commit s =>
    simp only [stepCore]
    cases hl : lookup s σ.sessions with
    | none => exact h
    | some tid =>
      obtain ⟨t, ht, _⟩ := h.sessAct s tid hl
      exact h.endSess s tid hl (Nat.le_trans h.kle (commitC_clog_le D σ tid))
        (by simp [State.endSession, commitC_sessions]) (fun i e => commitC_get_ne D σ tid i e)
        (fun t' ht' => commitC_get_self D σ tid t ht t' ht')
  | rollback s =>
    simp only [stepCore]
    cases hl : lookup s σ.sessions with
    | none => exact h
    | some tid => exact h.abortSess s tid hl
  | drop s =>
    simp only [stepCore]
    cases hl : lookup s σ.sessions with
    | none => exact h
    | some tid => exact h.abortSess s tid hl
  | exec s st =>
    simp only [stepCore]
    cases hl : lookup s σ.sessions with
    | none => exact h
    | some tid => exact h.same (stmt_same D σ tid 0 st)
  | auto st =>
    simp only [stepCore]
    have hs := stmt_same D (σ.beginTxn D).1 (σ.beginTxn D).2 0 st
    generalize (σ.beginTxn D).1.stmt D (σ.beginTxn D).2 0 st = r at hs
    obtain ⟨σ2, p⟩ := r
    simp only at hs ⊢
    have hid : (σ.beginTxn D).2 = σ.txns.length := rfl
    have ht2 : ∃ t2, σ2.txns[σ.txns.length]? = some t2 := by
      obtain ⟨t', ht', _⟩ := hs.fwd σ.txns.length ⟨σ.freshSnap D, .active, [], σ.clog.length⟩ (by simp [State.beginTxn])
      exact ⟨t', ht'⟩
    obtain ⟨t2, ht2⟩ := ht2
    rw [hid]
    split
    · exact Wf.autoFinish D h hs (Nat.le_refl _) rfl (fun i e => abortTxn_get_ne σ2 _ i e)
        (fun t' ht' => abortTxn_get_self σ2 _ t' ht')
    · exact Wf.autoFinish D h hs (commitC_clog_le D σ2 _) (commitC_sessions D σ2 _)
        (fun i e => commitC_get_ne D σ2 _ i e) (fun t' ht' => commitC_get_self D σ2 _ t2 ht2 t' ht')
  | batch sts =>
    simp only [stepCore]
    have hs := batch_same D (σ.beginTxn D).2 sts (σ.beginTxn D).1 0
    generalize State.batch D (σ.beginTxn D).1 (σ.beginTxn D).2 0 sts = r at hs
    obtain ⟨σ2, outs, res⟩ := r
    simp only at hs ⊢
    have hid : (σ.beginTxn D).2 = σ.txns.length := rfl
    have ht2 : ∃ t2, σ2.txns[σ.txns.length]? = some t2 := by
      obtain ⟨t', ht', _⟩ := hs.fwd σ.txns.length ⟨σ.freshSnap D, .active, [], σ.clog.length⟩ (by simp [State.beginTxn])
      exact ⟨t', ht'⟩
    obtain ⟨t2, ht2⟩ := ht2
    rw [hid]
    cases res with
    | some e =>
      exact Wf.autoFinish D h hs (Nat.le_refl _) rfl (fun i e => abortTxn_get_ne σ2 _ i e)
        (fun t' ht' => abortTxn_get_self σ2 _ t' ht')
    | none =>
      exact Wf.autoFinish D h hs (commitC_clog_le D σ2 _) (commitC_sessions D σ2 _)
        (fun i e => commitC_get_ne D σ2 _ i e) (fun t' ht' => commitC_get_self D σ2 _ t2 ht2 t' ht')
  | tick =>
    simp only [stepCore]
    have hid : (σ.beginTxn D).2 = σ.txns.length := rfl
    rw [hid]
    exact Wf.autoFinish D h (Same.refl _) (commitTxn_clog_le _ _) (commitTxn_sessions' _ _)
      (fun i e => commitTxn_get_ne _ _ i e)
      (fun t' ht' => commitTxn_get_self _ _ ⟨σ.freshSnap D, .active, [], σ.clog.length⟩ (by simp [State.beginTxn]) t' ht')
  | nop => exact h

/-! ### twins stay twins -/

theorem tw_begin (D : Db.Defects) {k : Nat} {σ ρ : Db.State} (h : Tw k σ ρ) (hk : k ≤ σ.clog.length) :
    Tw k (σ.beginTxn D).1 (ρ.beginTxn D).1 ∧ (σ.beginTxn D).2 = (ρ.beginTxn D).2 := by
  refine ⟨h.lift (fun s => (s.beginTxn D).1) (beginTxn_E D k σ hk).1 (beginTxn_E D 0 ρ (Nat.zero_le _)).1, ?_⟩
  simp only [State.beginTxn]
  exact h.length.symm

theorem tw_abort {k : Nat} {σ ρ : Db.State} (h : Tw k σ ρ) (tid : Nat) : Tw k (σ.abortTxn tid) (ρ.abortTxn tid) :=
  h.lift (fun s => s.abortTxn tid) (abortTxn_E k tid σ) (abortTxn_E 0 tid ρ)

theorem tw_sessions {k : Nat} {σ ρ : Db.State} (h : Tw k σ ρ) (f : List (String × Nat) → List (String × Nat)) :
    Tw k { σ with sessions := f σ.sessions } { ρ with sessions := f ρ.sessions } := by
  have hs := h.sessions
  unfold Tw E at *
  simp only [hs] at h ⊢
  injection h with h1 h2 h3 h4 h5 h6 h7 h8
  simp [h1, h2, h3, h4, h5, h7, h8]

theorem tw_commitC (D : Db.Defects) {k : Nat} {σ ρ : Db.State} (h : Tw k σ ρ) (tid : Nat) (t : Txn)
    (ht : σ.txns[tid]? = some t) (hact : t.status = .active) (hk : k ≤ t.startTs) (hkl : k ≤ σ.clog.length) :
    Tw k (σ.commitC D tid).1 (ρ.commitC D tid).1 ∧ (σ.commitC D tid).2 = (ρ.commitC D tid).2 := by
  obtain ⟨t', ht', hact'⟩ := h.active ht hact
  obtain ⟨a1, a2⟩ := commitC_E D k tid σ t ht hact hk hkl
  obtain ⟨b1, b2⟩ := commitC_E D 0 tid ρ t' ht' hact' (Nat.zero_le _) (Nat.zero_le _)
  refine ⟨h.lift (fun s => (s.commitC D tid).1) a1 b1, ?_⟩
  rw [a2, b2, show E k σ = E 0 ρ from h]

theorem tw_commitTxn {k : Nat} {σ ρ : Db.State} (h : Tw k σ ρ) (tid : Nat) (t : Txn)
    (ht : σ.txns[tid]? = some t) (hact : t.status = .active) (hk : k ≤ t.startTs) (hkl : k ≤ σ.clog.length) :
    Tw k (σ.commitTxn tid).1 (ρ.commitTxn tid).1 := by
  obtain ⟨t', ht', hact'⟩ := h.active ht hact
  exact h.lift (fun s => (s.commitTxn tid).1) (commitTxn_E k tid σ t ht hact hk hkl).1
    (commitTxn_E 0 tid ρ t' ht' hact' (Nat.zero_le _) (Nat.zero_le _)).1

theorem tw_stmt (D : Db.Defects) {k : Nat} {σ ρ : Db.State} (h : Tw k σ ρ) (tid : Nat) (t : Txn)
    (ht : σ.txns[tid]? = some t) (hact : t.status = .active) (j0 : Nat) (st : Stmt) :
    Tw k (σ.stmt D tid j0 st).1 (ρ.stmt D tid j0 st).1 ∧ (σ.stmt D tid j0 st).2 = (ρ.stmt D tid j0 st).2 := by
  obtain ⟨t', ht', hact'⟩ := h.active ht hact
  obtain ⟨a1, a2⟩ := stmt_E D k tid σ t ht hact j0 st
  obtain ⟨b1, b2⟩ := stmt_E D 0 tid ρ t' ht' hact' j0 st
  refine ⟨h.lift (fun s => (s.stmt D tid j0 st).1) a1 b1, ?_⟩
  rw [a2, b2, show E k σ = E 0 ρ from h]

theorem tw_batch (D : Db.Defects) {k : Nat} {σ ρ : Db.State} (h : Tw k σ ρ) (tid : Nat) (t : Txn)
    (ht : σ.txns[tid]? = some t) (hact : t.status = .active) (j0 : Nat) (sts : List Stmt) :
    Tw k (State.batch D σ tid j0 sts).1 (State.batch D ρ tid j0 sts).1 ∧
    (State.batch D σ tid j0 sts).2 = (State.batch D ρ tid j0 sts).2 := by
  obtain ⟨t', ht', hact'⟩ := h.active ht hact
  obtain ⟨a1, a2⟩ := batch_E D k tid sts σ t j0 ht hact
  obtain ⟨b1, b2⟩ := batch_E D 0 tid sts ρ t' j0 ht' hact'
  refine ⟨h.lift (fun s => (State.batch D s tid j0 sts).1) a1 b1, ?_⟩
  rw [a2, b2, show E k σ = E 0 ρ from h]

theorem begin_new_active (D : Db.Defects) (σ : Db.State) :
    (σ.beginTxn D).1.txns[(σ.beginTxn D).2]? = some ⟨σ.freshSnap D, .active, [], σ.clog.length⟩ := by
  simp [State.beginTxn]

/-- **Every operation of the MVCC machine commutes with the erasure**: twins stay twins and answer alike. -/
theorem stepCore_tw (D : Db.Defects) {k : Nat} {σ ρ : Db.State} (h : Tw k σ ρ) (w : Wf k σ) (op : Op) :
    Tw k (stepCore D σ op).1 (stepCore D ρ op).1 ∧ (stepCore D σ op).2 = (stepCore D ρ op).2 := by
  have hsess := h.sessions
  cases op with
  | begin s =>
    simp only [stepCore, hsess]
    cases hl : lookup s σ.sessions with
    | none =>
      simp only
      obtain ⟨h2, h3⟩ := tw_begin D h w.kle
      refine ⟨?_, trivial⟩
      rw [← h3]
      exact tw_sessions h2 (fun l => (s, (σ.beginTxn D).2) :: l)
    | some old =>
      simp only
      have h1 : Tw k ((σ.abortTxn old).endSession s) ((ρ.abortTxn old).endSession s) :=
        tw_sessions (tw_abort h old) (erase s)
      obtain ⟨h2, h3⟩ := tw_begin D h1 w.kle
      refine ⟨?_, trivial⟩
      rw [← h3]
      exact tw_sessions h2 (fun l => (s, (((σ.abortTxn old).endSession s).beginTxn D).2) :: l)
  | commit s =>
    simp only [stepCore, hsess]
    cases hl : lookup s σ.sessions with
    | none => exact ⟨h, rfl⟩
    | some tid =>
      obtain ⟨t, ht, hact⟩ := w.sessAct s tid hl
      obtain ⟨h2, h3⟩ := tw_commitC D h tid t ht hact (w.act tid t ht hact) w.kle
      simp only [h3]
      exact ⟨tw_sessions h2 (erase s), trivial⟩
  | rollback s =>
    simp only [stepCore, hsess]
    cases hl : lookup s σ.sessions with
    | none => exact ⟨h, rfl⟩
    | some tid => exact ⟨tw_sessions (tw_abort h tid) (erase s), rfl⟩
  | drop s =>
    simp only [stepCore, hsess]
    cases hl : lookup s σ.sessions with
    | none => exact ⟨h, rfl⟩
    | some tid => exact ⟨tw_sessions (tw_abort h tid) (erase s), rfl⟩
  | exec s st =>
    simp only [stepCore, hsess]
    cases hl : lookup s σ.sessions with
    | none => exact ⟨h, rfl⟩
    | some tid =>
      obtain ⟨t, ht, hact⟩ := w.sessAct s tid hl
      obtain ⟨h2, h3⟩ := tw_stmt D h tid t ht hact 0 st
      simp only [h3]
      exact ⟨h2, trivial⟩
  | auto st =>
    simp only [stepCore]
    obtain ⟨b1, b2⟩ := tw_begin D h w.kle
    have hnew := begin_new_active D σ
    obtain ⟨s1, s2⟩ := tw_stmt D b1 _ _ hnew rfl 0 st
    have hsame := stmt_same D (σ.beginTxn D).1 (σ.beginTxn D).2 0 st
    rw [← b2]
    generalize (σ.beginTxn D).1.stmt D (σ.beginTxn D).2 0 st = r at s1 s2 hsame
    generalize (ρ.beginTxn D).1.stmt D (σ.beginTxn D).2 0 st = r' at s1 s2
    obtain ⟨σ2, p⟩ := r
    obtain ⟨ρ2, p'⟩ := r'
    simp only at s1 s2 hsame ⊢
    subst s2
    obtain ⟨t2, ht2, e1, e2⟩ := hsame.fwd _ _ hnew
    by_cases he : p.out.isErr = true
    · simp only [he, if_true]
      exact ⟨tw_abort s1 _, trivial⟩
    · simp only [he, Bool.false_eq_true, if_false]
      obtain ⟨c1, c2⟩ := tw_commitC D s1 (σ.beginTxn D).2 t2 ht2 e1
        (by rw [e2]; exact w.kle) (by rw [hsame.clog]; exact w.kle)
      simp only [c2]
      exact ⟨c1, trivial⟩
  | batch sts =>
    simp only [stepCore]
    obtain ⟨b1, b2⟩ := tw_begin D h w.kle
    have hnew := begin_new_active D σ
    obtain ⟨s1, s2⟩ := tw_batch D b1 _ _ hnew rfl 0 sts
    have hsame := batch_same D (σ.beginTxn D).2 sts (σ.beginTxn D).1 0
    rw [← b2]
    generalize State.batch D (σ.beginTxn D).1 (σ.beginTxn D).2 0 sts = r at s1 s2 hsame
    generalize State.batch D (ρ.beginTxn D).1 (σ.beginTxn D).2 0 sts = r' at s1 s2
    obtain ⟨σ2, outs, res⟩ := r
    obtain ⟨ρ2, outs', res'⟩ := r'
    simp only at s1 s2 hsame ⊢
    obtain ⟨s2a, s2b⟩ := Prod.mk.inj s2
    subst s2a s2b
    obtain ⟨t2, ht2, e1, e2⟩ := hsame.fwd _ _ hnew
    cases res with
    | some e => exact ⟨tw_abort s1 _, rfl⟩
    | none =>
      simp only
      obtain ⟨c1, c2⟩ := tw_commitC D s1 (σ.beginTxn D).2 t2 ht2 e1
        (by rw [e2]; exact w.kle) (by rw [hsame.clog]; exact w.kle)
      simp only [c2]
      exact ⟨c1, trivial⟩
  | tick =>
    simp only [stepCore]
    obtain ⟨b1, b2⟩ := tw_begin D h w.kle
    rw [← b2]
    exact ⟨tw_commitTxn b1 _ _ (begin_new_active D σ) rfl w.kle w.kle, trivial⟩
  | nop => exact ⟨h, rfl⟩

/-! ## the wrapper machine -/

/-- one-sided commutation of a function on states with the erasure, and preservation of well-formedness -/
structure Commutes (f : Db.State → Db.State) : Prop where
  comm : ∀ (k : Nat) (σ : Db.State), Wf k σ → E k (f σ) = E 0 (f (E k σ))
  wf : ∀ (k : Nat) (σ : Db.State), Wf k σ → Wf k (f σ)

theorem Commutes.comp {f g : Db.State → Db.State} (hf : Commutes f) (hg : Commutes g) : Commutes (fun σ => g (f σ)) := by
  refine ⟨?_, fun k σ h => hg.wf k _ (hf.wf k σ h)⟩
  intro k σ h
  have h1 := hg.comm k (f σ) (hf.wf k σ h)
  have h2 := hf.comm k σ h
  have h3 := hg.comm 0 (f (E k σ)) (hf.wf 0 _ h.erased)
  show E k (g (f σ)) = E 0 (g (f (E k σ)))
  rw [h1, h2, h3]

/-- states of the two machines that differ only in what the erasure forgets -/
def EqE (σ τ : Db.State) : Prop := ∃ k k', E k σ = E k' τ ∧ Wf k σ ∧ Wf k' τ

theorem EqE.map {σ τ : Db.State} (h : EqE σ τ) {f : Db.State → Db.State} (hf : Commutes f) : EqE (f σ) (f τ) := by
  obtain ⟨k, k', e, w1, w2⟩ := h
  exact ⟨k, k', by rw [hf.comm k σ w1, hf.comm k' τ w2, e], hf.wf k σ w1, hf.wf k' τ w2⟩

theorem EqE.rows {σ τ : Db.State} (h : EqE σ τ) : σ.rows = τ.rows := by
  obtain ⟨k, k', e, _, _⟩ := h
  simpa using congrArg Db.State.rows e

theorem EqE.cat {σ τ : Db.State} (h : EqE σ τ) : σ.cat = τ.cat := by
  obtain ⟨k, k', e, _, _⟩ := h
  simpa using congrArg Db.State.cat e

theorem EqE.length {σ τ : Db.State} (h : EqE σ τ) : σ.txns.length = τ.txns.length := by
  obtain ⟨k, k', e, _, _⟩ := h
  simpa using congrArg (fun s => s.txns.length) e

theorem EqE.fresh (D : Db.Defects) {σ τ : Db.State} (h : EqE σ τ) : σ.freshSnap D = τ.freshSnap D := by
  obtain ⟨k, k', e, _, _⟩ := h
  have := congrArg (Db.State.freshSnap D) e
  rwa [freshSnap_E, freshSnap_E] at this

theorem EqE.stepCore (D : Db.Defects) {σ τ : Db.State} (h : EqE σ τ) (op : Op) :
    EqE (stepCore D σ op).1 (stepCore D τ op).1 ∧ (stepCore D σ op).2 = (stepCore D τ op).2 := by
  obtain ⟨k, k', e, w1, w2⟩ := h
  obtain ⟨a1, a2⟩ := stepCore_tw D (Tw.self k σ) w1 op
  have tw2 : Tw k' τ (E k σ) := by unfold Tw; rw [E_idem, e]
  obtain ⟨b1, b2⟩ := stepCore_tw D tw2 w2 op
  refine ⟨⟨k, k', ?_, stepCore_wf D w1 op, stepCore_wf D w2 op⟩, a2.trans b2.symm⟩
  exact (show E k _ = E 0 _ from a1).trans (show E k' _ = E 0 _ from b1).symm

theorem tickDb_eq (D : Db.Defects) (σ : Db.State) : tickDb D σ = (stepCore D σ .tick).1 := rfl

theorem commutes_tick (D : Db.Defects) : Commutes (tickDb D) := by
  refine ⟨fun k σ h => ?_, fun k σ h => ?_⟩
  · rw [tickDb_eq, tickDb_eq]
    exact (stepCore_tw D (Tw.self k σ) h .tick).1
  · rw [tickDb_eq]; exact stepCore_wf D h .tick

theorem commutes_fail (D : Db.Defects) : Commutes (failDb D) := by
  refine ⟨fun k σ h => ?_, fun k σ h => ?_⟩
  · obtain ⟨b1, b2⟩ := tw_begin D (Tw.self k σ) h.kle
    have := tw_abort b1 (σ.beginTxn D).2
    simp only [failDb]
    rw [← b2]
    exact this
  · simp only [failDb]
    exact Wf.autoFinish D h (Same.refl _) (Nat.le_refl _) rfl (fun i e => abortTxn_get_ne _ _ i e)
      (fun t' ht' => abortTxn_get_self _ _ t' ht')

theorem commutes_burn (D : Db.Defects) : ∀ n, Commutes (burnDb D n)
  | 0 => ⟨fun k σ _ => (E_idem k σ).symm, fun _ _ h => h⟩
  | n + 1 => by
    have := (commutes_tick D).comp (commutes_burn D n)
    exact this

/-- an update of catalog, rows and index that does not look at the transactions -/
theorem commutes_fields (fc : Catalog → Catalog) (fr : List Row → List Row) (fi : Index → Index) :
    Commutes (fun σ => { σ with cat := fc σ.cat, rows := fr σ.rows, index := fi σ.index }) :=
  ⟨fun k σ _ => by simp [E, eraseTxn_idem, Function.comp_def], fun _ _ h => ⟨h.kle, h.act, h.sessAct, h.sessInj⟩⟩

theorem statusIs_erase (k : Nat) (txns : List Txn) (st : Status) (u : Nat) :
    statusIs (txns.map (eraseTxn k)) st u = statusIs txns st u := by
  simp only [statusIs, List.getElem?_map]
  cases txns[u]? with
  | none => rfl
  | some t => simp [eraseTxn_status]

theorem vacuumRows_erase (k : Nat) (txns : List Txn) (rows : List Row) :
    vacuumRows (txns.map (eraseTxn k)) rows = vacuumRows txns rows := by
  have h : ∀ st, statusIs (txns.map (eraseTxn k)) st = statusIs txns st := by
    intro st; funext u; exact statusIs_erase k txns st u
  unfold vacuumRows vacuumRow
  simp only [statusIs_erase, h]

theorem commutes_vacuum : Commutes (fun σ => { σ with rows := vacuumRows σ.txns σ.rows }) := by
  refine ⟨fun k σ _ => ?_, fun _ _ h => ⟨h.kle, h.act, h.sessAct, h.sessInj⟩⟩
  simp [E, vacuumRows_erase, eraseTxn_idem, Function.comp_def]

/-! ### dropping all sessions, quiescing, close and open -/

def abortList (σ : Db.State) (l : List (String × Nat)) : Db.State := l.foldl (fun σ' p => σ'.abortTxn p.2) σ

theorem dropAll_eq (σ : Db.State) : dropAll σ = { abortList σ σ.sessions with sessions := [] } := rfl

theorem abortList_E (k : Nat) : ∀ (l : List (String × Nat)) (σ : Db.State),
    E k (abortList σ l) = E 0 (abortList (E k σ) l)
  | [], σ => (E_idem k σ).symm
  | p :: l, σ => by
    simp only [abortList, List.foldl_cons]
    have h1 := abortList_E k l (σ.abortTxn p.2)
    have h2 := abortList_E 0 l ((E k σ).abortTxn p.2)
    simp only [abortList] at h1 h2
    rw [h1, abortTxn_E k p.2 σ, h2]

theorem abortList_clog : ∀ (l : List (String × Nat)) (σ : Db.State), (abortList σ l).clog = σ.clog
  | [], _ => rfl
  | p :: l, σ => by
    simp only [abortList, List.foldl_cons]
    exact abortList_clog l (σ.abortTxn p.2)

theorem abortList_sessions : ∀ (l : List (String × Nat)) (σ : Db.State), (abortList σ l).sessions = σ.sessions
  | [], _ => rfl
  | p :: l, σ => by
    simp only [abortList, List.foldl_cons]
    exact abortList_sessions l (σ.abortTxn p.2)

/-- a transaction that is still active after the sessions have been dropped was active, and untouched, before -/
theorem abortList_active : ∀ (l : List (String × Nat)) (σ : Db.State) (i : Nat) (t : Txn),
    (abortList σ l).txns[i]? = some t → t.status = .active → σ.txns[i]? = some t
  | [], _, _, _, h, _ => h
  | p :: l, σ, i, t, h, hact => by
    simp only [abortList, List.foldl_cons] at h
    have h1 := abortList_active l (σ.abortTxn p.2) i t h hact
    by_cases e : i = p.2
    · subst e
      exact (abortTxn_get_self σ _ t h1 hact).elim
    · rw [abortTxn_get_ne σ p.2 i e] at h1
      exact h1

theorem commutes_dropAll : Commutes dropAll := by
  refine ⟨fun k σ _ => ?_, fun k σ h => ?_⟩
  · simp only [dropAll_eq, E_sessions]
    have := abortList_E k σ.sessions σ
    unfold E at *
    injection this with h1 h2 h3 h4 h5 h6 h7 h8
    simp [h1, h2, h3, h4, h5, h7, h8]
  · refine ⟨?_, ?_, ?_, ?_⟩
    · simp only [dropAll_eq, abortList_clog]; exact h.kle
    · intro i t ht hact
      exact h.act i t (abortList_active σ.sessions σ i t ht hact) hact
    · intro s tid hl; simp [dropAll_eq, lookup] at hl
    · intro s1 s2 tid hl; simp [dropAll_eq, lookup] at hl

theorem mem_idsWith' (st : Status) : ∀ (txns : List Txn) (off u : Nat),
    u ∈ idsWith st txns off ↔ off ≤ u ∧ ∃ t, txns[u - off]? = some t ∧ t.status = st
  | [], off, u => by simp [idsWith]
  | t :: ts, off, u => by
    have ih := mem_idsWith' st ts (off + 1) u
    by_cases hs : t.status = st
    · simp only [idsWith, hs, if_true, List.mem_cons, ih]
      constructor
      · rintro (e | ⟨h1, t', h2, h3⟩)
        · subst e; exact ⟨Nat.le_refl _, t, by simp, hs⟩
        · refine ⟨by omega, t', ?_, h3⟩
          rw [show u - off = (u - (off + 1)) + 1 by omega]
          simpa using h2
      · rintro ⟨h1, t', h2, h3⟩
        by_cases e : u = off
        · exact Or.inl e
        · right
          refine ⟨by omega, t', ?_, h3⟩
          rw [show u - off = (u - (off + 1)) + 1 by omega] at h2
          simpa using h2
    · simp only [idsWith, hs, if_false, ih]
      constructor
      · rintro ⟨h1, t', h2, h3⟩
        refine ⟨by omega, t', ?_, h3⟩
        rw [show u - off = (u - (off + 1)) + 1 by omega]
        simpa using h2
      · rintro ⟨h1, t', h2, h3⟩
        by_cases e : u = off
        · subst e
          simp at h2
          subst h2
          exact (hs h3).elim
        · refine ⟨by omega, t', ?_, h3⟩
          rw [show u - off = (u - (off + 1)) + 1 by omega] at h2
          simpa using h2

theorem mem_idsWith0' (st : Status) (txns : List Txn) (u : Nat) :
    u ∈ idsWith st txns 0 ↔ ∃ t, txns[u]? = some t ∧ t.status = st := by
  rw [mem_idsWith']; simp

def deact (t : Txn) : Txn := if t.status = .active then { t with status := .aborted } else t

theorem quiesce_eq (σ : Db.State) : quiesce σ = { σ with txns := σ.txns.map deact, sessions := [] } := rfl

theorem deact_status_ne (t : Txn) : (deact t).status ≠ .active := by
  unfold deact
  by_cases h : t.status = .active <;> simp [h]

/-- **Close and open.**  What `open ∘ close` makes of a state is, up to erasure, the state in which every open
    transaction has been rolled back: the rows, the catalog, the counters are the same, the reloaded coordinator takes
    exactly the rolled-back and the unfinished transactions for rolled back and all others for committed, and the forgotten
    commit log concerns no transaction that is still running. -/
theorem open_close_E (cfg : Config) (w : WState) :
    E 0 (openDb cfg (closeDb {} w)).db = E w.db.clog.length (quiesce w.db) := by
  simp only [openDb, closeDb, E, quiesce_eq, List.drop_nil, List.drop_length, List.map_map]
  congr 1
  apply List.ext_getElem?
  intro i
  simp only [List.getElem?_map, List.getElem?_range, Function.comp]
  cases ht : w.db.txns[i]? with
  | none =>
    have : ¬ i < w.db.txns.length := by
      intro hlt
      rw [List.getElem?_eq_getElem hlt] at ht
      cases ht
    simp [this]
  | some t =>
    have hlt := getElem?_lt' ht
    have hr : (List.range w.db.txns.length)[i]? = some i := by simp [hlt]
    simp only [hr, Bool.false_eq_true, if_false, Option.map_some, Option.some.injEq, Function.comp]
    rw [eraseTxn_dead (deact_status_ne t)]
    have hab : (idsWith Status.aborted w.db.txns 0 ++ idsWith Status.active w.db.txns 0).contains i =
        (decide (t.status = .aborted) || decide (t.status = .active)) := by
      rw [Bool.eq_iff_iff]
      simp only [List.contains_iff_mem, List.mem_append, mem_idsWith0', ht, Option.some.injEq, Bool.or_eq_true,
        decide_eq_true_eq]
      constructor
      · rintro (⟨t', e, h⟩ | ⟨t', e, h⟩) <;> subst e
        · exact Or.inl h
        · exact Or.inr h
      · rintro (h | h)
        · exact Or.inl ⟨t, rfl, h⟩
        · exact Or.inr ⟨t, rfl, h⟩
    unfold reloadTxn
    simp only [hab]
    cases hs : t.status <;> simp [eraseTxn, deact, hs]

theorem wf_open (cfg : Config) (R : Defects) (w : WState) : Wf 0 (openDb cfg (closeDb R w)).db :=
  ⟨Nat.zero_le _, fun _ _ _ _ => Nat.zero_le _, fun s tid hl => by simp [openDb, lookup] at hl,
    fun s1 s2 tid hl => by simp [openDb, lookup] at hl⟩

theorem wf_quiesce (σ : Db.State) : Wf σ.clog.length (quiesce σ) := by
  refine ⟨Nat.le_refl _, ?_, fun s tid hl => by simp [quiesce_eq, lookup] at hl,
    fun s1 s2 tid hl => by simp [quiesce_eq, lookup] at hl⟩
  intro i t ht hact
  simp only [quiesce_eq, List.getElem?_map] at ht
  cases h : σ.txns[i]? with
  | none => simp [h] at ht
  | some t0 =>
    simp only [h, Option.map_some, Option.some.injEq] at ht
    subst ht
    exact (deact_status_ne t0 hact).elim

/-- states with the same erasure have the same erasure after all open transactions were rolled back -/
theorem quiesce_E {k k' : Nat} {σ τ : Db.State} (e : E k σ = E k' τ) :
    E σ.clog.length (quiesce σ) = E τ.clog.length (quiesce τ) := by
  have key : ∀ (k : Nat) (σ : Db.State), E σ.clog.length (quiesce σ) =
      { E k σ with txns := (E k σ).txns.map (fun t => (⟨dummySnap, (deact t).status, [], 0⟩ : Txn)), clog := [],
                    sessions := [] } := by
    intro k σ
    simp only [E, quiesce_eq, List.drop_length, List.map_map]
    congr 1
    apply List.map_congr_left
    intro t _
    simp only [Function.comp]
    rw [eraseTxn_dead (deact_status_ne t)]
    unfold deact
    by_cases h : t.status = .active <;> simp [h, eraseTxn_status]
  rw [key k σ, key k' τ, e]

theorem commutes_clock : Commutes (fun σ => { σ with clock := σ.clock + 1 }) :=
  ⟨fun k σ _ => by simp [E, eraseTxn_idem, Function.comp_def], fun _ _ h => ⟨h.kle, h.act, h.sessAct, h.sessInj⟩⟩

/-! ### the restarting machine and the never-restarting machine -/

/-- the states of the two machines agree on everything but what the erasure forgets -/
structure RelW (w v : WState) : Prop where
  db : EqE w.db v.db
  nextRow : w.nextRow = v.nextRow
  rmeta : w.rmeta = v.rmeta
  objs : w.objs = v.objs
  lastObject : w.lastObject = v.lastObject
  hdr : w.hdr = v.hdr
  env : w.env = v.env

theorem RelW.mapDb {w v : WState} (h : RelW w v) {f : Db.State → Db.State} (hf : Commutes f) :
    RelW { w with db := f w.db } { v with db := f v.db } :=
  ⟨h.db.map hf, h.nextRow, h.rmeta, h.objs, h.lastObject, h.hdr, h.env⟩

theorem stepCoreW_rel (D : Db.Defects) {w v : WState} (h : RelW w v) (op : WOp) :
    RelW (stepCoreW D Defects.none false w op).1 (stepCoreW D Defects.none true v op).1 ∧
    (stepCoreW D Defects.none false w op).2 = (stepCoreW D Defects.none true v op).2 := by
  have hcat := h.db.cat
  have hrows := h.db.rows
  cases op with
  | db op =>
    obtain ⟨a1, a2⟩ := h.db.stepCore D op
    have hr : (stepCore D w.db op).1.rows = (stepCore D v.db op).1.rows := a1.rows
    simp only [stepCoreW, Defects.none, Bool.false_and, Bool.false_eq_true, if_false, hr, hrows, h.nextRow, h.rmeta, a2]
    exact ⟨⟨a1, rfl, rfl, h.objs, h.lastObject, h.hdr, h.env⟩, trivial⟩
  | create ts =>
    have hw : (findTable w.db.cat ts.name).isSome = (findTable v.db.cat ts.name).isSome := by rw [hcat]
    by_cases hb : (findTable v.db.cat ts.name).isSome = true
    · simp only [stepCoreW, hw, hb, if_true]
      exact ⟨h.mapDb (commutes_fail D), trivial⟩
    · simp only [stepCoreW, hw, hb, Bool.false_eq_true, if_false]
      have hc := (commutes_fields (fun c => c ++ [ts]) id id).comp (commutes_tick D)
      refine ⟨⟨h.db.map hc, ?_, h.rmeta, ?_, ?_, h.hdr, h.env⟩, ?_⟩
      · simp only [h.nextRow]
      · simp only [h.objs, h.lastObject]
      · simp only [h.lastObject]
      · simp only [h.lastObject]
  | dropTable t =>
    have hw : (findTable w.db.cat t).isSome = (findTable v.db.cat t).isSome := by rw [hcat]
    by_cases hb : (findTable v.db.cat t).isSome = true
    · simp only [stepCoreW, hw, hb, if_true]
      have hc := (commutes_fields (fun c => c.filter (fun ts => ts.name != t))
          (fun r => r.filter (fun r => r.table != t))
          (fun ix => ix.filter (fun e => e.table != t))).comp (commutes_tick D)
      refine ⟨⟨h.db.map hc, ?_, ?_, ?_, h.lastObject, h.hdr, h.env⟩, trivial⟩
      · simp only [h.nextRow]
      · simp only [h.rmeta]
      · simp only [h.objs]
    · simp only [stepCoreW, hw, hb, Bool.false_eq_true, if_false]
      exact ⟨h.mapDb (commutes_fail D), trivial⟩
  | vacuum =>
    simp only [stepCoreW]
    exact ⟨h.mapDb (commutes_vacuum.comp (commutes_tick D)), trivial⟩
  | tid =>
    simp only [stepCoreW, h.db.length]
    exact ⟨h.mapDb (commutes_tick D), trivial⟩
  | burn n =>
    simp only [stepCoreW]
    exact ⟨h.mapDb (commutes_burn D n), trivial⟩
  | obs t =>
    have hw : (findTable w.db.cat t).isSome = (findTable v.db.cat t).isSome := by rw [hcat]
    by_cases hb : (findTable v.db.cat t).isSome = true
    · simp only [stepCoreW, hw, hb, if_true]
      refine ⟨h.mapDb (commutes_tick D), ?_⟩
      simp only [hrows, h.db.fresh D, h.rmeta]
    · simp only [stepCoreW, hw, hb, Bool.false_eq_true, if_false]
      exact ⟨h.mapDb (commutes_fail D), trivial⟩
  | reopen leak cfg =>
    -- the sessions are dropped (or not) on both sides
    have h1 : RelW (if leak then w else { w with db := dropAll w.db }) (if leak then v else { v with db := dropAll v.db }) := by
      cases leak
      · exact h.mapDb commutes_dropAll
      · exact h
    simp only [stepCoreW, Bool.false_eq_true, if_false, if_true]
    generalize (if leak = true then w else { w with db := dropAll w.db }) = w1 at h1
    generalize (if leak = true then v else { v with db := dropAll v.db }) = v1 at h1
    obtain ⟨k, k', e, _, _⟩ := h1.db
    have hq : EqE (openDb cfg (closeDb Defects.none w1)).db (quiesce v1.db) :=
      ⟨0, v1.db.clog.length, (open_close_E cfg w1).trans (quiesce_E e), wf_open cfg _ w1, wf_quiesce v1.db⟩
    have ht := hq.map (commutes_tick D)
    refine ⟨⟨ht, ?_, ?_, ?_, ?_, ?_, ?_⟩, ?_⟩
    · simp only [openDb, closeDb, h1.nextRow]
    · simp only [openDb, closeDb, h1.rmeta]
    · simp only [openDb, closeDb, h1.objs]
    · simp only [openDb, closeDb, h1.lastObject]
    · simp only [openDb, closeDb, h1.hdr]
    · simp only [openDb, closeDb, h1.hdr]
    · simp only [openDb, closeDb, h1.hdr]

theorem stepW_rel (D : Db.Defects) {w v : WState} (h : RelW w v) (op : WOp) :
    RelW (stepW D Defects.none false w op).1 (stepW D Defects.none true v op).1 ∧
    (stepW D Defects.none false w op).2 = (stepW D Defects.none true v op).2 := by
  obtain ⟨a1, a2⟩ := stepCoreW_rel D h op
  simp only [stepW]
  exact ⟨a1.mapDb commutes_clock, a2⟩

theorem runFromW_rel (D : Db.Defects) : ∀ (ops : List WOp) (w v : WState) (acc : List WOut), RelW w v →
    (runFromW D Defects.none false w ops acc).2 = (runFromW D Defects.none true v ops acc).2 ∧
    RelW (runFromW D Defects.none false w ops acc).1 (runFromW D Defects.none true v ops acc).1
  | [], _, _, _, h => ⟨rfl, h⟩
  | op :: ops, w, v, acc, h => by
    obtain ⟨a1, a2⟩ := stepW_rel D h op
    simp only [runFromW]
    rw [a2]
    exact runFromW_rel D ops _ _ _ a1

theorem wf_init (cat : Catalog) : Wf 0 (Db.State.init cat) :=
  ⟨Nat.zero_le _, fun _ _ _ _ => Nat.zero_le _, fun s tid hl => by simp [State.init, lookup] at hl,
    fun s1 s2 tid hl => by simp [State.init, lookup] at hl⟩

theorem RelW.refl_of_wf {w : WState} {k : Nat} (h : Wf k w.db) : RelW w w :=
  ⟨⟨k, k, rfl, h, h⟩, rfl, rfl, rfl, rfl, rfl, rfl⟩

/-! ### well-formedness along runs of the wrapper machine -/

/-- the state of the MVCC machine inside a wrapper state is well-formed for some cut point of the commit log -/
def WfW (w : WState) : Prop := ∃ k, Wf k w.db

theorem stepCoreW_wf (D : Db.Defects) (R : Defects) (ideal : Bool) {w : WState} (h : WfW w) (op : WOp) :
    WfW (stepCoreW D R ideal w op).1 := by
  obtain ⟨k, hk⟩ := h
  cases op with
  | db op =>
    simp only [stepCoreW]
    split
    · exact ⟨k, hk⟩
    · exact ⟨k, stepCore_wf D hk op⟩
  | create ts =>
    simp only [stepCoreW]
    split
    · exact ⟨k, (commutes_fail D).wf k _ hk⟩
    · exact ⟨k, ((commutes_fields (fun c => c ++ [ts]) id id).comp (commutes_tick D)).wf k _ hk⟩
  | dropTable t =>
    simp only [stepCoreW]
    split
    · exact ⟨k, ((commutes_fields (fun c => c.filter (fun ts => ts.name != t))
          (fun r => r.filter (fun r => r.table != t))
          (fun ix => ix.filter (fun e => e.table != t))).comp (commutes_tick D)).wf k _ hk⟩
    · exact ⟨k, (commutes_fail D).wf k _ hk⟩
  | vacuum => exact ⟨k, (commutes_vacuum.comp (commutes_tick D)).wf k _ hk⟩
  | tid => exact ⟨k, (commutes_tick D).wf k _ hk⟩
  | burn n => exact ⟨k, (commutes_burn D n).wf k _ hk⟩
  | obs t =>
    simp only [stepCoreW]
    split
    · exact ⟨k, (commutes_tick D).wf k _ hk⟩
    · exact ⟨k, (commutes_fail D).wf k _ hk⟩
  | reopen leak cfg =>
    simp only [stepCoreW]
    cases ideal
    · simp only [Bool.false_eq_true, if_false]
      exact ⟨0, (commutes_tick D).wf 0 _ (wf_open cfg R _)⟩
    · simp only [if_true]
      exact ⟨_, (commutes_tick D).wf _ _ (wf_quiesce _)⟩

theorem stepW_wf (D : Db.Defects) (R : Defects) (ideal : Bool) {w : WState} (h : WfW w) (op : WOp) :
    WfW (stepW D R ideal w op).1 := by
  obtain ⟨k, hk⟩ := stepCoreW_wf D R ideal h op
  exact ⟨k, commutes_clock.wf k _ hk⟩

/-- an invariant of single steps is an invariant of runs -/
theorem runFromW_inv (D : Db.Defects) (R : Defects) (ideal : Bool) (P : WState → Prop)
    (hstep : ∀ w op, P w → P (stepW D R ideal w op).1) :
    ∀ (ops : List WOp) (w : WState) (acc : List WOut), P w → P (runFromW D R ideal w ops acc).1
  | [], _, _, h => h
  | op :: ops, w, acc, h => by
    simp only [runFromW]
    exact runFromW_inv D R ideal P hstep ops _ _ (hstep w op h)

theorem wfW_init (cfg : Config) : WfW (WState.init cfg) := ⟨0, wf_init []⟩

/-! ### transaction ids are handed out upwards; a finished transaction keeps its status -/

structure Grows (σ σ' : Db.State) : Prop where
  len : σ.txns.length ≤ σ'.txns.length
  dead : ∀ (i : Nat) (t : Txn), σ.txns[i]? = some t → t.status ≠ .active → ∃ t', σ'.txns[i]? = some t' ∧ t'.status = t.status

theorem Grows.refl (σ : Db.State) : Grows σ σ := ⟨Nat.le_refl _, fun _ t h _ => ⟨t, h, rfl⟩⟩

theorem Grows.trans {σ σ' σ'' : Db.State} (h1 : Grows σ σ') (h2 : Grows σ' σ'') : Grows σ σ'' := by
  refine ⟨Nat.le_trans h1.len h2.len, ?_⟩
  intro i t ht hd
  obtain ⟨t', ht', e⟩ := h1.dead i t ht hd
  obtain ⟨t'', ht'', e'⟩ := h2.dead i t' ht' (by rw [e]; exact hd)
  exact ⟨t'', ht'', e'.trans e⟩

theorem Same.length {σ σ' : Db.State} (h : Same σ σ') : σ'.txns.length = σ.txns.length := by
  apply Nat.le_antisymm
  · apply Nat.le_of_not_lt
    intro hlt
    have : ∃ t', σ'.txns[σ.txns.length]? = some t' := ⟨_, List.getElem?_eq_getElem hlt⟩
    obtain ⟨t', ht'⟩ := this
    obtain ⟨t, ht, _⟩ := h.bwd _ t' ht'
    exact Nat.lt_irrefl _ (getElem?_lt' ht)
  · apply Nat.le_of_not_lt
    intro hlt
    have : ∃ t, σ.txns[σ'.txns.length]? = some t := ⟨_, List.getElem?_eq_getElem hlt⟩
    obtain ⟨t, ht⟩ := this
    obtain ⟨t', ht', _⟩ := h.fwd _ t ht
    exact Nat.lt_irrefl _ (getElem?_lt' ht')

theorem Same.grows {σ σ' : Db.State} (h : Same σ σ') : Grows σ σ' :=
  ⟨Nat.le_of_eq h.length.symm, fun i t ht _ => by
    obtain ⟨t', ht', e, _⟩ := h.fwd i t ht
    exact ⟨t', ht', e⟩⟩

theorem grows_begin (D : Db.Defects) (σ : Db.State) : Grows σ (σ.beginTxn D).1 := by
  refine ⟨by simp [State.beginTxn], ?_⟩
  intro i t ht _
  exact ⟨t, by simp only [State.beginTxn]; rw [List.getElem?_append_left (getElem?_lt' ht)]; exact ht, rfl⟩

/-- only the entry of one transaction that is active (or does not exist) changes -/
theorem grows_of_ne {σ σ' : Db.State} (tid : Nat) (hlen : σ.txns.length ≤ σ'.txns.length)
    (hne : ∀ i, i ≠ tid → σ'.txns[i]? = σ.txns[i]?) (hact : ∀ t, σ.txns[tid]? = some t → t.status = .active) :
    Grows σ σ' := by
  refine ⟨hlen, ?_⟩
  intro i t ht hd
  by_cases e : i = tid
  · subst e; exact (hd (hact t ht)).elim
  · exact ⟨t, by rw [hne i e]; exact ht, rfl⟩

theorem setStatus_length (txns : List Txn) (tid : Nat) (st : Status) : (setStatus txns tid st).length = txns.length := by
  simp [setStatus]

theorem commitTxn_length (σ : Db.State) (tid : Nat) : (σ.commitTxn tid).1.txns.length = σ.txns.length := by
  simp only [State.commitTxn]
  split
  · rfl
  · split <;> simp [setStatus_length]

theorem commitC_length (D : Db.Defects) (σ : Db.State) (tid : Nat) : (σ.commitC D tid).1.txns.length = σ.txns.length := by
  simp only [State.commitC]
  split
  · split
    · simp [State.abortTxn, setStatus_length]
    · exact commitTxn_length σ tid
  · exact commitTxn_length σ tid

theorem grows_abort (σ : Db.State) (tid : Nat) (hact : ∀ t, σ.txns[tid]? = some t → t.status = .active) :
    Grows σ (σ.abortTxn tid) :=
  grows_of_ne tid (by simp [State.abortTxn, setStatus_length]) (fun i e => abortTxn_get_ne σ tid i e) hact

theorem grows_commitC (D : Db.Defects) (σ : Db.State) (tid : Nat) (hact : ∀ t, σ.txns[tid]? = some t → t.status = .active) :
    Grows σ (σ.commitC D tid).1 :=
  grows_of_ne tid (Nat.le_of_eq (commitC_length D σ tid).symm) (fun i e => commitC_get_ne D σ tid i e) hact

theorem grows_commitTxn (σ : Db.State) (tid : Nat) (hact : ∀ t, σ.txns[tid]? = some t → t.status = .active) :
    Grows σ (σ.commitTxn tid).1 :=
  grows_of_ne tid (Nat.le_of_eq (commitTxn_length σ tid).symm) (fun i e => commitTxn_get_ne σ tid i e) hact

theorem grows_sessions (σ : Db.State) (l : List (String × Nat)) : Grows σ { σ with sessions := l } :=
  ⟨Nat.le_refl _, fun _ t h _ => ⟨t, h, rfl⟩⟩

theorem sess_active {k : Nat} {σ : Db.State} (h : Wf k σ) {s : String} {tid : Nat} (hl : lookup s σ.sessions = some tid) :
    ∀ t, σ.txns[tid]? = some t → t.status = .active := by
  intro t ht
  obtain ⟨t0, ht0, hact⟩ := h.sessAct s tid hl
  rw [ht] at ht0; cases ht0; exact hact

theorem stepCore_grows (D : Db.Defects) {k : Nat} {σ : Db.State} (h : Wf k σ) (op : Op) : Grows σ (stepCore D σ op).1 := by
  cases op with
  | begin s =>
    simp only [stepCore]
    cases hl : lookup s σ.sessions with
    | none =>
      simp only
      exact (grows_begin D σ).trans (grows_sessions _ _)
    | some old =>
      simp only
      have g1 : Grows σ ((σ.abortTxn old).endSession s) := (grows_abort σ old (sess_active h hl)).trans (grows_sessions _ _)
      exact g1.trans ((grows_begin D _).trans (grows_sessions _ _))
  | commit s =>
    simp only [stepCore]
    cases hl : lookup s σ.sessions with
    | none => exact Grows.refl σ
    | some tid => exact (grows_commitC D σ tid (sess_active h hl)).trans (grows_sessions _ _)
  | rollback s =>
    simp only [stepCore]
    cases hl : lookup s σ.sessions with
    | none => exact Grows.refl σ
    | some tid => exact (grows_abort σ tid (sess_active h hl)).trans (grows_sessions _ _)
  | drop s =>
    simp only [stepCore]
    cases hl : lookup s σ.sessions with
    | none => exact Grows.refl σ
    | some tid => exact (grows_abort σ tid (sess_active h hl)).trans (grows_sessions _ _)
  | exec s st =>
    simp only [stepCore]
    cases hl : lookup s σ.sessions with
    | none => exact Grows.refl σ
    | some tid => exact (stmt_same D σ tid 0 st).grows
  | auto st =>
    simp only [stepCore]
    have hs := stmt_same D (σ.beginTxn D).1 (σ.beginTxn D).2 0 st
    have hnew := begin_new_active D σ
    generalize (σ.beginTxn D).1.stmt D (σ.beginTxn D).2 0 st = r at hs
    obtain ⟨σ2, p⟩ := r
    simp only at hs ⊢
    have hact2 : ∀ t, σ2.txns[(σ.beginTxn D).2]? = some t → t.status = .active := by
      intro t ht
      obtain ⟨t0, ht0, e, _⟩ := hs.bwd _ t ht
      rw [hnew] at ht0; cases ht0; exact e
    have g2 : Grows σ σ2 := (grows_begin D σ).trans hs.grows
    split
    · exact g2.trans (grows_abort σ2 _ hact2)
    · exact g2.trans (grows_commitC D σ2 _ hact2)
  | batch sts =>
    simp only [stepCore]
    have hs := batch_same D (σ.beginTxn D).2 sts (σ.beginTxn D).1 0
    have hnew := begin_new_active D σ
    generalize State.batch D (σ.beginTxn D).1 (σ.beginTxn D).2 0 sts = r at hs
    obtain ⟨σ2, outs, res⟩ := r
    simp only at hs ⊢
    have hact2 : ∀ t, σ2.txns[(σ.beginTxn D).2]? = some t → t.status = .active := by
      intro t ht
      obtain ⟨t0, ht0, e, _⟩ := hs.bwd _ t ht
      rw [hnew] at ht0; cases ht0; exact e
    have g2 : Grows σ σ2 := (grows_begin D σ).trans hs.grows
    cases res with
    | some e => exact g2.trans (grows_abort σ2 _ hact2)
    | none => exact g2.trans (grows_commitC D σ2 _ hact2)
  | tick =>
    simp only [stepCore]
    refine (grows_begin D σ).trans (grows_commitTxn _ _ ?_)
    intro t ht
    rw [begin_new_active D σ] at ht; cases ht; rfl
  | nop => exact Grows.refl σ

/-! ### rolled back stays rolled back, also through close and open -/

/-- `σ'` has at least the transaction ids of `σ`, and whatever is rolled back in `σ` is rolled back in `σ'` -/
def KA (σ σ' : Db.State) : Prop :=
  σ.txns.length ≤ σ'.txns.length ∧ ∀ u, statusIs σ.txns .aborted u = true → statusIs σ'.txns .aborted u = true

theorem statusIs_iff (txns : List Txn) (st : Status) (u : Nat) :
    statusIs txns st u = true ↔ ∃ t, txns[u]? = some t ∧ t.status = st := by
  simp only [statusIs]
  cases txns[u]? with
  | none => simp
  | some t => simp

theorem KA.refl (σ : Db.State) : KA σ σ := ⟨Nat.le_refl _, fun _ h => h⟩

theorem KA.trans {σ σ' σ'' : Db.State} (h1 : KA σ σ') (h2 : KA σ' σ'') : KA σ σ'' :=
  ⟨Nat.le_trans h1.1 h2.1, fun u h => h2.2 u (h1.2 u h)⟩

theorem Grows.ka {σ σ' : Db.State} (h : Grows σ σ') : KA σ σ' := by
  refine ⟨h.len, ?_⟩
  intro u hu
  obtain ⟨t, ht, hs⟩ := (statusIs_iff _ _ _).1 hu
  obtain ⟨t', ht', e⟩ := h.dead u t ht (by rw [hs]; decide)
  exact (statusIs_iff _ _ _).2 ⟨t', ht', e.trans hs⟩

theorem ka_of_txns {σ σ' : Db.State} (h : σ'.txns = σ.txns) : KA σ σ' := by
  unfold KA; rw [h]; exact ⟨Nat.le_refl _, fun _ h => h⟩

theorem ka_abort (σ : Db.State) (tid : Nat) : KA σ (σ.abortTxn tid) := by
  refine ⟨by simp [State.abortTxn, setStatus_length], ?_⟩
  intro u hu
  obtain ⟨t, ht, hs⟩ := (statusIs_iff _ _ _).1 hu
  apply (statusIs_iff _ _ _).2
  by_cases e : u = tid
  · subst e
    have hlt := getElem?_lt' ht
    have : ∃ t', (σ.abortTxn u).txns[u]? = some t' :=
      ⟨_, List.getElem?_eq_getElem (by simpa [State.abortTxn, setStatus_length] using hlt)⟩
    obtain ⟨t', ht'⟩ := this
    exact ⟨t', ht', setStatus_get_self _ _ _ _ ht'⟩
  · exact ⟨t, by rw [abortTxn_get_ne σ tid u e]; exact ht, hs⟩

theorem ka_abortList : ∀ (l : List (String × Nat)) (σ : Db.State), KA σ (abortList σ l)
  | [], σ => KA.refl σ
  | p :: l, σ => by
    simp only [abortList, List.foldl_cons]
    exact (ka_abort σ p.2).trans (ka_abortList l _)

theorem ka_dropAll (σ : Db.State) : KA σ (dropAll σ) :=
  (ka_abortList σ.sessions σ).trans (ka_of_txns rfl)

theorem ka_tick (D : Db.Defects) {k : Nat} {σ : Db.State} (h : Wf k σ) : KA σ (tickDb D σ) := by
  rw [tickDb_eq]; exact (stepCore_grows D h .tick).ka

theorem ka_fail (D : Db.Defects) (σ : Db.State) : KA σ (failDb D σ) :=
  (grows_begin D σ).ka.trans (ka_abort _ _)

theorem ka_burn (D : Db.Defects) : ∀ (n : Nat) {k : Nat} {σ : Db.State}, Wf k σ → KA σ (burnDb D n σ)
  | 0, _, σ, _ => KA.refl σ
  | n + 1, k, σ, h => by
    simp only [burnDb]
    exact (ka_tick D h).trans (ka_burn D n ((commutes_tick D).wf k σ h))

theorem ka_quiesce (σ : Db.State) : KA σ (quiesce σ) := by
  refine ⟨by simp [quiesce_eq], ?_⟩
  intro u hu
  obtain ⟨t, ht, hs⟩ := (statusIs_iff _ _ _).1 hu
  apply (statusIs_iff _ _ _).2
  refine ⟨deact t, by simp [quiesce_eq, ht], ?_⟩
  unfold deact
  simp [hs]

/-- what `close` persists of the rolled-back set is what `open` reloads (all of it when no defect flag is on) -/
theorem ka_open_close (cfg : Config) (w : WState) : KA w.db (openDb cfg (closeDb Defects.none w)).db := by
  refine ⟨by simp [openDb, closeDb], ?_⟩
  intro u hu
  obtain ⟨t, ht, hs⟩ := (statusIs_iff _ _ _).1 hu
  apply (statusIs_iff _ _ _).2
  have hlt := getElem?_lt' ht
  have hmem : u ∈ idsWith Status.aborted w.db.txns 0 := (mem_idsWith0' _ _ _).2 ⟨t, ht, hs⟩
  refine ⟨reloadTxn (closeDb Defects.none w).aborted u, by simp [openDb, closeDb, hlt], ?_⟩
  simp [reloadTxn, closeDb, Defects.none, hmem]

theorem ka_fields_tick (D : Db.Defects) {k : Nat} {σ : Db.State} (h : Wf k σ) (c : Catalog) (r : List Row) (ix : Index) :
    KA σ (tickDb D { σ with cat := c, rows := r, index := ix }) :=
  (ka_of_txns (σ := σ) (σ' := { σ with cat := c, rows := r, index := ix }) rfl).trans
    (ka_tick D (k := k) (σ := { σ with cat := c, rows := r, index := ix }) ⟨h.kle, h.act, h.sessAct, h.sessInj⟩)

theorem stepCoreW_ka (D : Db.Defects) (ideal : Bool) {w : WState} (h : WfW w) (op : WOp) :
    KA w.db (stepCoreW D Defects.none ideal w op).1.db := by
  obtain ⟨k, hk⟩ := h
  cases op with
  | db op =>
    simp only [stepCoreW, Defects.none, Bool.false_and, Bool.false_eq_true, if_false]
    exact (stepCore_grows D hk op).ka
  | create ts =>
    simp only [stepCoreW]
    split
    · exact ka_fail D _
    · exact ka_fields_tick D hk _ _ _
  | dropTable t =>
    simp only [stepCoreW]
    split
    · exact ka_fields_tick D hk _ _ _
    · exact ka_fail D _
  | vacuum =>
    exact ka_fields_tick D hk w.db.cat (vacuumRows w.db.txns w.db.rows) w.db.index
  | tid => exact ka_tick D hk
  | burn n => exact ka_burn D n hk
  | obs t =>
    simp only [stepCoreW]
    split
    · exact ka_tick D hk
    · exact ka_fail D _
  | reopen leak cfg =>
    simp only [stepCoreW]
    have h1 : KA w.db (if leak then w else { w with db := dropAll w.db }).db := by
      cases leak
      · exact ka_dropAll w.db
      · exact KA.refl _
    generalize (if leak = true then w else { w with db := dropAll w.db }) = w1 at h1
    cases ideal
    · simp only [Bool.false_eq_true, if_false]
      exact h1.trans ((ka_open_close cfg w1).trans (ka_tick D (wf_open cfg _ w1)))
    · simp only [if_true]
      exact h1.trans ((ka_quiesce w1.db).trans (ka_tick D (wf_quiesce w1.db)))

theorem stepW_ka (D : Db.Defects) (ideal : Bool) {w : WState} (h : WfW w) (op : WOp) :
    KA w.db (stepW D Defects.none ideal w op).1.db :=
  (stepCoreW_ka D ideal h op).trans (ka_of_txns rfl)

theorem runFromW_ka (D : Db.Defects) (ideal : Bool) : ∀ (ops : List WOp) (w : WState) (acc : List WOut), WfW w →
    KA w.db (runFromW D Defects.none ideal w ops acc).1.db
  | [], w, _, _ => KA.refl _
  | op :: ops, w, acc, h => by
    simp only [runFromW]
    exact (stepW_ka D ideal h op).trans (runFromW_ka D ideal ops _ _ (stepW_wf D _ ideal h op))

/-- a snapshot taken now does not see a transaction that is rolled back -/
theorem fresh_not_sees_aborted (D : Db.Defects) (σ : Db.State) (u : Nat) (h : statusIs σ.txns .aborted u = true) :
    (σ.freshSnap D).sees u = false := by
  obtain ⟨t, ht, hs⟩ := (statusIs_iff _ _ _).1 h
  have hlt := getElem?_lt' ht
  have hmem : u ∈ idsWith Status.aborted σ.txns 0 := (mem_idsWith0' _ _ _).2 ⟨t, ht, hs⟩
  have hne : (u == σ.txns.length) = false := by simpa using Nat.ne_of_lt hlt
  simp [State.freshSnap, Snapshot.sees, Snapshot.cb, hmem, hne]

/-! ### ids in use lie below the counters -/

structure IdInv (w : WState) : Prop where
  /-- every row id handed out for a table is below the table's `next_row_id` -/
  rows : ∀ m ∈ w.rmeta, ∃ n, lookup m.table w.nextRow = some n ∧ m.rowId < n
  /-- every object id handed out to a table is below `last_stored_object` -/
  objs : ∀ p ∈ w.objs, p.2 < w.lastObject

theorem lookup_bump (s t : String) : ∀ (l : List (String × Nat)),
    lookup s (bump t l) = if s = t then (lookup s l).map (· + 1) else lookup s l
  | [] => by simp [bump, lookup]
  | (k, n) :: rest => by
    simp only [bump]
    by_cases e : k = t
    · subst e
      simp only [beq_self_eq_true, if_true, lookup]
      by_cases e2 : s = k
      · subst e2; simp
      · have : (k == s) = false := by simpa using fun h => e2 h.symm
        simp [this, e2]
    · have hb : (k == t) = false := by simpa using e
      simp only [hb, Bool.false_eq_true, if_false, lookup]
      rw [lookup_bump s t rest]
      by_cases e2 : s = t
      · subst e2
        have : (k == s) = false := by simpa using e
        simp [this]
      · by_cases e3 : k = s
        · subst e3; simp [e2]
        · have : (k == s) = false := by simpa using e3
          simp [this, e2]

theorem assign_inv : ∀ (rows : List Row) (nr : List (String × Nat)) (m : List RowMeta),
    (∀ x ∈ m, ∃ n, lookup x.table nr = some n ∧ x.rowId < n) →
    ∀ x ∈ (assign nr m rows).2, ∃ n, lookup x.table (assign nr m rows).1 = some n ∧ x.rowId < n
  | [], _, _, h => h
  | r :: rs, nr, m, h => by
    simp only [assign]
    cases hl : lookup r.table nr with
    | none => exact assign_inv rs nr m h
    | some n =>
      simp only
      apply assign_inv rs
      intro x hx
      rcases List.mem_append.1 hx with hx | hx
      · obtain ⟨n', h1, h2⟩ := h x hx
        rw [lookup_bump]
        by_cases e : x.table = r.table
        · simp only [e, if_true]
          rw [e] at h1
          rw [h1]
          exact ⟨n' + 1, rfl, by omega⟩
        · simp only [e, if_false]
          exact ⟨n', h1, h2⟩
      · simp only [List.mem_singleton] at hx
        subst hx
        rw [lookup_bump]
        simp only [if_true, hl]
        exact ⟨n + 1, rfl, Nat.lt_succ_self n⟩

theorem lookup_append_some (s : String) (n : Nat) : ∀ (l l' : List (String × Nat)), lookup s l = some n →
    lookup s (l ++ l') = some n
  | [], _, h => by simp [lookup] at h
  | (k, v) :: rest, l', h => by
    simp only [List.cons_append, lookup] at h ⊢
    by_cases e : (k == s) = true
    · simpa [e] using h
    · simp only [e, Bool.false_eq_true, if_false] at h ⊢
      exact lookup_append_some s n rest l' h

theorem mem_erase_of (t : String) : ∀ (l : List (String × Nat)) (p : String × Nat), p ∈ erase t l → p ∈ l
  | [], _, h => by simp [erase] at h
  | (k, v) :: rest, p, h => by
    simp only [erase] at h
    by_cases e : (k == t) = true
    · simp only [e, if_true] at h
      exact List.mem_cons_of_mem _ (mem_erase_of t rest p h)
    · simp only [e, Bool.false_eq_true, if_false, List.mem_cons] at h
      rcases h with h | h
      · exact h ▸ List.mem_cons_self
      · exact List.mem_cons_of_mem _ (mem_erase_of t rest p h)

theorem stepCoreW_idInv (D : Db.Defects) (R : Defects) (ideal : Bool) {w : WState} (h : IdInv w) (op : WOp) :
    IdInv (stepCoreW D R ideal w op).1 := by
  cases op with
  | db op =>
    simp only [stepCoreW]
    split
    · exact h
    · exact ⟨assign_inv _ _ _ h.rows, h.objs⟩
  | create ts =>
    simp only [stepCoreW]
    split
    · exact ⟨h.rows, h.objs⟩
    · refine ⟨?_, ?_⟩
      · intro m hm
        obtain ⟨n, h1, h2⟩ := h.rows m hm
        exact ⟨n, lookup_append_some _ _ _ _ h1, h2⟩
      · intro p hp
        simp only [objectsOf]
        rcases List.mem_append.1 hp with hp | hp
        · have := h.objs p hp; omega
        · simp only [List.mem_singleton] at hp
          subst hp; simp only; omega
  | dropTable t =>
    simp only [stepCoreW]
    split
    · refine ⟨?_, fun p hp => h.objs p (mem_erase_of t _ p hp)⟩
      intro m hm
      simp only [List.mem_filter, bne_iff_ne, ne_eq] at hm
      obtain ⟨n, h1, h2⟩ := h.rows m hm.1
      refine ⟨n, ?_, h2⟩
      rw [lookup_erase']
      simp [hm.2, h1]
    · exact ⟨h.rows, h.objs⟩
  | vacuum => exact ⟨h.rows, h.objs⟩
  | tid => exact ⟨h.rows, h.objs⟩
  | burn n => exact ⟨h.rows, h.objs⟩
  | obs t =>
    simp only [stepCoreW]
    split <;> exact ⟨h.rows, h.objs⟩
  | reopen leak cfg =>
    simp only [stepCoreW]
    cases leak <;> cases ideal <;> exact ⟨h.rows, h.objs⟩

theorem stepW_idInv (D : Db.Defects) (R : Defects) (ideal : Bool) {w : WState} (h : IdInv w) (op : WOp) :
    IdInv (stepW D R ideal w op).1 := by
  have := stepCoreW_idInv D R ideal h op
  exact ⟨this.rows, this.objs⟩

theorem idInv_init (cfg : Config) : IdInv (WState.init cfg) :=
  ⟨fun m hm => by simp [WState.init] at hm, fun p hp => by simp [WState.init] at hp⟩

/-! ### the configuration passed to `open` -/

/-- the same operation with another configuration handed to `open` -/
def WOp.setCfg (f : Config → Config) : WOp → WOp
  | .reopen leak cfg => .reopen leak (f cfg)
  | op => op

/-- equal except for the in-memory settings -/
def EnvEq (w w' : WState) : Prop := { w with env := w'.env } = w'

theorem stepW_envEq (D : Db.Defects) (R : Defects) (ideal : Bool) (f : Config → Config) {w w' : WState} (h : EnvEq w w')
    (op : WOp) :
    EnvEq (stepW D R ideal w op).1 (stepW D R ideal w' (op.setCfg f)).1 ∧
    (stepW D R ideal w op).2 = (stepW D R ideal w' (op.setCfg f)).2 := by
  obtain ⟨db, nr, rm, ob, lo, hd, env⟩ := w
  obtain ⟨db', nr', rm', ob', lo', hd', env'⟩ := w'
  simp only [EnvEq, WState.mk.injEq, and_true] at h
  obtain ⟨rfl, rfl, rfl, rfl, rfl, rfl⟩ := h
  cases op with
  | db op =>
    simp only [stepW, stepCoreW, WOp.setCfg, EnvEq]
    split <;> simp
  | create ts =>
    simp only [stepW, stepCoreW, WOp.setCfg, EnvEq]
    split <;> simp
  | dropTable t =>
    simp only [stepW, stepCoreW, WOp.setCfg, EnvEq]
    split <;> simp
  | vacuum => simp [stepW, stepCoreW, WOp.setCfg, EnvEq]
  | tid => simp [stepW, stepCoreW, WOp.setCfg, EnvEq]
  | burn n => simp [stepW, stepCoreW, WOp.setCfg, EnvEq]
  | obs t =>
    simp only [stepW, stepCoreW, WOp.setCfg, EnvEq]
    split <;> simp
  | reopen leak cfg =>
    cases leak <;> cases ideal <;> simp [stepW, stepCoreW, WOp.setCfg, EnvEq, openDb, closeDb]

theorem runFromW_envEq (D : Db.Defects) (R : Defects) (ideal : Bool) (f : Config → Config) :
    ∀ (ops : List WOp) (w w' : WState) (acc : List WOut), EnvEq w w' →
    (runFromW D R ideal w ops acc).2 = (runFromW D R ideal w' (ops.map (WOp.setCfg f)) acc).2
  | [], _, _, _, _ => rfl
  | op :: ops, w, w', acc, h => by
    obtain ⟨a1, a2⟩ := stepW_envEq D R ideal f h op
    simp only [runFromW, List.map_cons]
    rw [a2]
    exact runFromW_envEq D R ideal f ops _ _ _ a1

end AxVerif.Reopen
