import AxVerif.Model.Reopen
