/- Line-protocol driver for the tuple model (engine `tuple`); the case syntax is described in harness/src/engines/tuple.rs. -/
import AxVerif.Model.Tuple
import AxVerif.Generated.Tuple
namespace AxVerif.Tuple
open AxVerif

def P0 : Params := Generated.tupleParams

def kindOfChar : Char → Option Kind
  | 'b' => some .bool | 'i' => some .int | 'I' => some .bigint | 'u' => some .uint | 'U' => some .biguint
  | 'f' => some .float | 'd' => some .double | 't' => some .blob
  | _ => none

def allSome {α : Type} : List (Option α) → Option (List α)
  | [] => some []
  | none :: _ => none
  | some x :: xs => match allSome xs with
    | some r => some (x :: r)
    | none => none

/-- `n` → NULL, `x<hex>` → payload of the column's kind -/
def parseVal (k : Kind) (w : String) : Option Cell :=
  if w = "n" then some none
  else match w.toList with
    | 'x' :: h =>
      match (if h.isEmpty then some [] else bytesOfHexChars h) with
      | none => none
      | some b =>
        match k with
        | .blob => some (some b)
        | .bool => if b = [0] ∨ b = [1] then some (some b) else none
        | k => if b.length = P0.size k then some (some b) else none
    | _ => none

def showCell : Cell → String
  | none => "n"
  | some b => "x" ++ hexOfBytes b

def showRow (r : Row) : String :=
  "row " ++ joinWith "," ((r.keys.map some ++ r.vals).map showCell)

def parseNat (w : String) : Option Nat :=
  if w.isEmpty ∨ w.length > 20 ∨ !(w.toList.all Char.isDigit) then none
  else match w.toNat? with
    | some n => if n < 2 ^ 64 then some n else none
    | none => none

def parseIds (w : String) : Option (List Nat) :=
  if w = "-" then some [] else allSome ((w.splitOn ",").map parseNat)

def parseSnapshot : List String → Option Snapshot
  | [a, b, c, d, e] =>
    match parseNat a, parseNat b, (if c = "-" then some none else (parseNat c).map some), parseIds d, parseIds e with
    | some xid, some xmin, some xmax, some act, some ab =>
      some { xid := xid, xmin := xmin, xmax := xmax, active := act, aborted := ab }
    | _, _, _, _, _ => none
  | _ => none

inductive Op
  | build (sch : Schema) (x0 : Nat) (cells : List Cell)
  | update (xid : Nat) (mods : List (Nat × String)) (stamped : Bool)
  | stamp (xid : Nat)
  | delete (xid : Nat)
  | vacuum (h : Nat)
  | pad
  | last
  | read (s : Snapshot)
  | committed (s : Snapshot) (ids : List Nat)
  | tupleVisible (s : Snapshot) (tmin : Nat) (tmax : Option Nat)

def parseMods : List String → Option (List (Nat × String))
  | [] => some []
  | m :: rest =>
    match m.splitOn "=" with
    | [i, v] =>
      match parseNat i, parseMods rest with
      | some i, some r => if i > 255 ∨ r.any (·.1 = i) then none else some ((i, v) :: r)
      | _, _ => none
    | _ => none

def parseOp (s : String) : Option Op :=
  match (s.splitOn " ").filter (· ≠ "") with
  | ["b", nk, types, x0, row] =>
    match parseNat nk, allSome (types.toList.map kindOfChar), parseNat x0 with
    | some nk, some kinds, some x0 =>
      if nk = 0 ∨ nk > kinds.length ∨ kinds.length > 255 then none
      else
        let cells := row.splitOn ","
        if cells.length ≠ kinds.length then none
        else match allSome (List.zipWith parseVal kinds cells) with
          | some vs => some (.build { keys := kinds.take nk, vals := kinds.drop nk } x0 vs)
          | none => none
    | _, _, _ => none
  | ["u", xid, mods] =>
    match parseNat xid, (if mods = "-" then some [] else parseMods (mods.splitOn ",")) with
    | some xid, some m => some (.update xid m false)
    | _, _ => none
  | ["U", xid, mods] =>
    match parseNat xid, (if mods = "-" then some [] else parseMods (mods.splitOn ",")) with
    | some xid, some m => some (.update xid m true)
    | _, _ => none
  | ["x", xid] => (parseNat xid).map .stamp
  | ["d", xid] => (parseNat xid).map .delete
  | ["v", h] => (parseNat h).map .vacuum
  | ["p"] => some .pad
  | ["l"] => some .last
  | "r" :: rest => (parseSnapshot rest).map .read
  | ["c", a, b, c, d, e, ids] =>
    match parseSnapshot [a, b, c, d, e], parseIds ids with
    | some s, some ids => if ids.isEmpty then none else some (.committed s ids)
    | _, _ => none
  | ["i", a, b, c, d, e, tmin, tmax] =>
    match parseSnapshot [a, b, c, d, e], parseNat tmin, (if tmax = "-" then some none else (parseNat tmax).map some) with
    | some s, some tmin, some tmax => some (.tupleVisible s tmin tmax)
    | _, _, _ => none
  | _ => none

def showFail : Fail → String
  | .err => "err"
  | .panic => "panic"

/-- `ok <len> <xmin> <xmax|-> <version> #<bytes>`; the `#…` word is moved behind ` ## ` (non-gating) by `splitDiag` -/
def showState (d : Bytes) : String :=
  match readHeader P0 d with
  | .ok h =>
    let xm := match h.xmax with | some x => toString x | none => "-"
    s!"ok {d.length} {h.xmin} {xm} {h.version} #{hexOfBytes d}"
  | .error _ => s!"ok {d.length} ? ? ? #{hexOfBytes d}"

structure St where
  sch : Schema
  tuple : Option Bytes
  /-- the logical row the operations so far denote (tracked only for the specification, i.e. with no defect flag):
      used for the non-gating self-check `#L:ok` / `#L:DIFF` of the refinement and chain theorems on every case -/
  lrow : Option LRow := none

def noDefects (D : Defects) : Bool := D == {}

/-- `#L:ok` if the bytes are the encoding of the logical row -/
def chkEnc (D : Defects) (sch : Schema) (d : Bytes) (L : Option LRow) : String :=
  match noDefects D, L with
  | true, some L => if encode P0 sch L == d then " #L:ok" else " #L:DIFF"
  | _, _ => ""

def chkRead (D : Defects) (s : Snapshot) (r : Option Row) (L : Option LRow) : String :=
  match noDefects D, L with
  | true, some L => if specVisible D s L == r then " #L:ok" else " #L:DIFF"
  | _, _ => ""

/-- typed values of an update; `none` = malformed line -/
def typedMods (sch : Schema) : List (Nat × String) → Option Mods
  | [] => some []
  | (i, v) :: rest =>
    match typedMods sch rest with
    | none => none
    | some r =>
      match sch.vals[i]? with
      | none => if v = "n" then some ((i, none) :: r) else none
      | some k => match parseVal k v with
        | some c => some ((i, c) :: r)
        | none => none

def runOps (D : Defects) : List Op → Option St → List String → Option (List String)
  | [], _, acc => some acc.reverse
  | .build sch x0 cells :: rest, _, acc =>
    let keys := cells.take sch.keys.length
    let vals := cells.drop sch.keys.length
    match allSome keys with
    | none => runOps D rest (some { sch := sch, tuple := none }) ("err" :: acc)       -- NULL key: `validate` refuses
    | some ks =>
      match build D P0 sch { keys := ks, vals := vals } x0 with
      | .ok d =>
        let L := some (LRow.insert ks vals x0)
        runOps D rest (some { sch := sch, tuple := some d, lrow := L }) ((showState d ++ chkEnc D sch d L) :: acc)
      | .error e => runOps D rest (some { sch := sch, tuple := none }) (showFail e :: acc)
  | .committed s ids :: rest, st, acc =>
    runOps D rest st (("cb " ++ String.join (ids.map (fun i => if committedBefore D s i then "1" else "0"))) :: acc)
  | .tupleVisible s tmin tmax :: rest, st, acc =>
    runOps D rest st ((if isTupleVisible D s tmin tmax then "vis 1" else "vis 0") :: acc)
  | op :: rest, st, acc =>
    match st with
    | none => runOps D rest st ("nostate" :: acc)
    | some { sch := _, tuple := none, lrow := _ } => runOps D rest st ("nostate" :: acc)
    | some { sch := sch, tuple := some d, lrow := lr } =>
      match op with
      | .update xid mods stamped =>
        match typedMods sch mods with
        | none => none
        | some m =>
          match addVersion D P0 sch d m xid with
          | .ok d1 =>
            -- `U`: the new version is stamped with its creator (what the update is meant to do)
            let d' := if stamped && !m.isEmpty then (match stamp P0 d1 xid with | .ok d2 => d2 | .error _ => d1) else d1
            let L := lr.map (·.update xid m)
            runOps D rest (some { sch := sch, tuple := some d', lrow := L }) ((showState d' ++ chkEnc D sch d' L) :: acc)
          | .error e => runOps D rest st (showFail e :: acc)
      | .stamp xid =>
        match stamp P0 d xid with
        | .ok d' =>
          let L := lr.map (fun L => { L with cur := { L.cur with creator := xid } })
          runOps D rest (some { sch := sch, tuple := some d', lrow := L }) ((showState d' ++ chkEnc D sch d' L) :: acc)
        | .error e => runOps D rest st (showFail e :: acc)
      | .delete xid =>
        match delete P0 d xid with
        | .ok d' =>
          let L := lr.map (·.delete xid)
          runOps D rest (some { sch := sch, tuple := some d', lrow := L }) ((showState d' ++ chkEnc D sch d' L) :: acc)
        | .error e => runOps D rest st (showFail e :: acc)
      | .vacuum h =>
        match vacuumWith D P0 sch d h with
        | .ok (freed, d') =>
          let L := lr.map (·.vacuum h)
          runOps D rest (some { sch := sch, tuple := some d', lrow := L }) ((s!"freed {freed} {showState d'}" ++ chkEnc D sch d' L) :: acc)
        | .error e => runOps D rest st (showFail e :: acc)
      | .pad =>
        let d' := padded P0 d
        runOps D rest (some { sch := sch, tuple := some d' }) (showState d' :: acc)
      | .last =>
        match decodeLast P0 sch d with
        | .ok r => runOps D rest st (showRow r :: acc)
        | .error e => runOps D rest st (showFail e :: acc)
      | .read s =>
        match decodeFor D P0 sch s d with
        | .ok (some r) => runOps D rest st ((showRow r ++ chkRead D s (some r) lr) :: acc)
        | .ok none => runOps D rest st (("none" ++ chkRead D s none lr) :: acc)
        | .error e => runOps D rest st (showFail e :: acc)
      | _ => none

def parseDefects (flags : List String) : Defects :=
  { updateKeepsInserterXmin := flags.contains "updateKeepsInserterXmin",
    xmaxNoneSeesAll := flags.contains "xmaxNoneSeesAll",
    ownDeleteWalksDeltas := flags.contains "ownDeleteWalksDeltas",
    walkIgnoresOwnVersions := flags.contains "walkIgnoresOwnVersions",
    vacuumDropsHorizonVersion := flags.contains "vacuumDropsHorizonVersion",
    deltasCopiedUnaligned := flags.contains "deltasCopiedUnaligned",
    versionOverflowPanics := flags.contains "versionOverflowPanics",
    boolWriteNeedsLastByte := flags.contains "boolWriteNeedsLastByte",
    paddedWalkPanics := flags.contains "paddedWalkPanics" }

def step (D : Defects) (line : String) : String :=
  let l := line.trimAscii.toString
  if !l.startsWith "t " then "bad-op"
  else
    match allSome (((l.drop 2).toString.splitOn " ; ").map parseOp) with
    | none => "bad-op"
    | some ops =>
      match runOps D ops none [] with
      | none => "bad-op"
      | some outs =>
        let ws := outs.map (fun o => (o.splitOn " ").partition (fun w => !w.startsWith "#"))
        joinWith " | " (ws.map (fun w => joinWith " " w.1)) ++ " ## " ++ joinWith " " (ws.map (fun w => joinWith " " w.2))

end AxVerif.Tuple

namespace AxVerif.Drivers
def tuple (flags : List String) (line : String) : String := AxVerif.Tuple.step (AxVerif.Tuple.parseDefects flags) line
end AxVerif.Drivers
