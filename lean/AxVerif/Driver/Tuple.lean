/- Line-protocol driver for engine `tuple` — not built yet (stub). -/
namespace AxVerif.Drivers

def tuple (_flags : List String) (_line : String) : String := "unimplemented"

end AxVerif.Drivers
