/- Line-protocol driver for engine `reopen` — not built yet (stub). -/
namespace AxVerif.Drivers

def reopen (_flags : List String) (_line : String) : String := "unimplemented"

end AxVerif.Drivers
