/-
  Line-protocol driver for engine `reopen` (C09).

  Case:   reopen <page_size> <cache> <pool> <min_keys> <siblings> | <op> ; <op> ; …       (creation-time configuration)
  op:     create <name>(<col>:<type>[!][*],…)        CREATE TABLE; types big|int|text, `!` NOT NULL, `*` UNIQUE
          droptable <name>                            DROP TABLE
          vacuum                                      Database::vacuum
          tid                                         an empty committed transaction; prints its id
          burn <n>                                    n empty committed transactions
          reopen drop|flush|leak <page_size> <cache> <pool> <min_keys> <siblings>
                                                      close (drop(db) | flush()+drop | drop(db) with the sessions left open and
                                                      never finished) and Database::open with this configuration
          s<i> begin|commit|rollback|drop, s<i> <stmt>, db <stmt>, db batch <stmt> & …      as engine `hist`
  stmt:   sel|ins|upd|del as engine `hist`; values: decimal | null | 'lowercase' | ^<unit><n> (the unit repeated n times)
  DDL is well-formed only while no session is open.  VACUUM rolls back every open transaction: the driver drops the
  open sessions (silently) before the model's `vacuum` step; the engine leaks the session objects after the call.
  Output: one token per op; `reopen{hdr=<page_size>,<min_keys>,<siblings> <t>=[<row_id>,<v>,…;…] … !<name>=notfound …}` for a
          reopen (every table that should exist with its full contents, every dropped or unknown name), then ` | ` and the
          same observation at the end of the case.  Texts longer than 40 bytes print as `~<len>:<fnv1a32>`.
  Flags:  field names of `Reopen.Defects` and `Db.Defects`; pseudo-flag `ideal` = the machine that never restarts.
-/
import AxVerif.Model.Reopen
import AxVerif.Model.Bytes
namespace AxVerif.Reopen.Drv
open AxVerif AxVerif.Db AxVerif.Reopen

def isLower (c : Char) : Bool := 'a' ≤ c && c ≤ 'z'
def isDigit (c : Char) : Bool := '0' ≤ c && c ≤ '9'

def ident (s : String) : Bool :=
  match s.toList with
  | [] => false
  | c :: cs => isLower c && cs.all (fun d => isLower d || isDigit d)

def sessName (s : String) : Bool :=
  match s.toList with
  | 's' :: d :: ds => (d :: ds).all isDigit
  | _ => false

def natOfDigits : List Char → Nat → Nat
  | [], acc => acc
  | c :: cs, acc => natOfDigits cs (acc * 10 + (c.toNat - 48))

/-- canonical decimal natural number (no sign, no leading zeros, at most 10 digits) not above `max` -/
def parseNatC (ds : List Char) (max : Nat) : Option Nat :=
  match ds with
  | [] => none
  | d :: rest =>
    if (d :: rest).all isDigit && (d != '0' || rest.isEmpty) && (d :: rest).length ≤ 10 then
      let n := natOfDigits (d :: rest) 0
      if n ≤ max then some n else none
    else none

def parseInt (s : String) : Option Int :=
  match s.toList with
  | '-' :: ds => match parseNatC ds 1000000000 with
    | some n => if n = 0 then none else some (-(Int.ofNat n))
    | none => none
  | ds => (parseNatC ds 1000000000).map Int.ofNat

def repeatChars (u : List Char) : Nat → List Char
  | 0 => []
  | n + 1 => u ++ repeatChars u n

def parseVal (s : String) : Option Val :=
  if s = "null" then some .null
  else match s.toList with
    | '^' :: rest =>
      let unit := rest.takeWhile isLower
      let num := rest.dropWhile isLower
      if unit.isEmpty then none
      else match parseNatC num 100000 with
        | some n => if n = 0 then none else some (.text (String.ofList (repeatChars unit n)))
        | none => none
    | '\'' :: rest =>
      match rest.reverse with
      | '\'' :: body => if body.all isLower then some (.text (String.ofList body.reverse)) else none
      | _ => none
    | _ => (parseInt s).map .int

def allSome : List (Option α) → Option (List α)
  | [] => some []
  | none :: _ => none
  | some x :: xs => (allSome xs).map (x :: ·)

def stripFlags : List Char → Bool → Bool → (List Char × Bool × Bool)
  | '!' :: cs, _, u => stripFlags cs true u
  | '*' :: cs, n, _ => stripFlags cs n true
  | cs, n, u => (cs, n, u)

def parseCol (s : String) : Option Col :=
  match s.splitOn ":" with
  | [cn, ty] =>
    let (tyr, nn, un) := stripFlags ty.toList.reverse false false
    let tys := String.ofList tyr.reverse
    if !ident cn then none
    else if tys = "big" then some ⟨cn, .big, nn, un⟩
    else if tys = "int" then some ⟨cn, .int, nn, un⟩
    else if tys = "text" then some ⟨cn, .text, nn, un⟩
    else none
  | _ => none

def parseTable (s : String) : Option TableSchema :=
  match s.splitOn "(" with
  | [name, rest] =>
    match rest.toList.reverse with
    | ')' :: body =>
      if !ident name then none
      else match allSome ((String.ofList body.reverse).splitOn "," |>.map parseCol) with
        | some cols => if cols.isEmpty then none else some ⟨name, cols, []⟩
        | none => none
    | _ => none
  | _ => none

def parseCmp : String → Option CmpOp
  | "eq" => some .eq | "ne" => some .ne | "lt" => some .lt | "le" => some .le | "gt" => some .gt | "ge" => some .ge
  | _ => none

def parsePred : List String → Option (Option Pred)
  | [] => some none
  | ["where", col, op, v] =>
    match parseCmp op, parseVal v with
    | some o, some x => if ident col then some (some ⟨col, o, x⟩) else none
    | _, _ => none
  | _ => none

def splitWords (sep : String) : List String → List String → List (List String) → List (List String)
  | [], cur, acc => (cur.reverse :: acc).reverse
  | w :: ws, cur, acc => if w = sep then splitWords sep ws [] (cur.reverse :: acc) else splitWords sep ws (w :: cur) acc

def parseStmt : List String → Option Stmt
  | "sel" :: t :: rest => if ident t then (parsePred rest).map (Stmt.sel t) else none
  | "del" :: t :: rest => if ident t then (parsePred rest).map (Stmt.del t) else none
  | "upd" :: t :: col :: how :: v :: rest =>
    if ident t && ident col && (how = "set" || how = "add") then
      match parseVal v, parsePred rest with
      | some x, some p => some (.upd t col (how = "add") x p)
      | _, _ => none
    else none
  | "ins" :: t :: rest =>
    if ident t && !rest.isEmpty then
      let groups := splitWords "," rest [] []
      if groups.any (·.isEmpty) then none
      else match allSome (groups.map (fun g => allSome (g.map parseVal))) with
        | some rows => some (.ins t rows)
        | none => none
    else none
  | _ => none

def pageSizeOk (n : Nat) : Bool := n = 4096 || n = 8192 || n = 16384 || n = 32768 || n = 65536

def parseCfg (ps cache pool mk sib : String) : Option Config :=
  match parseNatC ps.toList 65536, parseNatC cache.toList 1000000, parseNatC pool.toList 16, parseNatC mk.toList 8,
        parseNatC sib.toList 4 with
  | some a, some b, some c, some d, some e =>
    if pageSizeOk a && b ≥ 16 && c ≥ 1 && d ≥ 3 && e ≥ 1 then some ⟨a, b, c, d, e⟩ else none
  | _, _, _, _, _ => none

def parseOp (ws : List String) : Option WOp :=
  match ws with
  | "db" :: "batch" :: rest =>
    (allSome ((splitWords "&" rest [] []).map parseStmt)).map (fun s => WOp.db (Op.batch s))
  | "db" :: rest => (parseStmt rest).map (fun s => WOp.db (Op.auto s))
  | ["create", spec] => (parseTable spec).map WOp.create
  | ["droptable", t] => if ident t then some (.dropTable t) else none
  | ["vacuum"] => some .vacuum
  | ["tid"] => some .tid
  | ["burn", n] => match parseNatC n.toList 20000 with
    | some k => if k = 0 then none else some (.burn k)
    | none => none
  | ["reopen", how, ps, cache, pool, mk, sib] =>
    if how = "drop" || how = "flush" || how = "leak" then (parseCfg ps cache pool mk sib).map (WOp.reopen (how = "leak"))
    else none
  | [s, "begin"] => if sessName s then some (.db (.begin s)) else none
  | [s, "commit"] => if sessName s then some (.db (.commit s)) else none
  | [s, "rollback"] => if sessName s then some (.db (.rollback s)) else none
  | [s, "drop"] => if sessName s then some (.db (.drop s)) else none
  | s :: rest => if sessName s then (parseStmt rest).map (fun st => WOp.db (Op.exec s st)) else none
  | [] => none

/-- DDL only while no session is open (`reopen` and `vacuum` end every session) -/
def wellFormed : List WOp → List String → Bool
  | [], _ => true
  | op :: ops, sess =>
    match op with
    | .db (.begin s) => wellFormed ops (if sess.contains s then sess else s :: sess)
    | .db (.commit s) => wellFormed ops (sess.filter (· != s))
    | .db (.rollback s) => wellFormed ops (sess.filter (· != s))
    | .db (.drop s) => wellFormed ops (sess.filter (· != s))
    | .create _ => sess.isEmpty && wellFormed ops sess
    | .dropTable _ => sess.isEmpty && wellFormed ops sess
    | .vacuum => wellFormed ops []
    | .reopen _ _ => wellFormed ops []
    | _ => wellFormed ops sess

def parseCase (line : String) : Option (Config × List WOp) :=
  let line := line.trimAscii.toString
  if !line.startsWith "reopen " then none
  else match (line.drop 7).toString.splitOn "|" with
    | [head, ops] =>
      match words head with
      | [ps, cache, pool, mk, sib] =>
        match parseCfg ps cache pool mk sib with
        | none => none
        | some cfg =>
          let ops := ops.trimAscii.toString
          if ops.isEmpty then some (cfg, [])
          else match allSome ((ops.splitOn " ; ").map (fun o => parseOp (words o))) with
            | some os => if wellFormed os [] then some (cfg, os) else none
            | none => none
      | _ => none
    | _ => none

/-! ### rendering -/

def fnv32 (cs : List Char) : Nat :=
  cs.foldl (fun h c => ((h ^^^ c.toNat) * 16777619) % 4294967296) 2166136261

def showVal : Val → String
  | .int n => toString n
  | .null => "null"
  | .text s => if s.length > 40 then s!"~{s.length}:{fnv32 s.toList}" else "'" ++ s ++ "'"

def insertSorted (x : String) : List String → List String
  | [] => [x]
  | y :: ys => if x ≤ y then x :: y :: ys else y :: insertSorted x ys

def sortStrings (xs : List String) : List String := xs.foldr insertSorted []

def showErr : Err → String
  | .conflict => "conflict" | .constraint => "constraint" | .notfound => "notfound" | .type => "type" | .other => "other"

def showRows (rs : List (List Val)) : String :=
  "[" ++ joinWith ";" (sortStrings (rs.map (fun r => joinWith "," (r.map showVal)))) ++ "]"

def showS : SOut → String
  | .okN n => s!"ok{n}"
  | .rows rs => showRows rs
  | .err e => showErr e

def showDb : Out → String
  | .ok => "ok"
  | .stmt o => showS o
  | .refused e => showErr e
  | .noSession => "nosession"
  | .batchErr e => "batch-" ++ showErr e
  | .batch outs => "batch(" ++ joinWith " " (outs.map showS) ++ ")"
  | .none => "-"

def showObs (rows : List (Nat × List Val)) : String :=
  "[" ++ joinWith ";" (sortStrings (rows.map (fun r => joinWith "," (toString r.1 :: r.2.map showVal)))) ++ "]"

def showW : WOut → String
  | .db o => showDb o
  | .created oid => s!"ddl@{oid}"
  | .dropped => "ddl"
  | .err .exists => "exists"
  | .err .notfound => "notfound"
  | .ok => "ok"
  | .tid n => s!"tid{n}"
  | .obs rows => showObs rows
  | .reopened e => s!"hdr={e.pageSize},{e.minKeys},{e.siblings}"
  | .panic => "panic"

structure Flags where
  D : Db.Defects
  R : Defects
  ideal : Bool

def parseFlags (flags : List String) : Flags :=
  { D := { updateKeepsInserterXmin := flags.contains "updateKeepsInserterXmin",
           writeSetNeverRecorded := flags.contains "writeSetNeverRecorded",
           deleteMarkSingleSlot := flags.contains "deleteMarkSingleSlot",
           stmtNotAtomicInSession := flags.contains "stmtNotAtomicInSession",
           indexNotMaintainedOnKeyUpdate := flags.contains "indexNotMaintainedOnKeyUpdate",
           indexOneEntryPerKey := flags.contains "indexOneEntryPerKey",
           uniqueNotRecheckedAtCommit := flags.contains "uniqueNotRecheckedAtCommit",
           commitChecksInsertedKeysOnly := flags.contains "commitChecksInsertedKeysOnly" },
    R := { abortedBitmap8192 := flags.contains "abortedBitmap8192",
           openTxnAtCloseSurvives := flags.contains "openTxnAtCloseSurvives",
           versionCounterU8 := flags.contains "versionCounterU8" },
    ideal := flags.contains "ideal" }

def defectNames : List String :=
  ["abortedBitmap8192", "openTxnAtCloseSurvives", "versionCounterU8", "updateKeepsInserterXmin", "writeSetNeverRecorded",
   "deleteMarkSingleSlot", "stmtNotAtomicInSession", "indexNotMaintainedOnKeyUpdate", "indexOneEntryPerKey",
   "uniqueNotRecheckedAtCommit", "commitChecksInsertedKeysOnly"]

/-- the observation the engine makes after every open and at the end: every table that should exist, every name that
    should not; `live` / `dead` are kept as the engine keeps them (from the outcomes of the DDL operations) -/
def observe (F : Flags) (w : WState) (live dead : List String) : WState × String :=
  let (w1, parts) := (live ++ dead).foldl (fun (acc : WState × List String) t =>
    let (w', o) := stepW F.D F.R F.ideal acc.1 (.obs t)
    (w', ((if live.contains t then t else "!" ++ t) ++ "=" ++ showW o) :: acc.2)) (w, [])
  (w1, joinWith " " parts.reverse)

def runOps (F : Flags) : List WOp → WState → List String → List String → List String → WState × List String × List String × List String
  | [], w, live, dead, acc => (w, live, dead, acc.reverse)
  | op :: ops, w, live, dead, acc =>
    -- `Database::vacuum` rolls back every open transaction first (`abort_all`)
    let w := match op with
      | .vacuum => w.db.sessions.foldl (fun w' p => (stepW F.D F.R F.ideal w' (.db (.drop p.1))).1) w
      | _ => w
    let (w1, o) := stepW F.D F.R F.ideal w op
    match op, o with
    | .create ts, .created _ =>
      runOps F ops w1 (live.filter (· != ts.name) ++ [ts.name]) (dead.filter (· != ts.name)) (showW o :: acc)
    | .dropTable t, .dropped =>
      runOps F ops w1 (live.filter (· != t)) (if dead.contains t then dead else dead ++ [t]) (showW o :: acc)
    | .reopen _ _, _ =>
      let (w2, s) := observe F w1 live dead
      runOps F ops w2 live dead (("reopen{" ++ showW o ++ " " ++ s ++ "}") :: acc)
    | _, _ => runOps F ops w1 live dead (showW o :: acc)

def runWith (F : Flags) (cfg : Config) (ops : List WOp) : String :=
  let (w, live, dead, outs) := runOps F ops (WState.init cfg) [] ["zzneverzz"] []
  let (_, fin) := observe F w live dead
  s!"{joinWith " " outs} | {fin}"

def runLine (flags : List String) (line : String) : String :=
  match parseCase line with
  | none => "bad-op"
  | some (cfg, ops) =>
    let go (fl : List String) : String := runWith (parseFlags fl) cfg ops
    let out := go flags
    let fired := (flags.filter defectNames.contains).filter (fun f => go (flags.filter (· != f)) != out)
    if fired.isEmpty then out else out ++ " ## fired=" ++ joinWith "," fired

end AxVerif.Reopen.Drv

namespace AxVerif.Drivers

def reopen (flags : List String) (line : String) : String := AxVerif.Reopen.Drv.runLine flags line

end AxVerif.Drivers
