/- Line-protocol driver for the wire model (engine `wire`). -/
import AxVerif.Model.Wire
import AxVerif.Generated.Wire
namespace AxVerif.Wire
open AxVerif

def P : Params := Generated.wireParams

def errName : WireErr → String
  | .invalidMessage => "invalid"
  | .versionMismatch => "version"
  | .unknownCommand => "unknowncmd"
  | .unknownStatus => "unknownstatus"
  | .tooLarge => "toolarge"
  | .io => "io"

def showReq : Request → String
  | .create p => s!"create {hexOrDash p}"
  | .open_ p => s!"open {hexOrDash p}"
  | .sql p => s!"sql {hexOrDash p}"
  | .explain p => s!"explain {hexOrDash p}"
  | .analyze r m => s!"analyze {r.toNat} {m.toNat}"
  | .begin_ => "begin" | .rollback => "rollback" | .commit => "commit"
  | .vacuum => "vacuum" | .close => "close" | .ping => "ping" | .shutdown => "shutdown"

def showResp : Response → String
  | .ok m => s!"ok {hexOrDash m}"
  | .error m => s!"error {hexOrDash m}"
  | .rows cols data =>
    let cells := cols ++ data.flatten
    let body := joinWith " " (cells.map hexOrDash)
    let shape := joinWith "," (data.map (fun r => toString r.length))
    s!"rows {cols.length} {data.length} [{shape}] {body}".trimAscii.toString
  | .sessionStarted => "started" | .sessionEnd => "end"
  | .rowsAffected n => s!"affected {n.toNat}"
  | .ddl m => s!"ddl {hexOrDash m}"
  | .explain m => s!"explain {hexOrDash m}"
  | .vacuumComplete a b c => s!"vacuumed {a.toNat} {b.toNat} {c.toNat}"
  | .pong => "pong" | .goodbye => "goodbye" | .shuttingDown => "shuttingdown"

def allHex : List String → Option (List Bytes)
  | [] => some []
  | w :: ws => match bytesOfHex w, allHex ws with
    | some b, some r => some (b :: r)
    | _, _ => none

def chunk (n : Nat) : Nat → List Bytes → List (List Bytes)
  | 0, _ => []
  | k + 1, xs => xs.take n :: chunk n k (xs.drop n)

def parseReq : List String → Option Request
  | ["create", h] => (bytesOfHex h).map .create
  | ["open", h] => (bytesOfHex h).map .open_
  | ["sql", h] => (bytesOfHex h).map .sql
  | ["explain", h] => (bytesOfHex h).map .explain
  | ["analyze", r, m] => match r.toNat?, m.toNat? with
    | some r, some m => if r < 2^64 ∧ m < 2^64 then some (.analyze (UInt64.ofNat r) (UInt64.ofNat m)) else none
    | _, _ => none
  | ["begin"] => some .begin_ | ["rollback"] => some .rollback | ["commit"] => some .commit
  | ["vacuum"] => some .vacuum | ["close"] => some .close | ["ping"] => some .ping
  | ["shutdown"] => some .shutdown
  | _ => none

def u64? (s : String) : Option UInt64 :=
  match s.toNat? with
  | some n => if n < 2^64 then some (UInt64.ofNat n) else none
  | none => none

/-- rectangular rows only (`rows <ncols> <nrows> cells…`): that is all the server can produce. -/
def parseResp : List String → Option Response
  | ["ok", h] => (bytesOfHex h).map .ok
  | ["error", h] => (bytesOfHex h).map .error
  | ["ddl", h] => (bytesOfHex h).map .ddl
  | ["explain", h] => (bytesOfHex h).map .explain
  | ["started"] => some .sessionStarted | ["end"] => some .sessionEnd
  | ["pong"] => some .pong | ["goodbye"] => some .goodbye | ["shuttingdown"] => some .shuttingDown
  | ["affected", n] => (u64? n).map .rowsAffected
  | ["vacuumed", a, b, c] => match u64? a, u64? b, u64? c with
    | some a, some b, some c => some (.vacuumComplete a b c)
    | _, _, _ => none
  | "rows" :: nc :: nr :: cells =>
    match nc.toNat?, nr.toNat?, allHex cells with
    | some nc, some nr, some cs =>
      if cs.length = nc + nc * nr then
        some (.rows (cs.take nc) (chunk nc nr (cs.drop nc)))
      else none
    | _, _, _ => none
  | _ => none

def step (D : Defects) (line : String) : String :=
  match words line with
  | ["req", h] =>
    match bytesOfHex h with
    | none => "bad-op"
    | some d => match Request.decode P d with
      | .ok r => s!"ok {showReq r}"
      | .error e => s!"err {errName e}"
  | ["resp", h] =>
    match bytesOfHex h with
    | none => "bad-op"
    | some d =>
      -- an allocation request beyond 2^28 elements is reported as the abort it causes under the harness' address-space limit
      if (Response.decodeAllocs P D d).any (fun c => c ≥ 268435456) then "abort"
      else match Response.decode P d with
      | .ok r => s!"ok {showResp r}"
      | .error e => s!"err {errName e}"
  | "encreq" :: ws =>
    match parseReq ws with
    | none => "bad-op"
    | some r =>
      let e := Request.encode P r
      let rt := match Request.decode P e with
        | .ok r' => if r' = r then "rt=ok" else "rt=DIFF"
        | .error _ => "rt=DIFF"
      s!"{hexOfBytes e} {rt}"
  | "encresp" :: ws =>
    match parseResp ws with
    | none => "bad-op"
    | some r =>
      let e := Response.encode P r
      let rt := match Response.decode P e with
        | .ok r' => if r' = r then "rt=ok" else "rt=DIFF"
        | .error _ => "rt=DIFF"
      s!"{hexOfBytes e} {rt}"
  | ["frame", h] =>
    match bytesOfHex h with
    | none => "bad-op"
    | some d => match readMessage P d with
      | .ok (m, rest) => s!"ok {hexOrDash m} rest={rest.length}"
      | .error e => s!"err {errName e}"
  | ["framec", _k, h] =>
    -- the same stream delivered in reads of at most k bytes: chunking must not matter
    match bytesOfHex h with
    | none => "bad-op"
    | some d => match readMessage P d with
      | .ok (m, rest) => s!"ok {hexOrDash m} rest={rest.length}"
      | .error e => s!"err {errName e}"
  | ["frames", _k, h] =>
    -- several frames read one after the other through a buffered reader of capacity k
    match bytesOfHex h with
    | none => "bad-op"
    | some d =>
      let (ms, e) := readAll P d
      joinWith " " (ms.map (fun m => s!"ok {hexOrDash m}") ++ [s!"err {errName e}"])
  | ["wframe", h] =>
    match bytesOfHex h with
    | none => "bad-op"
    | some d => match writeMessage P d with
      | .ok f => s!"ok {hexOfBytes f}"
      | .error e => s!"err {errName e}"
  | ["wseq", items] =>
    -- several messages written to one writer, then the stream read back: a refused message contributes nothing
    let parseItem (it : String) : Option Bytes :=
      if it.startsWith "z" then ((it.drop 1).toString.toNat?).bind (fun n => if n ≤ 17 * 1024 * 1024 then some (List.replicate n 0) else none)
      else if it.startsWith "h" then bytesOfHex (it.drop 1).toString
      else none
    let rec go (its : List String) (stream : Bytes) (vs : List String) : Option (Bytes × List String) :=
      match its with
      | [] => some (stream, vs.reverse)
      | it :: rest =>
        match parseItem it with
        | none => none
        | some d =>
          match writeMessage P d with
          | .ok f => go rest (stream ++ f) ("ok" :: vs)
          | .error e => go rest stream (s!"err:{errName e}" :: vs)
    match go (items.splitOn ",") [] [] with
    | none => "bad-op"
    | some (stream, vs) =>
      let (ms, e) := readAll P stream
      s!"w={joinWith "," vs} | {joinWith " " (ms.map (fun m => s!"ok {hexOrDash m}") ++ [s!"err {errName e}"])}"
  | ["wframezeros", n] =>
    match n.toNat? with
    | none => "bad-op"
    | some n => match writeMessage P (List.replicate n 0) with
      | .ok f => s!"ok len={f.length} prefix={hexOfBytes (f.take 4)}"
      | .error e => s!"err {errName e}"
  | _ => "bad-op"

def parseDefects (flags : List String) : Defects :=
  { capUnbounded := flags.contains "capUnbounded" }

end AxVerif.Wire

namespace AxVerif.Drivers
def wire (flags : List String) (line : String) : String := AxVerif.Wire.step (AxVerif.Wire.parseDefects flags) line
end AxVerif.Drivers
