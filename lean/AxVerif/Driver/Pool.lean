/- Line-protocol driver for the worker-pool model (engine `pool`, C16).
   Case:   `seq <size> | op ; op ; …`   op = ok | err | panic | burst:<k>,<k>,… | idle
   Answer: one word per job in submission order, then `| live=<n>`. -/
import AxVerif.Model.Pool
import AxVerif.Model.Bytes
namespace AxVerif.Pool
open AxVerif

def maxSize : Nat := 16
def maxJobs : Nat := 400

def parseKind : String → Option Kind
  | "ok" => some .ok
  | "err" => some .err
  | "panic" => some .panic
  | _ => none

def parseKinds : List String → Option (List Kind)
  | [] => some []
  | w :: ws => match parseKind w, parseKinds ws with
    | some k, some r => some (k :: r)
    | _, _ => none

def parseOp (w : String) : Option Op :=
  let w := w.trimAscii.toString
  if w.startsWith "burst:" then
    match parseKinds ((w.drop 6).toString.splitOn ",") with
    | some ks => some (.burst ks)
    | none => none
  else (parseKind w).map .call

def parseOps : List String → Option (List Op)
  | [] => some []
  | w :: ws => match parseOp w, parseOps ws with
    | some o, some r => some (o :: r)
    | _, _ => none

def Op.jobs : Op → Nat
  | .call _ => 1
  | .burst ks => ks.length

def showOutcome : Option Resp → String
  | some .ok => "answered-ok"
  | some .err => "answered-err"
  | some .panicAsError => "answered-panic-as-error"
  | none => "lost"

def parseDefects (flags : List String) : Defects :=
  { panicKillsWorker := flags.contains "panicKillsWorker" }

def stepLine (D : Defects) (line : String) : String :=
  match line.splitOn "|" with
  | [head, body] =>
    match words head with
    | ["seq", n] =>
      -- `idle` (a pause of the client; the workers of the model do not go away) submits nothing
      match n.toNat?, parseOps ((body.splitOn ";").filter (fun w => w.trimAscii.toString != "idle")) with
      | some n, some ops =>
        if n = 0 ∨ n > maxSize ∨ (ops.map Op.jobs).sum > maxJobs then "bad-op"
        else
          let s := exec D n ops
          s!"{joinWith " " ((outcomes s).map showOutcome)} | live={s.live}"
      | _, _ => "bad-op"
    | _ => "bad-op"
  | _ => "bad-op"

end AxVerif.Pool

namespace AxVerif.Drivers
def pool (flags : List String) (line : String) : String :=
  AxVerif.Pool.stepLine (AxVerif.Pool.parseDefects flags) line
end AxVerif.Drivers
