/- Line-protocol driver for engine `pool` — not built yet (stub). -/
namespace AxVerif.Drivers

def pool (_flags : List String) (_line : String) : String := "unimplemented"

end AxVerif.Drivers
