/- Line-protocol driver for the write-ahead-log model (engine `wal`). -/
import AxVerif.Model.Wal
import AxVerif.Generated.Wal
namespace AxVerif.Wal
open AxVerif

def P : Params := Generated.walParams

def parseDefects (flags : List String) : Defects :=
  { lsnFromBlockZero := flags.contains "lsnFromBlockZero",
    flushOverwritesBlockOne := flags.contains "flushOverwritesBlockOne",
    readerTrustsMemoryHeader := flags.contains "readerTrustsMemoryHeader",
    reopenReusesBlockZero := flags.contains "reopenReusesBlockZero",
    shortFileIsError := flags.contains "shortFileIsError" }

def validKind (k : Nat) : Bool := k ≤ 3 || (6 ≤ k && k ≤ 11)

def pattern (a b c : Nat) (len : Nat) : Bytes :=
  (List.range len).map (fun i => UInt8.ofNat (a + i * b + c))

/-- the record `push T K U R` stands for (same function in harness/src/engines/wal.rs) -/
def mkRec (tid kind ulen rlen : Nat) : Rec :=
  let dml := kind ≥ 6
  { lsn := 0, tid := tid,
    prev := if tid % 2 = 1 then some (tid / 2) else none,
    oid := if dml then some (tid % 7 + 1) else none,
    rowid := if dml then some (tid * 3) else none,
    kind := kind,
    undo := pattern (tid * 7) 3 1 ulen,
    redo := pattern (tid * 11) 5 2 rlen }

def fnv (bs : Bytes) (h : UInt32) : UInt32 :=
  bs.foldl (fun h b => (h ^^^ b.toUInt32) * 16777619) h

def hex32 (x : UInt32) : String :=
  let n := x.toNat
  String.ofList ((List.range 8).map (fun i => hexDigit (n / 16 ^ (7 - i) % 16)))

def showOpt : Option Nat → String
  | none => "-"
  | some v => toString v

def showRec (r : Rec) : String :=
  s!"{r.lsn}:{r.tid}:{r.kind}:{showOpt r.prev}:{showOpt r.oid}:{showOpt r.rowid}:{r.undo.length}:{r.redo.length}:{recSize P r}:{hex32 (fnv r.redo (fnv r.undo 2166136261))}"

def errName : Err → String
  | .tooLarge => "toolarge"
  | .full => "full"
  | .eof => "eof"

def showOut : Out → String
  | .lsn n => s!"ok {n}"
  | .ok => "ok"
  | .err e => s!"err {errName e}"
  | .recs l => "[" ++ joinWith "," (l.map showRec) ++ "]"
  | .dead => "dead"

/-- an op of a sequence case: a log operation, or `image` = an independent look at the file -/
inductive DOp where
  | op (o : Op)
  | image

def parseOp (s : String) : Option DOp :=
  match words s with
  | ["push", t, k, u, r] =>
    match t.toNat?, k.toNat?, u.toNat?, r.toNat? with
    | some t, some k, some u, some r =>
      if t < 2^32 ∧ validKind k ∧ u ≤ 65535 ∧ r ≤ 65535 then some (.op (.push (mkRec t k u r))) else none
    | _, _, _, _ => none
  | ["force"] => some (.op .force)
  | ["truncate"] => some (.op .truncate)
  | ["reopen"] => some (.op .reopen)
  | ["crash"] => some (.op .crash)
  | ["image"] => some .image
  | ["read", k] =>
    match k.toNat? with
    | some k => if k ≤ 64 then some (.op (.read k)) else none
    | none => none
  | _ => none

def parseOps : List String → Option (List DOp)
  | [] => some []
  | s :: rest =>
    match parseOp s, parseOps rest with
    | some o, some os => some (o :: os)
    | _, _ => none

def diagOf (D : Defects) (s : State) : String :=
  if !s.alive then "dead" else
  s!"tb={s.hdr.hdr.totalBlocks} te={s.hdr.hdr.totalEntries} pend={s.queue.length} last={showOpt (lastLsn D s)}"

def showBlockImage (b : Block) : String :=
  s!"{b.num}:{b.used}:{showOpt b.first}:{showOpt b.last}:{hex32 (fnv (encodeRecs P b.recs) 2166136261)}"

/-- the file block by block: number, used bytes, first/last LSN of the block header and a digest of the used part
    of the data area (the concatenated record images); block zero also shows `total_blocks` -/
def showImage (d : Disk) : String :=
  match d.zero with
  | none => "{}"
  | some z =>
    "{" ++ joinWith "," ((showBlockImage z.blk ++ s!":tb={z.hdr.totalBlocks}") :: d.blocks.map showBlockImage) ++ "}"

/-- outputs and per-op diagnostics -/
def runDiag (D : Defects) : State → List DOp → List String × List String
  | _, [] => ([], [])
  | s, .image :: ops =>
    let (os, ds) := runDiag D s ops
    ((if s.alive then showImage s.disk else "dead") :: os, diagOf D s :: ds)
  | s, .op op :: ops =>
    let (s1, o) := step P D s op
    let (os, ds) := runDiag D s1 ops
    (showOut o :: os, diagOf D s1 :: ds)

def parseOptNat (s : String) : Option (Option Nat) :=
  if s = "-" then some none else
  match s.toNat? with
  | some n => if n < 2^64 then some (some n) else none
  | none => none

def seqLine (D : Defects) (body : String) : String :=
  let parts := (body.splitOn ";").map (fun s => s.trimAscii.toString) |>.filter (fun s => s ≠ "")
  match parseOps parts with
  | none => "bad-op"
  | some ops =>
    let (os, ds) := runDiag D (init P) ops
    joinWith " ; " os ++ " ## " ++ joinWith " ; " ds

def stepLine (D : Defects) (line : String) : String :=
  let line := line.trimAscii.toString
  if line = "seq" then seqLine D ""
  else if line.startsWith "seq |" then seqLine D (line.drop 5).toString
  else
  match words line with
  | ["rec", lsn, tid, kind, prev, oid, row, undo, redo] =>
    match lsn.toNat?, tid.toNat?, kind.toNat?, parseOptNat prev, parseOptNat oid, parseOptNat row,
          bytesOfHex undo, bytesOfHex redo with
    | some lsn, some tid, some kind, some prev, some oid, some row, some undo, some redo =>
      if lsn < 2^64 ∧ tid < 2^64 ∧ validKind kind ∧ undo.length ≤ 65535 ∧ redo.length ≤ 65535 then
        let r : Rec := { lsn := lsn, tid := tid, prev := prev, oid := oid, rowid := row, kind := kind,
                         undo := undo, redo := redo }
        let img := encodeRecord P r
        let rest : Bytes := List.replicate 24 0xEE
        let rt := match decodeRecord (img ++ rest) with
          | some (r', rest') => if r' = r ∧ rest' = rest then "rt=ok" else "rt=DIFF"
          | none => "rt=DIFF"
        s!"{hexOfBytes img} {rt}"
      else "bad-op"
    | _, _, _, _, _, _, _, _ => "bad-op"
  | _ => "bad-op"

end AxVerif.Wal

namespace AxVerif.Drivers
def wal (flags : List String) (line : String) : String := AxVerif.Wal.stepLine (AxVerif.Wal.parseDefects flags) line
end AxVerif.Drivers
