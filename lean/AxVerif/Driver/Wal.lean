/- Line-protocol driver for engine `wal` — not built yet (stub). -/
namespace AxVerif.Drivers

def wal (_flags : List String) (_line : String) : String := "unimplemented"

end AxVerif.Drivers
