/- Line-protocol driver for engine `plan` — not built yet (stub). -/
namespace AxVerif.Drivers

def plan (_flags : List String) (_line : String) : String := "unimplemented"

end AxVerif.Drivers
