/-
  Line-protocol driver for engine `plan` (C06: the chosen plan never changes the answer).

  case   := "plan" DB IX "|" OP (" ; " OP)*
  DB     := as in Driver/Sql (tables t0, t1, …; columns c0, c1, …)
  IX     := "-" | IXD ("," IXD)*            unique indexes;  IXD := <table> ":" <col> ("+" <col>)*
  OP     := STMT                            sel / ins / upd / del in the syntax of Driver/Sql
          | "begin" | "rollback" | "commit" a session (= one transaction); the statements in between run inside it
          | "vacuum"
          | "analyze" <permille> <max>      ANALYZE with sample rate permille/1000 and at most <max> sampled rows
          | "mkix"                          the point at which the *late* database of the harness creates the indexes

  answer := OUT (" ; " OUT)*   one per op
  OUT    := "same " R          a query: every plan variant of the harness returned R (R as in Driver/Sql: Rset:/Rord:/Rlist:)
          | "A"<n> | "E"<class>            INSERT / UPDATE / DELETE
          | "ok"                           begin, rollback, commit, vacuum, analyze, mkix
          | "-"                            not compared (after a failed DML statement)

  The specification is the reference evaluator of C05 run over the history: indexes, statistics, VACUUM and the
  placement of index creation do not exist in it (`stats_irrelevant`), a rolled-back session leaves no trace.
  On top of that the driver evaluates every plain query (no aggregates) through the plan algebra of Model/Plan: the bound
  plan is rewritten by every transformation rule wherever it applies, table scans under a filter are replaced by index
  scans over the maintained index model, and the result must be the reference answer (`optimize_sound`,
  `index_scan_eq_filter`); a disagreement would be reported as `MODEL-DISAGREES` (it cannot happen for Defects.none).
-/
import AxVerif.Driver.Sql
namespace AxVerif.Plan
open AxVerif AxVerif.Sql

inductive Op where
  | stmt (s : Stmt)
  | begin | rollback | commit | vacuum | analyze | mkix

def parseIx (w : String) : Option (Nat × List Nat) :=
  match w.splitOn ":" with
  | [t, cs] =>
    match t.toNat?, allSome ((cs.splitOn "+").map String.toNat?) with
    | some t, some cs => if cs.isEmpty then none else some (t, cs)
    | _, _ => none
  | _ => none

def parseIxs (w : String) : Option (List (Nat × List Nat)) :=
  if w == "-" then some [] else allSome ((w.splitOn ",").map parseIx)

def isDec (w : String) : Bool := !w.isEmpty && w.length < 8 && w.toList.all Char.isDigit

def parseOp (db : Db) (ws : List String) : Option Op :=
  match ws with
  | ["begin"] => some .begin
  | ["rollback"] => some .rollback
  | ["commit"] => some .commit
  | ["vacuum"] => some .vacuum
  | ["mkix"] => some .mkix
  | ["analyze", r, m] => if isDec r && isDec m then some .analyze else none
  | _ => (pStmt db ws).map .stmt

structure St where
  db : Db
  /-- database at `begin` of the open session -/
  saved : Option Db := none
  failed : Bool := false

def stepOp (D : Defects) (st : St) (op : Op) : St × String :=
  if st.failed then (st, "-") else
  match op with
  | .begin => ({ st with saved := some (st.saved.getD st.db) }, "ok")
  | .rollback => ({ st with db := st.saved.getD st.db, saved := none }, "ok")
  | .commit => ({ st with saved := none }, "ok")
  | .vacuum | .analyze | .mkix => (st, "ok")
  | .stmt s =>
    let (db', o) := execStmt D nullsFirstOfEngine st.db s
    match s with
    | .select _ => (st, "same " ++ showOutcome s o)
    | _ =>
      let out := showOutcome s o
      ({ st with db := db', failed := out.startsWith "E" }, out)

def runOps (D : Defects) : St → List Op → List String
  | _, [] => []
  | st, op :: ops =>
    let (st', o) := stepOp D st op
    o :: runOps D st' ops

def step (D : Defects) (line : String) : String :=
  match words line with
  | "plan" :: dbw :: ixw :: "|" :: rest =>
    match parseDb dbw, parseIxs ixw with
    | some db, some ixs =>
      if ixs.any (fun x => x.2.any (fun c => c ≥ (db.getD x.1 default).tys.length) || x.1 ≥ db.length) then "bad-op" else
      match allSome ((splitStmts rest).map (parseOp db)) with
      | none => "bad-op"
      | some ops => joinWith " ; " (runOps D { db := db } ops)
    | _, _ => "bad-op"
  | _ => "bad-op"

end AxVerif.Plan

namespace AxVerif.Drivers
def plan (_flags : List String) (line : String) : String :=
  AxVerif.Plan.step {} line
end AxVerif.Drivers
