/-
  Line-protocol driver for engine `plan` (C06: the chosen plan never changes the answer).

  case   := "plan" DB IX "|" OP (" ; " OP)*
  DB     := as in Driver/Sql (tables t0, t1, …; columns c0, c1, …)
  IX     := "-" | IXD ("," IXD)*            unique indexes;  IXD := <table> ":" <col> ("+" <col>)*
  OP     := STMT                            sel / ins / upd / del in the syntax of Driver/Sql
          | "begin" | "rollback" | "commit" a session (= one transaction); the statements in between run inside it
          | "vacuum"
          | "analyze" <permille> <max>      ANALYZE with sample rate permille/1000 and at most <max> sampled rows
          | "mkix"                          the point at which the *late* database of the harness creates the indexes
          | "batch" | "endbatch"            the INSERT / UPDATE / DELETE statements in between run as one Database::execute_batch
                                            (one transaction; for the specification: the statements one after the other)

  answer := OUT (" ; " OUT)*   one per op
  OUT    := "same " R          a query: every plan variant of the harness returned R (R as in Driver/Sql: Rset:/Rord:/Rlist:)
          | "A"<n> | "E"<class>            INSERT / UPDATE / DELETE (Econstraint: a second row with the key of a unique index)
          | "ok"                           begin, rollback, commit, vacuum, analyze, mkix, batch, endbatch
          | "-"                            not compared (after a failed DML statement)

  Two further kinds of lines: `rule <TABLES> <IX> | <PLAN>` (what every transformation rule makes of the root of a plan) and
  `ord <DELIVERED> <REQUIRED>` (PhysicalProperties::satisfies) and `jop <DB> | <join of t0 and t1>` (every physical join
  operator run directly on two inputs); their syntax is given where they are handled, below.

  The specification is the reference evaluator of C05 run over the history: indexes, statistics, VACUUM and the
  placement of index creation do not exist in it (`stats_irrelevant`), a rolled-back session leaves no trace.
  On top of that the driver evaluates every plain query (no aggregates) through the plan algebra of Model/Plan: the bound
  plan is rewritten by every transformation rule wherever it applies, table scans under a filter are replaced by index
  scans over the maintained index model, and the result must be the reference answer (`optimize_sound`,
  `index_scan_eq_filter`); a disagreement would be reported as `MODEL-DISAGREES` (it cannot happen for Defects.none).
-/
import AxVerif.Driver.Sql
import AxVerif.Model.Plan
namespace AxVerif.Plan
open AxVerif AxVerif.Sql AxVerif.Index

inductive Op where
  | stmt (s : Stmt)
  | begin | rollback | commit | vacuum | analyze | mkix | batch | endbatch

def parseIx (w : String) : Option (Nat × List Nat) :=
  match w.splitOn ":" with
  | [t, cs] =>
    match t.toNat?, allSome ((cs.splitOn "+").map String.toNat?) with
    | some t, some cs => if cs.isEmpty then none else some (t, cs)
    | _, _ => none
  | _ => none

def parseIxs (w : String) : Option (List (Nat × List Nat)) :=
  if w == "-" then some [] else allSome ((w.splitOn ",").map parseIx)

def isDec (w : String) : Bool := !w.isEmpty && w.length < 8 && w.toList.all Char.isDigit

def parseOp (db : Db) (ws : List String) : Option Op :=
  match ws with
  | ["begin"] => some .begin
  | ["rollback"] => some .rollback
  | ["commit"] => some .commit
  | ["vacuum"] => some .vacuum
  | ["mkix"] => some .mkix
  | ["batch"] => some .batch
  | ["endbatch"] => some .endbatch
  | ["analyze", r, m] => if isDec r && isDec m then some .analyze else none
  | _ => (pStmt db ws).map .stmt

/-! ### the store (rows with row ids, maintained indexes) next to the reference database -/

def numberFrom (n : Nat) : List Row → Rows
  | [] => []
  | r :: rs => (n, r) :: numberFrom (n + 1) rs

def initStore (db : Db) (ixs : List (Nat × List Nat)) : Store :=
  (List.range db.length).map (fun t =>
    let td := db.getD t default
    let rows := numberFrom 1 td.rows
    { tys := td.tys, rows := rows,
      indexes := (ixs.filter (fun x => x.1 == t)).map (fun x => populate x.2 rows) })

def nextRid (tb : STable) : Nat := tb.rows.foldl (fun m r => max m (r.1 + 1)) 1

/-- the store after a DML statement that took the reference database from `db` to `db'` -/
def stepStore (D : Index.Defects) (st : Store) (db db' : Db) : Stmt → Store
  | .select _ => st
  | .insert t _ =>
    let tb := st.getD t default
    let old := (db.getD t default).rows.length
    let added := (db'.getD t default).rows.drop old
    let news := numberFrom (nextRid tb) added
    st.set t { tb with rows := tb.rows ++ news,
                       indexes := tb.indexes.map (fun ix => news.foldl (fun ix r => ix.insert r.1 r.2) ix) }
  | .update t sets _ =>
    let tb := st.getD t default
    let assigned := sets.map (·.1)
    let pairs := tb.rows.zip (db'.getD t default).rows
    let changed := pairs.filter (fun p => p.1.2 != p.2)
    st.set t { tb with rows := pairs.map (fun p => (p.1.1, p.2)),
                       indexes := tb.indexes.map (fun ix =>
                         changed.foldl (fun ix p => ix.update D p.1.1 p.1.2 p.2 assigned) ix) }
  | .delete t w =>
    let tb := st.getD t default
    let gone := tb.rows.filter (fun r => match predOf {} tb.tys w r.2 with
      | .ok true => true
      | _ => false)
    st.set t { tb with rows := tb.rows.filter (fun r => !(gone.any (fun g => g.1 == r.1))),
                       indexes := tb.indexes.map (fun ix => gone.foldl (fun ix r => ix.delete r.2) ix) }

/-- every index is a UNIQUE index: no two rows with the same NULL-free key (what ConstraintValidator enforces) -/
def storeUniqueB (st : Store) : Bool :=
  st.all (fun tb => tb.indexes.all (fun ix =>
    let ks := (rowPairs ix.cols tb.rows).map (·.1)
    ks.length == ks.eraseDups.length))

def storeConsistentB (st : Store) : Bool :=
  st.all (fun tb => tb.indexes.all (fun ix => consistentB ix tb.rows))

/-- does the store still describe the reference database? -/
def storeMatches (st : Store) (db : Db) : Bool :=
  st.length == db.length && (st.zip db).all (fun p => showRows false (p.1.rows.map (·.2)) == showRows false p.2.rows)

/-! ### a query through the plan algebra: every plan the rules reach must give the reference answer -/

def fromSize (st : Store) : From → Nat
  | .table t => (st.getD t default).rows.length + 1
  | .join _ l r _ => fromSize st l * fromSize st r
  | .derived f _ _ => fromSize st f

def planDefects (flags : List String) : Plan.Defects :=
  { joinCommuteKeepsIndices := flags.contains "joinCommuteKeepsIndices"
    helpersSkipForms := flags.contains "helpersSkipForms"
    memoIgnoresPredicates := flags.contains "memoIgnoresPredicates"
    assocDropsBOnly := flags.contains "assocDropsBOnly"
    indexScanIgnoresNullable := flags.contains "indexScanIgnoresNullable"
    orderingPrefixEitherWay := flags.contains "orderingPrefixEitherWay"
    hashJoinNullEqualsNull := flags.contains "hashJoinNullEqualsNull" }

/-- number of reachable plans checked, or the first plan that disagrees with the reference rows -/
def crossCheck (D : Plan.Defects) (st : Store) (q : Select) (out : List Row) : Except String Nat :=
  if !(q.aggs.isEmpty && q.orderBy.isEmpty && !q.distinct && q.limit.isNone && q.offset.isNone) then .ok 0
  else if fromSize st q.from_ > 3000 then .ok 0
  else
    let p0 := boundPlan q
    if !(p0.wellScoped st) then .error "ill-scoped"
    else
      let want := showRows true out
      let plans := explore D st 3 [if D.memoIgnoresPredicates then memoJoinInputs D p0 else p0]
      match plans.find? (fun p => showRows true (evalPlan st p) != want) with
      | some p => .error (toString (repr p)).length.repr
      | none => .ok plans.length

structure St where
  db : Db
  store : Store
  /-- database and store at `begin` of the open session -/
  saved : Option (Db × Store) := none
  failed : Bool := false

def stepOp (D : Sql.Defects) (PD : Plan.Defects) (ID : Index.Defects) (st : St) (op : Op) : St × String :=
  if st.failed then (st, "-") else
  match op with
  | .begin => ({ st with saved := some (st.saved.getD (st.db, st.store)) }, "ok")
  | .rollback =>
    let (db, store) := st.saved.getD (st.db, st.store)
    ({ st with db := db, store := store, saved := none }, "ok")
  | .commit => ({ st with saved := none }, "ok")
  | .vacuum | .analyze | .mkix | .batch | .endbatch => (st, "ok")
  | .stmt s =>
    let (db', o) := execStmt D nullsFirstOfEngine st.db s
    match s, o with
    | .select q, .rows out =>
      match crossCheck PD st.store q out with
      | .ok _ => (st, "same " ++ showOutcome s o)
      | .error why => (st, "MODEL-DISAGREES plan=" ++ why ++ " " ++ showOutcome s o)
    | .select _, _ => (st, "same " ++ showOutcome s o)
    | _, _ =>
      let out := showOutcome s o
      if out.startsWith "E" then ({ st with failed := true }, out)
      else
        let store' := stepStore ID st.store st.db db' s
        if !(storeUniqueB store') then ({ st with failed := true }, "Econstraint")
        else if !(storeMatches store' db') then ({ st with db := db', store := store' }, "MODEL-DISAGREES store " ++ out)
        else if !(storeConsistentB store') && !ID.indexUpdateKeepsOldKey then
          ({ st with db := db', store := store' }, "MODEL-DISAGREES index-inconsistent " ++ out)
        else ({ st with db := db', store := store' }, out)

def runOps (D : Sql.Defects) (PD : Plan.Defects) (ID : Index.Defects) : St → List Op → List String
  | _, [] => []
  | st, op :: ops =>
    let (st', o) := stepOp D PD ID st op
    o :: runOps D PD ID st' ops

def step (flags : List String) (line : String) : String :=
  match words line with
  | "plan" :: dbw :: ixw :: "|" :: rest =>
    match parseDb dbw, parseIxs ixw with
    | some db, some ixs =>
      if ixs.any (fun x => x.2.any (fun c => c ≥ (db.getD x.1 default).tys.length) || x.1 ≥ db.length) then "bad-op" else
      match allSome ((splitStmts rest).map (parseOp db)) with
      | none => "bad-op"
      | some ops =>
        let ID : Index.Defects := { indexUpdateKeepsOldKey := flags.contains "indexUpdateKeepsOldKey" }
        joinWith " ; " (runOps {} (planDefects flags) ID { db := db, store := initStore db ixs } ops)
    | _, _ => "bad-op"
  | _ => "bad-op"

/-! ### rule-level cases: `rule <TABLES> <IX> | <PLAN>` → what each transformation rule makes of the root of the plan -/

mutual
def showExprW : Expr → List String
  | .lit v => [showVal v]
  | .col i => [s!"c{i}"]
  | .not e => "not" :: showExprW e
  | .neg e => "neg" :: showExprW e
  | .pos e => "pos" :: showExprW e
  | .and a b => "and" :: (showExprW a ++ showExprW b)
  | .or a b => "or" :: (showExprW a ++ showExprW b)
  | .cmp op a b =>
    (match op with | .eq => "eq" | .ne => "ne" | .lt => "lt" | .le => "le" | .gt => "gt" | .ge => "ge") :: (showExprW a ++ showExprW b)
  | .arith op a b =>
    (match op with | .add => "add" | .sub => "sub" | .mul => "mul" | .div => "div" | .mod => "mod") :: (showExprW a ++ showExprW b)
  | .like n a b => (if n then "nlike" else "like") :: (showExprW a ++ showExprW b)
  | .isNull n e => (if n then "notnull" else "isnull") :: showExprW e
  | .between n e lo hi => (if n then "nbtw" else "btw") :: (showExprW e ++ showExprW lo ++ showExprW hi)
  | .inList n e xs => ((if n then "nin" else "in") ++ toString xs.length) :: (showExprW e ++ showExprsW xs)
  | .caseWhen parts => s!"case{parts.length / 2}" :: showCaseW parts
  | .caseOf x parts => s!"casex{parts.length / 2}" :: (showExprW x ++ showCaseW parts)
  | .strFn f e =>
    (match f with
      | .upper => "upper" | .lower => "lower" | .length => "length" | .ltrim => "ltrim" | .rtrim => "rtrim"
      | .abs => "abs" | .ceil => "ceil" | .floor => "floor" | .round => "round")
      :: showExprW e
  | .concat a b => "cat" :: (showExprW a ++ showExprW b)
  | .nullif a b => "nullif" :: (showExprW a ++ showExprW b)
  | .coalesce xs => s!"coal{xs.length}" :: showExprsW xs
def showCaseW : List Expr → List String
  | [] => ["noelse"]
  | [e] => "else" :: showExprW e
  | c :: r :: rest => showExprW c ++ showExprW r ++ showCaseW rest
def showExprsW : List Expr → List String
  | [] => []
  | e :: es => showExprW e ++ showExprsW es
end

def showKind : JoinKind → String
  | .inner => "inner" | .left => "left" | .right => "right" | .full => "full" | .cross => "cross"

def showBoundW (b : Bound) : List String := [s!"b{b.pos}", if b.inclusive then "in" else "ex", showVal b.value]

def showPlanW : Plan → List String
  | .scan t => ["scan", s!"t{t}"]
  | .indexScan t k lo hi resid =>
    ["ixscan", s!"t{t}", s!"x{k}", s!"lo{lo.length}"] ++ lo.flatMap showBoundW ++ [s!"hi{hi.length}"] ++ hi.flatMap showBoundW
      ++ (match resid with | none => ["-"] | some e => "r" :: showExprW e)
  | .filter e c => "filter" :: (showExprW e ++ showPlanW c)
  | .project items c => "project" :: s!"p{items.length}" :: (showExprsW items ++ showPlanW c)
  | .join k on l r =>
    "join" :: showKind k :: ((match on with | none => ["-"] | some e => "on" :: showExprW e) ++ showPlanW l ++ showPlanW r)

def pPlan : Nat → P Plan
  | 0, _ => none
  | _, [] => none
  | fuel + 1, w :: ws =>
    match w with
    | "scan" => match ws with
      | t :: r => (numAfter "t" t).map fun t => (.scan t, r)
      | [] => none
    | "filter" => (pExpr (fuel + 1) ws).bind fun (e, r) => (pPlan fuel r).map fun (c, r) => (.filter e c, r)
    | "project" => match ws with
      | n :: r => (numAfter "p" n).bind fun n => (pExprs (fuel + n + 1) n r).bind fun (es, r) =>
          (pPlan fuel r).map fun (c, r) => (.project es c, r)
      | [] => none
    | "join" => match ws with
      | k :: r => (joinKindOfWord k).bind fun k => (pOn (fuel + 1) r).bind fun (on, r) =>
          (pPlan fuel r).bind fun (l, r) => (pPlan fuel r).map fun (rr, r) => (.join k on l rr, r)
      | [] => none
    | _ => none

def parseRuleTable (ixs : List (Nat × List Nat)) (t : Nat) (w : String) : Option STable :=
  if w.isEmpty then none else
  match allSome (w.toList.map (fun c => tyOfChar c.toUpper)) with
  | none => none
  | some tys =>
    some { tys := tys, notNull := w.toList.map Char.isLower, rows := [],
           indexes := (ixs.filter (fun x => x.1 == t)).map (fun x => { cols := x.2, entries := [] }) }

def showAlts (ps : List Plan) : String :=
  if ps.isEmpty then "-" else joinWith " & " (ps.map (fun p => joinWith " " (showPlanW p)))

def ruleStep (D : Plan.Defects) (line : String) : String :=
  match words line with
  | "rule" :: tw :: ixw :: "|" :: rest =>
    match parseIxs ixw with
    | none => "bad-op"
    | some ixs =>
      let tws := tw.splitOn "/"
      if ixs.any (fun x => x.1 ≥ tws.length) then "bad-op" else
      match allSome ((List.range tws.length).map (fun t => parseRuleTable ixs t (tws.getD t ""))) with
      | none => "bad-op"
      | some st =>
        if st.any (fun tb => tb.indexes.any (fun ix => ix.cols.any (fun c => c ≥ tb.tys.length)) || tb.indexes.length > 15) then "bad-op" else
        match pPlan (rest.length + 1) rest with
        | some (p, []) =>
          let ixn := match p with
            | .filter _ (.scan t) => (st.getD t default).indexes.length
            | _ => 0
          joinWith " ; " [
            "JoinCommutativity:" ++ showAlts (joinCommute D st p).toList,
            "JoinAssociativity:" ++ showAlts (joinAssoc D st p).toList,
            "FilterMerge:" ++ showAlts (filterMerge p).toList,
            "FilterPushdownJoin:" ++ showAlts (filterPushdownJoin D st p).toList,
            "FilterPushdownProject:" ++ showAlts (filterPushdownProject D p).toList,
            "FilterToIndexScan:" ++ showAlts ((List.range ixn).filterMap (fun k => filterToIndexScan D st k p))]
        | _ => "bad-op"
  | _ => "bad-op"

/-! ### ordering cases: `ord <DELIVERED> <REQUIRED>` → does the delivered ordering satisfy the required one

    DELIVERED := "-" | DK ("," DK)*     DK := "a"<col> | "d"<col> (a plain column, ascending / descending) | "x" | "y"
                                              (an expression that is no plain column, ascending / descending)
    REQUIRED  := "-" | RK ("," RK)*     RK := "a"<col> | "d"<col>
    answer    := "sat" | "unsat"        PhysicalProperties::satisfies; `unsat` = extract_plan puts a Sort in between -/

def parseOrdKey (w : String) : Option OrdKey :=
  match numAfter "a" w with
  | some c => some { col := c, asc := true }
  | none => (numAfter "d" w).map fun c => { col := c, asc := false }

def parseDKey (w : String) : Option DKey :=
  if w == "x" || w == "y" then some none else (parseOrdKey w).map some

def ordStep (D : Plan.Defects) (line : String) : String :=
  match words line with
  | ["ord", dw, rw] =>
    let ds := if dw == "-" then some [] else allSome ((dw.splitOn ",").map parseDKey)
    let rs := if rw == "-" then some [] else allSome ((rw.splitOn ",").map parseOrdKey)
    match ds, rs with
    | some ds, some rs => if satisfies D ds rs then "sat" else "unsat"
    | _, _ => "bad-op"
  | _ => "bad-op"

/-! ### join operator cases: `jop <DB> | sel all j <kind> t0 t1 (on E | -) - g0 a0 star o0 lim- off-`

    DB has two tables; the statement is their join, nothing else.  The harness runs every physical join operator the
    implementation rules offer directly on the two tables' rows.
    answer := OP "=" R (" ; " OP "=" R)*     OP := NestedLoopJoin | HashJoin | MergeJoin (the latter two for a condition that
                                             is a conjunction of `column = column` over both inputs); R := `Rset:` rows | E<class>
    Specification: every operator returns the rows of the join (the reference evaluator of C05). -/

def jopStep (D : Plan.Defects) (line : String) : String :=
  match words line with
  | "jop" :: dbw :: "|" :: rest =>
    match parseDb dbw with
    | none => "bad-op"
    | some db =>
      if db.length != 2 then "bad-op" else
      match pStmt db rest with
      | some (.select q) =>
        match q.from_ with
        | .join k (.table 0) (.table 1) on =>
          if !(q.where_.isNone && q.aggs.isEmpty && q.groupBy.isEmpty && q.items.isNone && q.orderBy.isEmpty
                && q.limit.isNone && q.offset.isNone && !q.distinct) then "bad-op" else
          let ref := match execAll {} nullsFirstOfEngine db [.select q] with
            | [o] => showOutcome (.select q) o
            | _ => "Eother"
          let l := (db.getD 0 default).rows
          let r := (db.getD 1 default).rows
          let lw := (db.getD 0 default).tys.length
          let rw := (db.getD 1 default).tys.length
          match on.bind (equiKeys lw) with
          | none => "NestedLoopJoin=" ++ ref
          | some ks =>
            let hash := if D.hashJoinNullEqualsNull && !ref.startsWith "E" then
                "Rset:" ++ showRows true (hashJoin D k (ks.map (·.1)) (ks.map (·.2)) lw rw l r)
              else ref
            joinWith " ; " ["NestedLoopJoin=" ++ ref, "HashJoin=" ++ hash, "MergeJoin=" ++ ref]
        | _ => "bad-op"
      | _ => "bad-op"
  | _ => "bad-op"

end AxVerif.Plan

namespace AxVerif.Drivers
def plan (flags : List String) (line : String) : String :=
  if line.startsWith "rule " then AxVerif.Plan.ruleStep (AxVerif.Plan.planDefects flags) line
  else if line.startsWith "ord " then AxVerif.Plan.ordStep (AxVerif.Plan.planDefects flags) line
  else if line.startsWith "jop " then AxVerif.Plan.jopStep (AxVerif.Plan.planDefects flags) line
  else AxVerif.Plan.step flags line
end AxVerif.Drivers
