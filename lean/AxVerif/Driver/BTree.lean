/-
  Line-protocol driver for engine `btree` (C10), judge mode: the input is `case ==> observation`.

  case        ::= seq:<pagesize>:<minkeys>:<siblings>:<keytype> op ; op ; …
  op          ::= ins k len seed | upd k len seed | ups k len seed | rm k | rmt k | get k | gett k | scan
  observation ::= obs <opobs> ; <opobs> ; …     (one per op)   [ ## diagnostics]
  opobs       ::= r=<res> g=<probe> t=<probe> s=<hash>:<n> b=<hash>:<n> [a=<hash>] c=<rust checker> R=<root> [F<first>:<last>] page*
  page        ::= L<id>:<prev>:<next>:<leafcell>,…          leaf      leafcell ::= <key>.<len>.<seed>[@p1+p2…]
                | I<id>:<prev>:<next>:<right>:<intcell>,…   interior  intcell  ::= <left>.<key>[@p1+p2…]
                | O<id>:<next>                               overflow link or free page
                | B<id>                                      unreadable / malformed page
                | S<id>:<free_space>:<free_space_ptr>:<offset>+<size>,…   slot accounting of B-tree page <id> (slot order)
  Only pages whose token changed since the previous operation are listed (the driver keeps the page table).
  A key that could not be decoded is `!`; a payload that is not the pattern of its (len, seed) has seed 99999.

  Verdict `ok` iff, after **every** operation: the result, both probes of the operation's key, the forward and backward
  scan (hashes over the whole contents), every 16th operation the probe of all keys of the case, are what the spec map
  says; `checkTree` accepts the dump; `toList dump` = the spec map; and every page of the tree passes the slotted-page
  accounting check `Slotted.wfB`.
-/
import AxVerif.Model.BTree
import AxVerif.Model.Balance
import AxVerif.Model.Slotted
import AxVerif.Generated.BTree
namespace AxVerif.BTreeDriver
open AxVerif.BTree

def splitWords (s : String) : List String := (s.splitOn " ").filter (· ≠ "")

def seedMask (len seed : Nat) : Nat :=
  if len = 0 then 0 else if len = 1 then seed % 256 else seed % 65536

inductive COp where
  | ins (k len seed : Nat) | upd (k len seed : Nat) | ups (k len seed : Nat)
  | rm (k : Nat) | rmt (k : Nat) | get (k : Nat) | gett (k : Nat) | scan

def maxKey : Nat := 16777216

def natLt (s : String) (bound : Nat) : Option Nat :=
  match s.toNat? with
  | some n => if n < bound then some n else none
  | none => none

def parseOp (s : String) : Option COp :=
  match s.splitOn " " with
  | ["ins", k, l, sd] => match natLt k maxKey, natLt l 1048577, natLt sd 65536 with
    | some k, some l, some sd => some (.ins k l sd) | _, _, _ => none
  | ["upd", k, l, sd] => match natLt k maxKey, natLt l 1048577, natLt sd 65536 with
    | some k, some l, some sd => some (.upd k l sd) | _, _, _ => none
  | ["ups", k, l, sd] => match natLt k maxKey, natLt l 1048577, natLt sd 65536 with
    | some k, some l, some sd => some (.ups k l sd) | _, _, _ => none
  | ["rm", k] => (natLt k maxKey).map .rm
  | ["rmt", k] => (natLt k maxKey).map .rmt
  | ["get", k] => (natLt k maxKey).map .get
  | ["gett", k] => (natLt k maxKey).map .gett
  | ["scan"] => some .scan
  | _ => none

def allSome {α : Type} : List (Option α) → Option (List α)
  | [] => some []
  | none :: _ => none
  | some a :: rest => (allSome rest).map (a :: ·)

def parseCase (c : String) : Option (List COp) :=
  match c.splitOn " " with
  | head :: _ :: _ =>
    match head.splitOn ":" with
    | ["seq", ps, mk, sib, kt] =>
      let okPs := ps = "4096" || ps = "8192" || ps = "16384"
      let okMk := match mk.toNat? with | some n => 3 ≤ n && n ≤ 16 | none => false
      let okSib := match sib.toNat? with | some n => 1 ≤ n && n ≤ 8 | none => false
      let okKt := ["u64", "i64", "text", "ltext", "mtext", "btext", "comp"].contains kt
      if okPs && okMk && okSib && okKt then
        let body := (c.drop (head.length + 1)).toString
        match allSome ((body.splitOn " ; ").map parseOp) with
        | some ops => if ops.isEmpty || ops.length > 5000 then none else some ops
        | none => none
      else none
    | _ => none
  | _ => none

def COp.key? : COp → Option Nat
  | .ins k _ _ | .upd k _ _ | .ups k _ _ | .rm k | .rmt k | .get k | .gett k => some k
  | .scan => none

def COp.toOp : COp → Op
  | .ins k l s => .ins k (l, seedMask l s)
  | .upd k l s => .upd k (l, seedMask l s)
  | .ups k l s => .ups k (l, seedMask l s)
  | .rm k | .rmt k => .rm k
  | .get k | .gett k => .get k
  | .scan => .scan

def fnvInit : UInt64 := 0xcbf29ce484222325
def mix (h : UInt64) (x : Nat) : UInt64 := (h ^^^ x.toUInt64) * 0x100000001b3

def scanHash (l : List (Nat × Val)) : String :=
  let h := l.foldl (fun h e => mix (mix (mix h e.1) e.2.1) e.2.2) fnvInit
  s!"{h.toNat}:{l.length}"

def probeStr (m : List (Nat × Val)) (k : Nat) : String :=
  match alookup k m with
  | none => "none"
  | some (l, s) => s!"{l},{s}"

def resStr : Res → String
  | .ok => "ok" | .dup => "dup" | .nokey => "nokey"
  | .found none => "none"
  | .found (some (l, s)) => s!"{l},{s}"
  | .list l => scanHash l

def insertSorted (k : Nat) : List Nat → List Nat
  | [] => [k]
  | x :: xs => if k < x then k :: x :: xs else if k = x then x :: xs else x :: insertSorted k xs

def allProbeHash (m : List (Nat × Val)) (keys : List Nat) : String :=
  let h := keys.foldl (fun h k =>
    match alookup k m with
    | none => mix (mix (mix (mix h k) 0) 0) 0
    | some (l, s) => mix (mix (mix (mix h k) 1) l) s) fnvInit
  s!"{h.toNat}"

/-! ### page tokens -/

def parseChain (s : String) : Option (List Nat) :=
  if s.isEmpty then some [] else allSome ((s.splitOn "+").map (·.toNat?))

def parseLeafCell (s : String) : Option LeafCell :=
  let (body, chain) := match s.splitOn "@" with
    | [b] => (b, some [])
    | [b, c] => (b, parseChain c)
    | _ => (s, none)
  match body.splitOn ".", chain with
  | [k, l, sd], some ch => match k.toNat?, l.toNat?, sd.toNat? with
    | some k, some l, some sd => some { key := k, val := (l, sd), chain := ch }
    | _, _, _ => none
  | _, _ => none

def parseIntCell (s : String) : Option IntCell :=
  let (body, chain) := match s.splitOn "@" with
    | [b] => (b, some [])
    | [b, c] => (b, parseChain c)
    | _ => (s, none)
  match body.splitOn ".", chain with
  | [l, k], some ch => match l.toNat?, k.toNat? with
    | some l, some k => some { left := l, key := k, chain := ch }
    | _, _ => none
  | _, _ => none

def parseCells {α : Type} (f : String → Option α) (s : String) : Option (List α) :=
  if s.isEmpty then some [] else allSome ((s.splitOn ",").map f)

/-- (page id, page) of a page token; `none` as page = not a (readable) B-tree page; outer `none` = malformed token -/
def parsePageTok (tok : String) : Option (Nat × Option Page) :=
  let kind := tok.take 1
  let rest := (tok.drop 1).toString
  match kind.toString, rest.splitOn ":" with
  | "L", [id, pr, nx, cells] =>
    match id.toNat?, pr.toNat?, nx.toNat? with
    | some id, some pr, some nx => some (id, (parseCells parseLeafCell cells).map (Page.leaf pr nx))
    | _, _, _ => none
  | "I", [id, pr, nx, r, cells] =>
    match id.toNat?, pr.toNat?, nx.toNat?, r.toNat? with
    | some id, some pr, some nx, some r => some (id, (parseCells parseIntCell cells).map (Page.interior pr nx r))
    | _, _, _, _ => none
  | "O", [id, _] => id.toNat?.map (·, none)
  | "B", [id] => id.toNat?.map (·, none)
  | _, _ => none

def setPage (pages : Array (Option Page)) (id : Nat) (p : Option Page) : Array (Option Page) :=
  let pages := if id < pages.size then pages else pages ++ Array.replicate (id + 1 - pages.size) none
  pages.setIfInBounds id p

/-- which conjunct of `checkTree` fails (diagnostics) -/
def whyNot (d : Dump) : String :=
  match treeOf d with
  | none => "no-tree(page/cycle)"
  | some t =>
    if !t.bounded none none then "order/bound"
    else if !t.sepsAscending then "separators"
    else if !t.height.isSome then "depth"
    else if !distinct t.ids then "shared-page"
    else if t.ids.contains 0 then "page0"
    else if !linksOk d 0 (t.leafList.map (·.1)) then "links"
    else if !levelsLinked d t then "interior-links"
    else if !t.noEmptyLeaf then "empty-leaf"
    else "fuel"

structure St where
  spec : List (Nat × Val) := []
  pages : Array (Option Page) := #[]
  slotted : Array (Option Slotted.SPage) := #[]
  root : Nat := 0

def parseSlotted (cap : Nat) (tok : String) : Option (Nat × Slotted.SPage) :=
  match ((tok.drop 1).toString).splitOn ":" with
  | [id, free, fsp, cells] =>
    let cs : Option (List (Nat × Nat)) :=
      if cells.isEmpty then some []
      else allSome ((cells.splitOn ",").map fun c =>
        match c.splitOn "+" with
        | [o, sz] => match o.toNat?, sz.toNat? with
          | some o, some sz => some (o, sz)
          | _, _ => none
        | _ => none)
    match id.toNat?, free.toNat?, fsp.toNat?, cs with
    | some id, some free, some fsp, some cs => some (id, { cap := cap, slots := cs, fsp := fsp, free := free })
    | _, _, _, _ => none
  | _ => none

def setSlotted (a : Array (Option Slotted.SPage)) (id : Nat) (p : Slotted.SPage) : Array (Option Slotted.SPage) :=
  let a := if id < a.size then a else a ++ Array.replicate (id + 1 - a.size) none
  a.setIfInBounds id (some p)

def field (ws : List String) (pfx : String) : Option String :=
  (ws.find? (·.startsWith pfx)).map (fun w => (w.drop pfx.length).toString)

/-- judge one operation's observation; `Except.error why` = inadmissible -/
def stepObs (cap : Nat) (i : Nat) (keys : List Nat) (st : St) (op : COp) (obs : String) : Except String St := do
  let ws := splitWords obs
  let (spec', res) := specStep st.spec op.toOp
  let need (name : String) : Except String String :=
    match field ws (name ++ "=") with
    | some v => pure v
    | none => throw s!"op{i} missing {name}="
  let r ← need "r"
  if r != resStr res then throw s!"op{i} result want={resStr res} got={r}"
  let g ← need "g"
  let t ← need "t"
  match op.key? with
  | some k =>
    let want := probeStr spec' k
    if g != want then throw s!"op{i} search want={want} got={g}"
    if t != want then throw s!"op{i} search_tuple want={want} got={t}"
  | none =>
    if g != "-" || t != "-" then throw s!"op{i} unexpected probe"
  let s ← need "s"
  if s != scanHash spec' then throw s!"op{i} scan want={scanHash spec'} got={s}"
  let b ← need "b"
  if b != scanHash spec'.reverse then throw s!"op{i} backward-scan want={scanHash spec'.reverse} got={b}"
  match field ws "a=" with
  | some a => if a != allProbeHash spec' keys then throw s!"op{i} probe-all differs"
  | none => pure ()
  let c ← need "c"
  let rootS ← need "R"
  let root ← match rootS.toNat? with
    | some n => pure n
    | none => throw s!"op{i} bad root"
  let mut pages := st.pages
  for w in ws do
    let k := (w.take 1).toString
    if k == "L" || k == "I" || k == "O" || k == "B" then
      match parsePageTok w with
      | some (id, p) => pages := setPage pages id p
      | none => throw s!"op{i} malformed page token"
  let mut slotted := st.slotted
  for w in ws do
    if (w.take 1).toString == "S" then
      match parseSlotted cap w with
      | some (id, p) => slotted := setSlotted slotted id p
      | none => throw s!"op{i} malformed slotted token"
  let d := ({ root := root, pages := pages } : DumpData).toDump
  if !checkTree d then throw s!"op{i} checkTree rejects: {whyNot d} (rust checker: {c})"
  if toList d != spec' then throw s!"op{i} contents differ from the spec map"
  if c != "ok" then throw s!"op{i} checkers disagree: lean accepts, rust says {c}"
  match treeOf d with
  | none => pure ()
  | some t =>
    for id in t.ids do
      match (slotted[id]?).join with
      | some p => if !Slotted.wfB p then throw s!"op{i} slotted-page accounting broken on page {id}"
      | none => throw s!"op{i} no slot accounting for page {id}"
  pure { spec := spec', pages := pages, slotted := slotted, root := root }

def judgeSeq (cap : Nat) (ops : List COp) (obs : String) : String :=
  let gat := (obs.splitOn " ## ").headD ""
  if !gat.startsWith "obs " then s!"bad implementation failed: {gat.take 60}"
  else
    let parts := ((gat.drop 4).toString).splitOn " ; "
    let keys := ops.foldl (fun acc o => match o.key? with | some k => insertSorted k acc | none => acc) []
    -- the engine stops observing after the first operation its own spec map flags; the judge must then have rejected
    -- that operation, so running out of observations is itself inadmissible
    let rec go (i : Nat) (st : St) : List COp → List String → String
      | op :: ops, o :: os =>
        match stepObs cap i keys st op o with
        | .ok st' => go (i + 1) st' ops os
        | .error e => "bad " ++ e
      | [], [] => "ok"
      | _, _ => s!"bad op{i} number of observations differs from the number of operations"
    go 0 {} ops parts

def parseSizes (s : String) : Option (List Nat) :=
  if s = "-" then some [] else allSome ((s.splitOn ",").map (·.toNat?))

def joinNats (l : List Nat) : String := ",".intercalate (l.map toString)

def judge (line : String) : String :=
  match line.splitOn " ==> " with
  | [c, obs] =>
    let gat := (obs.splitOn " ## ").headD ""
    let head := (c.splitOn " ").headD ""
    if head.startsWith "seq:" then
      match parseCase c with
      | none => if gat = "bad-op" then "ok" else "bad malformed case accepted"
      | some ops =>
        if gat = "bad-op" then "bad well-formed case rejected"
        else
          let ps := ((head.splitOn ":").getD 1 "4096").toNat?.getD 4096
          judgeSeq (ps - Generated.BTree.btreeHeaderSize) ops obs
    else if head.startsWith "cmp:" then
      match c.splitOn " " with
      | [_, a, b] =>
        match natLt a maxKey, natLt b maxKey with
        | some a, some b =>
          let want := if a < b then "lt" else if a = b then "eq" else "gt"
          if gat = want then "ok" else s!"bad comparator says {gat}, index order says {want}"
        | _, _ => if gat = "bad-op" then "ok" else "bad malformed case accepted"
      | _ => if gat = "bad-op" then "ok" else "bad malformed case accepted"
    else if head = "split" then
      -- observation: split <l> <r> sizes=<total sizes>
      match splitWords gat with
      | ["split", l, r, sz] =>
        match l.toNat?, r.toNat?, parseSizes ((sz.drop 6).toString) with
        | some l, some r, some sizes =>
          let (a, b) := Balance.splitCells sizes
          if a.length = l ∧ b.length = r then "ok" else s!"bad model splits {a.length}/{b.length}"
        | _, _, _ => "bad unparsable observation"
      | _ => if gat = "bad-op" then (if (c.splitOn " ").length = 2 then "bad well-formed case rejected" else "ok") else "bad unparsable observation"
    else if head = "dist" then
      -- observation: dist usable=<u> under=<m> sizes=<storage sizes> totals=<…> counts=<…>
      match splitWords gat with
      | ["dist", u, m, sz, tot, cnt] =>
        match ((u.drop 7).toString).toNat?, ((m.drop 6).toString).toNat?, parseSizes ((sz.drop 6).toString),
              parseSizes ((tot.drop 7).toString), parseSizes ((cnt.drop 7).toString) with
        | some u, some m, some sizes, some tot, some cnt =>
          let formulaOk := match c.splitOn " " with
            | [_, ps, sz] => match ps.toNat?, parseSizes sz with
              | some ps, some payloads =>
                let usable := ps - Generated.BTree.btreeHeaderSize
                decide (u = (usable * 3 + 3) / 4) && decide (m = (usable + 3) / 4) &&
                  sizes == payloads.map fun n => Generated.BTree.cellHeaderSize + (n + 7) / 8 * 8 + Generated.BTree.slotSize
              | _, _ => false
            | _ => false
          if !formulaOk then "bad cell-size / threshold formulas of the model differ from the code" else
          match Balance.bestDistribution u m sizes with
          | some (tot', cnt') =>
            if tot' = tot ∧ cnt' = cnt then "ok" else s!"bad model totals={joinNats tot'} counts={joinNats cnt'}"
          | none => "bad model: fix-up loop does not terminate / leaves the cell array"
        | _, _, _, _, _ => "bad unparsable observation"
      | _ =>
        if gat = "bad-op" then "ok"
        else if gat.startsWith "panic@tree/bplustree.rs:" then
          -- the helper panicked (usize underflow in the fix-up): admissible iff the model predicts exactly that
          match c.splitOn " " with
          | [_, ps, sz] =>
            match ps.toNat?, parseSizes sz with
            | some ps, some payloads =>
              let usable := ps - Generated.BTree.btreeHeaderSize
              let sizes := payloads.map fun n => Generated.BTree.cellHeaderSize + (n + 7) / 8 * 8 + Generated.BTree.slotSize
              match Balance.bestDistribution ((usable * 3 + 3) / 4) ((usable + 3) / 4) sizes with
              | none => "ok"
              | some _ => "bad implementation panics, model does not"
            | _, _ => "bad implementation failed"
          | _ => "bad implementation failed"
        else "bad implementation failed"
    else if gat = "bad-op" then "ok" else "bad unknown case kind"
  | _ => "bad-op"

end AxVerif.BTreeDriver

namespace AxVerif.Drivers

def btree (_flags : List String) (line : String) : String :=
  AxVerif.BTreeDriver.judge line.trimAscii.toString

end AxVerif.Drivers
