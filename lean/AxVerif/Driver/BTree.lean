/- Line-protocol driver for engine `btree` — not built yet (stub). -/
namespace AxVerif.Drivers

def btree (_flags : List String) (_line : String) : String := "unimplemented"

end AxVerif.Drivers
