/- Line-protocol driver for engine `threads` — not built yet (stub). -/
namespace AxVerif.Drivers

def threads (_flags : List String) (_line : String) : String := "unimplemented"

end AxVerif.Drivers
