/-
  Line-protocol driver for engine `threads` (C14) — judge mode.

  Input:   <case> ==> <observation>      (syntax of both: harness/src/engines/threads.rs, cfg/C14.py)
  Answer:  ok ## …                       no call failed for internal reasons, `MT.checkSerialSI` accepts the observation
                                         (a linearisation of the observed calls — thread order and ticket order kept — on
                                         which the MVCC model gives every observed answer and the observed final contents),
                                         and, when the case is conflict-free, `MT.checkSerial` certifies a serial order
           bad hang | bad panic | bad protocol-violation <tag> | bad internal-error <call> | bad not-serialisable | bad not-serial | bad not-alone |
           bad malformed-observation
  Flags:   none (findings of this engine are attributed by region, see known_findings.d/C14.json)
-/
import AxVerif.Model.Serial
import AxVerif.Driver.Hist
namespace AxVerif.Db.ThreadsDrv
open AxVerif AxVerif.Db AxVerif.Db.Drv AxVerif.Db.MT

inductive COp where
  | begin | commit | rollback | flush
  | exec (st : Stmt)
  | auto (st : Stmt)
  /-- `db subq <table>`: a statement the engine does not support; it must fail (class `other`) and has no effect -/
  | subq (table : String)
  deriving Repr

structure Fill where
  table : String
  n : Nat
  pad : Nat

structure TSetup where
  base : Setup := {}
  fills : List Fill := []

def parseNat (s : String) : Option Nat :=
  match parseInt s with
  | some (.ofNat n) => some n
  | _ => none

/-- the yield points of the database (`axmosdb::verif::sched::TAGS`) -/
def yieldTags : List String :=
  ["begin_snapshot", "row_id_leased", "snapshot_taken", "commit_logged", "committed", "page_fetched", "tree_write", "leaf_released"]

def parseTSetup : List String → List String → List Fill → Option TSetup
  | [], hw, fs =>
    match parseSetup hw.reverse {} with
    | some b => if b.fresh then none else some ⟨b, fs.reverse⟩
    | none => none
  | w :: ws, hw, fs =>
    if w.startsWith "cache=" || w.startsWith "pool=" || w.startsWith "pace=" then
      match parseNat (w.drop (if w.startsWith "cache=" then 6 else 5)).toString with
      | some _ => parseTSetup ws hw fs
      | none => none
    else if w.startsWith "yield=" then
      -- perturbation of the run only (tag:permille:max_us); no meaning for the model
      match (w.drop 6).toString.splitOn ":" with
      | [tag, a, b] =>
        match parseNat a, parseNat b with
        | some pm, some us =>
          if yieldTags.contains tag && pm ≤ 1000 && us != 0 && us ≤ 50000 then parseTSetup ws hw fs else none
        | _, _ => none
      | _ => none
    else if w.startsWith "con=" then none
    else if w.startsWith "fill=" then
      match (w.drop 5).toString.splitOn ":" with
      | [t, n, pad] =>
        match parseNat n, parseNat pad with
        | some n, some pad => if n ≤ 5000 && pad ≤ 2000 then parseTSetup ws hw (⟨t, n, pad⟩ :: fs) else none
        | _, _ => none
      | _ => none
    else parseTSetup ws (w :: hw) fs

def threadId (s : String) : Option Nat :=
  match s.toList with
  | 't' :: ds =>
    match parseNat (String.ofList ds) with
    | some n => if n = 0 || n > 16 then none else some n
    | none => none
  | _ => none

def parseCOp : List String → Option COp
  | ["begin"] => some .begin
  | ["commit"] => some .commit
  | ["rollback"] => some .rollback
  | ["flush"] => some .flush
  | "db" :: "batch" :: _ => none
  | ["db", "subq", t] => if ident t then some (.subq t) else none
  | "db" :: rest => (parseStmt rest).map COp.auto
  | rest => (parseStmt rest).map COp.exec

def parseTOp (s : String) : Option (Nat × COp) :=
  match words s with
  | t :: rest =>
    match threadId t, parseCOp rest with
    | some i, some o => some (i, o)
    | _, _ => none
  | [] => none

def parseCase (line : String) : Option (TSetup × List (Nat × COp)) :=
  let line := line.trimAscii.toString
  if !line.startsWith "threads " then none
  else match (line.drop 8).toString.splitOn "|" with
    | [setup, ops] =>
      match parseTSetup (words setup) [] [] with
      | none => none
      | some st =>
        let fillsOk := st.fills.all (fun f =>
          match st.base.tables.find? (fun t => t.name == f.table) with
          | some t => t.cols.map (·.ty) == [ColType.big, ColType.int, ColType.text]
          | none => false)
        if !fillsOk || st.base.tables.any (fun t => !t.uniques.isEmpty) then none
        else
          let ops := ops.trimAscii.toString
          if ops.isEmpty then some (st, [])
          else (allSome ((ops.splitOn " ; ").map parseTOp)).map (fun os => (st, os))
    | _ => none

/-! ### rendering (as the harness renders: rows sorted, long pad texts abbreviated) -/

def showValA : Val → String
  | .int n => toString n
  | .null => "null"
  | .text s =>
    match s.toList with
    | c :: cs => if s.length > 8 && cs.all (· == c) then s!"'{c}*{s.length}'" else "'" ++ s ++ "'"
    | [] => "''"

def showRowsA (rs : List (List Val)) : String :=
  "[" ++ joinWith ";" (sortStrings (rs.map (fun r => joinWith "," (r.map showValA)))) ++ "]"

def showSA : SOut → String
  | .okN n => s!"ok{n}"
  | .rows rs => showRowsA rs
  | .err e => showErr e

def showOutA : Out → String
  | .ok => "ok"
  | .stmt o => showSA o
  | .refused e => showErr e
  | .noSession => "nosession"
  | .batchErr e => "batch-" ++ showErr e
  | .batch outs => "batch(" ++ joinWith " " (outs.map showSA) ++ ")"
  | .none => "-"

/-! ### observation -/

structure OCall where
  thread : Nat
  t0 : Nat
  t1 : Nat
  out : String

def parseOCall (w : String) : Option OCall :=
  match w.splitOn ":" with
  | [t, a, b, o] =>
    match threadId t, parseNat a, parseNat b with
    | some i, some a, some b => some ⟨i, a, b, o⟩
    | _, _, _ => none
  | _ => none

def isErrTok (s : String) : Bool :=
  s = "conflict" || s = "constraint" || s = "notfound" || s = "type" || s = "other"

/-- outcome classes that no statement of a well-formed case may produce: the call failed for internal reasons -/
def isInternal (s : String) : Bool :=
  s = "notfound" || s = "type" || s = "other" || s = "ddl" || s.startsWith "?"

def fillRows (f : Fill) : List (List (List Val)) :=
  let pad := String.ofList (List.replicate f.pad 'x')
  let rec go (i : Nat) (fuel : Nat) (cur : List (List Val)) (acc : List (List (List Val))) : List (List (List Val)) :=
    match fuel with
    | 0 => (if cur.isEmpty then acc else cur.reverse :: acc).reverse
    | fuel + 1 =>
      let row := [Val.int (1000 + i), Val.int i, Val.text pad]
      let cur := row :: cur
      if cur.length = 20 then go (i + 1) fuel [] (cur.reverse :: acc) else go (i + 1) fuel cur acc
  go 1 f.n [] []

def setupOpsT (st : TSetup) : List Op :=
  setupOps st.base ++ (st.fills.map (fun f => (fillRows f).map (fun rows => Op.auto (.ins f.table rows)))).flatten

def isSel : Stmt → Bool
  | .sel _ _ => true
  | _ => false

/-- events of one thread: its ops zipped with what was observed; `k` numbers the thread's transactions -/
def eventsOf (i : Nat) : List COp → List OCall → Nat → Nat → Bool → List Ev
  | [], _, _, _, _ => []
  | _ :: _, [], _, _, _ => []
  | op :: ops, c :: cs, k, ka, inTxn =>
    let cur := s!"t{i}x{k}"
    let next := s!"t{i}x{k + 1}"
    match op with
    | .begin =>
      -- `begin` on an open transaction drops it first: the model's `begin` on a new name would leave the old one open,
      -- so the old transaction is rolled back explicitly
      (if inTxn then [⟨c.t0, c.t1, cur, Op.rollback cur, none, true, false, false⟩] else []) ++
      ⟨c.t0, c.t1, next, Op.begin next, some c.out, false, false, false⟩ :: eventsOf i ops cs (k + 1) ka true
    | .commit =>
      ⟨c.t0, c.t1, if inTxn then cur else next, Op.commit (if inTxn then cur else next), some c.out, true, false, c.out == "ok"⟩ ::
        eventsOf i ops cs k ka false
    | .rollback =>
      ⟨c.t0, c.t1, if inTxn then cur else next, Op.rollback (if inTxn then cur else next), some c.out, true, false, false⟩ ::
        eventsOf i ops cs k ka false
    | .flush => eventsOf i ops cs k ka inTxn
    | .subq _ => eventsOf i ops cs k ka inTxn
    | .exec st =>
      ⟨c.t0, c.t1, if inTxn then cur else next, Op.exec (if inTxn then cur else next) st, some c.out, false,
        !isSel st && c.out != "ok0" && !isErrTok c.out, false⟩ :: eventsOf i ops cs k ka inTxn
    | .auto st =>
      -- an autocommit call is a transaction of its own; an open session transaction of the thread stays open
      let a := s!"t{i}a{ka}"
      let evs : List Ev :=
        if c.out == "conflict" then
          [⟨c.t0, c.t1, a, Op.begin a, none, false, false, false⟩, ⟨c.t0, c.t1, a, Op.exec a st, none, false, true, false⟩,
           ⟨c.t0, c.t1, a, Op.commit a, some "conflict", true, false, false⟩]
        else if isErrTok c.out then
          [⟨c.t0, c.t1, a, Op.begin a, none, false, false, false⟩, ⟨c.t0, c.t1, a, Op.exec a st, some c.out, false, false, false⟩,
           ⟨c.t0, c.t1, a, Op.rollback a, none, true, false, false⟩]
        else
          [⟨c.t0, c.t1, a, Op.begin a, none, false, false, false⟩,
           ⟨c.t0, c.t1, a, Op.exec a st, some c.out, false, !isSel st && c.out != "ok0", false⟩,
           ⟨c.t0, c.t1, a, Op.commit a, some "ok", true, false, true⟩]
      evs ++ eventsOf i ops cs k (ka + 1) inTxn

def maxTicket (cs : List OCall) : Nat := cs.foldl (fun m c => max m c.t1) 0

/-- the harness reads the final contents after every client thread has finished -/
def finalEvents (base : Nat) : List (String × String) → Nat → List Ev
  | [], _ => []
  | (t, rows) :: rest, k =>
    let a := s!"final{k}"
    [⟨base + 2 * k + 1, base + 2 * k + 2, a, Op.begin a, none, false, false, false⟩,
     ⟨base + 2 * k + 1, base + 2 * k + 2, a, Op.exec a (.sel t none), some rows, false, false, false⟩,
     ⟨base + 2 * k + 1, base + 2 * k + 2, a, Op.commit a, some "ok", true, false, false⟩] ++ finalEvents base rest (k + 1)

/-- the initial rows are in the committed database before any client thread starts: events of a pseudo thread whose
    calls precede every ticket -/
def setupEvents (ops : List Op) : List Ev :=
  ops.map (fun op => ⟨0, 0, "setup", op, none, false, false, false⟩)

def threadIds (ops : List (Nat × COp)) : List Nat :=
  ops.foldl (fun acc o => if acc.contains o.1 then acc else acc ++ [o.1]) []

def parseFinal (w : String) : Option (String × String) :=
  match w.splitOn "=" with
  | [t, rows] => some (t, rows)
  | _ => none

/-! ### conflict-freedom of a case (decides whether a serial order is demanded) -/

def stmtTable : Stmt → String
  | .sel t _ => t | .ins t _ => t | .upd t _ _ _ _ => t | .del t _ => t

def copStmt : COp → Option Stmt
  | .exec st => some st | .auto st => some st | _ => none

def writesOf (ops : List COp) : List String :=
  (ops.filterMap copStmt).filterMap (fun st => if isSel st then none else some (stmtTable st))

def touchesOf (ops : List COp) : List String := (ops.filterMap copStmt).map stmtTable

/-- every thread that writes touches only tables that no other writing thread touches; read-only threads are free -/
def conflictFree (progs : List (List COp)) : Bool :=
  let writers := progs.filter (fun p => !(writesOf p).isEmpty)
  let rec go : List (List COp) → Bool
    | [] => true
    | p :: rest => rest.all (fun q => !(touchesOf p).any (fun t => (touchesOf q).contains t)) && go rest
  go writers

/-- statement-level family (Thm/C14 `statements_on_other_tables_do_not_interfere`, `statements_on_different_tables_commute`):
    every thread issues autocommit `SELECT` / `INSERT` / `DELETE` statements only, and no table is touched by two threads -/
def disjointAuto (progs : List (List COp)) : Bool :=
  progs.all (fun p => p.all (fun o => match o with
    | .auto (.upd _ _ _ _ _) => false
    | .auto _ => true
    | _ => false)) &&
  (let rec go : List (List COp) → Bool
    | [] => true
    | p :: rest => rest.all (fun q => !(touchesOf p).any (fun t => (touchesOf q).contains t)) && go rest
   go progs)

/-- what thread `p` must have observed if its statements had run alone on the initial database, and what its tables
    must contain at the end: by the theorems above, in every interleaving with the other threads -/
def aloneOk (st : TSetup) (p : List COp) (cs : List OCall) (fins : List (String × String)) : Bool :=
  let stmts := p.filterMap copStmt
  let mine := (touchesOf p).eraseDups
  let finalOps := mine.map (fun t => Op.auto (.sel t none))
  let outs := (Spec.run st.base.tables (setupOpsT st ++ stmts.map Op.auto ++ finalOps)).2.drop (setupOpsT st).length
  let expected := (cs.map (·.out)) ++ mine.map (fun t => (fins.find? (fun f => f.1 == t)).map (·.2) |>.getD "?")
  outs.map showOutA == expected

def budget : Nat := 8000

def judge (line : String) : String :=
  match line.splitOn " ==> " with
  | [caseS, obsS] =>
    match parseCase caseS with
    | none => "bad-op"
    | some (st, ops) =>
      if hasDup (st.base.tables.map (·.name)) then "bad-setup"
      else if ops.any (fun o => match o.2 with | .subq t => !(st.base.tables.map (·.name)).contains t | _ => false) then "bad-op"
      else
        let obsS := (obsS.splitOn " ## ").headD ""
        if obsS.startsWith "hang" then "bad hang"
        else if obsS.startsWith "panic@" then "bad panic"
        else if obsS.startsWith "abort" then "bad abort"
        else if obsS.startsWith "protocol:" then "bad protocol-violation " ++ ((words obsS).headD "")
        else match obsS.splitOn " | " with
          | [callsS, finS] =>
            match words callsS with
            | [] => "bad malformed-observation"
            | kind :: callWs =>
              if kind != "run" && kind != "interr" then "bad malformed-observation " ++ kind
              else match allSome (callWs.map parseOCall), allSome ((words finS).map parseFinal) with
                | some calls, some fins =>
                  let tids0 := threadIds ops
                  let paired := (tids0.map (fun i => ((ops.filter (·.1 == i)).map (·.2)).zip (calls.filter (·.thread == i)))).flatten
                  let mustFail (o : COp) : Bool := match o with | .subq _ => true | _ => false
                  match paired.find? (fun (o, c) => if mustFail o then c.out != "other" else isInternal c.out) with
                  | some (_, c) => s!"bad internal-error t{c.thread}:{c.out}"
                  | none =>
                    match fins.find? (fun f => isInternal f.2 || isErrTok f.2) with
                    | some f => s!"bad internal-error final:{f.1}={f.2}"
                    | none =>
                      let tids := threadIds ops
                      let progs := tids.map (fun i => (ops.filter (·.1 == i)).map (·.2))
                      let perThread := tids.map (fun i => (calls.filter (·.thread == i)))
                      -- every op of every thread must have been answered (flush: by `ok`)
                      let complete := (progs.zip perThread).all (fun (p, cs) => p.length == cs.length)
                      let flushOk := (progs.zip perThread).all (fun (p, cs) =>
                        (p.zip cs).all (fun (o, c) => match o with | .flush => c.out == "ok" | _ => true))
                      if !complete then "bad malformed-observation incomplete"
                      else if !flushOk then "bad internal-error flush"
                      else if fins.map (·.1) != st.base.tables.map (·.name) then "bad malformed-observation finals"
                      else
                        let evs := ((tids.zip progs).zip perThread).map (fun ((i, p), cs) => eventsOf i p cs 0 0 false)
                        let pending : Pending := setupEvents (setupOpsT st) :: evs ++ [finalEvents (maxTicket calls) fins 0]
                        let cat := st.base.tables
                        match findSchedule showOutA cat budget pending with
                        | none =>
                          let pr := greedyProbe showOutA (effectFree pending) (totalEvents pending) (Spec.State.init cat) pending 0
                          let stuck := joinWith "," (pr.2.map (fun h => s!"{h.2.txn}@{h.2.t0}-{h.2.t1}"))
                          let why := s!" ## greedy-placed={pr.1}/{totalEvents pending} pending-heads={stuck}"
                          if searchExhaustedBudget showOutA cat budget pending then "bad not-serialisable search-budget-exhausted" ++ why
                          else "bad not-serialisable" ++ why
                        | some sched =>
                          if !verify showOutA cat pending sched then "bad not-serialisable verify"
                          else
                            let serial := verifySerial showOutA cat pending (serialSchedule pending sched)
                            let cf := conflictFree progs
                            let da := disjointAuto progs
                            let alone := !da || (progs.zip perThread).all (fun (p, cs) => aloneOk st p cs fins)
                            if cf && !serial then "bad not-serial"
                            else if !alone then "bad not-alone"
                            else s!"ok ## events={totalEvents pending} serial={serial} conflictfree={cf} disjointauto={da}"
                | _, _ => "bad malformed-observation"
          | _ => "bad malformed-observation"
  | _ => "bad-op"

end AxVerif.Db.ThreadsDrv

namespace AxVerif.Drivers

def threads (_flags : List String) (line : String) : String := AxVerif.Db.ThreadsDrv.judge line

end AxVerif.Drivers
