/- Line-protocol driver for engine `vacuum` — not built yet (stub). -/
namespace AxVerif.Drivers

def vacuum (_flags : List String) (_line : String) : String := "unimplemented"

end AxVerif.Drivers
