/-
  Line-protocol driver for engine `vacuum` (C13).

  Case (1):  vac <setup…> | <op> ; <op> ; …
     setup and the session / statement ops are those of engine `hist` (see Driver/Hist.lean), plus
       vac        Database::vacuum                                   → `vac`
       vacchk     SELECT * of every table; VACUUM; the same SELECTs  → `vac(same)` | `PROPFAIL-vac-changed(<before>-><after>)`
       reopen     every open session dropped, handle dropped, Database::open → `reopen`
     an operation of a session that was open when a VACUUM ran ("killed") must fail: `nosession` (whatever the error);
     if it answers: `PROPFAIL-killed-session-answered(<token>)`.
     Output: one token per op, ` | `, `<table>=[rows]` for every table (final committed state).
  Case (2):  cycles rows=<n> cycles=<c> reopen=<k> how=auto|sess|batch|rbk
     n rows, then c times (UPDATE every row; VACUUM), reopen after every k-th cycle (0 = never)
     → `bounded rows=<n> wrong=<rows whose value is not c> probe=ok` | `PROPFAIL growth …`
  Flags: the field names of `Db.Defects` and of `Db.VDefects`.
-/
import AxVerif.Model.Vacuum
import AxVerif.Driver.Hist
namespace AxVerif.Db.VDrv
open AxVerif AxVerif.Db AxVerif.Db.Drv

inductive COp where
  | h (o : Op)
  | vac
  | vacchk
  | reopen

def parseCOp (ws : List String) : Option COp :=
  match ws with
  | ["vac"] => some .vac
  | ["vacchk"] => some .vacchk
  | ["reopen"] => some .reopen
  | _ => (parseOp ws).map COp.h

def parseCase (line : String) : Option (Setup × List COp) :=
  let line := line.trimAscii.toString
  if !line.startsWith "vac " then none
  else match (line.drop 4).toString.splitOn "|" with
    | [setup, ops] =>
      match parseSetup (words setup) {} with
      | none => none
      | some st =>
        let ops := ops.trimAscii.toString
        if ops.isEmpty then some (st, [])
        else (allSome ((ops.splitOn " ; ").map (fun o => parseCOp (words o)))).map (fun os => (st, os))
    | _ => none

def parseV (flags : List String) : VDefects :=
  { vacuumRemovesUncommittedDelete := flags.contains "vacuumRemovesUncommittedDelete",
    vacuumDropsHorizonVersion := flags.contains "vacuumDropsHorizonVersion",
    cleanupForgetsAborted := flags.contains "cleanupForgetsAborted",
    vacuumLeavesSessionsOpen := flags.contains "vacuumLeavesSessionsOpen" }

def vNames : List String :=
  ["vacuumRemovesUncommittedDelete", "vacuumDropsHorizonVersion", "cleanupForgetsAborted", "vacuumLeavesSessionsOpen"]

def isFailure : Out → Bool
  | .stmt (.err _) => true
  | .noSession => true
  | .conflict => true
  | .batchErr _ => true
  | _ => false

def showV : VOut → String
  | .out o => showOut true o
  | .dead o => if isFailure o then "nosession" else "PROPFAIL-killed-session-answered(" ++ showOut true o ++ ")"

/-- SELECT * of every table by autocommit statements -/
def selectAll (D : Defects) (V : VDefects) (tabs : List TableSchema) (τ : VState) : VState × List String :=
  tabs.foldl (fun (acc : VState × List String) t =>
    let r := vstep D V acc.1 (.op (.auto (.sel t.name none)))
    (r.1, acc.2 ++ [t.name ++ "=" ++ showV r.2])) (τ, [])

def runOps (D : Defects) (V : VDefects) (tabs : List TableSchema) : VState → List COp → List String → VState × List String
  | τ, [], acc => (τ, acc.reverse)
  | τ, .h o :: os, acc =>
    let r := vstep D V τ (.op o)
    runOps D V tabs r.1 os (showV r.2 :: acc)
  | τ, .vac :: os, acc => runOps D V tabs (vstep D V τ .vacuum).1 os ("vac" :: acc)
  | τ, .reopen :: os, acc => runOps D V tabs (vstep D V τ .reopen).1 os ("reopen" :: acc)
  | τ, .vacchk :: os, acc =>
    let (τ1, before) := selectAll D V tabs τ
    let τ2 := (vstep D V τ1 .vacuum).1
    let (τ3, after) := selectAll D V tabs τ2
    let tok := if before == after then "vac(same)"
      else "PROPFAIL-vac-changed(" ++ joinWith "," before ++ "->" ++ joinWith "," after ++ ")"
    runOps D V tabs τ3 os (tok :: acc)

def runSetup (D : Defects) (V : VDefects) (st : Setup) : Option VState :=
  (setupOps st).foldl (fun (acc : Option VState) o =>
    match acc with
    | none => none
    | some τ =>
      let r := vstep D V τ (.op o)
      match r.2 with
      | .out x => if isFailure x then none else some r.1
      | .dead _ => none) (some (VState.init st.tables))

def runHist (D : Defects) (V : VDefects) (st : Setup) (ops : List COp) : String :=
  match runSetup D V st with
  | none => "bad-setup"
  | some τ0 =>
    let (τ1, toks) := runOps D V st.tables τ0 ops []
    let (_, fin) := selectAll D V st.tables τ1
    s!"{joinWith " " toks} | {joinWith " " fin}"

/-! ### growth family -/

structure Cycles where
  rows : Nat
  cycles : Nat
  reopen : Nat
  how : String

def parseNum (s : String) : Option Nat :=
  match parseInt s with
  | some (.ofNat n) => if n ≤ 100000 then some n else none
  | _ => none

def parseCycles (line : String) : Option Cycles :=
  match words line with
  | ["cycles", a, b, c, d] =>
    if a.startsWith "rows=" && b.startsWith "cycles=" && c.startsWith "reopen=" && d.startsWith "how=" then
      match parseNum (a.drop 5).toString, parseNum (b.drop 7).toString, parseNum (c.drop 7).toString with
      | some n, some cy, some k =>
        let how := (d.drop 4).toString
        if (how = "auto" || how = "sess" || how = "batch" || how = "rbk") && 1 ≤ n && n ≤ 2000 && 1 ≤ cy && cy ≤ 200 then
          some ⟨n, cy, k, how⟩
        else none
      | _, _, _ => none
    else none
  | _ => none

def catCycles : Catalog := [⟨"t", [⟨"k", .big, false, false⟩, ⟨"v", .int, false, false⟩]⟩]

/-- rows k..hi as INSERT batches of 50 -/
def insertBatches (n : Nat) : List Op :=
  let chunks := (List.range ((n + 49) / 50)).map (fun c =>
    (List.range 50).filterMap (fun i => let k := c * 50 + i + 1; if k ≤ n then some [Val.int k, Val.int 0] else none))
  chunks.map (fun rows => Op.auto (.ins "t" rows))

def cycleOps (c : Cycles) (i : Nat) : List Op :=
  let upd : Stmt := .upd "t" "v" true (.int 1) none
  let main : List Op :=
    if c.how = "sess" then [.begin "s1", .exec "s1" upd, .commit "s1"]
    else if c.how = "batch" then
      let half : Int := c.rows / 2
      [.batch [.upd "t" "v" true (.int 1) (some ⟨"k", .le, .int half⟩), .upd "t" "v" true (.int 1) (some ⟨"k", .gt, .int half⟩)]]
    else [.auto upd]
  if c.how = "rbk" then main ++ [.begin "s1", .exec "s1" (.ins "t" [[.int (100000 + i), .int 7]]), .rollback "s1"] else main

def stepAll (D : Defects) (V : VDefects) (τ : VState) (ops : List Op) : VState × Bool :=
  ops.foldl (fun (acc : VState × Bool) o =>
    let r := vstep D V acc.1 (.op o)
    (r.1, acc.2 && (match r.2 with | .out x => !isFailure x | .dead _ => false))) (τ, true)

def runCycles (D : Defects) (V : VDefects) (c : Cycles) : String :=
  let τ0 := (stepAll D V (VState.init catCycles) ([Op.tick] ++ insertBatches c.rows)).1
  let rec go (fuel : Nat) (i : Nat) (τ : VState) (sizes : List Nat) : Option (VState × List Nat) :=
    match fuel with
    | 0 => some (τ, sizes.reverse)
    | fuel + 1 =>
      let (τ1, ok) := stepAll D V τ (cycleOps c i)
      if !ok then none
      else
        let τ2 := (vstep D V τ1 .vacuum).1
        let τ3 := if c.reopen > 0 && i % c.reopen == 0 then (vstep D V τ2 .reopen).1 else τ2
        go fuel (i + 1) τ3 (τ2.db.size :: sizes)
  match go c.cycles 1 τ0 [] with
  | none => "cycle-failed"
  | some (τ, sizes) =>
    let r := vstep D V τ (.op (.auto (.sel "t" none)))
    let content := match r.2 with
      | .out (.stmt (.rows rs)) =>
        let wrong := rs.filter (fun (row : List Val) => row.getD 1 Val.null != Val.int c.cycles)
        s!"rows={rs.length} wrong={wrong.length}"
      | _ => "select-failed"
    let (τp, okp) := stepAll D V r.1 [.auto (.ins "t" [[.int 999999, .int 1]]), .auto (.del "t" (some ⟨"k", .eq, .int 999999⟩))]
    let _ := τp
    let probe := if okp then "probe=ok" else "probe-failed"
    let verdict :=
      if sizes.length ≥ 10 then
        let s3 := sizes.getD 2 0
        let worst := (sizes.drop 9).foldl max 0
        if worst ≤ s3 then "bounded" else s!"PROPFAIL growth cycle3={s3} max-after-cycle10={worst}"
      else "bounded"
    s!"{verdict} {content} {probe} ## sizes={joinWith "," (sizes.map toString)}"

def runLine (flags : List String) (line : String) : String :=
  let D := parseDefects flags
  let V := parseV flags
  if (words line).head? == some "cycles" then
    match parseCycles line with
    | none => "bad-op"
    | some c => runCycles D V c
  else
    match parseCase line with
    | none => "bad-op"
    | some (st, ops) =>
      if hasDup (st.tables.map (·.name)) then "bad-setup"
      else
        let go (fl : List String) : String := runHist (parseDefects fl) (parseV fl) st ops
        let out := go flags
        let known := defectNames ++ vNames
        let fired := (flags.filter known.contains).filter (fun f => go (flags.filter (· != f)) != out)
        if fired.isEmpty then out else out ++ " ## fired=" ++ joinWith "," fired

end AxVerif.Db.VDrv

namespace AxVerif.Drivers

def vacuum (flags : List String) (line : String) : String := AxVerif.Db.VDrv.runLine flags line

end AxVerif.Drivers
