/-
  Line-protocol driver for engine `vacuum` (C13).

  Case (1):  vac <setup…> | <op> ; <op> ; …
     setup and the session / statement ops are those of engine `hist` (see Driver/Hist.lean), plus
       vac        Database::vacuum                                   → `vac`
       vacchk     SELECT * of every table; VACUUM; the same SELECTs  → `vac(same)` | `PROPFAIL-vac-changed(<before>-><after>)`
       reopen     every open session dropped, handle dropped, Database::open → `reopen`
     an operation of a session that was open when a VACUUM ran ("killed") must fail: `nosession` (whatever the error);
     if it answers: `PROPFAIL-killed-session-answered(<token>)`.
     Output: one token per op, ` | `, `<table>=[rows]` for every table (final committed state).
  Case (2):  cycles rows=<n> cycles=<c> reopen=<k> how=auto|sess|batch|rbk
     n rows, then c times (UPDATE every row; VACUUM), reopen after every k-th cycle (0 = never)
     → `bounded rows=<n> wrong=<rows whose value is not c> probe=ok` | `PROPFAIL growth …`
  Flags: the field names of `Db.Defects` and of `Db.VDefects`.
-/
import AxVerif.Model.Vacuum
import AxVerif.Driver.Hist
namespace AxVerif.Db.VDrv
open AxVerif AxVerif.Db AxVerif.Db.Drv

inductive COp where
  | h (o : Op)
  | vac
  | vacchk
  | reopen
  /-- DROP TABLE tmpzz, autocommit (`none`) or in a session -/
  | droptmp (s : Option String)

def parseCOp (ws : List String) : Option COp :=
  match ws with
  | ["vac"] => some .vac
  | ["vacchk"] => some .vacchk
  | ["reopen"] => some .reopen
  | ["db", "droptmp"] => some (.droptmp none)
  | [s, "droptmp"] => if sessName s then some (.droptmp (some s)) else none
  | _ => (parseOp ws).map COp.h

/-- (setup, side table `tmpzz` requested, ops) -/
def parseCase (line : String) : Option (Setup × Bool × List COp) :=
  let line := line.trimAscii.toString
  if !line.startsWith "vac " then none
  else match (line.drop 4).toString.splitOn "|" with
    | [setup, ops] =>
      let ws := words setup
      match parseSetup (ws.filter (· != "tmp")) {} with
      | none => none
      | some st =>
        let ops := ops.trimAscii.toString
        if ops.isEmpty then some (st, ws.contains "tmp", [])
        else (allSome ((ops.splitOn " ; ").map (fun o => parseCOp (words o)))).map (fun os => (st, ws.contains "tmp", os))
    | _ => none

/-- the side table `tmpzz (k BIGINT)` with rows 1, 2 lives outside the model's static catalog; all the driver tracks is
    whether it has been dropped by a committed transaction, and which open sessions have an uncommitted DROP -/
structure Tmp where
  exists_ : Bool := false
  dropped : Bool := false
  pending : List String := []

def parseV (flags : List String) : VDefects :=
  { vacuumRemovesUncommittedDelete := flags.contains "vacuumRemovesUncommittedDelete",
    vacuumDropsHorizonVersion := flags.contains "vacuumDropsHorizonVersion",
    cleanupForgetsAborted := flags.contains "cleanupForgetsAborted",
    vacuumLeavesSessionsOpen := flags.contains "vacuumLeavesSessionsOpen" }

def vNames : List String :=
  ["vacuumRemovesUncommittedDelete", "vacuumDropsHorizonVersion", "cleanupForgetsAborted", "vacuumLeavesSessionsOpen"]

def isFailure : Out → Bool
  | .stmt (.err _) => true
  | .noSession => true
  | .refused _ => true
  | .batchErr _ => true
  | _ => false

def showV : VOut → String
  | .out o => showOut true o
  | .dead o => if isFailure o then "nosession" else "PROPFAIL-killed-session-answered(" ++ showOut true o ++ ")"

/-- SELECT * of every table by autocommit statements -/
def selectAll (D : Defects) (V : VDefects) (tabs : List TableSchema) (tmp : Tmp) (τ : VState) : VState × List String :=
  let r := tabs.foldl (fun (acc : VState × List String) t =>
    let r := vstep D V acc.1 (.op (.auto (.sel t.name none)))
    (r.1, acc.2 ++ [t.name ++ "=" ++ showV r.2])) (τ, [])
  if !tmp.exists_ then r
  else if tmp.dropped then
    -- a failing autocommit statement: its transaction is aborted
    let q := vstep D V r.1 (.op (.auto (.sel "tmpzz" none)))
    (q.1, r.2 ++ ["tmpzz=" ++ showV q.2])
  else ((vstep D V r.1 (.op .tick)).1, r.2 ++ ["tmpzz=[1;2]"])

def runOps (D : Defects) (V : VDefects) (tabs : List TableSchema) :
    VState → Tmp → List COp → List String → VState × Tmp × List String
  | τ, tmp, [], acc => (τ, tmp, acc.reverse)
  | τ, tmp, .h o :: os, acc =>
    let r := vstep D V τ (.op o)
    let tok := showV r.2
    let tmp' : Tmp := match o with
      | .commit s => if tmp.pending.contains s then { tmp with pending := tmp.pending.filter (· != s), dropped := tmp.dropped || tok == "ok" } else tmp
      | .rollback s | .drop s | .begin s => { tmp with pending := tmp.pending.filter (· != s) }
      | _ => tmp
    runOps D V tabs r.1 tmp' os (tok :: acc)
  | τ, tmp, .vac :: os, acc => runOps D V tabs (vstep D V τ .vacuum).1 { tmp with pending := [] } os ("vac" :: acc)
  | τ, tmp, .reopen :: os, acc => runOps D V tabs (vstep D V τ .reopen).1 { tmp with pending := [] } os ("reopen" :: acc)
  | τ, tmp, .vacchk :: os, acc =>
    let (τ1, before) := selectAll D V tabs tmp τ
    let τ2 := (vstep D V τ1 .vacuum).1
    let (τ3, after) := selectAll D V tabs tmp τ2
    let tok := if before == after then "vac(same)"
      else "PROPFAIL-vac-changed(" ++ joinWith "," before ++ "->" ++ joinWith "," after ++ ")"
    runOps D V tabs τ3 { tmp with pending := [] } os (tok :: acc)
  | τ, tmp, .droptmp none :: os, acc =>
    if tmp.exists_ && !tmp.dropped then
      runOps D V tabs (vstep D V τ (.op .tick)).1 { tmp with dropped := true } os ("ddl" :: acc)
    else
      let r := vstep D V τ (.op (.auto (.sel "tmpzz" none)))
      runOps D V tabs r.1 tmp os (showV r.2 :: acc)
  | τ, tmp, .droptmp (some s) :: os, acc =>
    let τ' := (vstep D V τ (.op .nop)).1
    match lookup s τ.db.sessions with
    | Option.none => runOps D V tabs τ' tmp os ("nosession" :: acc)
    | some _ =>
      if tmp.exists_ && !tmp.dropped then
        if τ.killed.contains s then runOps D V tabs τ' tmp os ("PROPFAIL-killed-session-answered(ddl)" :: acc)
        else runOps D V tabs τ' { tmp with pending := s :: tmp.pending } os ("ddl" :: acc)
      else runOps D V tabs τ' tmp os ((if τ.killed.contains s then "nosession" else "notfound") :: acc)

def runSetup (D : Defects) (V : VDefects) (st : Setup) (tmp : Bool) : Option VState :=
  (setupOps st ++ (if tmp then [Op.tick, Op.tick] else [])).foldl (fun (acc : Option VState) o =>
    match acc with
    | none => none
    | some τ =>
      let r := vstep D V τ (.op o)
      match r.2 with
      | .out x => if isFailure x then none else some r.1
      | .dead _ => none) (some (VState.init st.tables))

def runHist (D : Defects) (V : VDefects) (st : Setup) (tmp : Bool) (ops : List COp) : String :=
  match runSetup D V st tmp with
  | none => "bad-setup"
  | some τ0 =>
    let (τ1, tmp1, toks) := runOps D V st.tables τ0 { exists_ := tmp } ops []
    let (_, fin) := selectAll D V st.tables tmp1 τ1
    s!"{joinWith " " toks} | {joinWith " " fin}"

/-! ### growth family -/

structure Cycles where
  rows : Nat
  cycles : Nat
  reopen : Nat
  how : String

def parseNum (s : String) : Option Nat :=
  match parseInt s with
  | some (.ofNat n) => if n ≤ 100000 then some n else none
  | _ => none

def parseCycles (line : String) : Option Cycles :=
  match words line with
  | ["cycles", a, b, c, d] =>
    if a.startsWith "rows=" && b.startsWith "cycles=" && c.startsWith "reopen=" && d.startsWith "how=" then
      match parseNum (a.drop 5).toString, parseNum (b.drop 7).toString, parseNum (c.drop 7).toString with
      | some n, some cy, some k =>
        let how := (d.drop 4).toString
        if (how = "auto" || how = "sess" || how = "batch" || how = "rbk") && 1 ≤ n && n ≤ 2000 && 1 ≤ cy && cy ≤ 400 then
          some ⟨n, cy, k, how⟩
        else none
      | _, _, _ => none
    else none
  | _ => none

def catCycles : Catalog := [{ name := "t", cols := [⟨"k", .big, false, false⟩, ⟨"v", .int, false, false⟩] }]

/-- rows k..hi as INSERT batches of 50 -/
def insertBatches (n : Nat) : List Op :=
  let chunks := (List.range ((n + 49) / 50)).map (fun c =>
    (List.range 50).filterMap (fun i => let k := c * 50 + i + 1; if k ≤ n then some [Val.int k, Val.int 0] else none))
  chunks.map (fun rows => Op.auto (.ins "t" rows))

def cycleOps (c : Cycles) (i : Nat) : List Op :=
  let upd : Stmt := .upd "t" "v" true (.int 1) none
  let main : List Op :=
    if c.how = "sess" then [.begin "s1", .exec "s1" upd, .commit "s1"]
    else if c.how = "batch" then
      let half : Int := c.rows / 2
      [.batch [.upd "t" "v" true (.int 1) (some ⟨"k", .le, .int half⟩), .upd "t" "v" true (.int 1) (some ⟨"k", .gt, .int half⟩)]]
    else [.auto upd]
  if c.how = "rbk" then main ++ [.begin "s1", .exec "s1" (.ins "t" [[.int (100000 + i), .int 7]]), .rollback "s1"] else main

def stepAll (D : Defects) (V : VDefects) (τ : VState) (ops : List Op) : VState × Bool :=
  ops.foldl (fun (acc : VState × Bool) o =>
    let r := vstep D V acc.1 (.op o)
    (r.1, acc.2 && (match r.2 with | .out x => !isFailure x | .dead _ => false))) (τ, true)

def runCycles (D : Defects) (V : VDefects) (c : Cycles) : String :=
  let τ0 := (stepAll D V (VState.init catCycles) ([Op.tick] ++ insertBatches c.rows)).1
  let rec go (fuel : Nat) (i : Nat) (τ : VState) (sizes : List Nat) : Option (VState × List Nat) :=
    match fuel with
    | 0 => some (τ, sizes.reverse)
    | fuel + 1 =>
      let (τ1, ok) := stepAll D V τ (cycleOps c i)
      if !ok then none
      else
        let τ2 := (vstep D V τ1 .vacuum).1
        let τ3 := if c.reopen > 0 && i % c.reopen == 0 then (vstep D V τ2 .reopen).1 else τ2
        go fuel (i + 1) τ3 (τ2.db.size :: sizes)
  match go c.cycles 1 τ0 [] with
  | none => "cycle-failed"
  | some (τ, sizes) =>
    let r := vstep D V τ (.op (.auto (.sel "t" none)))
    let content := match r.2 with
      | .out (.stmt (.rows rs)) =>
        let wrong := rs.filter (fun (row : List Val) => row.getD 1 Val.null != Val.int c.cycles)
        s!"rows={rs.length} wrong={wrong.length}"
      | _ => "select-failed"
    let (τp, okp) := stepAll D V r.1 [.auto (.ins "t" [[.int 999999, .int 1]]), .auto (.del "t" (some ⟨"k", .eq, .int 999999⟩))]
    let _ := τp
    let probe := if okp then "probe=ok" else "probe-failed"
    let verdict :=
      if sizes.length ≥ 10 then
        let s3 := sizes.getD 2 0
        let worst := (sizes.drop 9).foldl max 0
        if worst ≤ s3 then "bounded" else s!"PROPFAIL growth cycle3={s3} max-after-cycle10={worst}"
      else "bounded"
    s!"{verdict} {content} {probe} ## sizes={joinWith "," (sizes.map toString)}"

def runLine (flags : List String) (line : String) : String :=
  let D := parseDefects flags
  let V := parseV flags
  if (words line).head? == some "cycles" then
    match parseCycles line with
    | none => "bad-op"
    | some c => runCycles D V c
  else
    match parseCase line with
    | none => "bad-op"
    | some (st, tmp, ops) =>
      if hasDup (st.tables.map (·.name)) || st.tables.any (fun t => t.name == "tmpzz" || t.name == "warmupzz") then "bad-setup"
      else
        let go (fl : List String) : String := runHist (parseDefects fl) (parseV fl) st tmp ops
        let out := go flags
        let known := defectNames ++ vNames
        let fired := (flags.filter known.contains).filter (fun f => go (flags.filter (· != f)) != out)
        if fired.isEmpty then out else out ++ " ## fired=" ++ joinWith "," fired

end AxVerif.Db.VDrv

namespace AxVerif.Drivers

def vacuum (flags : List String) (line : String) : String := AxVerif.Db.VDrv.runLine flags line

end AxVerif.Drivers
