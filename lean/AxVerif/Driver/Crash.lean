/- Judge for engine `crash` (C01, C02, C08): `case ==> observation` ↦ `ok` | `bad …`. -/
import AxVerif.Model.Recovery
import AxVerif.Model.Journal
import AxVerif.Driver.Pager
namespace AxVerif.Drivers
open AxVerif AxVerif.Durable AxVerif.Recovery

/-- Page audit of a recovered image: the pager engine's token string (spaces written `~`), judged by C11's proved checker
    (`FileDump.checkWith`: every page owned exactly once by a tree, an overflow chain or the free list) and C10's order checker,
    on an empty state. -/
def pageAuditProblem (pg : String) : Option String :=
  if pg == "-" then none
  else
    match AxVerif.PagerDriver.stepObs {} 0 {} ("r=ok " ++ pg.replace "~" " ") with
    | .ok _ => none
    | .error e => some e

structure Group where
  k : String
  acked : List Nat
  infl : Option Nat
  phDone : String
  phAll : String
  openR : String
  tables : String
  again : String
  probe : String
  nest : String
  pg : String

def field (ws : List String) (name : String) : Option String :=
  match ws.find? (fun w => w.startsWith (name ++ "=")) with
  | some w => some ((w.drop (name.length + 1)).toString)
  | none => none

def parseGroup (s : String) : Option Group :=
  let ws := words s
  match field ws "k", field ws "acked", field ws "infl", field ws "open", field ws "T", field ws "again", field ws "probe" with
  | some k, some a, some i, some o, some t, some ag, some p =>
    let (pd, pa) := match (field ws "ph").map (·.splitOn "/") with
      | some [d, a] => (d, a)
      | _ => ("-", "-")
    match parseNatList a with
    | some acked => some { k := k, acked := acked, infl := i.toNat?, phDone := pd, phAll := pa,
                           openR := o, tables := t, again := ag, probe := p,
                           nest := (field ws "nest").getD "-",
                           pg := (field ws "pg").getD "-" }
    | none => none
  | _, _, _, _, _, _, _ => none

def countChar (c : Char) (s : String) : Nat := (s.toList.filter (· == c)).length

/-- is every element of `a` (with multiplicity) in `b`? -/
def subList (a b : List String) : Bool := (b.foldl (fun acc x => acc.erase x) a).isEmpty

/-- Tolerances = listed findings whose exact symptom the judge accepts when the flag is on. -/
structure Tol where
  flags : List String
def Tol.has (t : Tol) (f : String) : Bool := t.flags.contains f

def inflKind (ops : List Op) (g : Group) : String :=
  match g.infl with
  | none => "idle"
  | some i => match ops[i]? with
    | some .flush => "flush"
    | some .vacuum => "vacuum"
    | some (.auto _) => "auto"
    | some (.batch _) => "batch"
    | some (.sCommit _) => "commit"
    | some (.sRollback _) => "rollback"
    | some _ => "stmt"
    | none => "?"

def judgeGroup0 (crit : String) (tornTol : Bool) (ops : List Op) (ok : List Bool) (tables : List String) (g : Group) : Option String :=
  if g.openR != "ok" then
    if crit == "crash08" then some s!"k={g.k} open={g.openR}" else none
  else
    match parseDump g.tables with
    | none => some s!"k={g.k} unparsable-dump"
    | some got =>
      -- single-threaded stepping: the acknowledged ops are exactly those before the one in flight
      let n := match g.infl with
        | some i => i
        | none => match g.acked.getLast? with | some m => m + 1 | none => 0
      let a := expectedAfter ops ok n
      let dA := diffState tables a got
      let b : Option Diff := match g.infl with
        | some i => if isCommitPoint ops i
            then some (diffState tables (expectedAfter ops (ok.set i true) (i + 1)) got) else none
        | none => none
      -- crash points inside recovery (`done/all:what` per failing point): an interrupted and restarted recovery must
      -- end in the contents of the uninterrupted one
      let nestProblem : Option String :=
        if g.nest == "-" ∨ g.nest.startsWith "ok:" then none
        else
          let bad := (g.nest.splitOn ",").filter (fun e =>
            match e.splitOn ":" with
            | ph :: _ =>
              match ph.splitOn "/" with
              | [d, _] => !(tornTol && 1 ≤ countChar 'D' d && countChar 't' d == 0)
              | _ => true
            | [] => true)
          if bad.isEmpty then none else some s!"k={g.k} inside-recovery={bad.take 3}"
      match crit with
      | "crash01" =>
        let okB := match b with | some dB => dB.lost.isEmpty | none => false
        if dA.lost.isEmpty || okB then nestProblem else some s!"k={g.k} lost={dA.lost}"
      | "crash02" =>
        let okB := match b with | some dB => dB.extra.isEmpty && subList dB.lost dA.lost | none => false
        if dA.extra.isEmpty || okB then none else some s!"k={g.k} extra={dA.extra}"
      | "crash08" =>
        if (pageAuditProblem g.pg).isSome then some s!"k={g.k} page-audit={(pageAuditProblem g.pg).getD ""}"
        else if g.again != "same" then some s!"k={g.k} again={g.again}"
        else if g.probe != "ok" then some s!"k={g.k} probe={g.probe}"
        else nestProblem
      | _ => some "bad-criterion"

/-! Region features of a workload prefix (ops with index ≤ p), used to attribute failures to listed findings. -/

def isCkpt : Op → Bool
  | .flush => true | .vacuum => true | _ => false

/-- session `k` is open just before index `i` (begun, not finished) and has executed a statement. -/
def sessionOpenAt (ops : List Op) (k i : Nat) : Bool :=
  let st := (List.range i).foldl (fun (st : Bool × Bool) j =>
    match ops[j]? with
    | some (Op.sBegin k') => if k' = k then (true, false) else st
    | some (Op.sDml k' _) => if k' = k then (st.1, true) else st
    | some (Op.sCommit k') => if k' = k then (false, false) else st
    | some (Op.sRollback k') => if k' = k then (false, false) else st
    | some (Op.sDrop k') => if k' = k then (false, false) else st
    | _ => st) (false, false)
  st.1 && st.2

def sessionsOf (ops : List Op) : List Nat :=
  ops.filterMap (fun o => match o with | Op.sBegin k => some k | _ => none)

/-- a checkpoint at some index ≤ p ran while a session with work was open -/
def openTxnAtCkpt (ops : List Op) (p : Nat) : Bool :=
  (List.range (p + 1)).any (fun f => match ops[f]? with
    | some o => isCkpt o && (sessionsOf ops).any (fun k => sessionOpenAt ops k f)
    | none => false)

def hasVacuumUpTo (ops : List Op) (p : Nat) : Bool :=
  (List.range (p + 1)).any (fun i => ops[i]? == some Op.vacuum)

def hasDropUpTo (ops : List Op) (p : Nat) : Bool :=
  (List.range (p + 1)).any (fun i => match ops[i]? with
    | some (Op.auto (.drp _)) => true | some (Op.sDml _ (.drp _)) => true | _ => false)

/-- a rolled-back (or dropped) session containing UPDATE or DELETE, finished at an index ≤ p -/
def rolledBackUpdDelUpTo (ops : List Op) (p : Nat) : Bool :=
  (List.range (p + 1)).any (fun i => match ops[i]? with
    | some (Op.sRollback k) | some (Op.sDrop k) =>
      (List.range i).any (fun j => match ops[j]? with
        | some (Op.sDml k' (.upd _ _ _)) => k' == k
        | some (Op.sDml k' (.del _ _)) => k' == k
        | _ => false)
    | _ => false)

/-- … and a checkpoint (acknowledged or in flight) at an index after that rollback and ≤ p: only a checkpoint carries the
    rolled-back UPDATE / DELETE into the file; without one the crash image is the older checkpoint plus the log, in which the
    transaction is a loser, and the recovered contents are judged strictly. -/
def rolledBackUpdDelCheckpointedUpTo (ops : List Op) (p : Nat) : Bool :=
  (List.range (p + 1)).any (fun i => match ops[i]? with
    | some (Op.sRollback k) | some (Op.sDrop k) =>
      (List.range i).any (fun j => match ops[j]? with
        | some (Op.sDml k' (.upd _ _ _)) => k' == k
        | some (Op.sDml k' (.del _ _)) => k' == k
        | _ => false)
      && (List.range (p + 1)).any (fun j => i < j && (match ops[j]? with | some o => isCkpt o | none => false))
    | _ => false)

/-- no checkpoint has been acknowledged yet: the log reaches back to the creation of the tables -/
def noCkptYet (ops : List Op) (acked : List Nat) : Bool :=
  !(acked.any (fun i => match ops[i]? with | some o => isCkpt o | none => false))

def lastIndex (g : Group) : Nat :=
  let m := g.acked.foldl max 0
  match g.infl with | some i => max m i | none => m

/-- Region tolerances for listed findings (DESIGN §4.2): with the flag on, the judge accepts whatever is observed at
    crash points inside the named region, and nothing else. -/
def judgeGroup (crit : String) (tol : Tol) (ops : List Op) (ok : List Bool) (tables : List String) (g : Group) : Option String :=
  match judgeGroup0 crit (tol.has "ckptNotAtomic") ops ok tables g with
  | none => none
  | some why =>
    let kind := inflKind ops g
    let p := lastIndex g
    -- checkpoint not crash-atomic: from the first page write of a checkpoint until its log truncation the stable
    -- image is neither the old nor the new checkpoint (logical redo needs exactly one of them)
    let torn := (kind == "flush" ∨ kind == "vacuum") ∧ 1 ≤ countChar 'D' g.phDone ∧ countChar 't' g.phDone = 0
    if tol.has "ckptNotAtomic" ∧ torn then none
    else if tol.has "ckptWithOpenTxn" ∧ openTxnAtCkpt ops p then none
    else if tol.has "vacuumThenCrash" ∧ hasVacuumUpTo ops p then none
    else if tol.has "dropTableRecovery" ∧ hasDropUpTo ops p then none
    else if tol.has "rolledBackUpdDel" ∧ rolledBackUpdDelCheckpointedUpTo ops p then none
    else if tol.has "logReachesCreation" ∧ noCkptYet ops g.acked then none
    else some s!"{why} during={kind} ph={g.phDone}/{g.phAll}"

/-! ### rule R1 on the real I/O trace

`trace=CCD(0Ll)0+(1LlDDDDtLl)1+…` : `(i` / `)i+` = call / successful return of op `i`, `L`/`l` = log write / log fsync.
Within the window of a commit point the first log write is read as "COMMIT appended", every log fsync as a force,
the return as the acknowledgement; `checkR1` (whose soundness is `acked_commit_is_durable`) must accept. -/

def takeDigits : List Char → List Char × List Char
  | c :: cs => if c.isDigit then let (d, r) := takeDigits cs; (c :: d, r) else ([], c :: cs)
  | [] => ([], [])

def traceEvents (ops : List Op) : Nat → List Char → Option Nat → Bool → List Ev
  | 0, _, _, _ => []
  | _, [], _, _ => []
  | fuel + 1, c :: cs, cur, appendedYet =>
    if c == '(' then
      let (d, r) := takeDigits cs
      traceEvents ops fuel r (String.ofList d).toNat? false
    else if c == ')' then
      let (d, r) := takeDigits cs
      let i := (String.ofList d).toNat?
      match r with
      | '+' :: r' =>
        let evs := match i with
          | some i => if isCommitPoint ops i then
              (if appendedYet then [] else [Ev.append (.commit i)]) ++ [Ev.ack i] else []
          | none => []
        evs ++ traceEvents ops fuel r' none false
      | _ :: r' => traceEvents ops fuel r' none false
      | [] => []
    else if c == 'L' then
      match cur with
      | some i => if isCommitPoint ops i ∧ !appendedYet then Ev.append (.commit i) :: traceEvents ops fuel cs cur true
                  else traceEvents ops fuel cs cur appendedYet
      | none => traceEvents ops fuel cs cur appendedYet
    else if c == 'l' then Ev.force :: traceEvents ops fuel cs cur appendedYet
    else traceEvents ops fuel cs cur appendedYet

/-! ### the journal rule on the real I/O trace

`D<p>` page write, `Ja<b>` journal started for a checkpoint of `b` pages, `J<p>=` / `J<p>!` checkpointed contents of
page `p` saved (the harness compares them with the file at the last `Ja`), `j` journal sync, `Jd` journal marked done,
`d` database file sync, `t` log truncated, `u` journal emptied.  `Journal.accepts` (hypothesis of `restore_returns_checkpoint`) must accept. -/

def digitsToNat (d : List Char) : Nat := ((String.ofList d).toNat?).getD 0

def journalTrace : Nat → List Char → List AxVerif.Journal.Ev → Bool → List AxVerif.Journal.Ev × Bool
  | 0, _, acc, same => (acc.reverse, same)
  | _, [], acc, same => (acc.reverse, same)
  | fuel + 1, c :: cs, acc, same =>
    if c == 'D' then
      let (d, r) := takeDigits cs
      journalTrace fuel r (.write (digitsToNat d) 0 :: acc) same
    else if c == 'J' then
      match cs with
      | 'a' :: r =>
        let (d, r') := takeDigits r
        journalTrace fuel r' (.start (digitsToNat d) :: acc) same
      | 'd' :: r => journalTrace fuel r (.done :: acc) same
      | _ =>
        let (d, r) := takeDigits cs
        match r with
        | '=' :: r' => journalTrace fuel r' (.save (digitsToNat d) :: acc) same
        | _ :: r' => journalTrace fuel r' (.save (digitsToNat d) :: acc) false
        | [] => ((AxVerif.Journal.Ev.save (digitsToNat d) :: acc).reverse, false)
    else if c == 'j' then journalTrace fuel cs (.jsync :: acc) same
    else if c == 'd' then journalTrace fuel cs (.dsync :: acc) same
    else if c == 't' then journalTrace fuel cs (.dropLog :: acc) same
    else if c == 'u' then journalTrace fuel cs (.empty :: acc) same
    else journalTrace fuel cs acc same

def journalProblem (tr : String) : List String :=
  let (evs, same) := journalTrace (tr.length + 1) tr.toList [] true
  (if AxVerif.Journal.accepts evs then [] else
    ["J: the I/O trace breaks the journal rule (a checkpointed page overwritten before its contents were saved and synced, the journal marked done or started over unsynced page writes, or the log dropped before the journal was marked done)"])
  ++ (if same then [] else ["J: a journal entry does not hold the checkpointed contents of its page"])

def traceOfObs (obs : String) : Option String :=
  match obs.splitOn " ## " with
  | [_, diag] => field (words diag) "trace"
  | _ => none

def crash (flags : List String) (line : String) : String :=
  match line.trimAscii.toString.splitOn " ==> " with
  | [cs, obs] =>
    match cs.splitOn " | " with
    | [head, body] =>
      let crit := (words head).headD ""
      match parseOps body with
      | none => "bad-op"
      | some ops =>
        let gating := (obs.splitOn " ## ").headD ""
        if gating == "abort" ∨ gating == "hang" ∨ gating.startsWith "panic@" ∨ gating == "<no-output>" then
          -- the whole case was lost: attributable only to a region feature of the whole workload
          let n := ops.length
          if (flags.contains "vacuumThenCrash" ∧ hasVacuumUpTo ops n) ∨ (flags.contains "dropTableRecovery" ∧ hasDropUpTo ops n)
          then "ok" else s!"bad {gating}"
        else
        match gating.splitOn " | " with
        | [] => "bad empty-observation"
        | first :: groups =>
          let fw := words first
          match field fw "run", field fw "live" with
          | some run, some live =>
            let ok := (run.splitOn ",").map (· == "ok")
            let tables := createdTables ops
            let sortedTables := (tables.toArray.qsort (· < ·)).toList
            let expectLive := render sortedTables (expectedAfter ops ok ops.length)
            let tol : Tol := { flags := flags }
            let livePgProblem : List String :=
              match pageAuditProblem ((field fw "livepg").getD "-") with
              | some e => [s!"live page-audit={e}"]
              | none => []
            let liveProblem : List String := livePgProblem ++
              if live == expectLive ∨ (live == "-" ∧ expectLive == "") then []
              else if tol.has "rolledBackUpdDel" ∧ rolledBackUpdDelUpTo ops ops.length then []
              else [s!"live={live} expected={expectLive}"]
            let problems := groups.filterMap (fun gs =>
              match parseGroup gs with
              | none => some "unparsable-group"
              | some g => judgeGroup crit tol ops ok sortedTables g)
            let r1Problem : List String :=
              if crit == "crash01" then
                match traceOfObs obs with
                | some tr =>
                  if checkR1 (traceEvents ops (tr.length + 1) tr.toList none false) then []
                  else ["R1: a commit was acknowledged without a log force covering its COMMIT record"]
                | none => ["R1: no I/O trace in the observation"]
              else []
            let jProblem : List String :=
              match traceOfObs obs with
              | some tr => journalProblem tr
              | none => ["J: no I/O trace in the observation"]
            let all := liveProblem ++ problems
            -- `bad-hyp`: no crash point shows wrong contents, but a hypothesis of the theorems fails on the real trace
            let hyp := jProblem ++ r1Problem
            let hypThm := if jProblem.isEmpty then "acked_commit_is_durable" else "restore_returns_checkpoint"
            if all.isEmpty then (if hyp.isEmpty then "ok" else s!"bad-hyp {hypThm}: {joinWith "; " hyp}")
            else s!"bad {joinWith "; " ((all ++ hyp).take 6)} (+{(all ++ hyp).length - min (all ++ hyp).length 6} more)"
          | _, _ => "bad unparsable-observation"
    | _ => "bad-op"
  | _ => "bad-op"

end AxVerif.Drivers
