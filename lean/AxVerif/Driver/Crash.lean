/- Line-protocol driver for engine `crash` — not built yet (stub). -/
namespace AxVerif.Drivers

def crash (_flags : List String) (_line : String) : String := "unimplemented"

end AxVerif.Drivers
