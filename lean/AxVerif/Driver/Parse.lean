/- Line-protocol driver for engine `parse` — not built yet (stub). -/
namespace AxVerif.Drivers

def parse (_flags : List String) (_line : String) : String := "unimplemented"

end AxVerif.Drivers
