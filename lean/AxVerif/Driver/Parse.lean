/-
  Line-protocol driver for engine `parse` (C05): expression text -> AST.

  case   := "expr" <hex of the ASCII text>
  answer := "ok " SEXPR | "err"
  SEXPR  := (num N) | (str HEX) | (bool 0|1) | (null) | (id HEX) | (qid HEX HEX) | (pos E) | (neg E) | (not E)
          | (OP E E)   OP = or and eq neq lt gt le ge like notlike plus minus concat mul div mod is isnot
          | (between E E E) | (notbetween E E E) | (in E (list E…)) | (notin E (list E…))
  (HEX of the bytes, `-` for the empty string).  The parser runs on the binding-power table extracted from the code
  (`Generated.parseTable`); the flags put the shipped powers of the prefix operators back.
-/
import AxVerif.Model.Bytes
import AxVerif.Model.Parser
import AxVerif.Generated.Parse
namespace AxVerif.Parser
open AxVerif

def hx (s : List Nat) : String := hexOrDash (s.map UInt8.ofNat)

def binName : BinOp → String
  | .or => "or" | .and => "and" | .eq => "eq" | .neq => "neq" | .lt => "lt" | .gt => "gt" | .le => "le" | .ge => "ge"
  | .like => "like" | .notlike => "notlike" | .plus => "plus" | .minus => "minus" | .concat => "concat"
  | .mul => "mul" | .div => "div" | .mod => "mod" | .is => "is" | .isnot => "isnot"

mutual
def dump : PExpr → String
  | .num i => s!"(num {i})"
  | .str s => s!"(str {hx s})"
  | .bool b => if b then "(bool 1)" else "(bool 0)"
  | .null => "(null)"
  | .ident s => s!"(id {hx s})"
  | .qident t c => s!"(qid {hx t} {hx c})"
  | .un .pos e => s!"(pos {dump e})"
  | .un .neg e => s!"(neg {dump e})"
  | .un .not e => s!"(not {dump e})"
  | .bin op l r => s!"({binName op} {dump l} {dump r})"
  | .between neg e lo hi => s!"({if neg then "notbetween" else "between"} {dump e} {dump lo} {dump hi})"
  | .inList neg e items => s!"({if neg then "notin" else "in"} {dump e} (list{dumpList items}))"

def dumpList : List PExpr → String
  | [] => ""
  | e :: es => " " ++ dump e ++ dumpList es
end

def tableOf (flags : List String) : Table :=
  let t := Generated.parseTable
  let t := if flags.contains "notBindsLooser" then { t with prefixNot := shippedTable.prefixNot } else t
  if flags.contains "unaryBindsLooser" then
    { t with prefixMinus := shippedTable.prefixMinus, prefixPlus := shippedTable.prefixPlus } else t

def step (flags : List String) (line : String) : String :=
  match words line with
  | ["expr", h] =>
    match bytesOfHex h with
    | none => "bad-op"
    | some bs =>
      match lexAll (bs.map (·.toNat)) with
      | none => "err"
      | some ts => match parseExpr (tableOf flags) ts with
        | some e => "ok " ++ dump e
        | none => "err"
  | _ => "bad-op"

end AxVerif.Parser

namespace AxVerif.Drivers
def parse (flags : List String) (line : String) : String := AxVerif.Parser.step flags line
end AxVerif.Drivers
