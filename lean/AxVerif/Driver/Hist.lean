/- Line-protocol driver for engine `hist` — not built yet (stub). -/
namespace AxVerif.Drivers

def hist (_flags : List String) (_line : String) : String := "unimplemented"

end AxVerif.Drivers
