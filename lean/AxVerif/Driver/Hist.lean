/-
  Line-protocol driver for engine `hist` (C04, C03).

  Case:   hist <setup…> | <op> ; <op> ; …
  setup:  tab=<name>(<col>:<type>[!][*],…)   table; types big|int|text, `!` = NOT NULL, `*` = UNIQUE
          row=<table>:<v>,<v>,…              initial committed row (one autocommit INSERT each, in order)
          fresh                              no warm-up transaction (nothing with id > 0 has committed yet)
  op:     s<i> begin | commit | rollback | drop            session control (a session = one transaction)
          s<i> <stmt>                                       statement inside the session's transaction
          db <stmt>                                         Database::execute (autocommit)
          db batch <stmt> & <stmt> & …                      Database::execute_batch
  stmt:   sel <t> [where <col> <cmp> <v>]
          ins <t> <v> <v> … [, <v> <v> …]*                  multi-row INSERT
          upd <t> <col> set|add <v> [where <col> <cmp> <v>]
          del <t> [where <col> <cmp> <v>]
  cmp:    eq ne lt le gt ge        v: decimal integer (|v| ≤ 10^9) | null | 'lowercase'
  Output: one token per op (`ok`, `ok<n>` rows affected, `[r;r;…]` sorted rows, error class, `nosession`,
          `batch(…)`, `batch-<class>`), then ` | ` and the final committed content of every table.
  Flags:  defect names of `Db.Defects`; the pseudo-flag `abs` runs the abstract machine `Db.Spec` instead.
-/
import AxVerif.Model.Db
import AxVerif.Model.Bytes
namespace AxVerif.Db.Drv
open AxVerif AxVerif.Db

def isLower (c : Char) : Bool := 'a' ≤ c && c ≤ 'z'
def isDigit (c : Char) : Bool := '0' ≤ c && c ≤ '9'

def ident (s : String) : Bool :=
  match s.toList with
  | [] => false
  | c :: cs => isLower c && cs.all (fun d => isLower d || isDigit d)

def sessName (s : String) : Bool :=
  match s.toList with
  | 's' :: d :: ds => (d :: ds).all isDigit
  | _ => false

def natOfDigits : List Char → Nat → Nat
  | [], acc => acc
  | c :: cs, acc => natOfDigits cs (acc * 10 + (c.toNat - 48))

/-- canonical decimal: no sign but `-`, no leading zeros, no `-0`, at most 10 digits -/
def parseInt (s : String) : Option Int :=
  let go (ds : List Char) : Option Nat :=
    match ds with
    | [] => none
    | d :: rest =>
      if (d :: rest).all isDigit && (d != '0' || rest.isEmpty) && (d :: rest).length ≤ 10 then
        let n := natOfDigits (d :: rest) 0
        if n ≤ 1000000000 then some n else none
      else none
  match s.toList with
  | '-' :: ds => match go ds with
    | some n => if n = 0 then none else some (-(Int.ofNat n))
    | none => none
  | ds => (go ds).map Int.ofNat

def parseVal (s : String) : Option Val :=
  if s = "null" then some .null
  else match s.toList with
    | '\'' :: rest =>
      match rest.reverse with
      | '\'' :: body => if body.all isLower then some (.text (String.ofList body.reverse)) else none
      | _ => none
    | _ => (parseInt s).map .int

def allSome : List (Option α) → Option (List α)
  | [] => some []
  | none :: _ => none
  | some x :: xs => (allSome xs).map (x :: ·)

def stripFlags : List Char → Bool → Bool → (List Char × Bool × Bool)
  | '!' :: cs, _, u => stripFlags cs true u
  | '*' :: cs, n, _ => stripFlags cs n true
  | cs, n, u => (cs, n, u)

def parseCol (s : String) : Option Col :=
  match s.splitOn ":" with
  | [cn, ty] =>
    let (tyr, nn, un) := stripFlags ty.toList.reverse false false
    let tys := String.ofList tyr.reverse
    if !ident cn then none
    else if tys = "big" then some ⟨cn, .big, nn, un⟩
    else if tys = "int" then some ⟨cn, .int, nn, un⟩
    else if tys = "text" then some ⟨cn, .text, nn, un⟩
    else none
  | _ => none

def colIdx (cols : List Col) (n : String) : Option Nat :=
  (colIndexAux n cols 0).map (·.1)

/-- a key group `a+b` (UNIQUE) or `^a+b` (PRIMARY KEY: also NOT NULL) over the columns of a table -/
def addKeyGroup (ts : TableSchema) (g : String) : Option TableSchema :=
  let (pk, names) := match g.toList with
    | '^' :: rest => (true, (String.ofList rest).splitOn "+")
    | _ => (false, g.splitOn "+")
  match allSome (names.map (colIdx ts.cols)) with
  | none => none
  | some idxs =>
    if idxs.isEmpty then none
    else
      let cols := if pk then ts.cols.zipIdx.map (fun (c, i) => if idxs.contains i then { c with notNull := true } else c)
                  else ts.cols
      some { ts with cols := cols, uniques := ts.uniques ++ [idxs] }

def addKeyGroups (ts : TableSchema) : List String → Option TableSchema
  | [] => some ts
  | g :: gs => match addKeyGroup ts g with
    | some ts' => addKeyGroups ts' gs
    | none => none

/-- `name(col:type[!][*],…[/a+b][/^a])` -/
def parseTable (s : String) : Option TableSchema :=
  match s.splitOn "(" with
  | [name, rest] =>
    match rest.toList.reverse with
    | ')' :: body =>
      if !ident name then none
      else match (String.ofList body.reverse).splitOn "/" with
        | [] => none
        | colsS :: groups =>
          match allSome (colsS.splitOn "," |>.map parseCol) with
          | some cols => if cols.isEmpty then none else addKeyGroups ⟨name, cols, []⟩ groups
          | none => none
    | _ => none
  | _ => none

/-- setup steps executed after the tables exist, in the order given: one autocommit transaction each -/
inductive Item where
  | row (t : String) (vals : List Val)
  /-- constraint added later: `a+b` / `^a+b` by ALTER TABLE ADD CONSTRAINT, `@a+b` by CREATE UNIQUE INDEX,
      `!c` by ALTER COLUMN SET NOT NULL.  The model's catalog is static: it carries the constraint from the start. -/
  | con (t : String)

structure Setup where
  tables : List TableSchema := []
  items : List Item := []
  fresh : Bool := false

def updTable (tables : List TableSchema) (t : String) (f : TableSchema → Option TableSchema) : Option (List TableSchema) :=
  match tables with
  | [] => none
  | ts :: rest =>
    if ts.name = t then (f ts).map (· :: rest)
    else (updTable rest t f).map (ts :: ·)

def applyCon (tables : List TableSchema) (t : String) (c : String) : Option (List TableSchema) :=
  match c.toList with
  | '!' :: rest =>
    updTable tables t (fun ts =>
      match colIdx ts.cols (String.ofList rest) with
      | none => none
      | some i => some { ts with cols := ts.cols.zipIdx.map (fun (c, j) => if j = i then { c with notNull := true } else c) })
  | '@' :: rest => updTable tables t (fun ts => addKeyGroup ts (String.ofList rest))
  | _ => updTable tables t (fun ts => addKeyGroup ts c)

/-- tables are kept in reverse order while parsing -/
def parseSetup : List String → Setup → Option Setup
  | [], st => some { st with tables := st.tables.reverse, items := st.items.reverse }
  | w :: ws, st =>
    if w = "fresh" then parseSetup ws { st with fresh := true }
    else if w.startsWith "tab=" then
      match parseTable (w.drop 4).toString with
      | some t => parseSetup ws { st with tables := t :: st.tables }
      | none => none
    else if w.startsWith "row=" then
      match (w.drop 4).toString.splitOn ":" with
      | [t, vs] => match allSome (vs.splitOn "," |>.map parseVal) with
        | some vals => parseSetup ws { st with items := .row t vals :: st.items }
        | none => none
      | _ => none
    else if w.startsWith "con=" then
      match (w.drop 4).toString.splitOn ":" with
      | [t, c] => match applyCon st.tables t c with
        | some tables => parseSetup ws { st with tables := tables, items := .con t :: st.items }
        | none => none
      | _ => none
    else none

def parseCmp : String → Option CmpOp
  | "eq" => some .eq | "ne" => some .ne | "lt" => some .lt | "le" => some .le | "gt" => some .gt | "ge" => some .ge
  | _ => none

def parsePred : List String → Option (Option Pred)
  | [] => some none
  | ["where", col, op, v] =>
    match parseCmp op, parseVal v with
    | some o, some x => if ident col then some (some ⟨col, o, x⟩) else none
    | _, _ => none
  | _ => none

/-- splits a word list at every occurrence of `sep` -/
def splitWords (sep : String) : List String → List String → List (List String) → List (List String)
  | [], cur, acc => (cur.reverse :: acc).reverse
  | w :: ws, cur, acc => if w = sep then splitWords sep ws [] (cur.reverse :: acc) else splitWords sep ws (w :: cur) acc

def parseStmt : List String → Option Stmt
  | "sel" :: t :: rest => if ident t then (parsePred rest).map (Stmt.sel t) else none
  | "del" :: t :: rest => if ident t then (parsePred rest).map (Stmt.del t) else none
  | "upd" :: t :: col :: how :: v :: rest =>
    if ident t && ident col && (how = "set" || how = "add") then
      match parseVal v, parsePred rest with
      | some x, some p => some (.upd t col (how = "add") x p)
      | _, _ => none
    else none
  | "ins" :: t :: rest =>
    if ident t && !rest.isEmpty then
      let groups := splitWords "," rest [] []
      if groups.any (·.isEmpty) then none
      else match allSome (groups.map (fun g => allSome (g.map parseVal))) with
        | some rows => some (.ins t rows)
        | none => none
    else none
  | _ => none

def parseOp (ws : List String) : Option Op :=
  match ws with
  | "db" :: "batch" :: rest =>
    (allSome ((splitWords "&" rest [] []).map parseStmt)).map Op.batch
  | "db" :: rest => (parseStmt rest).map Op.auto
  | [s, "begin"] => if sessName s then some (.begin s) else none
  | [s, "commit"] => if sessName s then some (.commit s) else none
  | [s, "rollback"] => if sessName s then some (.rollback s) else none
  | [s, "drop"] => if sessName s then some (.drop s) else none
  | s :: rest => if sessName s then (parseStmt rest).map (Op.exec s) else none
  | [] => none

def parseCase (line : String) : Option (Setup × List Op) :=
  let line := line.trimAscii.toString
  if !line.startsWith "hist " then none
  else match (line.drop 5).toString.splitOn "|" with
    | [setup, ops] =>
      match parseSetup (words setup) {} with
      | none => none
      | some st =>
        let ops := ops.trimAscii.toString
        if ops.isEmpty then some (st, [])
        else (allSome ((ops.splitOn " ; ").map (fun o => parseOp (words o)))).map (fun os => (st, os))
    | _ => none

/-! ### rendering -/

def showVal : Val → String
  | .int n => toString n
  | .null => "null"
  | .text s => "'" ++ s ++ "'"

def insertSorted (x : String) : List String → List String
  | [] => [x]
  | y :: ys => if x ≤ y then x :: y :: ys else y :: insertSorted x ys

def sortStrings (xs : List String) : List String := xs.foldr insertSorted []

def showErr : Err → String
  | .conflict => "conflict" | .constraint => "constraint" | .notfound => "notfound" | .type => "type" | .other => "other"

def showRowsWith (sort : Bool) (rs : List (List Val)) : String :=
  let xs := rs.map (fun r => joinWith "," (r.map showVal))
  "[" ++ joinWith ";" (if sort then sortStrings xs else xs) ++ "]"

def showS (sort : Bool) : SOut → String
  | .okN n => s!"ok{n}"
  | .rows rs => showRowsWith sort rs
  | .err e => showErr e

def showOut (sort : Bool) : Out → String
  | .ok => "ok"
  | .stmt o => showS sort o
  | .refused e => showErr e
  | .noSession => "nosession"
  | .batchErr e => "batch-" ++ showErr e
  | .batch outs => "batch(" ++ joinWith " " (outs.map (showS sort)) ++ ")"
  | .none => "-"

def hasDup : List String → Bool
  | [] => false
  | x :: xs => xs.contains x || hasDup xs

def setupOps (st : Setup) : List Op :=
  st.tables.map (fun _ => Op.tick) ++ (if st.fresh then [] else [Op.tick]) ++
    st.items.map (fun it => match it with
      | .row t vals => Op.auto (.ins t [vals])
      | .con _ => Op.tick)

def finalOps (st : Setup) : List Op := st.tables.map (fun t => Op.auto (.sel t.name none))

def anyErr (outs : List Out) : Bool :=
  outs.any (fun o => match o with | .stmt (.err _) => true | .refused _ => true | _ => false)

/-- do the observed committed contents of a table violate one of its constraints?  (decidable `constraintsHold`) -/
def rowsViolate (ts : TableSchema) (rs : List (List Val)) : Bool :=
  !constraintsHold [ts] (rs.zipIdx.map (fun (vals, i) => ⟨(0, i), ts.name, vals⟩))

def propFail (st : Setup) (t : String) (o : Out) : String :=
  match o, st.tables.find? (fun ts => ts.name == t) with
  | .stmt (.rows rs), some ts => if rowsViolate ts rs then "!PROPFAIL:constraint:" ++ t else ""
  | _, _ => ""

/-- a full autocommit read of a table shows committed contents: they are checked against the constraints -/
def showOp (sort : Bool) (st : Setup) (op : Op) (o : Out) : String :=
  match op with
  | .auto (.sel t none) => showOut sort o ++ propFail st t o
  | _ => showOut sort o

def zipShow (sort : Bool) (st : Setup) : List Op → List Out → List String
  | op :: ops, o :: os => showOp sort st op o :: zipShow sort st ops os
  | _, _ => []

def render (sort : Bool) (st : Setup) (ops : List Op) (outs : List Out) : String :=
  let n0 := (setupOps st).length
  let pre := outs.take n0
  if anyErr pre then "bad-setup"
  else
    let rest := outs.drop n0
    let nf := st.tables.length
    let mid := rest.take (rest.length - nf)
    let fin := rest.drop (rest.length - nf)
    let finS := (st.tables.zip fin).map (fun (t, o) => t.name ++ "=" ++ showOut sort o ++ propFail st t.name o)
    s!"{joinWith " " (zipShow sort st ops mid)} | {joinWith " " finS}"

def parseDefects (flags : List String) : Defects :=
  { updateKeepsInserterXmin := flags.contains "updateKeepsInserterXmin",
    writeSetNeverRecorded := flags.contains "writeSetNeverRecorded",
    xmaxNoneSeesAll := flags.contains "xmaxNoneSeesAll",
    ownDeleteWalksDeltas := flags.contains "ownDeleteWalksDeltas",
    deleteKeepsStaleXmax := flags.contains "deleteKeepsStaleXmax",
    deleteMarkSingleSlot := flags.contains "deleteMarkSingleSlot",
    stmtNotAtomicInSession := flags.contains "stmtNotAtomicInSession",
    indexNotMaintainedOnKeyUpdate := flags.contains "indexNotMaintainedOnKeyUpdate",
    indexOneEntryPerKey := flags.contains "indexOneEntryPerKey",
    uniqueNotRecheckedAtCommit := flags.contains "uniqueNotRecheckedAtCommit",
    commitChecksInsertedKeysOnly := flags.contains "commitChecksInsertedKeysOnly",
    createRefusedWhileNameHeld := flags.contains "createRefusedWhileNameHeld" }

def defectNames : List String :=
  ["updateKeepsInserterXmin", "writeSetNeverRecorded", "xmaxNoneSeesAll", "ownDeleteWalksDeltas",
   "deleteKeepsStaleXmax", "deleteMarkSingleSlot", "stmtNotAtomicInSession",
   "indexNotMaintainedOnKeyUpdate", "indexOneEntryPerKey", "uniqueNotRecheckedAtCommit", "commitChecksInsertedKeysOnly",
   "createRefusedWhileNameHeld"]

def runLine (flags : List String) (line : String) : String :=
  match parseCase line with
  | none => "bad-op"
  | some (st, ops) =>
    if hasDup (st.tables.map (·.name)) then "bad-setup"
    else
      let all := setupOps st ++ ops ++ finalOps st
      -- pseudo-flag `nosort`: rows in the model's own (row-id) order, for comparing the two machines list by list
      let sort := !flags.contains "nosort"
      if flags.contains "abs" then render sort st ops (Spec.run st.tables all).2
      else
        let go (fl : List String) : String := render sort st ops (run (parseDefects fl) st.tables all).2
        let out := go flags
        -- non-gating diagnostics: the defect flags this answer depends on (switching one off changes it)
        let fired := (flags.filter defectNames.contains).filter (fun f => go (flags.filter (· != f)) != out)
        if fired.isEmpty then out else out ++ " ## fired=" ++ joinWith "," fired

end AxVerif.Db.Drv

namespace AxVerif.Drivers

def hist (flags : List String) (line : String) : String := AxVerif.Db.Drv.runLine flags line

end AxVerif.Drivers
