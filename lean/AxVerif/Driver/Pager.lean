/-
  Line-protocol driver for engine `pager` (C11), judge mode: the input is `case ==> observation`.

  1. allocator sequences
     case        ::= seq <pagesize> <cache> | op ; op ; …
     op          ::= a | o | d <p> | x <p> | l <p> <q> | f | r
     observation ::= obs <res> h=<first>:<last>:<total> w=<p1+p2…|-> ; …            (one entry per op)
     A case in which d / x / l names a page id >= total_pages (of the model, at that moment) is malformed.
     Verdict `ok` iff every entry is what the allocator model (`Pages.step`, with the defect flags given) produces:
     result, header and the free-list walk (at most total_pages entries).

  3. `iter <pagesize>`: observation `obs oks=<n> then=<a>,<b>,<c>`; `ok` iff `then=none,none,none`.

  2. SQL histories
     case        ::= sql <pagesize> <cache> | op ; op ; …       (ops are not interpreted here, only counted)
     observation ::= obs <step> ; <step> ; …                     (one per op)
     step        ::= r=<res> T=<total> F=<first>:<last> R=<root[c|d],…> [X=<n>] <page token>*
                     (root mark c: the catalog row's creator was rolled back; d: its deleter was rolled back)
     page token  ::= L<id>:<prev>:<next>:<slot>@<p1+p2…>,…   | I<id>:<prev>:<next>:<right>:<left>[@<p1+p2…>],…
                   | O<id>:<next> | B<id>
     Only tokens that changed since the previous step are listed (the driver keeps the page table).
     N=<root,…> names the trees with numeric keys, `K<id>:<k1>,…` gives the keys of all cells of a page of such a tree.
     Verdict `ok` iff after **every** step `checkOwnership` (proved sound in Thm/C11) accepts the dump, C10's `checkTree`
     (proved sound in Thm/C10) accepts every tree with numeric keys, and between
     consecutive steps the file did not grow while the free list of the earlier step was still there, untouched, at the head
     of the later one (reuse before growth).
-/
import AxVerif.Model.Pages
namespace AxVerif.PagerDriver
open AxVerif.Pages AxVerif.BTree

def parseFlags (flags : List String) : Defects :=
  { deallocKeepsNext := flags.contains "deallocKeepsNext",
    dividerSharesChain := flags.contains "dividerSharesChain" }

def num (s : String) : Option Nat :=
  if s.isEmpty || s.length > 7 || !s.all Char.isDigit then none else s.toNat?

def allSome {α : Type} : List (Option α) → Option (List α)
  | [] => some []
  | none :: _ => none
  | some a :: rest => (allSome rest).map (a :: ·)

/-! ### allocator sequences -/

inductive SOp where
  | op (o : Pages.Op)
  | reopen

def parseSOp (s : String) : Option SOp :=
  match s.splitOn " " with
  | ["a"] => some (.op (.alloc false))
  | ["o"] => some (.op (.alloc true))
  | ["d", p] => (num p).map fun p => .op (.dealloc p false)
  | ["x", p] => (num p).map fun p => .op (.dealloc p true)
  | ["l", p, q] => match num p, num q with
    | some p, some q => some (.op (.link p q))
    | _, _ => none
  | ["f"] => some (.op .flush)
  | ["r"] => some .reopen
  | _ => none

def okParams (kind : String) (head : String) : Bool :=
  match head.splitOn " " with
  | [k, ps, c] =>
    k == kind && (ps == "4096" || ps == "8192") &&
      (match num c with | some c => 8 ≤ c && c ≤ 20000 | none => false)
  | _ => false

def joinIds (l : List Nat) : String :=
  if l.isEmpty then "-" else "+".intercalate (l.map toString)

def errStr : Err → String
  | .invalidInput => "EInvalidInput"
  | .invalidData => "EInvalidData"

def outStr : Out → String
  | .page p => s!"p{p}"
  | .ok => "ok"
  | .err e => errStr e

def entryStr (s : Alloc) (o : Out) : String :=
  s!"{outStr o} h={s.first}:{s.last}:{s.total} w={joinIds (freeList s)}"

/-- the op names a page that does not exist: malformed case -/
def outOfRange (s : Alloc) : SOp → Bool
  | .op (.dealloc p _) => decide (s.total ≤ p)
  | .op (.link p q) => decide (s.total ≤ p) || decide (s.total ≤ q)
  | _ => false

/-- model entries for the whole sequence; `none` = malformed -/
def modelSeq (D : Defects) : Alloc → List SOp → Option (List String)
  | _, [] => some []
  | s, op :: ops =>
    if outOfRange s op then none
    else
      let (s', o) := match op with
        | .op o => step D s o
        | .reopen => (flush s, Out.ok)
      match modelSeq D s' ops with
      | some rest => some (entryStr s' o :: rest)
      | none => none

def judgeSeqCase (D : Defects) (c gat : String) : String :=
  let parsed : Option (List SOp) :=
    match c.splitOn " | " with
    | [head, body] =>
      if okParams "seq" head then
        match allSome ((body.splitOn " ; ").map parseSOp) with
        | some ops => if ops.isEmpty || ops.length > 2000 then none else some ops
        | none => none
      else none
    | _ => none
  match parsed.bind (fun ops => modelSeq D Alloc.init ops) with
  | none => if gat = "bad-op" then "ok" else "bad malformed case accepted"
  | some want =>
    if gat = "bad-op" then "bad well-formed case rejected"
    else if !gat.startsWith "obs " then s!"bad implementation failed: {gat.take 60}"
    else
      let got := ((gat.drop 4).toString).splitOn " ; "
      let rec go (i : Nat) : List String → List String → String
        | w :: ws, g :: gs => if w = g then go (i + 1) ws gs else s!"bad op{i} model={w} impl={g}"
        | [], [] => "ok"
        | _, _ => s!"bad op{i} number of observations differs from the number of operations"
      go 0 want got

/-! ### SQL histories -/

def parseChain (s : String) : Option (List Nat) :=
  let s := if s.endsWith "!" then (s.dropEnd 1).toString else s
  if s.isEmpty then some [] else allSome ((s.splitOn "+").map num)

/-- `<slot>@<chain>` -/
def parseLeafCell (s : String) : Option LeafCell :=
  match s.splitOn "@" with
  | [k, c] => match num k, parseChain c with
    | some k, some ch => some { key := k, val := (0, 0), chain := ch }
    | _, _ => none
  | _ => none

/-- `<left>[@<chain>]` -/
def parseIntCell (s : String) : Option IntCell :=
  match s.splitOn "@" with
  | [l] => (num l).map fun l => { left := l, key := 0, chain := [] }
  | [l, c] => match num l, parseChain c with
    | some l, some ch => some { left := l, key := 0, chain := ch }
    | _, _ => none
  | _ => none

def parseCells {α : Type} (f : String → Option α) (s : String) : Option (List α) :=
  if s.isEmpty then some [] else allSome ((s.splitOn ",").map f)

inductive PTok where
  | btree (id : Nat) (p : Page)
  | ovf (id : Nat) (next : Nat)
  | bad (id : Nat)

def parsePageTok (tok : String) : Option PTok :=
  let kind := (tok.take 1).toString
  let rest := (tok.drop 1).toString
  match kind, rest.splitOn ":" with
  | "L", [id, pr, nx, cells] =>
    match num id, num pr, num nx, parseCells parseLeafCell cells with
    | some id, some pr, some nx, some cs => some (.btree id (.leaf pr nx cs))
    | _, _, _, _ => none
  | "I", [id, pr, nx, r, cells] =>
    match num id, num pr, num nx, num r, parseCells parseIntCell cells with
    | some id, some pr, some nx, some r, some cs => some (.btree id (.interior pr nx r cs))
    | _, _, _, _, _ => none
  | "O", [id, nx] => match num id, num nx with
    | some id, some nx => some (.ovf id nx)
    | _, _ => none
  | "B", [id] => (num id).map .bad
  | _, _ => none

structure Tab where
  pages : Array (Option Page) := #[]
  links : Array (Option Nat) := #[]
  /-- keys of all cells of a page (numeric-key trees only) -/
  keys : Array (Option (List Nat)) := #[]

def grow {α : Type} (a : Array (Option α)) (id : Nat) : Array (Option α) :=
  if id < a.size then a else a ++ Array.replicate (id + 1 - a.size) none

def Tab.set (t : Tab) : PTok → Tab
  | .btree id p => { t with pages := (grow t.pages id).setIfInBounds id (some p), links := (grow t.links id).setIfInBounds id none }
  | .ovf id nx => { t with pages := (grow t.pages id).setIfInBounds id none, links := (grow t.links id).setIfInBounds id (some nx) }
  | .bad id => { t with pages := (grow t.pages id).setIfInBounds id none, links := (grow t.links id).setIfInBounds id none }

/-- `K<id>:<k1>,<k2>,…` or `K<id>:!` -/
def parseKeyTok (tok : String) : Option (Nat × Option (List Nat)) :=
  match ((tok.drop 1).toString).splitOn ":" with
  | [id, ks] =>
    match num id with
    | none => none
    | some id =>
      if ks = "!" then some (id, none)
      else if ks.isEmpty then some (id, some [])
      else match allSome ((ks.splitOn ",").map String.toNat?) with
        | some l => some (id, some l)
        | none => none
  | _ => none

def Tab.setKeys (t : Tab) (id : Nat) (ks : Option (List Nat)) : Tab :=
  { t with keys := (grow t.keys id).setIfInBounds id ks }

/-- the page with the real keys put into its cells (`none` if the key list is missing or has the wrong length); the ownership
    tokens list only the leaf cells that have an overflow chain, so leaf cells are rebuilt from the keys -/
def keyedPage (t : Tab) (i : Nat) : Option Page :=
  match (t.pages[i]?).join, (t.keys[i]?).join with
  | some (.leaf pr nx cs), some ks =>
    some (.leaf pr nx ((List.range ks.length).zip ks |>.map fun (slot, k) =>
      { key := k, val := (0, 0), chain := ((cs.find? (·.key = slot)).map (·.chain)).getD [] }))
  | some (.interior pr nx r cs), some ks =>
    if cs.length = ks.length then some (.interior pr nx r ((cs.zip ks).map fun (c, k) => { c with key := k })) else none
  | _, _ => none

/-- C10's checker on the tree below `root`, with the real keys -/
def orderCheck (t : Tab) (root : Nat) : Option String :=
  let d : Dump := { root := root, fuel := t.pages.size + 1, page := fun i => if i = 0 then none else keyedPage t i }
  if checkTree d then none
  else
    some (match treeOf d with
      | none => "no-keys/no-tree"
      | some tr =>
        if !tr.bounded none none then "order/bound"
        else if !tr.sepsAscending then "separators"
        else if !tr.height.isSome then "depth"
        else if !linksOk d 0 (tr.leafList.map (·.1)) then "links"
        else if !levelsLinked d tr then "interior-links"
        else if !tr.noEmptyLeaf then "empty-leaf"
        else "other")

def Tab.toDump (t : Tab) (total first last : Nat) (roots : List Nat) : FileDump :=
  { total := total, firstFree := first, lastFree := last,
    link := fun i => if i = 0 then none else (t.links[i]?).join,
    page := fun i => if i = 0 then none else (t.pages[i]?).join,
    roots := roots }

def field (ws : List String) (pfx : String) : Option String :=
  (ws.find? (·.startsWith pfx)).map (fun w => (w.drop pfx.length).toString)

/-- first page (in id order) that has no owner / more than one, for the diagnostics -/
def firstBadPage (owned : List Nat) (total : Nat) : String :=
  let rec go (fuel p : Nat) : String :=
    match fuel with
    | 0 => "?"
    | fuel + 1 =>
      if p ≥ total then
        (match owned.find? (fun x => x = 0 ∨ x ≥ total) with
         | some x => s!"out-of-range {x}"
         | none => "?")
      else
        let c := owned.count p
        if c = 0 then s!"lost {p}" else if c > 1 then s!"shared {p}" else go fuel (p + 1)
  go total 1

/-- why `checkWith` rejects (diagnostics only) -/
def whyNot (D : Defects) (f : FileDump) : String :=
  match f.trees with
  | none =>
    let badRoot := f.roots.find? fun r => (treeOf (f.dumpOf r)).isNone
    s!"tree {badRoot.getD 0}"
  | some ts =>
    match f.freeWalk with
    | none => s!"free-list {f.firstFree}"
    | some fl =>
      let nodes := (ts.map T.ids).flatten
      let chains := FileDump.chainsOf D f nodes
      match chains.find? (fun c => !FileDump.chainLinked f.link c) with
      | some c => s!"chain {c.headD 0}"
      | none =>
        if FileDump.lastD fl ≠ f.lastFree then s!"free-tail {f.lastFree}"
        else firstBadPage (nodes ++ chains.flatten ++ fl) f.total

structure QSt where
  tab : Tab := {}
  /-- non-gating remarks (C10's checkTree on the trees with numeric keys) -/
  notes : List String := []
  /-- free list and total of the previous step -/
  prevFree : List Nat := []
  prevTotal : Nat := 0
  started : Bool := false

def stepObs (D : Defects) (i : Nat) (st : QSt) (obs : String) : Except String QSt := do
  let ws := (obs.splitOn " ").filter (· ≠ "")
  let need (name : String) : Except String String :=
    match field ws (name ++ "=") with
    | some v => pure v
    | none => throw s!"op{i} missing {name}="
  let r ← need "r"
  if r.startsWith "P" then throw s!"op{i} panic {r.drop 1}"
  match field ws "D=" with
  | some e => throw s!"op{i} dump failed {e}"
  | none => pure ()
  let total ← match num (← need "T") with
    | some n => pure n
    | none => throw s!"op{i} bad T="
  let (first, last) ← match (← need "F").splitOn ":" with
    | [a, b] => match num a, num b with
      | some a, some b => pure (a, b)
      | _, _ => throw s!"op{i} bad F="
    | _ => throw s!"op{i} bad F="
  -- a root may carry a mark: `c` = creator rolled back, `d` = deleter rolled back
  let parseRoot (w : String) : Option (Nat × Bool) :=
    if w.endsWith "d" then (num (w.dropEnd 1).toString).map (·, true)
    else if w.endsWith "c" then (num (w.dropEnd 1).toString).map (·, false)
    else (num w).map (·, false)
  let roots ← match allSome (((← need "R").splitOn ",").map parseRoot) with
    | some l => pure (l.map (·.1))
    | none => throw s!"op{i} bad R="
  let mut tab := st.tab
  for w in ws do
    let k := (w.take 1).toString
    if (k == "L" || k == "I" || k == "O" || k == "B") && !w.contains '=' then
      match parsePageTok w with
      | some t => tab := tab.set t
      | none => throw s!"op{i} malformed page token"
    else if k == "K" && !w.contains '=' then
      match parseKeyTok w with
      | some (id, ks) => tab := tab.setKeys id ks
      | none => throw s!"op{i} malformed key token"
  let f := tab.toDump total first last roots
  if !FileDump.checkWith D f then throw s!"op{i} {whyNot D f}"
  let fl := (f.freeWalk).getD []
  -- reuse before growth: the file must not grow while the free pages of the previous step are all still there, untouched, at
  -- the head of the list (the allocator pops at the head and appends at the tail: a statement that extends the file has
  -- emptied the list first)
  if st.started && total > st.prevTotal && !st.prevFree.isEmpty && st.prevFree.isPrefixOf fl then
    throw s!"op{i} grew-with-free-pages {st.prevFree.headD 0}"
  if st.started && total < st.prevTotal then throw s!"op{i} total-pages-shrank {total}"
  -- C10's checker (keys ordered, separators route, uniform depth, sibling links) on every tree with numeric keys
  let numeric := match field ws "N=" with
    | some v => (v.splitOn ",").filterMap num
    | none => []
  for r in numeric do
    if roots.contains r then
      match orderCheck tab r with
      | some why => throw s!"op{i} checkTree {r} ({why})"
      | none => pure ()
  let notes := st.notes
  pure { tab := tab, notes := notes, prevFree := fl, prevTotal := total, started := true }

def judgeSqlCase (D : Defects) (c gat : String) : String :=
  let nOps : Option Nat :=
    match c.splitOn " | " with
    | [head, body] =>
      if okParams "sql" head then
        let n := (body.splitOn " ; ").length
        if n > 3000 then none else some n
      else none
    | _ => none
  match nOps with
  | none => if gat = "bad-op" then "ok" else "bad malformed case accepted"
  | some n =>
    if gat = "bad-op" then "ok"     -- the op grammar is the engine's business
    else if !gat.startsWith "obs " then s!"bad implementation failed: {gat.take 60}"
    else
      let parts := ((gat.drop 4).toString).splitOn " ; "
      let rec go (i : Nat) (st : QSt) : List String → String
        | [] =>
          if i = n then (if st.notes.isEmpty then "ok" else "ok ## checkTree: " ++ " ".intercalate st.notes)
          else s!"bad number of observations ({i}) differs from the number of operations ({n})"
        | o :: os =>
          match stepObs D i st o with
          | .ok st' => go (i + 1) st' os
          | .error e => "bad " ++ e
      go 0 {} parts

def judge (flags : List String) (line : String) : String :=
  let D := parseFlags flags
  match line.splitOn " ==> " with
  | [c, obs] =>
    let gat := (obs.splitOn " ## ").headD ""
    if c.startsWith "seq " then judgeSeqCase D c gat
    else if c.startsWith "sql " then judgeSqlCase D c gat
    else if c = "iter 4096" || c = "iter 8192" then
      -- the position iterator must end once it has reported an error (KF-C11-iterator-repeats-error)
      match (gat.splitOn " ") with
      | ["obs", oks, thn] =>
        if !oks.startsWith "oks=" then s!"bad unparsable observation"
        else if thn = "then=none,none,none" then "ok"
        else s!"bad iterator goes on after an error: {thn}"
      | _ => s!"bad implementation failed: {gat.take 60}"
    else if gat = "bad-op" then "ok" else "bad unknown case kind"
  | _ => "bad-op"

end AxVerif.PagerDriver

namespace AxVerif.Drivers

def pager (flags : List String) (line : String) : String :=
  AxVerif.PagerDriver.judge flags line.trimAscii.toString

end AxVerif.Drivers
