/- Line-protocol driver for engine `pager` — not built yet (stub). -/
namespace AxVerif.Drivers

def pager (_flags : List String) (_line : String) : String := "unimplemented"

end AxVerif.Drivers
