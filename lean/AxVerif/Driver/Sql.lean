/-
  Line-protocol driver for engine `sql` (C05; reused by C06).

  case   := "sql" DB " ; " STMT (" ; " STMT)*
  DB     := TABLE ("/" TABLE)*            one word, tables are t0, t1, … in this order
  TABLE  := TYS "=" [ROW ("|" ROW)*]      TYS: one letter per column  I=INT B=BIGINT O=BOOL S=TEXT D=DOUBLE U=UINT W=BIGUINT F=FLOAT ; columns are c0, c1, …
  ROW    := VAL ("," VAL)*
  VAL    := "n" | "i"<decimal> | "b0" | "b1" | "t"<hex of the bytes> | "t-" (empty text)
          | "f"<IEEE-754 bits, decimal>        a DOUBLE (in D columns and as a literal compared with them; compare-only)

  STMT (space separated words, prefix notation, every operator has a fixed arity):
    sel (all|distinct) F W g<k> E×k a<k> AGG×k [hv E] P o<k> ORD×k lim(<n>|-) off(<n>|-)
        F   := t<k> | j (inner|left|right|full|cross) F F (- | on E)
             | d F W p<k> E×k                   derived table (SELECT E×k FROM F [WHERE …]) AS r; its columns are c0 … c<k-1>
             | cte F W p<k> E×k | ctes<j> F W p<k> E×k     the same, written WITH w AS (SELECT …) … FROM w AS r; ctes<j>: under the
                                                name of table t<j> (which the statement does not read)
        W   := - | w E
        AGG := cnt* | cnt E | sum E | avg E | min E | max E | cntd E | sumd E | avgd E | mind E | maxd E   (…d = DISTINCT)
        hv E: HAVING (optional word)
        P   := star | p<k> E×k
               In an aggregate query (g<k> or a<k> with k > 0) the columns c<i> of P and of HAVING are those of the
               *aggregate row*: the k group keys, then the aggregates, in this order; `star` = the whole aggregate row.
               The SQL text shows the key expression / the aggregate call in their place.
        ORD := a<pos> | d<pos>                  ascending / descending on output column <pos>
    ins t<k> r<n> E×(n·columns)
    insx t<k> (nolist | l<m> c<i>×m) r<n> v<w> E×(n·w)     INSERT INTO t [(c<i>, …)] VALUES n rows of w values each; unlisted
                                                            columns are NULL; a list with a duplicate or unknown column, or
                                                            w ≠ m (w ≠ columns without a list), is a bind error
    upd t<k> s<m> (c<col> E)×m W
    del t<k> W
  E := n | i<dec> | b0 | b1 | t<hex> | c<k>                      literal / column k of the (joined) input row
     | not E | neg E | pos E | and E E | or E E
     | eq|ne|lt|le|gt|ge E E | add|sub|mul|div|mod E E
     | like E E | nlike E E | isnull E | notnull E | btw E E E | nbtw E E E | in<k> E E×k | nin<k> E E×k
     | case<k> (E E)×k (else E | noelse)            searched CASE: k pairs condition, result
     | casex<k> E (E E)×k (else E | noelse)         simple CASE: operand, k pairs value, result
     | upper E | lower E | length E | ltrim E | rtrim E | cat E E      string functions, `a || b`
     | abs E | ceil E | floor E | round E | nullif E E | coal<k> E×k    ABS … ROUND (DOUBLE results), NULLIF, COALESCE

  answer := OUT (" ; " OUT)*     one per statement
  OUT    := "Rset:" ROWS      no ORDER BY: rows in canonical (sorted) order
          | "Rord:" ROWS      ORDER BY without LIMIT/OFFSET: the answer was sorted under the spec comparator; rows canonical
          | "Rlist:" ROWS     LIMIT/OFFSET present: rows in answer order
          | "A"<n>            rows affected
          | "E"<class>        parse|bind|type|constraint|overflow|divzero|panic|eval|other
          | "-"               not compared: a DML statement before this one failed while executing (what it leaves behind
                              is C03); a statement rejected by the parser or binder (Eparse, Ebind) changes nothing
  ROWS as in DB; a double that is not integral is printed `f<bits>`.
-/
import AxVerif.Model.Bytes
import AxVerif.Model.Sql
import AxVerif.Model.Parser
import AxVerif.Generated.Parse
namespace AxVerif.Sql
open AxVerif

/-! ### what the shipped parser made of the printed text (flags `notBindsLooser`, `unaryBindsLooser`)

The harness prints every expression with minimal parentheses under the documented precedence.  With the shipped
binding powers of the prefix operators the real parser read some of these texts as a different tree.  Under these
flags the model does the same: expression → tokens (documented table) → Pratt parser with the shipped powers →
expression. -/

open AxVerif.Parser in
mutual
def toP : Expr → PExpr
  | .lit .null => .null
  | .lit (.int i) => .num i
  | .lit (.bool b) => .bool b
  | .lit (.text t) => .str t
  | .lit (.rat n _) => .num n
  | .lit (.dbl _) => .null    -- decimal literals are not in the parser model: `reparse` leaves such expressions alone
  | .col i => .ident (99 :: (toString i).toList.map Char.toNat)
  | .not e => .un .not (toP e)
  | .neg e => .un .neg (toP e)
  | .pos e => .un .pos (toP e)
  | .and a b => .bin .and (toP a) (toP b)
  | .or a b => .bin .or (toP a) (toP b)
  | .cmp op a b => .bin (match op with | .eq => .eq | .ne => .neq | .lt => .lt | .le => .le | .gt => .gt | .ge => .ge) (toP a) (toP b)
  | .arith op a b => .bin (match op with | .add => .plus | .sub => .minus | .mul => .mul | .div => .div | .mod => .mod) (toP a) (toP b)
  | .like neg a b => .bin (if neg then .notlike else .like) (toP a) (toP b)
  | .isNull neg e => .bin (if neg then .isnot else .is) (toP e) .null
  | .between neg e lo hi => .between neg (toP e) (toP lo) (toP hi)
  | .inList neg e xs => .inList neg (toP e) (toPList xs)
  | .caseWhen _ => .null      -- not in the parser model: `reparse` leaves expressions with CASE alone
  | .caseOf _ _ => .null
  | .strFn _ _ => .null       -- function calls neither
  | .concat a b => .bin .concat (toP a) (toP b)
  | .nullif _ _ => .null
  | .coalesce _ => .null
def toPList : List Expr → List PExpr
  | [] => []
  | e :: es => toP e :: toPList es
end

open AxVerif.Parser in
mutual
def fromP : PExpr → Option Expr
  | .null => some (.lit .null)
  | .num i => some (.lit (.int i))
  | .bool b => some (.lit (.bool b))
  | .str t => some (.lit (.text t))
  | .ident (99 :: ds) => (String.ofList (ds.map Char.ofNat)).toNat?.map .col
  | .ident _ => none
  | .qident _ _ => none
  | .un .not e => (fromP e).map .not
  | .un .neg e => (fromP e).map .neg
  | .un .pos e => (fromP e).map .pos
  | .bin op a b =>
    match fromP a, fromP b with
    | some x, some y =>
      match op with
      | .and => some (.and x y) | .or => some (.or x y)
      | .eq => some (.cmp .eq x y) | .neq => some (.cmp .ne x y) | .lt => some (.cmp .lt x y)
      | .le => some (.cmp .le x y) | .gt => some (.cmp .gt x y) | .ge => some (.cmp .ge x y)
      | .plus => some (.arith .add x y) | .minus => some (.arith .sub x y) | .mul => some (.arith .mul x y)
      | .div => some (.arith .div x y) | .mod => some (.arith .mod x y)
      | .like => some (.like false x y) | .notlike => some (.like true x y)
      | .is => (match y with | .lit .null => some (.isNull false x) | _ => none)
      | .isnot => (match y with | .lit .null => some (.isNull true x) | _ => none)
      | .concat => some (.concat x y)
    | _, _ => none
  | .between neg e lo hi =>
    match fromP e, fromP lo, fromP hi with
    | some a, some b, some c => some (.between neg a b c)
    | _, _, _ => none
  | .inList neg e xs =>
    match fromP e, fromPList xs with
    | some a, some ys => some (.inList neg a ys)
    | _, _ => none
def fromPList : List PExpr → Option (List Expr)
  | [] => some []
  | e :: es => match fromP e, fromPList es with
    | some x, some xs => some (x :: xs)
    | _, _ => none
end

mutual
def hasCase : Expr → Bool
  | .caseWhen _ | .caseOf _ _ | .strFn _ _ | .lit (.dbl _) | .nullif _ _ | .coalesce _ => true
  | .not e | .neg e | .pos e | .isNull _ e => hasCase e
  | .and a b | .or a b | .cmp _ a b | .arith _ a b | .like _ a b | .concat a b => hasCase a || hasCase b
  | .between _ a b c => hasCase a || hasCase b || hasCase c
  | .inList _ a xs => hasCase a || hasCaseList xs
  | _ => false
def hasCaseList : List Expr → Bool
  | [] => false
  | e :: es => hasCase e || hasCaseList es
end

/-- the tree the parser with table `T` builds from the minimal text of `e` (`e` itself if that fails) -/
def reparse (T : Parser.Table) (e : Expr) : Expr :=
  if hasCase e then e else
  match Parser.parseExpr T (Parser.body Parser.docTable (toP e)) with
  | some p => (fromP p).getD e
  | none => e

def reparseFrom (T : Parser.Table) : From → From
  | .table t => .table t
  | .join k l r on => .join k (reparseFrom T l) (reparseFrom T r) (on.map (reparse T))
  | .derived f w items => .derived (reparseFrom T f) (w.map (reparse T)) (items.map (reparse T))

def reparseStmt (T : Parser.Table) : Stmt → Stmt
  | .select q => .select { q with
      from_ := reparseFrom T q.from_, where_ := q.where_.map (reparse T), groupBy := q.groupBy.map (reparse T),
      aggs := q.aggs.map (fun a => { a with arg := reparse T a.arg }), items := q.items.map (·.map (reparse T)),
      having := q.having.map (reparse T) }
  | .insert t rows => .insert t (rows.map (·.map (reparse T)))
  | .update t sets w => .update t (sets.map (fun s => (s.1, reparse T s.2))) (w.map (reparse T))
  | .delete t w => .delete t (w.map (reparse T))

def shippedParserTable (flags : List String) : Option Parser.Table :=
  if flags.contains "notBindsLooser" || flags.contains "unaryBindsLooser" then
    let t := Generated.parseTable
    let t := if flags.contains "notBindsLooser" then { t with prefixNot := Parser.shippedTable.prefixNot } else t
    some (if flags.contains "unaryBindsLooser" then
      { t with prefixMinus := Parser.shippedTable.prefixMinus, prefixPlus := Parser.shippedTable.prefixPlus } else t)
  else none

/-! ### reading -/

/-! ### DOUBLE values travel as `f<bits>` (IEEE-754 bit pattern, decimal); the model keeps their order key.
    Only integer arithmetic on the bit pattern is used. -/

/-- the integer a double holds, if it holds one of magnitude below 9.2e18: the harness prints such doubles as integers -/
def dblInteger? (bits : Nat) : Option Int :=
  let neg := decide (bits ≥ two63)
  let mag := bits % two63
  let e := mag / 2 ^ 52
  let m := 2 ^ 52 + mag % 2 ^ 52
  let signed : Nat → Int := fun n => if neg then -(n : Int) else (n : Int)
  if mag == 0 then some 0
  else if e == 0 || e == 2047 then none
  else if e ≥ 1075 then
    -- (the harness prints an integral double below 9.2e18 as an integer)
    if e - 1075 ≥ 12 || m * 2 ^ (e - 1075) ≥ 9200000000000000000 then none else some (signed (m * 2 ^ (e - 1075)))
  else
    let sh := 1075 - e
    if sh > 52 then none
    else if m % 2 ^ sh == 0 then some (signed (m / 2 ^ sh)) else none

def valOfWord (w : String) : Option Value :=
  match w.toList with
  | ['n'] => some .null
  | ['b', '0'] => some (.bool false)
  | ['b', '1'] => some (.bool true)
  | 'i' :: rest => (String.ofList rest).toInt?.map .int
  | 't' :: rest => (bytesOfHex (String.ofList rest)).map (fun bs => .text (bs.map (·.toNat)))
  | 'f' :: rest => (String.ofList rest).toNat?.map (fun b => .dbl (dblKeyOfBits b))
  | _ => none

def allSome {α} : List (Option α) → Option (List α)
  | [] => some []
  | none :: _ => none
  | some a :: r => (allSome r).map (a :: ·)

def tyOfChar : Char → Option Ty
  | 'I' => some .int | 'B' => some .bigint | 'O' => some .bool | 'S' => some .text | 'D' => some .double
  | 'U' => some .uint | 'W' => some .biguint | 'F' => some .float
  | _ => none

def parseTable (w : String) : Option TableDef :=
  match w.splitOn "=" with
  | [tys, rows] =>
    match allSome (tys.toList.map tyOfChar) with
    | none => none
    | some tys =>
      if tys.isEmpty then none else
      let rowWords := if rows.isEmpty then [] else rows.splitOn "|"
      match allSome (rowWords.map (fun r => allSome ((r.splitOn ",").map valOfWord))) with
      | none => none
      | some rs => if rs.all (fun r => r.length == tys.length) then some { tys := tys, rows := rs } else none
  | _ => none

def parseDb (w : String) : Option Db := allSome ((w.splitOn "/").map parseTable)

/-- `p<k>` style words -/
def numAfter (pre : String) (w : String) : Option Nat :=
  if w.startsWith pre then (w.drop pre.length).toString.toNat? else none

abbrev P (α : Type) := List String → Option (α × List String)

def cmpOfWord : String → Option CmpOp
  | "eq" => some .eq | "ne" => some .ne | "lt" => some .lt | "le" => some .le | "gt" => some .gt | "ge" => some .ge
  | _ => none

def arithOfWord : String → Option ArithOp
  | "add" => some .add | "sub" => some .sub | "mul" => some .mul | "div" => some .div | "mod" => some .mod
  | _ => none

mutual
def pExpr : Nat → P Expr
  | 0, _ => none
  | _, [] => none
  | fuel + 1, w :: ws =>
    match valOfWord w with
    | some v => some (.lit v, ws)
    | none =>
    match numAfter "c" w with
    | some k => some (.col k, ws)
    | none =>
    match cmpOfWord w, arithOfWord w with
    | some op, _ => (pExpr fuel ws).bind fun (a, r) => (pExpr fuel r).map fun (b, r) => (.cmp op a b, r)
    | _, some op => (pExpr fuel ws).bind fun (a, r) => (pExpr fuel r).map fun (b, r) => (.arith op a b, r)
    | none, none =>
    match w with
    | "not" => (pExpr fuel ws).map fun (a, r) => (.not a, r)
    | "neg" => (pExpr fuel ws).map fun (a, r) => (.neg a, r)
    | "pos" => (pExpr fuel ws).map fun (a, r) => (.pos a, r)
    | "and" => (pExpr fuel ws).bind fun (a, r) => (pExpr fuel r).map fun (b, r) => (.and a b, r)
    | "or" => (pExpr fuel ws).bind fun (a, r) => (pExpr fuel r).map fun (b, r) => (.or a b, r)
    | "like" => (pExpr fuel ws).bind fun (a, r) => (pExpr fuel r).map fun (b, r) => (.like false a b, r)
    | "nlike" => (pExpr fuel ws).bind fun (a, r) => (pExpr fuel r).map fun (b, r) => (.like true a b, r)
    | "isnull" => (pExpr fuel ws).map fun (a, r) => (.isNull false a, r)
    | "notnull" => (pExpr fuel ws).map fun (a, r) => (.isNull true a, r)
    | "upper" => (pExpr fuel ws).map fun (a, r) => (.strFn .upper a, r)
    | "lower" => (pExpr fuel ws).map fun (a, r) => (.strFn .lower a, r)
    | "length" => (pExpr fuel ws).map fun (a, r) => (.strFn .length a, r)
    | "ltrim" => (pExpr fuel ws).map fun (a, r) => (.strFn .ltrim a, r)
    | "rtrim" => (pExpr fuel ws).map fun (a, r) => (.strFn .rtrim a, r)
    | "cat" => (pExpr fuel ws).bind fun (a, r) => (pExpr fuel r).map fun (b, r) => (.concat a b, r)
    | "abs" => (pExpr fuel ws).map fun (a, r) => (.strFn .abs a, r)
    | "ceil" => (pExpr fuel ws).map fun (a, r) => (.strFn .ceil a, r)
    | "floor" => (pExpr fuel ws).map fun (a, r) => (.strFn .floor a, r)
    | "round" => (pExpr fuel ws).map fun (a, r) => (.strFn .round a, r)
    | "nullif" => (pExpr fuel ws).bind fun (a, r) => (pExpr fuel r).map fun (b, r) => (.nullif a b, r)
    | "btw" => (pExpr fuel ws).bind fun (a, r) => (pExpr fuel r).bind fun (b, r) =>
        (pExpr fuel r).map fun (c, r) => (.between false a b c, r)
    | "nbtw" => (pExpr fuel ws).bind fun (a, r) => (pExpr fuel r).bind fun (b, r) =>
        (pExpr fuel r).map fun (c, r) => (.between true a b c, r)
    | _ =>
      match numAfter "casex" w, numAfter "case" w with
      | some k, _ => (pExpr fuel ws).bind fun (x, r) => (pExprs fuel (2 * k) r).bind fun (ps, r) =>
          (pElse fuel r).map fun (e, r) => (.caseOf x (ps ++ [e]), r)
      | none, some k => (pExprs fuel (2 * k) ws).bind fun (ps, r) =>
          (pElse fuel r).map fun (e, r) => (.caseWhen (ps ++ [e]), r)
      | none, none =>
      match numAfter "coal" w with
      | some k => (pExprs fuel k ws).map fun (xs, r) => (.coalesce xs, r)
      | none =>
      match numAfter "nin" w, numAfter "in" w with
      | some k, _ => (pExpr fuel ws).bind fun (a, r) => (pExprs fuel k r).map fun (xs, r) => (.inList true a xs, r)
      | none, some k => (pExpr fuel ws).bind fun (a, r) => (pExprs fuel k r).map fun (xs, r) => (.inList false a xs, r)
      | none, none => none

def pElse : Nat → P Expr
  | 0, _ => none
  | _, "noelse" :: ws => some (.lit .null, ws)
  | fuel + 1, "else" :: ws => pExpr fuel ws
  | _, _ => none

def pExprs : Nat → Nat → P (List Expr)
  | 0, _, _ => none
  | _, 0, ws => some ([], ws)
  | fuel + 1, k + 1, ws =>
    (pExpr fuel ws).bind fun (e, r) => (pExprs fuel k r).map fun (es, r) => (e :: es, r)
end

def joinKindOfWord : String → Option JoinKind
  | "inner" => some .inner | "left" => some .left | "right" => some .right | "full" => some .full
  | "cross" => some .cross | _ => none

def pOn (fuel : Nat) : P (Option Expr)
  | "-" :: ws => some (none, ws)
  | "on" :: ws => (pExpr fuel ws).map fun (e, r) => (some e, r)
  | _ => none

def pWhere (fuel : Nat) : P (Option Expr)
  | "-" :: ws => some (none, ws)
  | "w" :: ws => (pExpr fuel ws).map fun (e, r) => (some e, r)
  | _ => none

def pFrom : Nat → P From
  | 0, _ => none
  | _, [] => none
  | fuel + 1, w :: ws =>
    if w == "j" then
      match ws with
      | k :: ws =>
        match joinKindOfWord k with
        | none => none
        | some k => (pFrom fuel ws).bind fun (l, r) => (pFrom fuel r).bind fun (rr, r) =>
            (pOn (fuel + 1) r).map fun (on, r) => (.join k l rr on, r)
      | [] => none
    else if w == "d" || w == "cte" || (numAfter "ctes" w).isSome then   -- a CTE is its derived table
      (pFrom fuel ws).bind fun (f, r) => (pWhere (fuel + 1) r).bind fun (wh, r) =>
        match r with
        | p :: r => (numAfter "p" p).bind fun np => (pExprs (fuel + 1) np r).map fun (es, r) => (.derived f wh es, r)
        | [] => none
    else (numAfter "t" w).map fun t => (.table t, ws)

def pAgg (fuel : Nat) : P Agg
  | "cnt*" :: ws => some ({ fn := .countStar, arg := .lit .null }, ws)
  | "cnt" :: ws => (pExpr fuel ws).map fun (e, r) => ({ fn := .count, arg := e }, r)
  | "sum" :: ws => (pExpr fuel ws).map fun (e, r) => ({ fn := .sum, arg := e }, r)
  | "avg" :: ws => (pExpr fuel ws).map fun (e, r) => ({ fn := .avg, arg := e }, r)
  | "min" :: ws => (pExpr fuel ws).map fun (e, r) => ({ fn := .min, arg := e }, r)
  | "max" :: ws => (pExpr fuel ws).map fun (e, r) => ({ fn := .max, arg := e }, r)
  | "cntd" :: ws => (pExpr fuel ws).map fun (e, r) => ({ fn := .count, arg := e, distinct := true }, r)
  | "sumd" :: ws => (pExpr fuel ws).map fun (e, r) => ({ fn := .sum, arg := e, distinct := true }, r)
  | "avgd" :: ws => (pExpr fuel ws).map fun (e, r) => ({ fn := .avg, arg := e, distinct := true }, r)
  | "mind" :: ws => (pExpr fuel ws).map fun (e, r) => ({ fn := .min, arg := e, distinct := true }, r)
  | "maxd" :: ws => (pExpr fuel ws).map fun (e, r) => ({ fn := .max, arg := e, distinct := true }, r)
  | _ => none

def pMany {α} (p : P α) : Nat → P (List α)
  | 0, ws => some ([], ws)
  | k + 1, ws => (p ws).bind fun (a, r) => (pMany p k r).map fun (as, r) => (a :: as, r)

def pOrd : P (Nat × Bool)
  | w :: ws =>
    match numAfter "a" w, numAfter "d" w with
    | some k, _ => some ((k, true), ws)
    | none, some k => some ((k, false), ws)
    | none, none => none
  | [] => none

def pOptNat (pre : String) : P (Option Nat)
  | w :: ws =>
    if w == pre ++ "-" then some (none, ws) else (numAfter pre w).map fun n => (some n, ws)
  | [] => none

def pHaving (fuel : Nat) : P (Option Expr)
  | "hv" :: ws => (pExpr fuel ws).map fun (e, r) => (some e, r)
  | ws => some (none, ws)

def pItems (fuel : Nat) : P (Option (List Expr))
  | "star" :: r => some (none, r)
  | p :: r => (numAfter "p" p).bind fun np => (pExprs fuel np r).map fun (es, r) => (some es, r)
  | [] => none

def pSelect (fuel : Nat) : P Select
  | d :: ws =>
    let distinct? : Option Bool := if d == "all" then some false else if d == "distinct" then some true else none
    match distinct? with
    | none => none
    | some distinct =>
    (pFrom fuel ws).bind fun (f, r) =>
    (pWhere fuel r).bind fun (w, r) =>
    match r with
    | g :: r =>
      (numAfter "g" g).bind fun ng =>
      (pExprs fuel ng r).bind fun (keys, r) =>
      match r with
      | a :: r =>
        (numAfter "a" a).bind fun na =>
        (pMany (pAgg fuel) na r).bind fun (aggs, r) =>
        (pHaving fuel r).bind fun (hv, r) =>
        (pItems fuel r).bind fun (items, r) =>
        match r with
        | o :: r =>
          (numAfter "o" o).bind fun no =>
          (pMany pOrd no r).bind fun (ord, r) =>
          (pOptNat "lim" r).bind fun (lim, r) =>
          (pOptNat "off" r).map fun (off, r) =>
            ({ distinct := distinct, from_ := f, where_ := w, groupBy := keys, aggs := aggs, items := items, having := hv,
               orderBy := ord, limit := lim, offset := off }, r)
        | [] => none
      | [] => none
    | [] => none
  | [] => none

def pSet (fuel : Nat) : P (Nat × Expr)
  | c :: ws => (numAfter "c" c).bind fun k => (pExpr fuel ws).map fun (e, r) => ((k, e), r)
  | [] => none

def chunks {α} (n : Nat) : Nat → List α → List (List α)
  | 0, _ => []
  | k + 1, xs => xs.take n :: chunks n k (xs.drop n)

def pStmt (db : Db) (ws : List String) : Option Stmt :=
  let fuel := ws.length + 1
  match ws with
  | "sel" :: r => match pSelect fuel r with
    | some (q, []) => some (.select q)
    | _ => none
  | "ins" :: t :: n :: r =>
    match numAfter "t" t, numAfter "r" n with
    | some t, some n =>
      let ncols := (db.getD t default).tys.length
      match pExprs fuel (n * ncols) r with
      | some (es, []) => some (.insert t (chunks ncols n es))
      | _ => none
    | _, _ => none
  | "insx" :: t :: l :: r =>
    -- insx t<k> (nolist | l<m> c<i>×m) r<n> v<w> E×(n·w): INSERT with a column list and rows of w values; an
    -- ill-formed statement (list or row width) becomes an INSERT of a row of the wrong arity: a bind error
    match numAfter "t" t with
    | none => none
    | some t =>
      let ncols := (db.getD t default).tys.length
      let colsRest : Option (Option (List Nat) × List String) :=
        if l == "nolist" then some (none, r)
        else match numAfter "l" l with
          | none => none
          | some m => match allSome ((r.take m).map (numAfter "c")) with
            | some cs => if cs.length == m then some (some cs, r.drop m) else none
            | none => none
      match colsRest with
      | some (cols, n :: v :: r) =>
        match numAfter "r" n, numAfter "v" v with
        | some n, some w =>
          if w == 0 then none else
          match pExprs fuel (n * w) r with
          | some (es, []) =>
            let rows := chunks w n es
            let full := match cols with
              | none => some rows
              | some cs => allSome (rows.map (expandCols ncols cs))
            (match full with
             | some rs => some (.insert t rs)
             | none => some (.insert t [List.replicate (ncols + 1) (.lit .null)]))
          | _ => none
        | _, _ => none
      | _ => none
  | "upd" :: t :: s :: r =>
    match numAfter "t" t, numAfter "s" s with
    | some t, some m =>
      match pMany (pSet fuel) m r with
      | some (sets, r) => match pWhere fuel r with
        | some (w, []) => some (.update t sets w)
        | _ => none
      | none => none
    | _, _ => none
  | "del" :: t :: r =>
    match numAfter "t" t with
    | some t => match pWhere fuel r with
      | some (w, []) => some (.delete t w)
      | _ => none
    | none => none
  | _ => none

/-! ### printing -/

def natOfBits (f : Float) : Nat := f.toBits.toNat

def showVal : Value → String
  | .null => "n"
  | .int i => s!"i{i}"
  | .bool b => if b then "b1" else "b0"
  | .text s => "t" ++ hexOrDash (s.map UInt8.ofNat)
  | .rat n d =>
    if d != 0 && n % (d : Int) == 0 then s!"i{n / (d : Int)}"
    else s!"f{natOfBits (Float.ofInt n / Float.ofNat d)}"
  | .dbl k =>
    match dblInteger? (dblBitsOfKey k) with
    | some i => s!"i{i}"
    | none => s!"f{dblBitsOfKey k}"

def showRow (r : Row) : String := joinWith "," (r.map showVal)

def insertStr (x : String) : List String → List String
  | [] => [x]
  | y :: ys => if x ≤ y then x :: y :: ys else y :: insertStr x ys

def sortStrs (xs : List String) : List String := (xs.toArray.qsort (· < ·)).toList

def showRows (canonical : Bool) (rs : List Row) : String :=
  let ss := rs.map showRow
  joinWith "|" (if canonical then sortStrs ss else ss)

def showOutcome (s : Stmt) : Outcome → String
  | .error e => "E" ++ e.name
  | .affected n => s!"A{n}"
  | .rows rs =>
    match s with
    | .select q =>
      if q.limit.isSome || q.offset.isSome then "Rlist:" ++ showRows false rs
      else if !q.orderBy.isEmpty then "Rord:" ++ showRows true rs
      else "Rset:" ++ showRows true rs
    | _ => "Rset:" ++ showRows true rs

/-- split the words of a line at the `;` words -/
def splitStmts : List String → List (List String)
  | [] => [[]]
  | w :: ws =>
    match splitStmts ws with
    | cur :: rest => if w == ";" then [] :: cur :: rest else (w :: cur) :: rest
    | [] => [[w]]

def parseDefects (flags : List String) : Defects :=
  { negatedIsOr := flags.contains "negatedIsOr"
    notLikeFalse := flags.contains "notLikeFalse"
    betweenTwoValued := flags.contains "betweenTwoValued"
    inTwoValued := flags.contains "inTwoValued"
    countColCountsNull := flags.contains "countColCountsNull"
    divZeroPanics := flags.contains "divZeroPanics"
    overflowPanics := flags.contains "overflowPanics"
    notBindsLooser := flags.contains "notBindsLooser"
    mergeJoinNullKey := flags.contains "mergeJoinNullKey"
    mergeJoinDropsRight := flags.contains "mergeJoinDropsRight"
    equiKeysUnoriented := flags.contains "equiKeysUnoriented"
    nljEmptyLeftNoPad := flags.contains "nljEmptyLeftNoPad" }

def isDml : Stmt → Bool
  | .select _ => false
  | _ => true

/-- What a *failed* INSERT/UPDATE/DELETE leaves behind is property C03 (statement atomicity), not C05:
    the statements after a failed DML statement are not compared (`-`). -/
def cutAfterFailedDml : List (Bool × String) → List String
  | [] => []
  | (dml, o) :: rest =>
    -- (a statement the parser or the binder rejects was never executed: the comparison goes on)
    if dml && o.startsWith "E" && o != "Ebind" && o != "Eparse" then o :: rest.map (fun _ => "-")
    else o :: cutAfterFailedDml rest

/-- the engine places NULL as the largest value (ASC: last, DESC: first) -/
def nullsFirstOfEngine : Bool := false

def step (D : Defects) (line : String) (shipped : Option Parser.Table := none) : String :=
  match words line with
  | "sql" :: dbw :: ";" :: rest =>
    match parseDb dbw with
    | none => "bad-op"
    | some db =>
      let stmtWords := splitStmts rest
      -- statements are parsed against the table widths of the initial database (DML never changes them)
      match allSome (stmtWords.map (pStmt db)) with
      | none => "bad-op"
      | some stmts =>
        let stmts := match shipped with
          | some T => stmts.map (reparseStmt T)
          | none => stmts
        let outs := execAll D nullsFirstOfEngine db stmts
        joinWith " ; " (cutAfterFailedDml ((stmts.zip outs).map (fun (s, o) => (isDml s, showOutcome s o))))
  | _ => "bad-op"

end AxVerif.Sql

namespace AxVerif.Drivers
def sql (flags : List String) (line : String) : String :=
  AxVerif.Sql.step (AxVerif.Sql.parseDefects flags) line (AxVerif.Sql.shippedParserTable flags)
end AxVerif.Drivers
