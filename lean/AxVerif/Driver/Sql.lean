/- Line-protocol driver for engine `sql` — not built yet (stub). -/
namespace AxVerif.Drivers

def sql (_flags : List String) (_line : String) : String := "unimplemented"

end AxVerif.Drivers
