/-
  Line-protocol driver for engine `ddl` (C15).

  Case:  ddl | <op> ; <op> ; …
  op:    s<i> begin | commit | rollback | drop       session control (as engine `hist`)
         s<i> <stmt>   |   db <stmt>                  statement in the session's transaction / autocommit
         reopen                                       close the database and open it again (open sessions are dropped)
  stmt:  ct <name>(<col>:<type>[!][*][=default],…[/a+b][/^a+b])   CREATE TABLE (`!` NOT NULL, `*` UNIQUE(col), `/a+b` UNIQUE,
                                                                   `/^a+b` PRIMARY KEY; `=d` DEFAULT d, only read by `ac`)
         ci <t> a+b              CREATE UNIQUE INDEX ON t (a, b)
         ak <t> a+b | ak <t> ^a  ALTER TABLE t ADD CONSTRAINT UNIQUE / PRIMARY KEY
         ac <t> <col>:<type>[=default]    ALTER TABLE t ADD COLUMN
         dc <t> <col>            ALTER TABLE t DROP COLUMN
         sn <t> <col> | dn <t> <col>      ALTER COLUMN SET / DROP NOT NULL
         dt <t> | dtc <t>        DROP TABLE | DROP TABLE … CASCADE (the same to the model: a table's indexes are part of it)
         cin <name> <t> a+b      CREATE UNIQUE INDEX <name> ON t (a, b) (the model does not know index names: the generator
                                 uses a name for one live index at a time)
         vacuum                  VACUUM: every open transaction is rolled back (the engine leaks the session objects), no
                                 other logical effect
         audit                   only as the last op: the final observation ends with `ix=<n>`, the number of live index
                                 relations = the number of keys of the live tables
         sel / ins / upd / del   as engine `hist`
  Output: one token per op (`ddl` for a successful DDL statement, otherwise as `hist`), then ` | ` and, for every
          table name mentioned in the case (order of first mention), `<name>=[rows]` or `<name>=notfound`.
  Flags:  the `Defects` of `Db`; pseudo-flags `abs` (abstract machine) and `nosort`.
-/
import AxVerif.Model.Ddl
import AxVerif.Driver.Hist
namespace AxVerif.Ddl.Drv
open AxVerif AxVerif.Db AxVerif.Db.Drv AxVerif.Ddl

/-- `name:type[!][*][=default]` -/
def parseColD (s : String) : Option (Col × Val) :=
  match s.splitOn "=" with
  | [c] => (parseCol c).map (fun x => (x, Val.null))
  | [c, d] => match parseCol c, parseVal d with
    | some x, some v => some (x, v)
    | _, _ => none
  | _ => none

def parseGroup (g : String) : Option (Bool × List String) :=
  let (pk, names) := match g.toList with
    | '^' :: rest => (true, (String.ofList rest).splitOn "+")
    | _ => (false, g.splitOn "+")
  if names.isEmpty || !names.all ident then none else some (pk, names)

def idxOf (cols : List Col) (n : String) : Option Nat := (colIndexAux n cols 0).map (·.1)

/-- key groups of CREATE TABLE applied to the column list: PRIMARY KEY sets NOT NULL -/
def applyGroups (cols : List Col) (uniques : List (List Nat)) : List (Bool × List String) → Option (List Col × List (List Nat))
  | [] => some (cols, uniques)
  | (pk, names) :: gs =>
    match allSomeNat (names.map (idxOf cols)) with
    | none => none
    | some idxs => applyGroups (if pk then setNotNullAt cols idxs true else cols) (uniques ++ [idxs]) gs

def parseCreate (spec : String) : Option DStmt :=
  match spec.splitOn "(" with
  | [name, rest] =>
    match rest.toList.reverse with
    | ')' :: body =>
      if !ident name then none
      else match (String.ofList body.reverse).splitOn "/" with
        | [] => none
        | colsS :: groups =>
          match allSome (colsS.splitOn "," |>.map parseColD), allSome (groups.map parseGroup) with
          | some cds, some gs =>
            if cds.isEmpty then none
            else (applyGroups (cds.map (·.1)) [] gs).map (fun (cols, uniques) => DStmt.createTable name cols uniques)
          | _, _ => none
    | _ => none
  | _ => none

def parseDStmt : List String → Option DStmt
  | ["ct", spec] => parseCreate spec
  | ["ci", t, g] =>
    if !ident t then none
    else match parseGroup g with
      | some (false, names) => some (.addKey t false names)
      | _ => none
  | ["ak", t, g] =>
    if !ident t then none else (parseGroup g).map (fun (pk, names) => .addKey t pk names)
  | ["ac", t, c] => if !ident t then none else (parseColD c).map (fun (col, d) => .addColumn t col d)
  | ["dc", t, c] => if ident t && ident c then some (.dropColumn t c) else none
  | ["sn", t, c] => if ident t && ident c then some (.setNotNull t c) else none
  | ["dn", t, c] => if ident t && ident c then some (.dropNotNull t c) else none
  | ["dt", t] => if ident t then some (.dropTable t) else none
  | ["dtc", t] => if ident t then some (.dropTable t) else none
  | ["cin", n, t, g] =>
    if !ident t || !ident n then none
    else match parseGroup g with
      | some (false, names) => some (.addKey t false names)
      | _ => none
  | ws => (parseStmt ws).map DStmt.dml

def parseDOp (ws : List String) : Option DOp :=
  match ws with
  | ["reopen"] => some (.reopen [])
  | ["vacuum"] => some (.reopen [])   -- VACUUM rolls back every open transaction (the session list is filled in by `runLine`)
  | "db" :: rest => (parseDStmt rest).map DOp.auto
  | [s, "begin"] => if sessName s then some (.begin s) else none
  | [s, "commit"] => if sessName s then some (.commit s) else none
  | [s, "rollback"] => if sessName s then some (.rollback s) else none
  | [s, "drop"] => if sessName s then some (.drop s) else none
  | s :: rest => if sessName s then (parseDStmt rest).map (DOp.exec s) else none
  | [] => none

/-- Well-formedness of index names (the model does not know them; the code refuses a CREATE UNIQUE INDEX whose name is
    taken): a name — explicit (`cin`) or implicit (`ci`: ix<table><cols>) — is used again only after the table it was
    created on has been dropped by an autocommit DROP TABLE or by a session that then commits.  Purely textual, the same
    rule as `index_names_well_formed` in harness/src/engines/ddl.rs.  `live` = (index name, table), `pending` = (session,
    table it dropped). -/
def indexNamesOk : List (List String) → List (String × String) → List (String × String) → Bool
  | [], _, _ => true
  | ws :: rest, live, pending =>
    let create (n t : String) : Bool :=
      if live.any (fun e => e.1 == n) then false else indexNamesOk rest (live ++ [(n, t)]) pending
    match ws with
    | [s, "begin"] => indexNamesOk rest live (pending.filter (fun e => e.1 != s))
    | [s, "rollback"] => indexNamesOk rest live (pending.filter (fun e => e.1 != s))
    | [s, "drop"] => indexNamesOk rest live (pending.filter (fun e => e.1 != s))
    | [s, "commit"] =>
      let dropped := (pending.filter (fun e => e.1 == s)).map (·.2)
      indexNamesOk rest (live.filter (fun e => !dropped.contains e.2)) (pending.filter (fun e => e.1 != s))
    | ["reopen"] => indexNamesOk rest live []
    | [_, "ci", t, g] => create ("ix" ++ t ++ String.join (g.splitOn "+")) t
    | [_, "cin", n, t, _] => create n t
    | ["db", "dt", t] => indexNamesOk rest (live.filter (fun e => e.2 != t)) pending
    | ["db", "dtc", t] => indexNamesOk rest (live.filter (fun e => e.2 != t)) pending
    | [s, "dt", t] => indexNamesOk rest live (pending ++ [(s, t)])
    | [s, "dtc", t] => indexNamesOk rest live (pending ++ [(s, t)])
    | _ => indexNamesOk rest live pending

/-- the ops, and whether the case ends with `audit` -/
def parseCase (line : String) : Option (List DOp × Bool) :=
  let line := line.trimAscii.toString
  if !line.startsWith "ddl |" then none
  else
    let body := (line.drop 5).toString.trimAscii.toString
    if body.isEmpty then some ([], false)
    else
      let parts := body.splitOn " ; "
      let audit := parts.getLast? == some "audit"
      let parts := if audit then parts.dropLast else parts
      if !indexNamesOk (parts.map words) [] [] then none
      else (allSome (parts.map (fun o => parseDOp (words o)))).map (fun ops => (ops, audit))

/-- number of keys (= index relations) of the tables a transaction beginning now resolves -/
def keyCount (h : Heap) (v : View) : Nat :=
  ((catOf h v).drop 1).foldl (fun n ts => n + ts.keySets.length) 0

def stmtTable : DStmt → String
  | .dml st => Stmt.table st
  | .createTable n _ _ => n
  | .addKey t _ _ => t
  | .addColumn t _ _ => t
  | .dropColumn t _ => t
  | .setNotNull t _ => t
  | .dropNotNull t _ => t
  | .dropTable t => t

def tablesOf : List DOp → List String → List String
  | [], acc => acc.reverse
  | op :: ops, acc =>
    match op with
    | .exec _ st | .auto st =>
      let t := stmtTable st
      tablesOf ops (if acc.contains t then acc else t :: acc)
    | _ => tablesOf ops acc

def isDdl : DStmt → Bool
  | .dml _ => false
  | _ => true

def showD (sort : Bool) (op : DOp) (o : Out) : String :=
  match op, o with
  | .exec _ st, .stmt (.okN _) => if isDdl st then "ddl" else showOut sort o
  | .auto st, .stmt (.okN _) => if isDdl st then "ddl" else showOut sort o
  | _, _ => showOut sort o

def zipShowD (sort : Bool) : List DOp → List Out → List String
  | op :: ops, o :: os => showD sort op o :: zipShowD sort ops os
  | _, _ => []

def render (sort : Bool) (ops : List DOp) (tabs : List String) (outs : List Out) : String :=
  let rest := outs.drop 1
  let nf := tabs.length
  let mid := rest.take (rest.length - nf)
  let fin := rest.drop (rest.length - nf)
  let finS := (tabs.zip fin).map (fun (t, o) => t ++ "=" ++ showOut sort o)
  s!"{joinWith " " (zipShowD sort ops mid)} | {joinWith " " finS}"

def runLine (flags : List String) (line : String) : String :=
  match parseCase line with
  | none => "bad-op"
  | some (ops, audit) =>
    let tabs := tablesOf ops []
    -- `reopen` drops every session the case ever names
    let sess := ops.foldl (fun acc op => match op with
      | .begin s => if acc.contains s then acc else acc ++ [s]
      | _ => acc) ([] : List String)
    let ops := ops.map (fun op => match op with
      | .reopen _ => DOp.reopen sess
      | o => o)
    let all := [DOp.tick] ++ ops ++ tabs.map (fun t => DOp.auto (.dml (.sel t none)))
    let sort := !flags.contains "nosort"
    if flags.contains "abs" then
      let r := Spec.run all
      render sort ops tabs r.2 ++ (if audit then s!" ix={keyCount r.1.heap r.1.db.committed}" else "")
    else
      let go (fl : List String) : String :=
        let D := parseDefects fl
        let r := run D all
        render sort ops tabs r.2 ++
          (if audit then s!" ix={keyCount r.1.heap (view D (r.1.db.freshSnap D) r.1.db.rows)}" else "")
      let out := go flags
      let fired := (flags.filter defectNames.contains).filter (fun f => go (flags.filter (· != f)) != out)
      if fired.isEmpty then out else out ++ " ## fired=" ++ joinWith "," fired

end AxVerif.Ddl.Drv

namespace AxVerif.Drivers

def ddl (flags : List String) (line : String) : String := AxVerif.Ddl.Drv.runLine flags line

end AxVerif.Drivers
