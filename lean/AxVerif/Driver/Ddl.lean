/- Line-protocol driver for engine `ddl` — not built yet (stub). -/
namespace AxVerif.Drivers

def ddl (_flags : List String) (_line : String) : String := "unimplemented"

end AxVerif.Drivers
