/- Line-protocol driver for the value model (engine `value`, property C19). -/
import AxVerif.Model.Value
namespace AxVerif.Value
open AxVerif

def parseDefects (flags : List String) : Defects :=
  { blobLenOverflow := flags.contains "blobLenOverflow" }

def i64? (s : String) : Option Int :=
  match s.toInt? with
  | some v => if decide (VarInt.InI64 v) then some v else none
  | none => none

def u64? (s : String) : Option Nat :=
  match s.toNat? with
  | some n => if n < 18446744073709551616 then some n else none
  | none => none

def ordName : Ordering → String
  | .lt => "lt" | .eq => "eq" | .gt => "gt"

def step (D : Defects) (line : String) : String :=
  match words line with
  | ["zz", v] => match i64? v with
    | some v => toString (VarInt.zigzag v)
    | none => "bad-op"
  | ["uzz", u] => match u64? u with
    | some u => toString (VarInt.unzigzag u)
    | none => "bad-op"
  | ["vi.enc", v] => match i64? v with
    | some v =>
      let e := VarInt.encode v
      let rt := match VarInt.decode e with
        | some (v', []) => if v' = v then "rt=ok" else "rt=DIFF"
        | _ => "rt=DIFF"
      s!"{hexOfBytes e} size={VarInt.encodedSize v} {rt}"
    | none => "bad-op"
  | ["vi.dec", h] => match bytesOfHex h with
    | some bs => match VarInt.decode bs with
      | some (v, rest) => s!"ok {v} used={bs.length - rest.length}"
      | none => "err prefix"
    | none => "bad-op"
  | ["vi.read", h] => match bytesOfHex h with
    | some bs => match VarInt.readBuf VarInt.maxLen bs with
      | .ok p => s!"ok {hexOfBytes p}"
      | .error e => s!"err {e.name}"
    | none => "bad-op"
  | ["vi.cmp", a, b] => match bytesOfHex a, bytesOfHex b with
    | some a, some b => match VarInt.decode a, VarInt.decode b with
      | some (x, _), some (y, _) => ordName (compare x y)
      | _, _ => "err prefix"
    | _, _ => "bad-op"
  | ["blob.enc", h] => match bytesOfHex h with
    | some d =>
      let e := Blob.encode d
      let rt := match Blob.decode D e with
        | .ok (d', used, []) => if d' = d ∧ used = e.length then "rt=ok" else "rt=DIFF"
        | _ => "rt=DIFF"
      s!"{hexOfBytes e} {rt}"
    | none => "bad-op"
  | ["blob.dec", h] => match bytesOfHex h with
    | some bs => match Blob.decode D bs with
      | .ok (d, used, _) => s!"ok data={hexOrDash d} used={used}"
      | .error e => s!"err {e.name}"
    | none => "bad-op"
  | ["blob.cmp", a, b] => match bytesOfHex a, bytesOfHex b with
    | some a, some b =>
      let o := Blob.cmp a b
      s!"{ordName o} eq={o == .eq}"
    | _, _ => "bad-op"
  | _ => "bad-op"

end AxVerif.Value

namespace AxVerif.Drivers
def value (flags : List String) (line : String) : String := AxVerif.Value.step (AxVerif.Value.parseDefects flags) line
end AxVerif.Drivers
