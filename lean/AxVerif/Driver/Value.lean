/- Line-protocol driver for engine `value` — not built yet (stub). -/
namespace AxVerif.Drivers

def value (_flags : List String) (_line : String) : String := "unimplemented"

end AxVerif.Drivers
