/- Line-protocol driver for the value model (engine `value`, property C19). -/
import AxVerif.Model.Value
namespace AxVerif.Value
open AxVerif

def parseDefects (flags : List String) : Defects :=
  { blobLenOverflow := flags.contains "blobLenOverflow",
    boolWriteWholeTail := flags.contains "boolWriteWholeTail",
    castSaturates := flags.contains "castSaturates",
    numericViaF64 := flags.contains "numericViaF64",
    nanUnordered := flags.contains "nanUnordered",
    hashRawBits := flags.contains "hashRawBits" }

def i64? (s : String) : Option Int :=
  match s.toInt? with
  | some v => if decide (VarInt.InI64 v) then some v else none
  | none => none

def u64? (s : String) : Option Nat :=
  match s.toNat? with
  | some n => if n < 18446744073709551616 then some n else none
  | none => none

def ordName : Ordering → String
  | .lt => "lt" | .eq => "eq" | .gt => "gt"

def kind? (s : String) : Option Kind := Kind.all.find? (fun k => k.name == s)

/-- value syntax: `n`, `b:0|1`, `i:<dec>` (Int), `I:` (BigInt), `u:` (UInt), `U:` (BigUInt), `f:<bits>`, `d:<bits>`, `x:<hex|->` -/
def value? (s : String) : Option Value :=
  if s = "n" then some .null else
  match s.splitOn ":" with
  | ["b", "0"] => some (.bool false)
  | ["b", "1"] => some (.bool true)
  | ["i", v] => (v.toInt?).bind fun i => if decide (Value.Wf (.int i)) then some (.int i) else none
  | ["I", v] => (v.toInt?).bind fun i => if decide (Value.Wf (.bigint i)) then some (.bigint i) else none
  | ["u", v] => (v.toNat?).bind fun n => if decide (Value.Wf (.uint n)) then some (.uint n) else none
  | ["U", v] => (v.toNat?).bind fun n => if decide (Value.Wf (.biguint n)) then some (.biguint n) else none
  | ["f", v] => (v.toNat?).bind fun n => if decide (Value.Wf (.float n)) then some (.float n) else none
  | ["d", v] => (v.toNat?).bind fun n => if decide (Value.Wf (.double n)) then some (.double n) else none
  | ["x", h] => (bytesOfHex h).map .blob
  | _ => none

def showValue : Value → String
  | .null => "n"
  | .bool b => if b then "b:1" else "b:0"
  | .int i => s!"i:{i}"
  | .bigint i => s!"I:{i}"
  | .uint n => s!"u:{n}"
  | .biguint n => s!"U:{n}"
  | .float b => s!"f:{b}"
  | .double b => s!"d:{b}"
  | .blob d => s!"x:{hexOrDash d}"

def cmpName : Option Ordering → String
  | some o => ordName o
  | none => "none"

def tf (b : Bool) : String := if b then "t" else "f"
def okFail (b : Bool) : String := if b then "ok" else "FAIL"

/-- the laws of the property evaluated on the three given values with the comparison functions under test -/
def laws (D : Defects) (vs : List Value) : String :=
  let e := eq D
  let c := partialCmp D
  let h (a b : Value) : Bool := hashKey D a == hashKey D b
  let pairs := vs.flatMap fun a => vs.map fun b => (a, b)
  let triples := vs.flatMap fun a => vs.flatMap fun b => vs.map fun x => (a, b, x)
  let refl := vs.all fun a => e a a
  let sym := pairs.all fun (a, b) => e a b == e b a && c a b == (c b a).map Ordering.swap
  let trans := triples.all fun (a, b, x) => !(e a b && e b x) || e a x
  let ord := triples.all fun (a, b, x) =>
    (!(c a b == some .lt && c b x == some .lt) || c a x == some .lt) &&
    (!(c a b == some .eq) || c a x == c b x)
  let consist := pairs.all fun (a, b) => a.cls == 0 || b.cls == 0 || ((c a b == some .eq) == e a b)
  let total := pairs.all fun (a, b) => a.cls == 0 || a.cls != b.cls || (c a b).isSome
  let hash := pairs.all fun (a, b) => !(e a b) || h a b
  -- what `sort_by` needs from the ORDER BY comparator: a strict weak order
  let sc := sortCmp D
  let sortord := triples.all fun (a, b, x) =>
    sc a b == (sc b a).swap &&
    (!(sc a b == .lt && sc b x == .lt) || sc a x == .lt) &&
    (!(sc a b == .eq && sc b x == .eq) || sc a x == .eq)
  s!"sortord={okFail sortord} refl={okFail refl} sym={okFail sym} trans={okFail trans} ord={okFail ord} consist={okFail consist} total={okFail total} hash={okFail hash}"

def allValues : List String → Option (List Value)
  | [] => some []
  | w :: ws => match value? w, allValues ws with
    | some v, some r => some (v :: r)
    | _, _ => none

def allKinds : List String → Option (List Kind)
  | [] => some []
  | w :: ws => match kind? w, allKinds ws with
    | some k, some r => some (k :: r)
    | _, _ => none


/-- `key` op: a search tuple and a stored cell of an index with the given key kinds and one BigUInt value column,
    laid out as `TupleBuilder` does (header, one bitmap byte, keys, value), compared by `compareKeys`. -/
def keyOp (D : Defects) (ks : List Kind) (tv cv : List Value) : String :=
  if ks.length = 0 ∨ tv.length ≠ ks.length ∨ cv.length ≠ ks.length then "bad-op"
  else if (tv.map Value.kind) ≠ ks ∨ (cv.map Value.kind) ≠ ks then "err build"
  else
    let cur := stdParams.keysOffset1
    let pre : Bytes := List.replicate cur 0
    let tbuf := pre ++ layoutKeys cur tv ++ List.replicate 16 0
    let cbuf := pre ++ layoutKeys cur cv ++ List.replicate 16 0
    let r1 := compareKeys D ks tbuf cur cbuf cur
    let show_ (r : Except Err Ordering) : String := match r with
      | .ok o => ordName o
      | .error e => s!"err {e.name}"
    -- `Btree::search`: the bare serialized key from cursor 0 (single key column only)
    let r2 : Option (Except Err Ordering) := match ks, tv with
      | [_], [t] => some (compareKeys D ks (layoutKeys 0 [t]) 0 cbuf cur)
      | _, _ => none
    match r2 with
    | some r2 => if show_ r2 = show_ r1 then show_ r1 else s!"MODEDIFF tuple={show_ r1} bare={show_ r2}"
    | none => show_ r1

def strLt (a b : String) : Ordering := if a < b then .lt else if a = b then .eq else .gt

def sortStrings (xs : List String) : List String := sortByCmp strLt xs

def indexed {α : Type} (xs : List α) : List (Nat × α) := (List.range xs.length).zip xs

/-- `sql` op: one table `t (x INT, v KIND)` holding the given values (row number in `x`), and a second table with
    `v` as PRIMARY KEY receiving the non-NULL ones in the same order. -/
def sqlOp (D : Defects) (vs : List Value) : String :=
  let showL (xs : List String) : String := "[" ++ joinWith "," xs ++ "]"
  let asc := sortByCmp (orderAsc D) vs
  let desc := sortByCmp (orderDesc D) vs
  let groups := groupCount D vs
  let distinct := sortStrings (groups.map fun (v, _) => showValue v)
  let group := sortStrings (groups.map fun (v, n) => s!"{showValue v}:{n}")
  let nonNull := vs.filter (fun v => v.cls != 0)
  let rows := indexed vs
  match nonNull with
  | [] => s!"order={showL (asc.map showValue)} desc={showL (desc.map showValue)} distinct={showL distinct} group={showL group}"
  | p :: rest =>
    let q := rest.headD p
    -- WHERE: a NULL operand makes the predicate false
    let sel (f : Value → Bool) : List String := (rows.filter fun (_, v) => v.cls != 0 && f v).map fun (i, _) => toString i
    let inL := sel fun v => eq D v p || eq D v q
    let eqL := sel fun v => eq D v p
    let ltL := sel fun v => partialCmp D v p == some .lt
    let geL := sel fun v => partialCmp D v p == some .gt || partialCmp D v p == some .eq
    -- PRIMARY KEY: an insert is refused when an equal key is already there
    let pk := ((nonNull.take 6).foldl (fun (acc : List Value × List String) v =>
        if acc.1.any (fun w => eq D w v) then (acc.1, acc.2 ++ ["d"]) else (acc.1 ++ [v], acc.2 ++ ["o"])) ([], [])).2
    s!"order={showL (asc.map showValue)} desc={showL (desc.map showValue)} distinct={showL distinct} group={showL group} in={showL inL} eq={showL eqL} lt={showL ltL} ge={showL geL} pk={showL pk}"

def step (D : Defects) (line : String) : String :=
  match words line with
  | ["zz", v] => match i64? v with
    | some v => toString (VarInt.zigzag v)
    | none => "bad-op"
  | ["uzz", u] => match u64? u with
    | some u => toString (VarInt.unzigzag u)
    | none => "bad-op"
  | ["vi.enc", v] => match i64? v with
    | some v =>
      let e := VarInt.encode v
      let rt := match VarInt.decode e with
        | some (v', []) => if v' = v then "rt=ok" else "rt=DIFF"
        | _ => "rt=DIFF"
      s!"{hexOfBytes e} size={VarInt.encodedSize v} {rt}"
    | none => "bad-op"
  | ["vi.dec", h] => match bytesOfHex h with
    | some bs => match VarInt.decode bs with
      | some (v, rest) => s!"ok {v} used={bs.length - rest.length}"
      | none => "err prefix"
    | none => "bad-op"
  | ["vi.read", h] => match bytesOfHex h with
    | some bs => match VarInt.readBuf VarInt.maxLen bs with
      | .ok p => s!"ok {hexOfBytes p}"
      | .error e => s!"err {e.name}"
    | none => "bad-op"
  | ["vi.cmp", a, b] => match bytesOfHex a, bytesOfHex b with
    | some a, some b => match VarInt.decode a, VarInt.decode b with
      | some (x, _), some (y, _) => ordName (compare x y)
      | _, _ => "err prefix"
    | _, _ => "bad-op"
  | ["blob.enc", h] => match bytesOfHex h with
    | some d =>
      let e := Blob.encode d
      let rt := match Blob.decode D e with
        | .ok (d', used, []) => if d' = d ∧ used = e.length then "rt=ok" else "rt=DIFF"
        | _ => "rt=DIFF"
      s!"{hexOfBytes e} {rt}"
    | none => "bad-op"
  | ["blob.dec", h] => match bytesOfHex h with
    | some bs => match Blob.decode D bs with
      | .ok (d, used, _) => s!"ok data={hexOrDash d} used={used}"
      | .error e => s!"err {e.name}"
    | none => "bad-op"
  | ["blob.cmp", a, b] => match bytesOfHex a, bytesOfHex b with
    | some a, some b =>
      let o := Blob.cmp a b
      s!"{ordName o} eq={o == .eq}"
    | _, _ => "bad-op"
  | ["ser", v] => match value? v with
    | some v => match serialize v with
      | .ok bs =>
        let rt := match deserialize D v.kind bs 0 with
          | .ok (v', c) => if v' = v ∧ c = bs.length then "rt=ok" else "rt=DIFF"
          | .error _ => "rt=DIFF"
        s!"ok {hexOrDash bs} {rt}"
      | .error e => s!"err {e.name}"
    | none => "bad-op"
  | ["wr", v, c, extra] => match value? v, c.toNat?, extra.toNat? with
    | some v, some c, some extra =>
      if c > 4096 ∨ extra > 4096 then "bad-op" else
      match serialize v with
      | .error e => s!"err {e.name}"
      | .ok bs =>
        let buf : Bytes := List.replicate (alignUp c v.kind.align + bs.length + extra) 0
        match writeTo D v buf c with
        | .ok (some (buf', c')) =>
          let rt := match deserialize D v.kind buf' c with
            | .ok (v', c'') => if v' = v ∧ c'' = c' then "rt=ok" else "rt=DIFF"
            | .error _ => "rt=DIFF"
          s!"ok cur={c'} buf={hexOrDash buf'} {rt}"
        | .ok none => "nofit"
        | .error e => s!"err {e.name}"
    | _, _, _ => "bad-op"
  | ["de", k, c, h] => match kind? k, c.toNat?, bytesOfHex h with
    | some k, some c, some buf =>
      if c > buf.length then "bad-op" else
      match deserialize D k buf c with
      | .ok (v, c') => s!"ok {showValue v} cur={c'}"
      | .error e => s!"err {e.name}"
    | _, _, _ => "bad-op"
  | ["cast", v, k] => match value? v, kind? k with
    | some v, some k => match tryCast D v k with
      | .ok w => s!"ok {showValue w}"
      | .error e => s!"err {e.name}"
    | _, _ => "bad-op"
  | ["pair", a, b] => match value? a, value? b with
    | some a, some b =>
      let ha := hashKey D a
      let hb := hashKey D b
      s!"eq={tf (eq D a b)} cmp={cmpName (partialCmp D a b)} heq={tf (ha == hb)} sort={ordName (sortCmp D a b)} ## ha={hexOfBytes ha} hb={hexOfBytes hb}"
    | _, _ => "bad-op"
  | ["hash", v] => match value? v with
    | some v => hexOfBytes (hashKey D v)
    | none => "bad-op"
  | ["key", ks, tv, cv] =>
    match allKinds (ks.splitOn ","), allValues (tv.splitOn ","), allValues (cv.splitOn ",") with
    | some ks, some tv, some cv => keyOp D ks tv cv
    | _, _, _ => "bad-op"
  | ["sql", k, vs] =>
    match kind? k, allValues (vs.splitOn ",") with
    | some k, some vs =>
      if k == .null ∨ vs.length = 0 ∨ vs.length > 40 ∨ vs.any (fun v => v.cls != 0 && v.kind != k) then "bad-op"
      else sqlOp D vs
    | _, _ => "bad-op"
  | "laws" :: ws => match allValues ws with
    | some vs => if vs.length = 0 ∨ vs.length > 4 then "bad-op" else laws D vs
    | none => "bad-op"
  | _ => "bad-op"

end AxVerif.Value

namespace AxVerif.Drivers
def value (flags : List String) (line : String) : String := AxVerif.Value.step (AxVerif.Value.parseDefects flags) line
end AxVerif.Drivers
