/- Line-protocol driver for engine `fuzz` — not built yet (stub). -/
namespace AxVerif.Drivers

def fuzz (_flags : List String) (_line : String) : String := "unimplemented"

end AxVerif.Drivers
