/- Line-protocol driver for engine `fuzz` (C16): `fz <mode> <pool> <schema> | op ; op ; …`.
   One word per op: `ok-or-error` for every string offered as SQL (the property's oracle: a result or an error,
   never a panic or a hang — the harness prints `PROPFAIL …` otherwise), and the predicted outcome class
   (`rows` / `error`) for grammar statements whose class the schema determines. -/
import AxVerif.Model.Fuzz
namespace AxVerif.Drivers

def fuzz (_flags : List String) (line : String) : String := AxVerif.Fuzz.stepLine line

end AxVerif.Drivers
