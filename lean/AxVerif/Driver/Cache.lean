/- Line-protocol driver for engine `cache` (C12): cases `seq` (bare PageCache), `pgr` (pager: cache + disk),
   `cfg` (configuration clamping / header narrowing) and `grid` (SQL workload under a grid of configurations). -/
import AxVerif.Model.Bytes
import AxVerif.Model.Cache
import AxVerif.Model.Config
import AxVerif.Driver.Sql
import AxVerif.Driver.Hist
namespace AxVerif.Cache
open AxVerif

def parseDefects (flags : List String) : Defects :=
  { clearZeroesCapacity := flags.contains "clearZeroesCapacity",
    cursorForwardOnly := flags.contains "cursorForwardOnly",
    openIgnoresCacheSize := flags.contains "openIgnoresCacheSize",
    cacheSizeWraps := flags.contains "cacheSizeWraps" }

def nat? (s : String) : Option Nat := if s.length ≤ 19 then s.toNat? else none

def parseCOp : List String → Option COp
  | ["ins", p, v, d] => match nat? p, nat? v, d with
    | some p, some v, "0" => some (.ins p v false)
    | some p, some v, "1" => some (.ins p v true)
    | _, _, _ => none
  | ["get", p] => (nat? p).map .get
  | ["pin", p] => (nat? p).map .pin
  | ["unpin", k] => (nat? k).map .unpin
  | ["hread", k] => (nat? k).map .hread
  | ["hwrite", k, v] => match nat? k, nat? v with
    | some k, some v => some (.hwrite k v)
    | _, _ => none
  | ["hdirty", k] => (nat? k).map .hdirty
  | ["evict"] => some .evict
  | ["rm", p] => (nat? p).map .rm
  | ["clear"] => some .clear
  | ["drain"] => some .drain
  | ["setcap", n] => (nat? n).map .setcap
  | ["stat"] => some .stat
  | ["churn", n] => match nat? n with
    | some n => if n ≤ 200000 then some (.churn n) else none
    | none => none
  | _ => none

def parsePOp : List String → Option POp
  | ["alloc"] => some .alloc
  | ["read", p] => (nat? p).map .read
  | ["write", p, v] => match nat? p, nat? v with
    | some p, some v => some (.write p v)
    | _, _ => none
  | ["pin", p] => (nat? p).map .pin
  | ["unpin", k] => (nat? k).map .unpin
  | ["hread", k] => (nat? k).map .hread
  | ["hwrite", k, v] => match nat? k, nat? v with
    | some k, some v => some (.hwrite k v)
    | _, _ => none
  | ["flush"] => some .flush
  | ["reopen"] => some .reopen
  | ["disk", p] => match nat? p with
    | some p => if p = 0 then none else some (.disk p)
    | none => none
  | _ => none

def allSome {α β : Type} (f : α → Option β) : List α → Option (List β)
  | [] => some []
  | x :: xs => match f x, allSome f xs with
    | some y, some ys => some (y :: ys)
    | _, _ => none

/-- the operations of a sequence: `op ; op ; …` given as words -/
def splitOps (ws : List String) : List (List String) :=
  let rec go : List String → List String → List (List String)
    | [], cur => if cur.isEmpty then [] else [cur.reverse]
    | w :: rest, cur => if w = ";" then cur.reverse :: go rest [] else go rest (w :: cur)
  go ws []

/-- statements of a `grid` workload: only their well-formedness matters to the model (every configuration must
    answer them identically, which the harness checks and reports as `same`) -/
def gstmtOk : List String → Bool
  | ["ins", a, b, c] => (nat? a).isSome && (nat? b).isSome && (nat? c).isSome
  | ["bulk", a, b, c, d] =>
    (nat? a).isSome && (nat? c).isSome && (nat? d).isSome &&
    (match nat? b with | some n => decide (0 < n ∧ n ≤ 2000) | none => false)
  | ["upd", a, b] => (nat? a).isSome && (nat? b).isSome
  | ["updb", a, b] => (nat? a).isSome && (nat? b).isSome
  | ["updr", a, b, c] => (nat? a).isSome && (nat? b).isSome && (nat? c).isSome
  | ["del", a] => (nat? a).isSome
  | ["delr", a, b] => (nat? a).isSome && (nat? b).isSome
  | ["sel", "all"] => true
  | ["sel", "cnt"] => true
  | ["sel", "id", a] => (nat? a).isSome
  | ["sel", "k", a, b] => (nat? a).isSome && (nat? b).isSome
  | ["uins", a, b, c] => (nat? a).isSome && (nat? b).isSome && (nat? c).isSome
  | ["udel", a] => (nat? a).isSome
  | ["usel"] => true
  | ["ckpt"] => true
  | ["wnew", g] => (nat? g).isSome
  | ["wdrop", g] => (nat? g).isSome
  | ["vac"] => true
  | ["wins", g, a, b] => (nat? g).isSome && (nat? a).isSome && (nat? b).isSome
  | ["wsel", g] => (nat? g).isSome
  | _ => false

def flagOk (s : String) : Bool := s = "0" || s = "1"

def pageSizeOk (n : Nat) : Bool := n = 4096 || n = 8192 || n = 16384 || n = 32768 || n = 65536

def step (D : Defects) (line : String) : String :=
  match words line with
  | "seq" :: cap :: "|" :: rest =>
    match nat? cap, allSome parseCOp (splitOps rest) with
    | some cap, some ops => " ; ".intercalate ((Mem.crun D (Mem.init cap) ops).2)
    | _, _ => "bad-op"
  | "pgr" :: cap :: ps :: "|" :: rest =>
    match nat? cap, nat? ps, allSome parsePOp (splitOps rest) with
    | some cap, some ps, some ops =>
      if pageSizeOk ps && cap ≤ 200000 then
        " ; ".intercalate (((Pager.init cap).run D ops).2.map Out.show)
      else "bad-op"
    | _, _, _ => "bad-op"
  | ["cfg", a, b, c, d, e] =>
    match nat? a, nat? b, nat? c, nat? d, nat? e with
    | some a, some b, some c, some d, some e =>
      let n := Config.Config.new a b c d e
      let hdr := if b ≤ 1000000 then " hdr=" ++ Config.showHeader (Config.toHeader D n) else ""
      s!"new={Config.showConfig n} bld={Config.showConfig (Config.Config.builder a b c d e)}{hdr}"
    | _, _, _, _, _ => "bad-op"
  | "grid" :: seed :: ncfg :: small :: "|" :: rest =>
    match nat? seed, nat? ncfg with
    | some _, some n =>
      if decide (2 ≤ n ∧ n ≤ 64) && flagOk small && (splitOps rest).all gstmtOk then "same" else "bad-op"
    | _, _ => "bad-op"
  | "sqlgrid" :: seed :: ncfg :: mode :: "|" :: _ =>
    -- the same script under a grid of configurations. Mode `m`: the answer is the logical model's answer to the
    -- script — a function of the script alone, the model has no configuration argument. Mode `x` (blown-up tables):
    -- all configurations must agree, the answer is `same`.
    match nat? seed, nat? ncfg, line.splitOn " | " with
    | some _, some n, _ :: rest =>
      if decide (2 ≤ n ∧ n ≤ 64) then
        if mode = "m" then AxVerif.Drivers.sql [] (" | ".intercalate rest)
        else if mode = "x" then
          (match words (" | ".intercalate rest) with
           | "sql" :: dbw :: ";" :: ws =>
             (match AxVerif.Sql.parseDb dbw with
              | some db => if ((AxVerif.Sql.splitStmts ws).map (AxVerif.Sql.pStmt db)).all Option.isSome then "same" else "bad-op"
              | none => "bad-op")
           | _ => "bad-op")
        else "bad-op"
      else "bad-op"
    | _, _, _ => "bad-op"
  | "histgrid" :: seed :: ncfg :: "|" :: _ =>
    match nat? seed, nat? ncfg, line.splitOn " | " with
    | some _, some n, _ :: rest =>
      if decide (2 ≤ n ∧ n ≤ 64) && (AxVerif.Db.Drv.parseCase (" | ".intercalate rest)).isSome then "same" else "bad-op"
    | _, _, _ => "bad-op"
  | "gridx" :: page :: cache :: pool :: mk :: sib :: ckpt :: "|" :: rest =>
    match nat? page, nat? cache, nat? pool, nat? mk, nat? sib with
    | some page, some cache, some pool, some mk, some sib =>
      if pageSizeOk page && decide (0 < cache ∧ cache ≤ 100000 ∧ 0 < pool ∧ pool ≤ 16 ∧ 2 ≤ mk ∧ mk ≤ 16 ∧ 0 < sib ∧ sib ≤ 8)
        && flagOk ckpt && (splitOps rest).all gstmtOk then "same" else "bad-op"
    | _, _, _, _, _ => "bad-op"
  | _ => "bad-op"

end AxVerif.Cache

namespace AxVerif.Drivers
def cache (flags : List String) (line : String) : String := AxVerif.Cache.step (AxVerif.Cache.parseDefects flags) line
end AxVerif.Drivers
