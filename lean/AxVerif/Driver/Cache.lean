/- Line-protocol driver for engine `cache` — not built yet (stub). -/
namespace AxVerif.Drivers

def cache (_flags : List String) (_line : String) : String := "unimplemented"

end AxVerif.Drivers
