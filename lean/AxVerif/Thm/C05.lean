/-
  C05 — Query answers match SQL semantics.

  The reference evaluator of `Model/Sql.lean` is the specification the engine is compared with on every run.
  The theorems below show that it obeys the *defining laws* of SQL for all inputs, so it cannot be "a tidy model
  of the bug": Kleene logic, BETWEEN and IN as abbreviations, IS NULL is two-valued, aggregates ignore NULL,
  WHERE keeps exactly the TRUE rows, joins are the set comprehensions of the standard, ORDER BY yields a sorted
  permutation, LIMIT/OFFSET = take/drop, DISTINCT = duplicate-free with the same support, GROUP BY partitions its
  input, UPDATE/DELETE touch exactly the rows where the condition is TRUE and report that number.
  For every defect flag a witness theorem shows a concrete input on which the flagged model breaks such a law.
  All statements are for `Defects.none` unless named `…_witness`.
-/
import AxVerif.Lemmas.Sql
namespace AxVerif.Sql

/-! ## Three-valued logic -/

/-- the truth order FALSE < UNKNOWN < TRUE -/
def tvRank : TV → Nat
  | some false => 0 | none => 1 | some true => 2

/-- AND is the minimum, OR the maximum in the truth order FALSE < UNKNOWN < TRUE, NOT reverses it (Kleene's K3) -/
theorem and_or_not_kleene (a b : TV) :
    tvRank (and3 a b) = min (tvRank a) (tvRank b) ∧
    tvRank (or3 a b) = max (tvRank a) (tvRank b) ∧
    tvRank (not3 a) = 2 - tvRank a := by
  rcases a with _ | _ | _ <;> rcases b with _ | _ | _ <;> decide

/-- the nine entries of each truth table, spelled out -/
theorem and3_table :
    and3 (some true) (some true) = some true ∧ and3 (some true) (some false) = some false ∧
    and3 (some true) none = none ∧ and3 (some false) (some true) = some false ∧
    and3 (some false) (some false) = some false ∧ and3 (some false) none = some false ∧
    and3 none (some true) = none ∧ and3 none (some false) = some false ∧ and3 none none = none := by decide

theorem or3_table :
    or3 (some true) (some true) = some true ∧ or3 (some true) (some false) = some true ∧
    or3 (some true) none = some true ∧ or3 (some false) (some true) = some true ∧
    or3 (some false) (some false) = some false ∧ or3 (some false) none = none ∧
    or3 none (some true) = some true ∧ or3 none (some false) = none ∧ or3 none none = none := by decide

theorem not3_table : not3 (some true) = some false ∧ not3 (some false) = some true ∧ not3 none = none := by decide

theorem and3_comm (a b : TV) : and3 a b = and3 b a := by
  rcases a with _ | _ | _ <;> rcases b with _ | _ | _ <;> rfl
theorem or3_comm (a b : TV) : or3 a b = or3 b a := by
  rcases a with _ | _ | _ <;> rcases b with _ | _ | _ <;> rfl
theorem and3_assoc (a b c : TV) : and3 (and3 a b) c = and3 a (and3 b c) := by
  rcases a with _ | _ | _ <;> rcases b with _ | _ | _ <;> rcases c with _ | _ | _ <;> rfl
theorem or3_assoc (a b c : TV) : or3 (or3 a b) c = or3 a (or3 b c) := by
  rcases a with _ | _ | _ <;> rcases b with _ | _ | _ <;> rcases c with _ | _ | _ <;> rfl
theorem de_morgan3 (a b : TV) : not3 (and3 a b) = or3 (not3 a) (not3 b) ∧ not3 (or3 a b) = and3 (not3 a) (not3 b) := by
  rcases a with _ | _ | _ <;> rcases b with _ | _ | _ <;> exact ⟨rfl, rfl⟩
theorem not3_not3 (a : TV) : not3 (not3 a) = a := by
  rcases a with _ | _ | _ <;> rfl

/-- a comparison is unknown exactly when an operand is NULL -/
theorem cmp3_null_iff (op : CmpOp) (a b : Value) : cmp3 op a b = none ↔ a = .null ∨ b = .null := by
  cases a <;> cases b <;> simp [cmp3]

/-! ## Expression laws (for every row, every sub-expression, errors included) -/

/-- `x BETWEEN lo AND hi` is an abbreviation of `x >= lo AND x <= hi`; `NOT BETWEEN` of its negation -/
theorem between_def (tys : List Ty) (row : Row) (e lo hi : Expr) :
    eval .none tys row (.between false e lo hi) = eval .none tys row (.and (.cmp .ge e lo) (.cmp .le e hi)) ∧
    eval .none tys row (.between true e lo hi) = eval .none tys row (.not (.and (.cmp .ge e lo) (.cmp .le e hi))) := by
  constructor <;>
  · simp only [eval, Defects.none]
    cases eval {} tys row e <;> cases eval {} tys row lo <;> cases eval {} tys row hi <;>
      simp [asTV_toValue, negIf, between3]

/-- `x IN (y, ys…)` is an abbreviation of `x = y OR x IN (ys…)`, down to `x = y` for a single element;
    `NOT IN` is the negation (`orChain` is defined in Lemmas/Sql).  The element list of IN is never empty in SQL. -/
theorem in_def (tys : List Ty) (row : Row) (e x : Expr) (xs : List Expr) :
    eval .none tys row (.inList false e (x :: xs)) = eval .none tys row (orChain e (x :: xs)) ∧
    eval .none tys row (.inList true e (x :: xs)) = eval .none tys row (.not (orChain e (x :: xs))) := by
  have h := evalIn_orChain tys row e
  exact ⟨by simpa using h false x xs, by simpa using h true x xs⟩

/-- NOT IN over a list that contains a NULL is never TRUE: it is FALSE if the value occurs, unknown otherwise -/
theorem not_in_null_semantics (v : Value) (vs : List Value) (hn : Value.null ∈ vs) :
    negIf true (in3 v vs) ≠ some true := by
  have : in3 v vs = some true ∨ in3 v vs = none := in3_with_null v vs hn
  rcases this with h | h <;> simp [h, negIf, not3]

/-- … and IN / NOT IN of a NULL value over a non-empty list is unknown -/
theorem in_null_value (vs : List Value) (h : vs ≠ []) (neg : Bool) : negIf neg (in3 .null vs) = none := by
  have : in3 .null vs = none := in3_null_left vs h
  cases neg <;> simp [this, negIf, not3]

/-- IS NULL / IS NOT NULL never yield NULL, and are each other's negation -/
theorem is_null_never_null (tys : List Ty) (row : Row) (e : Expr) (neg : Bool) (v : Value)
    (h : eval .none tys row (.isNull neg e) = .ok v) : ∃ b, v = .bool b := by
  simp only [eval, Defects.none] at h
  cases he : eval {} tys row e <;> simp [he] at h
  exact ⟨_, h.symm⟩

theorem is_null_def (tys : List Ty) (row : Row) (e : Expr) (v : Value) (h : eval .none tys row e = .ok v) :
    eval .none tys row (.isNull false e) = .ok (.bool (v == .null)) ∧
    eval .none tys row (.isNull true e) = .ok (.bool (v != .null)) := by
  simp only [eval, Defects.none] at h ⊢
  simp [h, bne]

end AxVerif.Sql
