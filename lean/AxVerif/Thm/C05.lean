/-
  C05 — Query answers match SQL semantics.

  The reference evaluator of `Model/Sql.lean` is the specification the engine is compared with on every run.
  The theorems below show that it obeys the *defining laws* of SQL for all inputs, so it cannot be "a tidy model
  of the bug": Kleene logic, BETWEEN and IN as abbreviations, IS NULL is two-valued, aggregates ignore NULL,
  WHERE keeps exactly the TRUE rows, joins are the set comprehensions of the standard, ORDER BY yields a sorted
  permutation, LIMIT/OFFSET = take/drop, DISTINCT = duplicate-free with the same support, GROUP BY partitions its
  input, UPDATE/DELETE touch exactly the rows where the condition is TRUE and report that number.
  For every defect flag a witness theorem shows a concrete input on which the flagged model breaks such a law.
  All statements are for `Defects.none` unless named `…_witness`.
-/
import AxVerif.Lemmas.Sql
import AxVerif.Lemmas.Parser
import AxVerif.Generated.Parse
namespace AxVerif.Sql

/-! ## Three-valued logic -/

/-- the truth order FALSE < UNKNOWN < TRUE -/
def tvRank : TV → Nat
  | some false => 0 | none => 1 | some true => 2

/-- AND is the minimum, OR the maximum in the truth order FALSE < UNKNOWN < TRUE, NOT reverses it (Kleene's K3) -/
theorem and_or_not_kleene (a b : TV) :
    tvRank (and3 a b) = min (tvRank a) (tvRank b) ∧
    tvRank (or3 a b) = max (tvRank a) (tvRank b) ∧
    tvRank (not3 a) = 2 - tvRank a := by
  rcases a with _ | _ | _ <;> rcases b with _ | _ | _ <;> decide

/-- the nine entries of each truth table, spelled out -/
theorem and3_table :
    and3 (some true) (some true) = some true ∧ and3 (some true) (some false) = some false ∧
    and3 (some true) none = none ∧ and3 (some false) (some true) = some false ∧
    and3 (some false) (some false) = some false ∧ and3 (some false) none = some false ∧
    and3 none (some true) = none ∧ and3 none (some false) = some false ∧ and3 none none = none := by decide

theorem or3_table :
    or3 (some true) (some true) = some true ∧ or3 (some true) (some false) = some true ∧
    or3 (some true) none = some true ∧ or3 (some false) (some true) = some true ∧
    or3 (some false) (some false) = some false ∧ or3 (some false) none = none ∧
    or3 none (some true) = some true ∧ or3 none (some false) = none ∧ or3 none none = none := by decide

theorem not3_table : not3 (some true) = some false ∧ not3 (some false) = some true ∧ not3 none = none := by decide

theorem and3_comm (a b : TV) : and3 a b = and3 b a := by
  rcases a with _ | _ | _ <;> rcases b with _ | _ | _ <;> rfl
theorem or3_comm (a b : TV) : or3 a b = or3 b a := by
  rcases a with _ | _ | _ <;> rcases b with _ | _ | _ <;> rfl
theorem and3_assoc (a b c : TV) : and3 (and3 a b) c = and3 a (and3 b c) := by
  rcases a with _ | _ | _ <;> rcases b with _ | _ | _ <;> rcases c with _ | _ | _ <;> rfl
theorem or3_assoc (a b c : TV) : or3 (or3 a b) c = or3 a (or3 b c) := by
  rcases a with _ | _ | _ <;> rcases b with _ | _ | _ <;> rcases c with _ | _ | _ <;> rfl
theorem de_morgan3 (a b : TV) : not3 (and3 a b) = or3 (not3 a) (not3 b) ∧ not3 (or3 a b) = and3 (not3 a) (not3 b) := by
  rcases a with _ | _ | _ <;> rcases b with _ | _ | _ <;> exact ⟨rfl, rfl⟩
theorem not3_not3 (a : TV) : not3 (not3 a) = a := by
  rcases a with _ | _ | _ <;> rfl

/-- a comparison is unknown exactly when an operand is NULL -/
theorem cmp3_null_iff (op : CmpOp) (a b : Value) : cmp3 op a b = none ↔ a = .null ∨ b = .null := by
  cases a <;> cases b <;> simp [cmp3]

/-! ## Expression laws (for every row, every sub-expression, errors included) -/

/-- `x BETWEEN lo AND hi` is an abbreviation of `x >= lo AND x <= hi`; `NOT BETWEEN` of its negation -/
theorem between_def (tys : List Ty) (row : Row) (e lo hi : Expr) :
    eval .none tys row (.between false e lo hi) = eval .none tys row (.and (.cmp .ge e lo) (.cmp .le e hi)) ∧
    eval .none tys row (.between true e lo hi) = eval .none tys row (.not (.and (.cmp .ge e lo) (.cmp .le e hi))) := by
  constructor <;>
  · simp only [eval, Defects.none]
    cases eval {} tys row e <;> cases eval {} tys row lo <;> cases eval {} tys row hi <;>
      simp [asTV_toValue, negIf, between3]

/-- `x IN (y, ys…)` is an abbreviation of `x = y OR x IN (ys…)`, down to `x = y` for a single element;
    `NOT IN` is the negation (`orChain` is defined in Lemmas/Sql).  The element list of IN is never empty in SQL. -/
theorem in_def (tys : List Ty) (row : Row) (e x : Expr) (xs : List Expr) :
    eval .none tys row (.inList false e (x :: xs)) = eval .none tys row (orChain e (x :: xs)) ∧
    eval .none tys row (.inList true e (x :: xs)) = eval .none tys row (.not (orChain e (x :: xs))) := by
  have h := evalIn_orChain tys row e
  exact ⟨by simpa using h false x xs, by simpa using h true x xs⟩

/-- NOT IN over a list that contains a NULL is never TRUE: it is FALSE if the value occurs, unknown otherwise -/
theorem not_in_null_semantics (v : Value) (vs : List Value) (hn : Value.null ∈ vs) :
    negIf true (in3 v vs) ≠ some true := by
  have : in3 v vs = some true ∨ in3 v vs = none := in3_with_null v vs hn
  rcases this with h | h <;> simp [h, negIf, not3]

/-- … and IN / NOT IN of a NULL value over a non-empty list is unknown -/
theorem in_null_value (vs : List Value) (h : vs ≠ []) (neg : Bool) : negIf neg (in3 .null vs) = none := by
  have : in3 .null vs = none := in3_null_left vs h
  cases neg <;> simp [this, negIf, not3]

/-- IS NULL / IS NOT NULL never yield NULL, and are each other's negation -/
theorem is_null_never_null (tys : List Ty) (row : Row) (e : Expr) (neg : Bool) (v : Value)
    (h : eval .none tys row (.isNull neg e) = .ok v) : ∃ b, v = .bool b := by
  simp only [eval, Defects.none] at h
  cases he : eval {} tys row e <;> simp [he] at h
  exact ⟨_, h.symm⟩

theorem is_null_def (tys : List Ty) (row : Row) (e : Expr) (v : Value) (h : eval .none tys row e = .ok v) :
    eval .none tys row (.isNull false e) = .ok (.bool (v == .null)) ∧
    eval .none tys row (.isNull true e) = .ok (.bool (v != .null)) := by
  simp only [eval, Defects.none] at h ⊢
  simp [h, bne]


/-! ## LIKE (by characters; `%` any sequence, `_` any one character, `\` escapes) -/

theorem anySuffix_iff {α} (f : List α → Bool) (s : List α) :
    anySuffix f s = true ↔ ∃ s₁ s₂, s = s₁ ++ s₂ ∧ f s₂ = true := by
  induction s with
  | nil =>
    simp only [anySuffix]
    constructor
    · intro h; exact ⟨[], [], rfl, h⟩
    · rintro ⟨s₁, s₂, h, hf⟩
      have : s₂ = [] := by
        have := congrArg List.length h
        simp at this
        exact List.eq_nil_of_length_eq_zero (by omega)
      rw [this] at hf; exact hf
  | cons c s ih =>
    simp only [anySuffix, Bool.or_eq_true, ih]
    constructor
    · rintro (h | ⟨s₁, s₂, hs, hf⟩)
      · exact ⟨[], c :: s, rfl, h⟩
      · exact ⟨c :: s₁, s₂, by simp [hs], hf⟩
    · rintro ⟨s₁, s₂, hs, hf⟩
      cases s₁ with
      | nil => left; simp only [List.nil_append] at hs; rw [hs]; exact hf
      | cons x s₁ =>
        right
        simp only [List.cons_append, List.cons.injEq] at hs
        exact ⟨s₁, s₂, hs.2, hf⟩

/-- LIKE is its definition: `%` stands for any sequence of characters, `_` for any one character, every other item
    (an ordinary character, or any character after the escape character) for itself -/
theorem like_def (p : List LikeItem) : ∀ (s : List UChar), likeMatch p s = true ↔ Likes p s := by
  induction p with
  | nil =>
    intro s
    simp only [likeMatch, List.isEmpty_iff]
    constructor
    · rintro rfl; exact .nil
    · intro h; cases h; rfl
  | cons it p ih =>
    intro s
    cases it with
    | anySeq =>
      simp only [likeMatch, anySuffix_iff]
      constructor
      · rintro ⟨s₁, s₂, rfl, h⟩; exact .anySeq p s₁ s₂ ((ih s₂).mp h)
      · intro h
        cases h with
        | anySeq _ s₁ s₂ h => exact ⟨s₁, s₂, rfl, (ih s₂).mpr h⟩
    | anyOne =>
      cases s with
      | nil => simp only [likeMatch]; constructor <;> intro h <;> cases h
      | cons c s =>
        simp only [likeMatch]
        constructor
        · intro h; exact .anyOne p c s ((ih s).mp h)
        · intro h; cases h with | anyOne _ _ _ h => exact (ih s).mpr h
    | lit c =>
      cases s with
      | nil => simp only [likeMatch]; constructor <;> intro h <;> cases h
      | cons x s =>
        simp only [likeMatch, Bool.and_eq_true, beq_iff_eq]
        constructor
        · rintro ⟨rfl, h⟩; exact .lit p x s ((ih s).mp h)
        · intro h; cases h with | lit _ _ _ h => exact ⟨rfl, (ih s).mpr h⟩

/-- a pattern without wildcards matches exactly the text it spells; `%` alone matches everything -/
theorem like_literal_and_percent (cs s : List UChar) :
    (likeMatch (cs.map .lit) s = true ↔ s = cs) ∧ likeMatch [.anySeq] s = true := by
  constructor
  · induction cs generalizing s with
    | nil => simp [likeMatch]
    | cons c cs ih =>
      cases s with
      | nil => simp [likeMatch]
      | cons x s => simp [likeMatch, ih s]
  · rw [like_def]
    have := Likes.anySeq [] s [] .nil
    simpa using this

/-- the characters of a text partition its bytes; an ASCII text has one character per byte -/
theorem utf8Chars_laws (s : List Nat) :
    (utf8Chars s).flatten = s ∧ ((∀ b ∈ s, b < 128) → utf8Chars s = s.map ([·])) := by
  induction s with
  | nil => exact ⟨rfl, fun _ => rfl⟩
  | cons b bs ih =>
    constructor
    · simp only [utf8Chars]
      split
      · rename_i h
        rw [h] at ih
        have : bs = [] := by simpa using ih.1.symm
        simp [this]
      · rename_i c cs h
        rw [h] at ih
        have h1 : c ++ cs.flatten = bs := by simpa using ih.1
        split <;> simp [h1]
    · intro hb
      have hbs : ∀ x ∈ bs, x < 128 := fun x hx => hb x (by simp [hx])
      have := ih.2 hbs
      simp only [utf8Chars, this]
      cases bs with
      | nil => rfl
      | cons x xs =>
        have hx : x < 128 := hbs x (by simp)
        have : isCont x = false := by simp [isCont]; omega
        simp [this]

/-- LIKE with a NULL on either side is unknown; on two texts it is the matcher; anything else is a type error -/
theorem like_null_and_types (v : Value) (s p : List Nat) :
    like3 .null v = .ok none ∧ like3 v .null = .ok none ∧ like3 (.text s) (.text p) = .ok (some (likeText p s)) := by
  refine ⟨rfl, ?_, rfl⟩
  cases v <;> rfl

/-- `a NOT LIKE p` is `NOT (a LIKE p)` (three-valued, errors included) -/
theorem not_like_is_not_like (tys : List Ty) (row : Row) (a p : Expr) :
    eval .none tys row (.like true a p) = eval .none tys row (.not (.like false a p)) := by
  simp only [eval]
  cases eval {} tys row a with
  | error e => rfl
  | ok va =>
    cases eval {} tys row p with
    | error e => rfl
    | ok vp =>
      simp only []
      cases like3 va vp with
      | error e => rfl
      | ok t =>
        cases t with
        | none => rfl
        | some m => cases m <;> rfl

/-- escapes after wildcards, escaped wildcards, characters of several bytes: 'a_b' LIKE '%\_%', 'ab' NOT LIKE '%\_%',
    'a%b' LIKE 'a\%' is false, 'a%' LIKE 'a\%', 'é' LIKE '_', 'é' LIKE '__' is false, a pattern ending in `\` matches nothing -/
theorem like_examples :
    likeText [37, 92, 95, 37] [97, 95, 98] = true ∧ likeText [37, 92, 95, 37] [97, 98] = false ∧
    likeText [97, 92, 37] [97, 37, 98] = false ∧ likeText [97, 92, 37] [97, 37] = true ∧
    likeText [95] [195, 169] = true ∧ likeText [95, 95] [195, 169] = false ∧
    likeText [97, 92] [97] = false ∧ likeText [37, 97, 37, 98] [98, 97, 97, 98, 98, 97, 98] = true := by decide

/-! ## CASE -/

/-- searched CASE: a WHEN whose condition is TRUE decides — its result is the value, whatever the later arms and the
    ELSE are (they are not evaluated: `CASE WHEN b = 0 THEN 0 ELSE a / b END` never divides by zero) -/
theorem case_when_true (tys : List Ty) (row : Row) (c r : Expr) (rest : List Expr)
    (h : eval .none tys row c = .ok (.bool true)) :
    eval .none tys row (.caseWhen (c :: r :: rest)) = eval .none tys row r := by
  simp only [eval, evalCaseWhen, Defects.none] at h ⊢
  simp [h, asTV]

/-- … a WHEN whose condition is FALSE or unknown is skipped -/
theorem case_when_not_true (tys : List Ty) (row : Row) (c r : Expr) (rest : List Expr) (v : Value)
    (h : eval .none tys row c = .ok v) (hv : v = .bool false ∨ v = .null) :
    eval .none tys row (.caseWhen (c :: r :: rest)) = eval .none tys row (.caseWhen rest) := by
  simp only [eval, evalCaseWhen, Defects.none] at h ⊢
  rcases hv with rfl | rfl <;> simp [h, asTV]

/-- … and when no WHEN is left the value is the ELSE expression, NULL without ELSE -/
theorem case_else (tys : List Ty) (row : Row) (e : Expr) :
    eval .none tys row (.caseWhen [e]) = eval .none tys row e ∧
    eval .none tys row (.caseWhen []) = .ok .null ∧
    eval .none tys row (.caseWhen [.lit .null]) = .ok .null := by
  simp [eval, evalCaseWhen]

/-- the searched form of a simple CASE: every WHEN value `v` becomes the condition `x = v` -/
def simpleToSearched (x : Expr) : List Expr → List Expr
  | c :: r :: rest => .cmp .eq x c :: r :: simpleToSearched x rest
  | l => l

/-- simple CASE `CASE x WHEN v THEN r …` is an abbreviation of `CASE WHEN x = v THEN r …`
    (so a NULL operand or a NULL WHEN value never matches) -/
theorem case_simple_def (tys : List Ty) (row : Row) (x : Expr) (xv : Value)
    (hx : eval .none tys row x = .ok xv) (parts : List Expr) :
    eval .none tys row (.caseOf x parts) = eval .none tys row (.caseWhen (simpleToSearched x parts)) := by
  have key : ∀ ps : List Expr, evalCaseOf {} tys row xv ps = evalCaseWhen {} tys row (simpleToSearched x ps) := by
    intro ps
    fun_induction simpleToSearched x ps with
    | case1 c r rest ih =>
      simp only [evalCaseOf, simpleToSearched, evalCaseWhen, eval]
      simp only [Defects.none] at hx
      rw [hx]
      cases hc : eval {} tys row c with
      | error e => rfl
      | ok w =>
        simp only [asTV_toValue]
        rcases hcmp : cmp3 .eq xv w with _ | _ | _ <;> simp [ih]
    | case2 l hl =>
      cases l with
      | nil => simp [simpleToSearched, evalCaseOf, evalCaseWhen]
      | cons a l' =>
        cases l' with
        | nil => simp [simpleToSearched, evalCaseOf, evalCaseWhen]
        | cons b l'' => exact absurd rfl (hl a b l'')
  simp only [eval, Defects.none] at hx ⊢
  rw [hx]
  exact key parts

/-! ## String functions (texts are byte strings; letters are the ASCII letters) -/

/-- a string function of NULL is NULL, of a text its defining value; of anything else a type error -/
theorem strfn_def (tys : List Ty) (row : Row) (f : StrFn) (e : Expr) (v : Value)
    (h : eval .none tys row e = .ok v) (hf : f.isNumeric = false) :
    eval .none tys row (.strFn f e) =
      match v with
      | .null => .ok .null
      | .text s => .ok (applyStrFn f s)
      | _ => .error .type := by
  simp only [eval, h]
  cases v <;> simp [strFn1, hf]

/-- `a || b` is the concatenation; NULL if either side is NULL -/
theorem concat_def (tys : List Ty) (row : Row) (a b : Expr) (x y : List Nat) :
    (eval .none tys row a = .ok (.text x) → eval .none tys row b = .ok (.text y) →
      eval .none tys row (.concat a b) = .ok (.text (x ++ y))) ∧
    (eval .none tys row a = .ok .null → eval .none tys row b = .ok (.text y) →
      eval .none tys row (.concat a b) = .ok .null) ∧
    (eval .none tys row a = .ok (.text x) → eval .none tys row b = .ok .null →
      eval .none tys row (.concat a b) = .ok .null) := by
  refine ⟨?_, ?_, ?_⟩ <;> intro ha hb <;> simp only [eval, ha, hb] <;> rfl

theorem upperByte_idem (b : Nat) : upperByte (upperByte b) = upperByte b := by
  simp only [upperByte, Bool.and_eq_true, decide_eq_true_eq]
  split
  · rename_i h
    split
    · omega
    · rfl
  · rfl

theorem lowerByte_idem (b : Nat) : lowerByte (lowerByte b) = lowerByte b := by
  simp only [lowerByte, Bool.and_eq_true, decide_eq_true_eq]
  split
  · rename_i h
    split
    · omega
    · rfl
  · rfl

theorem upper_lower_byte (b : Nat) : upperByte (lowerByte b) = upperByte b ∧ lowerByte (upperByte b) = lowerByte b := by
  simp only [upperByte, lowerByte, Bool.and_eq_true, decide_eq_true_eq]
  constructor
  · by_cases h1 : 65 ≤ b ∧ b ≤ 90
    · have h2 : 97 ≤ b + 32 ∧ b + 32 ≤ 122 := by omega
      have h3 : ¬ (97 ≤ b ∧ b ≤ 122) := by omega
      simp [h1, h2, h3]
    · simp [h1]
  · by_cases h1 : 97 ≤ b ∧ b ≤ 122
    · have h2 : 65 ≤ b - 32 ∧ b - 32 ≤ 90 := by omega
      have h3 : ¬ (65 ≤ b ∧ b ≤ 90) := by omega
      simp only [h1, h2, h3, and_self, if_true, if_false]
      omega
    · simp [h1]

/-- UPPER and LOWER are idempotent, absorb each other, keep the number of bytes and change ASCII letters only -/
theorem upper_lower_laws (s : List Nat) :
    (s.map upperByte).map upperByte = s.map upperByte ∧
    (s.map lowerByte).map lowerByte = s.map lowerByte ∧
    (s.map lowerByte).map upperByte = s.map upperByte ∧
    (s.map upperByte).map lowerByte = s.map lowerByte ∧
    (s.map upperByte).length = s.length ∧ (s.map lowerByte).length = s.length ∧
    (∀ b, ¬ (97 ≤ b ∧ b ≤ 122) → upperByte b = b) ∧ (∀ b, ¬ (65 ≤ b ∧ b ≤ 90) → lowerByte b = b) ∧
    (∀ b, 97 ≤ b ∧ b ≤ 122 → upperByte b + 32 = b) ∧ (∀ b, 65 ≤ b ∧ b ≤ 90 → lowerByte b = b + 32) := by
  refine ⟨?_, ?_, ?_, ?_, by simp, by simp, ?_, ?_, ?_, ?_⟩
  · simp [List.map_map, Function.comp_def, upperByte_idem]
  · simp [List.map_map, Function.comp_def, lowerByte_idem]
  · simp [List.map_map, Function.comp_def, (upper_lower_byte _).1]
  · simp [List.map_map, Function.comp_def, (upper_lower_byte _).2]
  · intro b h; simp [upperByte, h]
  · intro b h; simp [lowerByte, h]
  · intro b h; simp only [upperByte, h, decide_true, Bool.and_self, if_true]; omega
  · intro b h; simp [lowerByte, h]

theorem isLead_upper (b : Nat) : (upperByte b < 128 || 192 ≤ upperByte b) = (b < 128 || 192 ≤ b) := by
  simp only [upperByte, Bool.and_eq_true, decide_eq_true_eq]
  split
  · rename_i h
    have h1 : b - 32 < 128 := by omega
    have h2 : b < 128 := by omega
    simp [h1, h2]
  · rfl

theorem isLead_lower (b : Nat) : (lowerByte b < 128 || 192 ≤ lowerByte b) = (b < 128 || 192 ≤ b) := by
  simp only [lowerByte, Bool.and_eq_true, decide_eq_true_eq]
  split
  · rename_i h
    have h1 : b + 32 < 128 := by omega
    have h2 : b < 128 := by omega
    simp [h1, h2]
  · rfl

/-- LENGTH counts characters: additive over `||`, unchanged by UPPER / LOWER, the number of bytes of an ASCII text -/
theorem length_laws (a b : List Nat) :
    charCount (a ++ b) = charCount a + charCount b ∧
    charCount (a.map upperByte) = charCount a ∧ charCount (a.map lowerByte) = charCount a ∧
    ((∀ x ∈ a, x < 128) → charCount a = a.length) := by
  refine ⟨by simp [charCount], ?_, ?_, ?_⟩
  · simp only [charCount, List.filter_map, List.length_map]
    congr 1
    apply List.filter_congr
    intro x _
    simp only [Function.comp]
    exact isLead_upper x
  · simp only [charCount, List.filter_map, List.length_map]
    congr 1
    apply List.filter_congr
    intro x _
    simp only [Function.comp]
    exact isLead_lower x
  · intro h
    simp only [charCount]
    rw [List.filter_eq_self.mpr]
    intro x hx
    simp [h x hx]

/-- LTRIM removes exactly the leading spaces, RTRIM exactly the trailing ones -/
theorem trim_def (s : List Nat) :
    (∃ n, s = List.replicate n 32 ++ ltrimBytes s) ∧ (ltrimBytes s).head? ≠ some 32 ∧
    (∃ n, s = rtrimBytes s ++ List.replicate n 32) ∧ (rtrimBytes s).getLast? ≠ some 32 := by
  have hl : ∀ t : List Nat, (∃ n, t = List.replicate n 32 ++ ltrimBytes t) ∧ (ltrimBytes t).head? ≠ some 32 := by
    intro t
    induction t with
    | nil => exact ⟨⟨0, rfl⟩, by simp [ltrimBytes]⟩
    | cons x xs ih =>
      by_cases hx : x = 32
      · subst hx
        obtain ⟨⟨n, hn⟩, h2⟩ := ih
        refine ⟨⟨n + 1, ?_⟩, ?_⟩
        · simp only [ltrimBytes, List.dropWhile_cons, beq_self_eq_true, if_true, List.replicate_succ, List.cons_append]
          congr 1
        · simpa [ltrimBytes] using h2
      · refine ⟨⟨0, ?_⟩, ?_⟩
        · simp [ltrimBytes, hx]
        · simp [ltrimBytes, hx]
  refine ⟨(hl s).1, (hl s).2, ?_, ?_⟩
  · obtain ⟨n, hn⟩ := (hl s.reverse).1
    refine ⟨n, ?_⟩
    have := congrArg List.reverse hn
    simpa [rtrimBytes] using this
  · have := (hl s.reverse).2
    simpa [rtrimBytes, List.getLast?_reverse] using this

/-- trimming twice is trimming once; `||` is associative with the empty text as unit -/
theorem trim_concat_laws (s t u : List Nat) :
    ltrimBytes (ltrimBytes s) = ltrimBytes s ∧ rtrimBytes (rtrimBytes s) = rtrimBytes s ∧
    concatV (.text s) (.text []) = .ok (.text s) ∧
    (concatV (.text s) (.text t)).bind (concatV · (.text u)) = (concatV (.text t) (.text u)).bind (concatV (.text s) ·) := by
  have hl : ∀ t : List Nat, ltrimBytes (ltrimBytes t) = ltrimBytes t := by
    intro t
    induction t with
    | nil => rfl
    | cons x xs ih =>
      by_cases hx : x = 32
      · subst hx; simpa [ltrimBytes] using ih
      · simp [ltrimBytes, hx]
  refine ⟨hl s, ?_, by simp [concatV], ?_⟩
  · simp [rtrimBytes, hl]
  · simp [concatV, Except.bind, List.append_assoc]

/-! ## DOUBLE values (compare-only: no floating-point operation is modelled) -/

/-- DOUBLE values are compared through their order keys, are NULL-strict like every comparison, pass unchanged into a
    DOUBLE column and into no other, and take no part in arithmetic -/
theorem double_compare_only (op : CmpOp) (a b : Int) (ty : Ty) (aop : ArithOp) (v : Value) (hv : v ≠ .null) :
    cmp3 op (.dbl a) (.dbl b) = some (op.holds (cmpInt a b)) ∧
    cmp3 op (.dbl a) .null = none ∧
    (castTo ty (.dbl a) = if ty = .double ∨ ty = .float then .ok (.dbl a) else .error .type) ∧
    (∀ uns, arith .none uns aop (.dbl a) v = .error .type) := by
  refine ⟨rfl, rfl, ?_, ?_⟩
  · cases ty <;> simp [castTo]
  · intro uns; cases v <;> first | exact absurd rfl hv | rfl

/-! ## Integer arithmetic (the promotion table), COALESCE, NULLIF, ABS / CEIL / FLOOR / ROUND, casts -/

/-- integer arithmetic is the promotion table of the engine: division or modulo by zero is an error; otherwise the result
    is the exact integer result if the promoted type holds it — BIGUINT (0 … 2^64 - 1) when both operands are of an
    unsigned kind, BIGINT (-2^63 … 2^63 - 1) for every other pair — and an overflow error if it does not -/
theorem int_arith_def (tys : List Ty) (row : Row) (op : ArithOp) (a b : Expr) (x y : Int)
    (ha : eval .none tys row a = .ok (.int x)) (hb : eval .none tys row b = .ok (.int y)) :
    eval .none tys row (.arith op a b) =
      if (op = .div ∨ op = .mod) ∧ y = 0 then .error .divzero
      else if fitsPromoted (rtUnsigned tys a && rtUnsigned tys b) (exactInt op x y) then .ok (.int (exactInt op x y))
      else .error .overflow := by
  simp only [eval, ha, hb, arith, arithInt, Defects.none, Bool.false_eq_true, if_false, Bool.and_eq_true,
    Bool.or_eq_true, decide_eq_true_eq]

/-- the ranges of the two result types -/
theorem fitsPromoted_iff (r : Int) :
    (fitsPromoted true r = true ↔ 0 ≤ r ∧ r ≤ 18446744073709551615) ∧
    (fitsPromoted false r = true ↔ -9223372036854775808 ≤ r ∧ r ≤ 9223372036854775807) := by
  simp only [fitsPromoted, fitsI64, i64Min, i64Max, u64Max, if_true, Bool.false_eq_true, if_false, Bool.and_eq_true,
    decide_eq_true_iff]
  exact ⟨⟨fun h => ⟨h.1, of_decide_eq_true h.2⟩, fun h => ⟨h.1, decide_eq_true h.2⟩⟩,
    ⟨fun h => ⟨of_decide_eq_true h.1, of_decide_eq_true h.2⟩, fun h => ⟨decide_eq_true h.1, decide_eq_true h.2⟩⟩⟩

/-- which operands are of an unsigned kind: columns of type UINT / BIGUINT and unsigned (op) unsigned; a literal never -/
theorem promotion_table (tys : List Ty) (op : ArithOp) (a b : Expr) (i : Nat) (v : Value) :
    rtUnsigned tys (.arith op a b) = (rtUnsigned tys a && rtUnsigned tys b) ∧
    rtUnsigned tys (.col i) = (tys.getD i .bigint == .uint || tys.getD i .bigint == .biguint) ∧
    rtUnsigned tys (.lit v) = false := by
  refine ⟨rfl, ?_, rfl⟩
  simp only [rtUnsigned]
  cases tys.getD i .bigint <;> rfl

/-- there is no unary minus on an unsigned value -/
theorem neg_unsigned (tys : List Ty) (row : Row) (e : Expr) (x : Int)
    (he : eval .none tys row e = .ok (.int x)) (hu : rtUnsigned tys e = true) :
    eval .none tys row (.neg e) = .error .type := by
  simp [eval, he, hu]

theorem firstNonNull_spec (vs : List Value) :
    (firstNonNull vs = .null ↔ ∀ v ∈ vs, v = .null) ∧
    (∀ pre v post, vs = pre ++ v :: post → (∀ w ∈ pre, w = .null) → v ≠ .null → firstNonNull vs = v) := by
  induction vs with
  | nil => exact ⟨by simp [firstNonNull], fun pre v post h => by simp at h⟩
  | cons x xs ih =>
    constructor
    · cases x <;> simp [firstNonNull, ih.1]
    · intro pre v post h hp hv
      cases pre with
      | nil =>
        simp only [List.nil_append, List.cons.injEq] at h
        obtain ⟨rfl, _⟩ := h
        cases x <;> first | exact absurd rfl hv | rfl
      | cons p pre =>
        simp only [List.cons_append, List.cons.injEq] at h
        obtain ⟨rfl, hxs⟩ := h
        have hx : x = .null := hp x (by simp)
        subst hx
        simp only [firstNonNull]
        exact ih.2 pre v post hxs (fun w hw => hp w (by simp [hw])) hv

/-- COALESCE evaluates all its arguments and returns the first that is not NULL (NULL if there is none), cast to the type
    of the first argument that has a type -/
theorem coalesce_def (tys : List Ty) (row : Row) (xs : List Expr) (vs : List Value)
    (h : evalList .none tys row xs = .ok vs) :
    eval .none tys row (.coalesce xs) = castTo ((inferFirst tys xs).getD .bool) (firstNonNull vs) ∧
    (firstNonNull vs = .null ↔ ∀ v ∈ vs, v = .null) ∧
    (∀ pre v post, vs = pre ++ v :: post → (∀ w ∈ pre, w = .null) → v ≠ .null → firstNonNull vs = v) := by
  refine ⟨?_, (firstNonNull_spec vs).1, (firstNonNull_spec vs).2⟩
  simp only [eval, Defects.none] at h ⊢
  rw [h]

/-- NULLIF(a, b) is NULL if a = b is TRUE and a otherwise (so also when b is NULL), with the type of a -/
theorem nullif_def (tys : List Ty) (row : Row) (a b : Expr) (va vb : Value)
    (ha : eval .none tys row a = .ok va) (hb : eval .none tys row b = .ok vb) :
    eval .none tys row (.nullif a b) =
      castTo (inferTy tys a) (if cmp3 .eq va vb = some true then .null else va) ∧
    (vb = .null → eval .none tys row (.nullif a b) = castTo (inferTy tys a) va) ∧
    (va ≠ .null → vb = va → eval .none tys row (.nullif a b) = .ok .null) := by
  have key : eval .none tys row (.nullif a b) =
      castTo (inferTy tys a) (if cmp3 .eq va vb = some true then .null else va) := by
    simp only [eval, Defects.none] at ha hb ⊢
    rw [ha, hb]
    simp only []
    by_cases hc : cmp3 .eq va vb = some true <;> simp [hc]
  refine ⟨key, ?_, ?_⟩
  · rintro rfl
    rw [key]
    cases va <;> simp [cmp3]
  · intro hn he
    subst he
    rw [key]
    have : cmp3 .eq vb vb = some true := by
      cases vb <;> first | exact absurd rfl hn | simp [cmp3, CmpOp.holds, cmp_self]
    simp [this, castTo]

/-- ABS of an integer is the DOUBLE nearest to |v| (exact below 2^53; -2^63 has the absolute value 2^63), of a DOUBLE
    the value with the sign cleared, of NULL NULL; CEIL, FLOOR and ROUND of an integer are that integer as a DOUBLE -/
theorem abs_def (v k : Int) :
    strFn1 .abs (.int v) = .ok (dblOfInt (v.natAbs : Int)) ∧
    strFn1 .abs (.dbl k) = .ok (.dbl (k.natAbs : Int)) ∧
    strFn1 .abs .null = .ok .null ∧
    strFn1 .ceil (.int v) = .ok (dblOfInt v) ∧ strFn1 .floor (.int v) = .ok (dblOfInt v) ∧
    strFn1 .round (.int v) = .ok (dblOfInt v) := ⟨rfl, rfl, rfl, rfl, rfl, rfl⟩

theorem num_fn_examples :
    strFn1 .abs (.int (-7)) = .ok (.dbl 4619567317775286272) ∧
    strFn1 .abs (.int (-9223372036854775808)) = .ok (.dbl 4890909195324358656) ∧
    strFn1 .floor (.dbl (-4612811918334230528)) = .ok (.dbl (-4613937818241073152)) ∧
    strFn1 .ceil (.dbl (-4612811918334230528)) = .ok (.dbl (-4611686018427387904)) ∧
    strFn1 .round (.dbl (-4612811918334230528)) = .ok (.dbl (-4613937818241073152)) ∧
    strFn1 .round (.dbl 4602678819172646912) = .ok (.dbl 4607182418800017408) ∧
    strFn1 .floor (.dbl (-4593671619917905920)) = .ok (.dbl (-4607182418800017408)) ∧
    strFn1 .ceil (.dbl (-4593671619917905920)) = .ok (.dbl 0) := by decide

/-- the C19 kind of an integer column type -/
def kindOfTy : Ty → Option AxVerif.Value.Kind
  | .int => some .int | .bigint => some .bigint | .uint => some .uint | .biguint => some .biguint
  | _ => none

theorem cast_aux (lo hi i : Int) (w0 : AxVerif.Value.Value) (hw : lo ≤ i → i ≤ hi → w0.intVal = some i) :
    match (if lo ≤ i ∧ i ≤ hi then (Except.ok w0 : Except AxVerif.Value.Err AxVerif.Value.Value)
           else .error .badCast) with
    | .ok w => (if (decide (lo ≤ i) && decide (i ≤ hi)) = true then (Except.ok (Value.int i) : Except Err Value)
                else .error .type) = .ok (.int i) ∧ w.intVal = some i
    | .error _ => (if (decide (lo ≤ i) && decide (i ≤ hi)) = true then (Except.ok (Value.int i) : Except Err Value)
                else .error .type) = .error .type := by
  by_cases h : lo ≤ i ∧ i ≤ hi
  · simp [h, hw h.1 h.2]
  · have : ¬ ((decide (lo ≤ i) && decide (i ≤ hi)) = true) := by simpa using h
    simp only [h, if_false]
    rw [if_neg this]

/-- The cast applied to a produced integer (projection, INSERT, UPDATE, function results) agrees with C19's model of
    `DataType::try_cast` for every pair of integer kinds: it succeeds with the same integer exactly when `try_cast` does.
    (The SQL grammar has no CAST expression: these implicit casts are the casts a statement can reach.) -/
theorem cast_agrees_with_C19 (ty : Ty) (k ks : AxVerif.Value.Kind) (i lo hi : Int)
    (hk : kindOfTy ty = some k) (hr : ks.intRange = some (lo, hi)) (hlo : lo ≤ i) (hhi : i ≤ hi) :
    match AxVerif.Value.tryCast {} (AxVerif.Value.Value.ofInt ks i) k with
    | .ok w => castTo ty (.int i) = .ok (.int i) ∧ w.intVal = some i
    | .error _ => castTo ty (.int i) = .error .type := by
  cases ty <;> simp only [kindOfTy, Option.some.injEq, reduceCtorEq] at hk <;> subst hk <;>
  cases ks <;> simp only [AxVerif.Value.Kind.intRange, Option.some.injEq, Prod.mk.injEq, reduceCtorEq] at hr <;>
  obtain ⟨rfl, rfl⟩ := hr <;>
  simp only [AxVerif.Value.tryCast, AxVerif.Value.Value.ofInt, AxVerif.Value.Value.kind, reduceCtorEq, if_false, if_true,
    AxVerif.Value.Value.intVal, AxVerif.Value.Kind.intRange, castTo, fitsI32, fitsI64, i32Min, i32Max, i64Min, i64Max,
    u32Max, u64Max] <;>
  (try simp only [Int.toNat_of_nonneg hlo]) <;>
  first
  | exact cast_aux _ _ i _ (by intro h1 h2; simp [AxVerif.Value.Value.intVal, Int.toNat_of_nonneg, *] <;> omega)
  | (simp [*]; done)

/-! ## Aggregates -/

/-- COUNT(expr) counts the non-NULL values only; COUNT(*) counts rows -/
theorem count_col_ignores_null (vs : List Value) :
    aggregate .none .count vs = .ok (.int (vs.filter (· != .null)).length) ∧
    aggregate .none .count (.null :: vs) = aggregate .none .count vs ∧
    aggregate .none .countStar vs = .ok (.int vs.length) := by
  simp [aggregate, nonNull]

/-- every aggregate except COUNT(*) ignores NULL inputs -/
theorem aggregates_ignore_null (f : AggFn) (hf : f ≠ .countStar) (vs : List Value) :
    aggregate .none f (.null :: vs) = aggregate .none f vs := by
  cases f <;> simp [aggregate, nonNull_cons_null] at hf ⊢

/-- aggregates over no non-NULL value: COUNT is 0, the others are NULL -/
theorem aggregates_of_nothing (vs : List Value) (h : ∀ v ∈ vs, v = .null) :
    aggregate .none .count vs = .ok (.int 0) ∧ aggregate .none .sum vs = .ok .null ∧
    aggregate .none .avg vs = .ok .null ∧ aggregate .none .min vs = .ok .null ∧
    aggregate .none .max vs = .ok .null := by
  have : nonNull vs = [] := by
    simp only [nonNull, List.filter_eq_nil_iff, bne_iff_ne, ne_eq]
    intro v hv hn
    exact hn (h v hv)
  simp [aggregate, this, minVal, maxVal]

/-- SUM is the sum and AVG the quotient sum / count (a rational in lowest terms) of the non-NULL values
    (when no overflow is reported) -/
theorem sum_avg_def (is : List Int) (hne : is ≠ []) (v : Value) :
    (aggregate .none .sum (is.map .int) = .ok v → v = .int is.sum) ∧
    (aggregate .none .avg (is.map .int) = .ok v → v = ratNorm is.sum is.length) := by
  have hnn : nonNull (is.map .int) = is.map .int := by
    simp only [nonNull, List.filter_eq_self, List.mem_map, bne_iff_ne, ne_eq]
    rintro _ ⟨i, _, rfl⟩; simp
  have hne' : is.map Value.int ≠ [] := by simpa using hne
  constructor <;> intro h <;> simp only [aggregate, hnn] at h
  · cases hm : is.map Value.int with
    | nil => exact absurd hm hne'
    | cons a as =>
      rw [hm] at h
      cases hs : sumInts {} (a :: as) with
      | error e => simp [hs] at h
      | ok s =>
        simp only [hs, Except.ok.injEq] at h
        rw [← hm] at hs
        rw [← h, sumInts_eq is s hs]
  · cases hm : is.map Value.int with
    | nil => exact absurd hm hne'
    | cons a as =>
      rw [hm] at h
      cases hs : sumInts {} (a :: as) with
      | error e => simp [hs] at h
      | ok s =>
        simp only [hs, Except.ok.injEq] at h
        rw [← hm] at hs
        rw [← h, sumInts_eq is s hs]
        have : (a :: as).length = is.length := by rw [← hm]; simp
        rw [this]

/-- MIN / MAX return an element of the group that is ≤ / ≥ every non-NULL element -/
theorem min_max_def (vs : List Value) (h : ∃ v ∈ vs, v ≠ .null) :
    ∃ mn mx, aggregate .none .min vs = .ok mn ∧ aggregate .none .max vs = .ok mx ∧
      mn ∈ vs ∧ mx ∈ vs ∧ mn ≠ .null ∧ mx ≠ .null ∧
      ∀ v ∈ vs, v ≠ .null → mn.cmp v ≠ .gt ∧ v.cmp mx ≠ .gt := by
  have hne : nonNull vs ≠ [] := by
    rcases h with ⟨v, hv, hn⟩
    intro he
    have : v ∈ nonNull vs := (nonNull_mem vs v).mpr ⟨hv, hn⟩
    rw [he] at this; simp at this
  have hnn : ∀ v ∈ nonNull vs, v ≠ .null := fun v hv => ((nonNull_mem vs v).mp hv).2
  have hmin := (minVal_spec (nonNull vs) hnn).2 hne
  have hmax := (maxVal_spec (nonNull vs) hnn).2 hne
  refine ⟨minVal (nonNull vs), maxVal (nonNull vs), rfl, rfl,
    ((nonNull_mem _ _).mp hmin.1).1, ((nonNull_mem _ _).mp hmax.1).1,
    ((nonNull_mem _ _).mp hmin.1).2, ((nonNull_mem _ _).mp hmax.1).2, ?_⟩
  intro v hv hn
  have hv' := (nonNull_mem vs v).mpr ⟨hv, hn⟩
  exact ⟨hmin.2 v hv', hmax.2 v hv'⟩

/-! ## WHERE -/

/-- is the expression TRUE on the row (not FALSE, not unknown, no error)? -/
def holds (tys : List Ty) (w : Expr) (r : Row) : Bool :=
  match eval .none tys r w with
  | .ok (.bool true) => true
  | _ => false

theorem isTrueOn_evalPred (tys : List Ty) (w : Expr) (r : Row) :
    isTrueOn (evalPred .none tys w) r = holds tys w r := by
  simp only [isTrueOn, evalPred, holds]
  cases h : eval {} tys r w with
  | error e => rfl
  | ok v => cases v <;> simp
            rename_i b; cases b <;> rfl

/-- WHERE keeps exactly the rows on which the condition is TRUE — not FALSE, not unknown — in their order,
    for every table and every condition (if no row raises an error) -/
theorem where_keeps_only_true (tys : List Ty) (w : Expr) (rows out : List Row)
    (h : applyWhere .none tys (some w) rows = .ok out) :
    out = rows.filter (holds tys w) := by
  simp only [applyWhere] at h
  rw [filterRows_eq _ _ _ h]
  have e : isTrueOn (evalPred Defects.none tys w) = holds tys w := funext (isTrueOn_evalPred tys w)
  rw [e]

/-- without WHERE all rows are kept -/
theorem where_absent (tys : List Ty) (rows : List Row) : applyWhere .none tys none rows = .ok rows := rfl

/-! ## Aggregate queries: DISTINCT aggregates, HAVING -/

/-- AGG(DISTINCT expr) sees every distinct non-NULL value exactly once: its input has no duplicates, no NULL, and
    the same members as the non-NULL argument values; so COUNT(DISTINCT expr) is the number of distinct non-NULL values -/
theorem distinct_aggregate_input (a : Agg) (hd : a.distinct = true) (hf : a.fn ≠ .countStar) (vs : List Value) :
    (aggInput a vs).Nodup ∧ (∀ v, v ∈ aggInput a vs ↔ (v ∈ vs ∧ v ≠ .null)) ∧
    aggregate .none .count (aggInput a vs) = .ok (.int (aggInput a vs).length) := by
  have hin : aggInput a vs = dedupV (nonNull vs) := by
    simp only [aggInput, hd, Bool.true_and]
    have : (a.fn != AggFn.countStar) = true := by simpa using hf
    simp [this]
  have hmem : ∀ (l : List Value) (v : Value), v ∈ dedupV l ↔ v ∈ l := by
    intro l
    induction l with
    | nil => simp [dedupV]
    | cons x xs ih =>
      intro v
      simp only [dedupV, List.mem_cons, List.mem_filter, ih, bne_iff_ne, ne_eq]
      constructor
      · rintro (h | ⟨h, _⟩)
        · exact Or.inl h
        · exact Or.inr h
      · intro h
        by_cases hx : v = x
        · exact Or.inl hx
        · rcases h with h | h
          · exact absurd h hx
          · exact Or.inr ⟨h, hx⟩
  have hnd : ∀ l : List Value, (dedupV l).Nodup := by
    intro l
    induction l with
    | nil => simp [dedupV]
    | cons x xs ih =>
      simp only [dedupV, List.nodup_cons, List.mem_filter, bne_iff_ne, ne_eq, not_and]
      exact ⟨fun _ h => h trivial, ih.filter _⟩
  rw [hin]
  refine ⟨hnd _, fun v => by rw [hmem, nonNull_mem], ?_⟩
  have hnn : nonNull (dedupV (nonNull vs)) = dedupV (nonNull vs) := by
    simp only [nonNull, List.filter_eq_self, bne_iff_ne, ne_eq]
    intro v hv
    exact ((nonNull_mem vs v).mp ((hmem _ v).mp hv)).2
  simp [aggregate, hnn]

/-- an aggregate query: group, compute the aggregate row of every group (keys, then aggregates), keep the groups on
    which HAVING is TRUE — not FALSE, not unknown —, project the select list over the aggregate row -/
theorem aggregate_query_pipeline (tys : List Ty) (q : Select) (hq : q.isAgg = true) (rows out : List Row)
    (h : produce .none tys q rows = .ok out) :
    ∃ keyed arows, keyRows .none tys q.groupBy rows = .ok keyed ∧
      mapE (aggRow .none tys q.groupBy q.aggs) (groupsOf q.groupBy.isEmpty keyed) = .ok arows ∧
      projectAll .none (aggTys tys q.groupBy q.aggs) q.items
        (match q.having with
         | none => arows
         | some hv => arows.filter (holds (aggTys tys q.groupBy q.aggs) hv)) = .ok out := by
  simp only [produce, hq, Bool.not_true, Bool.false_eq_true, if_false] at h
  cases hk : keyRows {} tys q.groupBy rows with
  | error e => simp [hk] at h
  | ok keyed =>
    simp only [hk] at h
    cases ha : mapE (aggRow {} tys q.groupBy q.aggs) (groupsOf q.groupBy.isEmpty keyed) with
    | error e => simp [ha] at h
    | ok arows =>
      simp only [ha] at h
      refine ⟨keyed, arows, rfl, ha, ?_⟩
      cases hh : q.having with
      | none => simpa [hh, applyWhere] using h
      | some hv =>
        simp only [hh] at h
        cases hw : applyWhere {} (aggTys tys q.groupBy q.aggs) (some hv) arows with
        | error e => simp [hw] at h
        | ok kept =>
          simp only [hw] at h
          have hk := where_keeps_only_true _ hv arows kept hw
          simp only
          rw [← hk]
          exact h

/-! ## Joins (on a decided match relation `m`; `evalFrom` decides it by evaluating ON for every pair) -/

/-- INNER JOIN: exactly the concatenations of the matching pairs … -/
theorem join_inner_def (m : Row → Row → Bool) (lw rw : Nat) (l r : List Row) (x : Row) :
    x ∈ joinPure .inner m lw rw l r ↔ ∃ a ∈ l, ∃ b ∈ r, m a b = true ∧ x = a ++ b := by
  simp only [joinPure, joinLeftPart_false, innerPairs, List.mem_flatMap, mem_matchesOf]

/-- … each as often as the pair occurs: the list comprehension over left rows, then right rows -/
theorem join_inner_eq (m : Row → Row → Bool) (lw rw : Nat) (l r : List Row) :
    joinPure .inner m lw rw l r = l.flatMap (fun a => (r.filter (m a)).map (a ++ ·)) := by
  simp [joinPure, joinLeftPart_false, innerPairs, matchesOf]

/-- CROSS JOIN is the inner join with the always-true condition: the Cartesian product -/
theorem join_cross_def (lw rw : Nat) (l r : List Row) :
    joinPure .cross (fun _ _ => true) lw rw l r = l.flatMap (fun a => r.map (a ++ ·)) := by
  simp only [joinPure, joinLeftPart_false, innerPairs, matchesOf]
  congr 1
  funext a
  rw [List.filter_eq_self.mpr (fun _ _ => rfl)]

/-- LEFT JOIN = the inner join plus every left row without a match, padded with NULLs (as multisets) -/
theorem join_left_def (m : Row → Row → Bool) (lw rw : Nat) (l r : List Row) :
    (joinPure .left m lw rw l r).Perm
      (joinPure .inner m lw rw l r ++ (l.filter (fun a => !(r.any (m a)))).map (· ++ nulls rw)) := by
  simp only [joinPure, joinLeftPart_false]
  exact joinLeftPart_true_perm m rw l r

/-- RIGHT JOIN = the inner join plus every right row without a match, padded with NULLs on the left -/
theorem join_right_def (m : Row → Row → Bool) (lw rw : Nat) (l r : List Row) :
    joinPure .right m lw rw l r =
      joinPure .inner m lw rw l r ++ (r.filter (fun b => !(l.any (fun a => m a b)))).map (nulls lw ++ ·) := by
  simp [joinPure, unmatchedRight]

/-- RIGHT JOIN is the mirror image of LEFT JOIN (inputs exchanged, converse condition, columns put back) -/
theorem join_right_mirror (m : Row → Row → Bool) (lw rw : Nat) (l r : List Row)
    (hr : ∀ b ∈ r, b.length = rw) :
    (joinPure .right m lw rw l r).Perm
      ((joinPure .left (fun b a => m a b) rw lw r l).map (swapCols rw)) :=
  joinRight_mirror m lw rw l r hr

/-- FULL JOIN = LEFT JOIN plus the unmatched right rows -/
theorem join_full_def (m : Row → Row → Bool) (lw rw : Nat) (l r : List Row) :
    joinPure .full m lw rw l r =
      joinPure .left m lw rw l r ++ (r.filter (fun b => !(l.any (fun a => m a b)))).map (nulls lw ++ ·) := by
  simp [joinPure, unmatchedRight]

/-- every left row survives a LEFT/FULL join, every right row a RIGHT/FULL join (outer joins lose no row) -/
theorem outer_join_preserves (m : Row → Row → Bool) (lw rw : Nat) (l r : List Row) :
    (∀ a ∈ l, ∃ x ∈ joinPure .left m lw rw l r, x.take a.length = a) ∧
    (∀ b ∈ r, ∃ x ∈ joinPure .right m lw rw l r, x.drop (x.length - b.length) = b) := by
  constructor
  · intro a ha
    simp only [joinPure, joinLeftPart, List.mem_flatMap]
    by_cases he : (matchesOf m a r).isEmpty = true
    · refine ⟨a ++ nulls rw, ⟨a, ha, by simp [he]⟩, by simp⟩
    · cases hms : matchesOf m a r with
      | nil => simp [hms] at he
      | cons x xs =>
        have hx : x ∈ matchesOf m a r := by rw [hms]; simp
        rcases (mem_matchesOf m a r x).mp hx with ⟨b, _, _, rfl⟩
        refine ⟨a ++ b, ⟨a, ha, ?_⟩, by simp⟩
        simp only [he, Bool.false_eq_true, Bool.and_true, if_false]
        exact hx
  · intro b hb
    rw [join_right_def]
    by_cases hany : l.any (fun a => m a b) = true
    · rcases List.any_eq_true.mp hany with ⟨a, ha, hm⟩
      refine ⟨a ++ b, ?_, by simp⟩
      exact List.mem_append_left _ ((join_inner_def m lw rw l r _).mpr ⟨a, ha, b, hb, hm, rfl⟩)
    · refine ⟨nulls lw ++ b, ?_, by simp⟩
      refine List.mem_append_right _ (List.mem_map.mpr ⟨b, List.mem_filter.mpr ⟨hb, ?_⟩, rfl⟩)
      simpa using hany

/-! ## DISTINCT, ORDER BY, LIMIT / OFFSET, GROUP BY -/

/-- DISTINCT: no duplicates, the same rows, first occurrences in their order; nothing to do on a duplicate-free input -/
theorem distinct_nodup_subset (rows : List Row) :
    (dedup rows).Nodup ∧ (∀ r, r ∈ dedup rows ↔ r ∈ rows) ∧ (dedup rows).Sublist rows ∧
    (rows.Nodup → dedup rows = rows) :=
  ⟨nodup_dedup rows, mem_dedup rows, dedup_sublist rows, dedup_of_nodup rows⟩

/-- ORDER BY returns a permutation of its input that is sorted under the key comparison (any directions,
    either NULL placement).  Rows whose keys tie may come in any order. -/
theorem sort_perm_sorted (nullsFirst : Bool) (dirs : List Bool) (keyed : List (List Value × Row)) :
    (sortRows nullsFirst dirs keyed).Perm (keyed.map (·.2)) ∧
    (sortBy (leKeys nullsFirst dirs) keyed).Pairwise (fun a b => cmpKeys nullsFirst dirs a.1 b.1 ≠ .gt) := by
  constructor
  · exact (perm_sortBy _ keyed).map _
  · have := sorted_sortBy (leKeys nullsFirst dirs) (leKeys_total nullsFirst dirs) (leKeys_trans nullsFirst dirs) keyed
    refine this.imp ?_
    intro a b h
    simpa [leKeys] using h

/-- the key comparison is a total preorder, the NULL placement is as the parameter says, DESC reverses ASC -/
theorem order_comparator (nullsFirst : Bool) (dirs : List Bool) :
    IsPreorderCmp (cmpKeys nullsFirst dirs) ∧
    (∀ v, v ≠ .null → cmpKey false true v .null = .lt ∧ cmpKey true true v .null = .gt) ∧
    (∀ a b, cmpKey nullsFirst false a b = (cmpKey nullsFirst true a b).swap) := by
  refine ⟨cmpKeys_pre nullsFirst dirs, ?_, fun a b => rfl⟩
  intro v hv
  cases v <;> simp [cmpKey, cmpNullable] at hv ⊢

/-- LIMIT / OFFSET = drop, then take -/
theorem limit_offset_def (rows : List Row) (l o : Nat) :
    limitOffset (some l) o rows = (rows.drop o).take l ∧
    limitOffset none o rows = rows.drop o ∧
    (limitOffset (some l) o rows).length = min l (rows.length - o) := by
  simp [limitOffset]

/-- GROUP BY partitions its input: the keys of the groups are pairwise different, the members of a group are
    exactly the input rows with its key (in input order, never empty), and together the groups are the input -/
theorem group_partition {α} (key : α → List Value) (xs : List α) :
    ((groupBy key xs).map (·.1)).Nodup ∧
    (∀ g ∈ groupBy key xs, g.2 = xs.filter (fun x => key x == g.1) ∧ g.2 ≠ []) ∧
    ((groupBy key xs).flatMap (·.2)).Perm xs :=
  ⟨groupBy_keys_nodup key xs, groupBy_members key xs, groupBy_perm key xs⟩

/-! ## UPDATE / DELETE -/

/-- DELETE removes exactly the rows on which the condition is TRUE and reports their number -/
theorem delete_touches_exactly (tys : List Ty) (w : Expr) (rows rest : List Row) (n : Nat)
    (h : deleteRows (predOf .none tys (some w)) rows = .ok (rest, n)) :
    rest = rows.filter (fun r => !holds tys w r) ∧ n = (rows.filter (holds tys w)).length ∧
    rest.length + n = rows.length := by
  have := deleteRows_eq _ _ _ _ h
  simp only [predOf] at this
  have e : isTrueOn (evalPred Defects.none tys w) = holds tys w := funext (isTrueOn_evalPred tys w)
  rw [e] at this
  exact this

/-- UPDATE rewrites exactly the rows on which the condition is TRUE (row by row, in place), leaves the others
    untouched, keeps the number of rows, and reports the number of rewritten rows -/
theorem update_touches_exactly (tys : List Ty) (w : Expr) (assign : Row → Except Err Row)
    (rows rows' : List Row) (n : Nat)
    (h : updateRows (predOf .none tys (some w)) assign rows = .ok (rows', n)) :
    n = (rows.filter (holds tys w)).length ∧ rows'.length = rows.length ∧
    ∀ i (hi : i < rows.length) (hj : i < rows'.length),
      (holds tys w rows[i] = true → assign rows[i] = .ok rows'[i]) ∧
      (holds tys w rows[i] = false → rows'[i] = rows[i]) := by
  have := updateRows_eq _ _ _ _ _ h
  simp only [predOf] at this
  have e : isTrueOn (evalPred Defects.none tys w) = holds tys w := funext (isTrueOn_evalPred tys w)
  rw [e] at this
  exact this


/-- a table with an INT and an INT column (used in examples) -/
def wT' : TableDef := { tys := [.int, .int], rows := [[.int 1, .int 10]] }

/-! ## The evaluator is built from these operators -/

/-- the match relation decided by an ON condition (`none` = CROSS JOIN / no condition) -/
def onMatch (tys : List Ty) (on : Option Expr) (a b : Row) : Bool :=
  match on with
  | none => true
  | some c => holds tys c (a ++ b)

/-- a join in FROM is `joinPure` on the inputs' rows with the relation "ON is TRUE on the concatenated row" -/
theorem from_join_is_joinPure (db : Db) (k : JoinKind) (l r : From) (on : Option Expr) (out : List Row)
    (h : evalFrom .none db (.join k l r on) = .ok out) :
    ∃ lrows rrows, evalFrom .none db l = .ok lrows ∧ evalFrom .none db r = .ok rrows ∧
      out = joinPure k (onMatch (l.tys db ++ r.tys db) on) (l.tys db).length (r.tys db).length lrows rrows := by
  simp only [evalFrom] at h
  cases hl : evalFrom {} db l with
  | error e => simp [hl] at h
  | ok lrows =>
    cases hr : evalFrom {} db r with
    | error e => simp [hl, hr] at h
    | ok rrows =>
      refine ⟨lrows, rrows, rfl, rfl, ?_⟩
      simp only [hl, hr, Bool.false_and, Bool.false_eq_true, if_false] at h
      split at h
      · simp at h
      · simp only [Except.ok.injEq] at h
        rw [← h]
        congr 1
        funext a b
        cases on with
        | none => rfl
        | some c =>
          simp only [onMatch, holds]
          have := isTrueOn_evalPred (l.tys db ++ r.tys db) c (a ++ b)
          simp only [isTrueOn, holds] at this
          exact this

/-- the query a derived table `(SELECT items FROM f [WHERE w]) AS r` stands for -/
def derivedQuery (f : From) (w : Option Expr) (items : List Expr) : Select :=
  { distinct := false, from_ := f, where_ := w, groupBy := [], aggs := [], items := some items, orderBy := [],
    limit := none, offset := none }

/-- a derived table in FROM supplies exactly the rows its query returns (errors included), under the schema its
    select list infers -/
theorem derived_table_is_its_query (nullsFirst : Bool) (db : Db) (f : From) (w : Option Expr) (items : List Expr) :
    evalFrom .none db (.derived f w items) = evalSelect .none nullsFirst db (derivedQuery f w items) ∧
    (From.derived f w items).tys db = items.map (inferTy (f.tys db)) := by
  refine ⟨?_, rfl⟩
  simp only [evalFrom, evalSelect, derivedQuery, produce, Select.isAgg, projectAll, List.isEmpty_nil, Bool.not_true,
    Bool.or_self, Bool.not_false, if_true, finish, limitOffset, Option.getD_none, List.drop_zero,
    Bool.false_eq_true, if_false]
  cases evalFrom {} db f with
  | error e => rfl
  | ok rows =>
    simp only []
    cases applyWhere {} (f.tys db) w rows with
    | error e => rfl
    | ok kept =>
      simp only []
      cases mapE (projectRow {} (f.tys db) items) kept <;> rfl

/-- `SELECT * FROM (query) AS r` is the query -/
theorem derived_star_transparent (nullsFirst : Bool) (db : Db) (f : From) (w : Option Expr) (items : List Expr) :
    evalSelect .none nullsFirst db
      { distinct := false, from_ := .derived f w items, where_ := none, groupBy := [], aggs := [], items := none,
        orderBy := [], limit := none, offset := none } =
    evalSelect .none nullsFirst db (derivedQuery f w items) := by
  rw [← (derived_table_is_its_query nullsFirst db f w items).1]
  simp only [evalSelect, applyWhere, produce, Select.isAgg, projectAll, List.isEmpty_nil, Bool.not_true,
    Bool.or_self, Bool.not_false, if_true, finish, limitOffset, Option.getD_none, List.drop_zero,
    Bool.false_eq_true, if_false]
  cases evalFrom {} db (.derived f w items) <;> rfl

/-- SELECT = FROM, then WHERE, then projection or grouping, then ORDER BY, DISTINCT, OFFSET/LIMIT -/
theorem select_pipeline (nullsFirst : Bool) (db : Db) (q : Select) (out : List Row)
    (h : evalSelect .none nullsFirst db q = .ok out) :
    ∃ rows0 rows1 rows2, evalFrom .none db q.from_ = .ok rows0 ∧
      applyWhere .none (q.from_.tys db) q.where_ rows0 = .ok rows1 ∧
      produce .none (q.from_.tys db) q rows1 = .ok rows2 ∧
      out = limitOffset q.limit (q.offset.getD 0)
        ((if q.distinct then dedup else id)
          (if q.orderBy.isEmpty then rows2
           else sortRows nullsFirst (q.orderBy.map (·.2)) (rows2.map (keyedBy (q.orderBy.map (·.1)))))) := by
  simp only [evalSelect] at h
  cases h0 : evalFrom {} db q.from_ with
  | error e => simp [h0] at h
  | ok rows0 =>
    simp only [h0] at h
    cases h1 : applyWhere {} (q.from_.tys db) q.where_ rows0 with
    | error e => simp [h1] at h
    | ok rows1 =>
      simp only [h1] at h
      cases h2 : produce {} (q.from_.tys db) q rows1 with
      | error e => simp [h2] at h
      | ok rows2 =>
        simp only [h2, Except.ok.injEq] at h
        refine ⟨rows0, rows1, rows2, rfl, h1, h2, ?_⟩
        rw [← h]
        simp only [finish]
        cases q.distinct <;> rfl

/-- INSERT with a column list: well-formed iff the list has as many columns as the row has values, names no column twice
    and only columns of the table; then column j of the stored row is the value written for it, NULL if it is not listed -/
theorem insert_column_list_def (ncols : Nat) (cols : List Nat) (row : List Expr) :
    (expandCols ncols cols row = none ↔ (cols.length ≠ row.length ∨ ¬ cols.Nodup ∨ ∃ c ∈ cols, ncols ≤ c)) ∧
    (∀ full, expandCols ncols cols row = some full →
      full.length = ncols ∧
      ∀ j, j < ncols → full[j]? = some (match (cols.zip row).find? (fun p => p.1 == j) with
        | some p => p.2
        | none => .lit .null)) := by
  constructor
  · simp only [expandCols]
    by_cases h1 : cols.length = row.length <;> by_cases h2 : cols.Nodup <;>
      by_cases h3 : ∃ c ∈ cols, ncols ≤ c <;> simp_all
  · intro full h
    simp only [expandCols] at h
    split at h
    · cases h
    · simp only [Option.some.injEq] at h
      subst h
      refine ⟨by simp, fun j hj => ?_⟩
      simp [hj]
      rfl

/-- `INSERT INTO t (c2, c0) VALUES (x, y)` on a table of three columns stores (y, NULL, x); a list naming a column twice,
    naming a column the table does not have, or with a value too few is ill-formed -/
theorem insert_column_list_examples :
    expandCols 3 [2, 0] [.lit (.int 7), .lit (.int 8)] = some [.lit (.int 8), .lit .null, .lit (.int 7)] ∧
    expandCols 3 [1, 1] [.lit (.int 7), .lit (.int 8)] = none ∧
    expandCols 3 [3] [.lit (.int 7)] = none ∧
    expandCols 3 [0, 1] [.lit (.int 7)] = none := by
  refine ⟨by rfl, by rfl, by rfl, by rfl⟩

/-- a statement that fails changes nothing; a SELECT never changes anything -/
theorem failed_statement_no_effect (nullsFirst : Bool) (db : Db) (s : Stmt) (e : Err) (db' : Db)
    (h : execStmt .none nullsFirst db s = (db', .error e)) : db' = db := by
  cases s with
  | select q =>
    simp only [execStmt] at h
    split at h <;> simp at h <;> exact h.1.symm
  | insert t rows =>
    simp only [execStmt] at h
    split at h
    · simp at h; exact h.1.symm
    · split at h
      · simp at h; exact h.1.symm
      · split at h <;> simp at h
        exact h.1.symm
  | update t sets w =>
    simp only [execStmt] at h
    split at h
    · simp at h; exact h.1.symm
    · split at h <;> simp at h
      exact h.1.symm
  | delete t w =>
    simp only [execStmt] at h
    split at h
    · simp at h; exact h.1.symm
    · split at h <;> simp at h
      exact h.1.symm

/-- DELETE as a statement: the addressed table loses exactly the rows where the condition is TRUE, the count
    reported is their number, every other table is untouched -/
theorem exec_delete (nullsFirst : Bool) (db : Db) (t : Nat) (w : Expr) (td : TableDef) (db' : Db) (n : Nat)
    (ht : db[t]? = some td)
    (h : execStmt .none nullsFirst db (.delete t (some w)) = (db', .affected n)) :
    n = (td.rows.filter (holds td.tys w)).length ∧
    db'[t]? = some { td with rows := td.rows.filter (fun r => !holds td.tys w r) } ∧
    ∀ u, u ≠ t → db'[u]? = db[u]? := by
  simp only [execStmt, ht] at h
  cases hd : deleteRows (predOf {} td.tys (some w)) td.rows with
  | error e => simp [hd] at h
  | ok p =>
    obtain ⟨rest, m⟩ := p
    simp only [hd, Prod.mk.injEq, Outcome.affected.injEq] at h
    have hspec := delete_touches_exactly td.tys w td.rows rest m hd
    obtain ⟨h1, h2⟩ := h
    subst h2
    refine ⟨hspec.2.1, ?_, ?_⟩
    · rw [← h1, setTable]
      have hlt : t < db.length := by
        rcases List.getElem?_eq_some_iff.mp ht with ⟨hlt, _⟩; exact hlt
      rw [List.getElem?_set_self hlt]
      have : db.getD t default = td := by simp [List.getD, ht]
      rw [this, hspec.1]
    · intro u hu
      rw [← h1, setTable, List.getElem?_set_ne (Ne.symm hu)]

/-- UPDATE as a statement: in the addressed table exactly the rows where the condition is TRUE are rewritten
    (each to its old value with the SET columns overwritten by the values of the SET expressions on the *old* row,
    cast to the column types), all other rows and all other tables are untouched, the row count is unchanged and
    the count reported is the number of rewritten rows -/
theorem exec_update (nullsFirst : Bool) (db : Db) (t : Nat) (sets : List (Nat × Expr)) (w : Expr) (td : TableDef)
    (db' : Db) (n : Nat) (ht : db[t]? = some td)
    (h : execStmt .none nullsFirst db (.update t sets (some w)) = (db', .affected n)) :
    n = (td.rows.filter (holds td.tys w)).length ∧
    (∀ u, u ≠ t → db'[u]? = db[u]?) ∧
    ∃ rows', db'[t]? = some { td with rows := rows' } ∧ rows'.length = td.rows.length ∧
      ∀ i (hi : i < td.rows.length) (hj : i < rows'.length),
        (holds td.tys w td.rows[i] = false → rows'[i] = td.rows[i]) ∧
        (holds td.tys w td.rows[i] = true → ∃ vals : List (Nat × Value),
          vals.map (·.1) = sets.map (·.1) ∧ rows'[i] = setCols td.rows[i] vals) := by
  simp only [execStmt, ht] at h
  split at h
  · simp at h
  · rename_i rows' m hu
    simp only [Prod.mk.injEq, Outcome.affected.injEq] at h
    obtain ⟨h1, h2⟩ := h
    subst h2
    have hspec := update_touches_exactly td.tys w _ td.rows rows' m hu
    have hlt : t < db.length := by
      rcases List.getElem?_eq_some_iff.mp ht with ⟨hlt, _⟩; exact hlt
    refine ⟨hspec.1, ?_, rows', ?_, hspec.2.1, ?_⟩
    · intro u hu'
      rw [← h1, setTable, List.getElem?_set_ne (Ne.symm hu')]
    · rw [← h1, setTable, List.getElem?_set_self hlt]
      have : db.getD t default = td := by simp [List.getD, ht]
      rw [this]
    · intro i hi hj
      have := hspec.2.2 i hi hj
      refine ⟨this.2, ?_⟩
      intro htrue
      have hassign := this.1 htrue
      simp only [assignRow] at hassign
      cases hm : evalSets {} td.tys td.rows[i] sets with
      | error e => simp [hm] at hassign
      | ok vals =>
        simp only [hm, Except.ok.injEq] at hassign
        exact ⟨vals, evalSets_fst _ _ _ _ hm, hassign.symm⟩

/-- INSERT appends the given rows (each value cast to its column type) to the addressed table and reports their
    number; nothing else changes -/
theorem exec_insert (nullsFirst : Bool) (db : Db) (t : Nat) (rows : List (List Expr)) (td : TableDef)
    (db' : Db) (n : Nat) (ht : db[t]? = some td)
    (h : execStmt .none nullsFirst db (.insert t rows) = (db', .affected n)) :
    n = rows.length ∧ (∀ u, u ≠ t → db'[u]? = db[u]?) ∧
    ∃ newRows, newRows.length = rows.length ∧ db'[t]? = some { td with rows := td.rows ++ newRows } := by
  simp only [execStmt, ht] at h
  split at h
  · simp at h
  · split at h
    · simp at h
    · rename_i newRows hn
      simp only [Prod.mk.injEq, Outcome.affected.injEq] at h
      obtain ⟨h1, h2⟩ := h
      have hlen := (mapE_ok _ _ _ hn).1
      have hlt : t < db.length := by
        rcases List.getElem?_eq_some_iff.mp ht with ⟨hlt, _⟩; exact hlt
      refine ⟨by rw [← h2, hlen], ?_, newRows, hlen, ?_⟩
      · intro u hu'
        rw [← h1, setTable, List.getElem?_set_ne (Ne.symm hu')]
      · rw [← h1, setTable, List.getElem?_set_self hlt]
        have : db.getD t default = td := by simp [List.getD, ht]
        rw [this]

/-- Static typing of comparisons: a statement that compares a number with a text or a boolean (in =, <, BETWEEN, IN,
    simple CASE, anywhere in it) is rejected with a type error and changes nothing; every other statement runs as
    `execStmt` says. -/
theorem cross_category_comparison_rejected (nullsFirst : Bool) (db : Db) (s : Stmt) :
    (stmtIllTyped db s = true → execStmtTyped .none nullsFirst db s = (db, .error .type)) ∧
    (stmtIllTyped db s = false → execStmtTyped .none nullsFirst db s = execStmt .none nullsFirst db s) := by
  constructor <;> intro h <;> simp [execStmtTyped, h]

/-- e.g. `WHERE c1 = 'x'` on an INT column is ill-typed, `WHERE c1 = NULL` and `WHERE c1 = 1` are not -/
example : stmtIllTyped [wT'] (.delete 0 (some (.cmp .eq (.col 1) (.lit (.text [120]))))) = true ∧
    stmtIllTyped [wT'] (.delete 0 (some (.cmp .eq (.col 1) (.lit .null)))) = false ∧
    stmtIllTyped [wT'] (.delete 0 (some (.cmp .eq (.col 1) (.lit (.int 1))))) = false := by decide

/-! ## Witnesses: each defect flag breaks one of the laws above on a concrete input -/

/-- the witness table: (1, 10), (2, NULL), (3, 30) -/
def wT : TableDef := { tys := [.int, .int], rows := [[.int 1, .int 10], [.int 2, .null], [.int 3, .int 30]] }

def idsWhere (w : Expr) : Select :=
  { distinct := false, from_ := .table 0, where_ := some w, groupBy := [], aggs := [], items := some [.col 0],
    orderBy := [], limit := none, offset := none }

/-- `IS NOT NULL`, `NOT BETWEEN`, `NOT IN` keep every row under `negatedIsOr` (the spec keeps 2, 1, 1 rows) -/
theorem negatedIsOr_witness :
    evalSelect { negatedIsOr := true } false [wT] (idsWhere (.isNull true (.col 1))) = .ok [[.int 1], [.int 2], [.int 3]] ∧
    evalSelect .none false [wT] (idsWhere (.isNull true (.col 1))) = .ok [[.int 1], [.int 3]] ∧
    evalSelect { negatedIsOr := true } false [wT] (idsWhere (.between true (.col 1) (.lit (.int 5)) (.lit (.int 15))))
      = .ok [[.int 1], [.int 2], [.int 3]] ∧
    evalSelect .none false [wT] (idsWhere (.between true (.col 1) (.lit (.int 5)) (.lit (.int 15)))) = .ok [[.int 3]] ∧
    evalSelect { negatedIsOr := true } false [wT] (idsWhere (.inList true (.col 1) [.lit (.int 10), .lit (.int 20)]))
      = .ok [[.int 1], [.int 2], [.int 3]] ∧
    evalSelect .none false [wT] (idsWhere (.inList true (.col 1) [.lit (.int 10), .lit (.int 20)])) = .ok [[.int 3]] := by
  decide

/-- `'abc' NOT LIKE 'x%'` is FALSE under `notLikeFalse` (contradicts: NOT LIKE is the negation of LIKE) -/
theorem notLikeFalse_witness :
    eval { notLikeFalse := true } [] [] (.like true (.lit (.text [97, 98, 99])) (.lit (.text [120, 37]))) = .ok (.bool false) ∧
    eval .none [] [] (.like true (.lit (.text [97, 98, 99])) (.lit (.text [120, 37]))) = .ok (.bool true) ∧
    eval .none [] [] (.like false (.lit (.text [97, 98, 99])) (.lit (.text [120, 37]))) = .ok (.bool false) := by
  decide

/-- `NOT (NULL BETWEEN 5 AND 15)` is TRUE under `betweenTwoValued`; by `between_def` it is unknown -/
theorem betweenTwoValued_witness :
    eval { betweenTwoValued := true } [] [] (.not (.between false (.lit .null) (.lit (.int 5)) (.lit (.int 15)))) = .ok (.bool true) ∧
    eval .none [] [] (.not (.between false (.lit .null) (.lit (.int 5)) (.lit (.int 15)))) = .ok .null := by
  decide

/-- `NULL IN (10, NULL)` is TRUE and `NOT (30 IN (10, NULL))` is TRUE under `inTwoValued`; both are unknown
    (`in_null_value`, `not_in_null_semantics`) -/
theorem inTwoValued_witness :
    eval { inTwoValued := true } [] [] (.inList false (.lit .null) [.lit (.int 10), .lit .null]) = .ok (.bool true) ∧
    eval .none [] [] (.inList false (.lit .null) [.lit (.int 10), .lit .null]) = .ok .null ∧
    eval { inTwoValued := true } [] [] (.not (.inList false (.lit (.int 30)) [.lit (.int 10), .lit .null])) = .ok (.bool true) ∧
    eval .none [] [] (.not (.inList false (.lit (.int 30)) [.lit (.int 10), .lit .null])) = .ok .null := by
  decide

/-- COUNT(col) over (10, NULL, 30) is 3 under `countColCountsNull` (contradicts `count_col_ignores_null`) -/
theorem countColCountsNull_witness :
    aggregate { countColCountsNull := true } .count [.int 10, .null, .int 30] = .ok (.int 3) ∧
    aggregate .none .count [.int 10, .null, .int 30] = .ok (.int 2) := by
  decide

/-- `5 / 0` and `9223372036854775807 + 1` end in a worker panic under the flags; the spec reports the error class -/
theorem divZeroPanics_witness :
    eval { divZeroPanics := true } [] [] (.arith .div (.lit (.int 5)) (.lit (.int 0))) = .error .panic ∧
    eval { divZeroPanics := true } [] [] (.arith .mod (.lit (.int 5)) (.lit (.int 0))) = .error .panic ∧
    eval .none [] [] (.arith .div (.lit (.int 5)) (.lit (.int 0))) = .error .divzero := by
  decide

theorem overflowPanics_witness :
    eval { overflowPanics := true } [] [] (.arith .add (.lit (.int 9223372036854775807)) (.lit (.int 1))) = .error .panic ∧
    eval { overflowPanics := true } [] [] (.neg (.lit (.int (-9223372036854775808)))) = .error .panic ∧
    eval .none [] [] (.arith .add (.lit (.int 9223372036854775807)) (.lit (.int 1))) = .error .overflow := by
  decide

/-- the witness tables of the join defects: t(id, a) = (1,10),(2,NULL),(3,30);  u(k, b) = (10,1),(40,2) -/
def wU : TableDef := { tys := [.int, .int], rows := [[.int 10, .int 1], [.int 40, .int 2]] }

def joinStar (k : JoinKind) (on : Expr) : Select :=
  { distinct := false, from_ := .join k (.table 0) (.table 1) (some on), where_ := none, groupBy := [], aggs := [],
    items := none, orderBy := [], limit := none, offset := none }

/-- under `mergeJoinNullKey` the NULL key of row 2 makes `t JOIN u ON t.a = u.k` empty; the match (1,10)-(10,1) is lost
    (contradicts `join_inner_def`) -/
theorem mergeJoinNullKey_witness :
    evalSelect { mergeJoinNullKey := true } false [wT, wU] (joinStar .inner (.cmp .eq (.col 1) (.col 2))) = .ok [] ∧
    evalSelect .none false [wT, wU] (joinStar .inner (.cmp .eq (.col 1) (.col 2))) = .ok [[.int 1, .int 10, .int 10, .int 1]] := by
  decide

/-- under `mergeJoinDropsRight` the unmatched right row (40,2) is missing from the RIGHT JOIN
    (contradicts `join_right_def` / `outer_join_preserves`) -/
theorem mergeJoinDropsRight_witness :
    evalSelect { mergeJoinDropsRight := true } false [wT, wU] (joinStar .right (.cmp .eq (.col 1) (.col 2)))
      = .ok [[.int 1, .int 10, .int 10, .int 1]] ∧
    evalSelect .none false [wT, wU] (joinStar .right (.cmp .eq (.col 1) (.col 2)))
      = .ok [[.int 1, .int 10, .int 10, .int 1], [.null, .null, .int 40, .int 2]] := by
  decide

/-- `ON u.k = t.a` fails under `equiKeysUnoriented`; it is the same condition as `ON t.a = u.k` -/
theorem equiKeysUnoriented_witness :
    evalSelect { equiKeysUnoriented := true } false [wT, wU] (joinStar .inner (.cmp .eq (.col 2) (.col 1))) = .error .eval ∧
    evalSelect .none false [wT, wU] (joinStar .inner (.cmp .eq (.col 2) (.col 1))) = .ok [[.int 1, .int 10, .int 10, .int 1]] := by
  decide

/-- a RIGHT JOIN with an empty left input fails under `nljEmptyLeftNoPad`; it must return the padded right rows -/
theorem nljEmptyLeftNoPad_witness :
    evalSelect { nljEmptyLeftNoPad := true } false [{ wT with rows := [] }, wU] (joinStar .right (.cmp .lt (.col 1) (.col 2)))
      = .error .eval ∧
    evalSelect .none false [{ wT with rows := [] }, wU] (joinStar .right (.cmp .lt (.col 1) (.col 2)))
      = .ok [[.null, .null, .int 10, .int 1], [.null, .null, .int 40, .int 2]] := by
  decide

/-! ## The hypotheses used above are satisfiable -/

example : ∀ b ∈ wU.rows, b.length = 2 := by decide
example : ∃ v ∈ [Value.null, .int 3], v ≠ .null := ⟨.int 3, by simp, by simp⟩
example : evalSelect .none false [wT] (idsWhere (.cmp .gt (.col 1) (.lit (.int 5)))) = .ok [[.int 1], [.int 3]] := by decide
example : deleteRows (predOf .none wT.tys (some (.cmp .gt (.col 1) (.lit (.int 15))))) wT.rows
    = .ok ([[.int 1, .int 10], [.int 2, .null]], 1) := by decide


/-! # The parser: text → AST follows the documented grammar

(kept in the namespace `AxVerif.Sql` so that `./check` finds the theorems of this file under one prefix) -/
section ParserTheorems
open AxVerif.Parser

/-- The binding-power table extracted from the code on this run (by evaluating `infix_binding_power` on every
    operator token and probing the prefix operators and the BETWEEN bounds) is the documented precedence
    OR < AND < NOT < comparison / LIKE / IN / BETWEEN / IS < + - || < * / % < unary sign, left-associative. -/
theorem table_ordered : Generated.parseTable = docTable := by decide

/-- **Round trip with minimal parentheses.** For every printable expression — any depth, any mix of operators,
    negative literals, IS [NOT], [NOT] BETWEEN / IN / LIKE — the Pratt parser running on the binding-power table
    extracted from the code reads the minimal-parentheses rendering under the documented precedence back as the same
    tree and consumes all of it.  (Printable: `- <non-negative number>` is a literal, IN lists are not empty.) -/
theorem parse_printMin (e : PExpr) (h : Printable e = true) :
    parseExpr Generated.parseTable (printMin docTable e) = some e := by
  rw [table_ordered]
  have hc := costM_le_len e
  have hsafe : safeU e [] := by
    rcases safe_of_stops e 0 0 [] rfl (Nat.le_refl _) with h0 | h0
    · exact absurd h0 (Nat.not_lt_zero _)
    · exact h0
  have := body_rt e h 0 [] (e, []) 1 (Nat.zero_le _) rfl hsafe (cont_stops e 0 [] rfl)
    (32 * (body D e).length + 32) (by omega)
  simp only [List.append_nil] at this
  simp only [parseExpr, printMin]
  change (match parseBp D (32 * (body D e).length + 32) 0 (body D e) with | some (e, []) => some e | _ => none) = some e
  rw [this]

/-- Round trip with every operand in parentheses (no side condition except non-empty IN lists) -/
theorem parse_printFull (e : PExpr) (h : ListsOk e = true) :
    parseExpr Generated.parseTable (full e) = some e := by
  rw [table_ordered]
  have hc := cost_le_len e
  have := full_rt e h [] rfl (32 * (full e).length + 32) (by omega)
  simp only [List.append_nil] at this
  simp only [parseExpr]
  change (match parseBp D (32 * (full e).length + 32) 0 (full e) with | some (e, []) => some e | _ => none) = some e
  rw [this]

/-- **The lexer reads rendered tokens back**: for every list of printable tokens (numbers, strings with any bytes,
    identifiers that start with a letter or `_`, continue with letters, digits, `_` and are not keywords, the keywords
    and operators of the expression grammar) the text "tokens separated by single blanks" is lexed to that list. -/
theorem lex_render_tokens (ts : List Tok) (h : ∀ t ∈ ts, PrintableTok t = true) : lexAll (render ts) = some ts :=
  lex_render ts h

/-- **Text → AST, end to end.** The minimal-parentheses *text* of every printable expression whose identifiers are
    lexable is read back — by the lexer and the Pratt parser on the extracted binding-power table — as the same tree. -/
theorem parse_text_roundtrip (e : PExpr) (hp : Printable e = true) (hi : IdentsOk e = true) :
    (lexAll (render (printMin docTable e))).bind (parseExpr Generated.parseTable) = some e := by
  have hl := lex_render (printMin docTable e) (body_printable e hi)
  rw [hl]
  exact parse_printMin e hp

/-- instances of the minimal-parentheses statement on the classical traps (checked by evaluation) -/
theorem parse_printMin_examples :
    let a := PExpr.ident [97]; let b := PExpr.ident [98]; let c := PExpr.ident [99]
    parseExpr docTable (printMin docTable (.bin .and (.un .not a) b)) = some (.bin .and (.un .not a) b) ∧
    parseExpr docTable (printMin docTable (.un .not (.bin .and a b))) = some (.un .not (.bin .and a b)) ∧
    parseExpr docTable (printMin docTable (.bin .div (.bin .mul a (.un .neg b)) c)) = some (.bin .div (.bin .mul a (.un .neg b)) c) ∧
    parseExpr docTable (printMin docTable (.bin .mul (.bin .plus a b) c)) = some (.bin .mul (.bin .plus a b) c) ∧
    parseExpr docTable (printMin docTable (.bin .minus a (.bin .minus b c))) = some (.bin .minus a (.bin .minus b c)) ∧
    parseExpr docTable (printMin docTable (.bin .and (.between false a (.num 1) (.num 2)) c))
      = some (.bin .and (.between false a (.num 1) (.num 2)) c) ∧
    parseExpr docTable (printMin docTable (.un .not (.inList true a [.num 1, .num (-2)])))
      = some (.un .not (.inList true a [.num 1, .num (-2)])) := by
  refine ⟨rfl, rfl, rfl, rfl, rfl, rfl, rfl⟩

/-- With the shipped power of prefix NOT (3 = AND's own left power) the text `NOT a AND b` is read as
    `NOT (a AND b)`; the documented grammar (and the extracted table after the fix) reads `(NOT a) AND b`. -/
theorem notBindsLooser_witness :
    let a := PExpr.ident [97]; let b := PExpr.ident [98]
    printMin docTable (.bin .and (.un .not a) b) = [.kNot, .ident [97], .kAnd, .ident [98]] ∧
    parseExpr { docTable with prefixNot := 3 } [.kNot, .ident [97], .kAnd, .ident [98]] = some (.un .not (.bin .and a b)) ∧
    parseExpr docTable [.kNot, .ident [97], .kAnd, .ident [98]] = some (.bin .and (.un .not a) b) := by
  refine ⟨rfl, rfl, rfl⟩

/-- With the shipped power of the unary signs (9 = the left power of `*`) the text `a * - b / c` is read as
    `a * (-(b / c))`; the documented grammar reads `(a * (-b)) / c` (different under integer division). -/
theorem unaryBindsLooser_witness :
    let a := PExpr.ident [97]; let b := PExpr.ident [98]; let c := PExpr.ident [99]
    parseExpr { docTable with prefixMinus := 9 } [.ident [97], .star, .minus, .ident [98], .slash, .ident [99]]
      = some (.bin .mul a (.un .neg (.bin .div b c))) ∧
    parseExpr docTable [.ident [97], .star, .minus, .ident [98], .slash, .ident [99]]
      = some (.bin .div (.bin .mul a (.un .neg b)) c) := by
  refine ⟨rfl, rfl⟩

/-- hypotheses are satisfiable -/
example : IdentsOk (.bin .and (.un .not (.qident [116] [99, 49])) (.ident [95, 120])) = true := by decide
example : ListsOk (.inList true (.ident [97]) [.num 1, .bin .plus (.num 2) (.ident [98])]) = true := by decide

end ParserTheorems

end AxVerif.Sql
