/-
  C14 — Statements issued from several threads all finish and stay correct.

  Two halves.

  **Latches** (`Model/Latch.lean`): threads are programs over the pager lock and page latches; `parking_lot`'s fairness (a
  reader is not admitted while a writer is parked) and non-re-entrance are part of the step relation.  The theorems hold
  for ANY number of threads and any programs built from the shapes extracted from the code (`TreeOp`), over any page
  numbering: the only hypotheses are the decidable tree-shape predicates `TreeOp.wf` ("the pages named lie in the tree
  whose root is named").  What is proved is about this abstraction of the acquisition order — not about the Rust.

  * `pager_lock_never_held_across_latch_wait`  no thread ever waits for a latch while it holds the pager lock
  * `readers_only_deadlock_free`                scans (also of one-page tables), searches, descents: never a deadlock
  * `writers_only_deadlock_free`                any inserts/updates/removes with any rebalancing on any trees: never
  * `reader_writer_deadlock_free`               readers ∥ writers, any mix, any trees, any rebalancing order: never (for the
                                                latch protocol of the repaired code, `Defects.none`).  In particular the
                                                suspected "leaf scan vs. sibling rebalance" cycle does not exist: the scan
                                                keeps the root read-latched, the writer needs the root write-latched first.
  * `reader_writer_deadlock_free_any_defects`   the same whatever the read latch, for well-formed shapes; with the shipped
                                                (queueing) read latch no scan is well-formed — a scan latches the root
                                                through two tree objects — so this covers lookups, descents and writes
  * `readLatchQueuesBehindWriter_witness`       shipped read latch: a scan of a ONE-page table ∥ one writer of that table
                                                reaches a state with no enabled step (the second read latch of the scanning
                                                thread queues behind the parked writer).  Observed on the real code and
                                                repaired (`fix:` ReadLatch::new uses read_arc_recursive).
  * `flush_writer_deadlock_witness`             `Database::flush` ∥ one writer: `Pager::flush` write-latches pages while it
                                                holds the pager lock (not one of the statement shapes).

  **Histories** (`Model/Serial.lean`): `checkSerialSI_sound`, `checkSerial_sound` — what the judge's `ok` certifies.
-/
import AxVerif.Lemmas.Latch
import AxVerif.Lemmas.Coord
import AxVerif.Lemmas.NonInterf
import AxVerif.Model.Serial
import AxVerif.Thm.C04
namespace AxVerif.C14
open AxVerif.Latch

/-! ## Latches -/

/-- the operations a statement performs on B+trees, as extracted from the code (see `Model/Latch.lean`) -/
inductive TreeOp where
  /-- `get_left_most` / `get_right_most` / `height`: walk down releasing every page before the next is fetched -/
  | descent (pages : List Nat)
  /-- sequential scan: left-most descent, then iterator (root kept read-latched) over `leaves` = (page, rows read) -/
  | scan (root : Nat) (path : List Nat) (leaves : List (Nat × Nat))
  /-- point lookup with a read accessor: root → leaf, all kept until the end -/
  | search (root : Nat) (path : List Nat)
  /-- insert / update / remove: root → leaf write-latched and kept, then any rebalancing steps, then release -/
  | write (root : Nat) (path : List Nat) (bal : List BalStep)

def TreeOp.instrs : TreeOp → List Instr
  | .descent ps => readerDescent ps
  | .scan r path leaves => readerScan r path leaves
  | .search r path => readerSearch r path
  | .write r path bal => writerOp r path bal

def TreeOp.isRead : TreeOp → Bool
  | .write _ _ _ => false
  | _ => true

def TreeOp.isWrite : TreeOp → Bool
  | .write _ _ _ => true
  | _ => false

/-- tree-shape hypothesis: the named pages belong to the tree of the named root (`rootOf p` = root of `p`'s tree); with
    the shipped read latch (`D.readLatchQueuesBehindWriter`) no scan is well-formed (it latches the root twice) -/
def TreeOp.wf (D : Defects) (rootOf : Nat → Nat) : TreeOp → Bool
  | .descent _ => true
  | .scan r path leaves => leavesIn D rootOf r path leaves
  | .search r path => pathIn rootOf r path
  | .write r path bal => writeIn rootOf r path bal

/-- the program of a client thread / pool worker: its tree operations one after the other -/
def threadProg (ops : List TreeOp) : List Instr := (ops.map TreeOp.instrs).flatten

theorem pagerOk_instrs (op : TreeOp) : pagerOk false op.instrs = true := by
  cases op with
  | descent ps => exact pagerOk_readerDescent ps
  | scan r path leaves => exact pagerOk_readerScan r path leaves
  | search r path => exact pagerOk_readerSearch r path
  | write r path bal => exact pagerOk_writerOp r path bal

/-- **Structural**: in every program shape the pager lock is released by the instruction that follows its acquisition -/
theorem shapes_release_pager_before_waiting : ∀ ops : List TreeOp, pagerOk false (threadProg ops) = true
  | [] => by simp [threadProg, pagerOk]
  | op :: ops => by
    have ih := shapes_release_pager_before_waiting ops
    simp only [threadProg, List.map_cons, List.flatten_cons] at ih ⊢
    exact pagerOk_append _ _ _ (pagerOk_instrs op) ih

/-- **The pager lock is never held across a latch wait.**  In every reachable state of any number of threads running any
    tree operations, a thread that is at a latch request (parked or about to park) does not hold the pager lock. -/
theorem pager_lock_never_held_across_latch_wait (D : Defects) (threads : List (List TreeOp)) (s : State)
    (hr : Reachable D (init (threads.map threadProg)) s) (t : Thread) (ht : t ∈ s) :
    (t.waiting = true → t.pager = false) ∧ (∀ p m rest, t.prog = .acq p m :: rest → t.pager = false) := by
  have h0 : ∀ pr ∈ threads.map threadProg, pagerOk false pr = true := by
    intro pr hpr
    obtain ⟨ops, _, rfl⟩ := List.mem_map.1 hpr
    exact shapes_release_pager_before_waiting ops
  obtain ⟨hp, hw⟩ := reach_pagerOk h0 hr t ht
  have hacq : ∀ p m rest, t.prog = .acq p m :: rest → t.pager = false := by
    intro p m rest hprog
    rw [hprog] at hp
    simp [pagerOk] at hp
    exact hp.1
  refine ⟨?_, hacq⟩
  intro hwt
  unfold waitOk at hw
  cases hprog : t.prog with
  | nil => simp [hwt, hprog] at hw
  | cons ins rest =>
    cases ins with
    | acq p m => exact hacq p m rest hprog
    | _ => simp [hwt, hprog] at hw

theorem noW_instrs (op : TreeOp) (h : op.isRead = true) : noW op.instrs = true := by
  cases op with
  | descent ps => exact noW_readerDescent ps
  | scan r path leaves => exact noW_readerScan r path leaves
  | search r path => exact noW_readerSearch r path
  | write r path bal => simp [TreeOp.isRead] at h

theorem noW_threadProg : ∀ ops : List TreeOp, (∀ op ∈ ops, op.isRead = true) → noW (threadProg ops) = true
  | [], _ => by simp [threadProg, noW]
  | op :: ops, h => by
    have ih := noW_threadProg ops (fun o ho => h o (List.mem_cons_of_mem _ ho))
    simp only [threadProg, List.map_cons, List.flatten_cons] at ih ⊢
    exact noW_append _ _ (noW_instrs op (h op List.mem_cons_self)) ih

/-- **Readers only.**  Any number of threads that only read (scans — of one-page tables too —, point lookups, descents)
    on any trees: every reachable state in which some thread has work left has an enabled step. -/
theorem readers_only_deadlock_free (D : Defects) (threads : List (List TreeOp))
    (hread : ∀ th ∈ threads, ∀ op ∈ th, op.isRead = true)
    (s : State) (hr : Reachable D (init (threads.map threadProg)) s) : deadlocked D s = false := by
  apply readers_only_no_deadlock _ _ hr
  · intro pr hpr
    obtain ⟨ops, _, rfl⟩ := List.mem_map.1 hpr
    exact shapes_release_pager_before_waiting ops
  · intro pr hpr
    obtain ⟨ops, hops, rfl⟩ := List.mem_map.1 hpr
    exact noW_threadProg ops (hread ops hops)

theorem guarded_instrs {D : Defects} {rootOf : Nat → Nat} (op : TreeOp) (h : op.wf D rootOf = true) {rest : List Instr}
    (hrest : guarded D rootOf [] false rest = true) : guarded D rootOf [] false (op.instrs ++ rest) = true := by
  cases op with
  | descent ps => exact guarded_readerDescent ps rest hrest
  | scan r path leaves => exact guarded_readerScan h hrest
  | search r path => exact guarded_readerSearch h hrest
  | write r path bal => exact guarded_writerOp h hrest

theorem guarded_threadProg {D : Defects} {rootOf : Nat → Nat} : ∀ ops : List TreeOp, (∀ op ∈ ops, op.wf D rootOf = true) →
    guarded D rootOf [] false (threadProg ops) = true
  | [], _ => by simp [threadProg, guarded]
  | op :: ops, h => by
    have ih := guarded_threadProg ops (fun o ho => h o (List.mem_cons_of_mem _ ho))
    simp only [threadProg, List.map_cons, List.flatten_cons] at ih ⊢
    exact guarded_instrs op (h op List.mem_cons_self) ih

/-- **Readers and writers together, whatever the read latch.**  Any number of threads, any mix of scans, lookups,
    descents and writes with any rebalancing, on any trees, provided the shapes are well-formed — which with the shipped
    read latch excludes scans.  (The order in which a rebalancing writer visits siblings, the
    parent's neighbours and frontier pages is arbitrary here; it does not matter because every one of those latches is
    taken under the write latch of the root, which a scan's iterator holds for reading during its whole life.) -/
theorem reader_writer_deadlock_free_any_defects (D : Defects) (rootOf : Nat → Nat) (threads : List (List TreeOp))
    (hwf : ∀ th ∈ threads, ∀ op ∈ th, op.wf D rootOf = true)
    (s : State) (hr : Reachable D (init (threads.map threadProg)) s) : deadlocked D s = false := by
  apply guarded_no_deadlock (rootOf := rootOf) _ hr
  intro pr hpr
  obtain ⟨ops, hops, rfl⟩ := List.mem_map.1 hpr
  exact guarded_threadProg ops (hwf ops hops)

/-- **Readers and writers together** under the latch protocol of the repaired code: every reachable state in which some
    thread has work left has an enabled step — any number of threads, any trees (one-page tables included). -/
theorem reader_writer_deadlock_free (rootOf : Nat → Nat) (threads : List (List TreeOp))
    (hwf : ∀ th ∈ threads, ∀ op ∈ th, op.wf Defects.none rootOf = true)
    (s : State) (hr : Reachable Defects.none (init (threads.map threadProg)) s) : deadlocked Defects.none s = false :=
  reader_writer_deadlock_free_any_defects Defects.none rootOf threads hwf s hr

/-- **Writers only.**  Any number of threads doing inserts / updates / removes with any rebalancing on any trees. -/
theorem writers_only_deadlock_free (D : Defects) (rootOf : Nat → Nat) (threads : List (List TreeOp))
    (hw : ∀ th ∈ threads, ∀ op ∈ th, op.isWrite = true ∧ op.wf D rootOf = true)
    (s : State) (hr : Reachable D (init (threads.map threadProg)) s) : deadlocked D s = false :=
  reader_writer_deadlock_free_any_defects D rootOf threads (fun th hth op hop => (hw th hth op hop).2) s hr

/-- the hypotheses are satisfiable by non-trivial values: a two-level tree (root 1; leaves 2, 3, 4; 5 a fresh page), a
    scan of all three leaves next to a writer that descends to leaf 3, borrows from the LEFT sibling 2, then loads
    siblings 2, 3, 4 left to right, allocates page 5 and frees page 4 — the interleaving suspected of a hold-and-wait cycle -/
def exRoot : Nat → Nat := fun p => if p ≤ 5 then 1 else p

def exScan : TreeOp := .scan 1 [2] [(2, 3), (3, 3), (4, 2)]

def exWrite : TreeOp := .write 1 [3] [.touch 2, .touch 4, .touch 2, .touch 3, .touch 4, .alloc, .touch 5, .free 4]

example : exScan.wf Defects.none exRoot = true ∧ exWrite.wf Defects.none exRoot = true ∧
    exWrite.wf { readLatchQueuesBehindWriter := true } exRoot = true ∧ (TreeOp.search 1 [3]).wf Defects.none exRoot = true := by decide

/-- a scan of a one-page table is well-formed under the repaired latch protocol -/
example : (TreeOp.scan 1 [] [(1, 4)]).wf Defects.none (fun _ => 1) = true := by decide

theorem leaf_scan_vs_sibling_rebalance_no_deadlock (s : State)
    (hr : Reachable Defects.none (init ([[exScan, .search 1 [3]], [exWrite], [exWrite, exScan]].map threadProg)) s) :
    deadlocked Defects.none s = false :=
  reader_writer_deadlock_free exRoot _ (by decide) s hr

theorem reachable_runSched {D : Defects} {s0 : State} : ∀ (sched : List Nat) (s : State),
    Reachable D s0 s → Reachable D s0 (runSched D s sched)
  | [], s, h => by simpa [runSched] using h
  | i :: is, s, h => by
    unfold runSched
    cases hs : step D s i with
    | none => exact h
    | some s' => exact reachable_runSched is s' (Reachable.step h hs)

/-- one scan of a one-page table (root = leaf = page 1, one row) and one writer of the same table -/
def rootScanProgs : List (List Instr) := [threadProg [.scan 1 [] [(1, 1)]], threadProg [.write 1 [] []]]

/-- reader: descent, iterator (root read-latched); writer: parks for the write latch; reader: reads its row through a
    second accessor — parks behind the writer -/
def rootScanSchedule : List Nat := [0, 0, 0, 0, 0, 0, 0, 0, 0, 1, 1, 1, 0, 0, 0]

/-- **Witness of the shipped defect.**  With a read latch that queues behind a parked writer, a scan of a one-page table
    next to one writer of that table reaches a state with no enabled step. -/
theorem readLatchQueuesBehindWriter_witness :
    ∃ s, Reachable { readLatchQueuesBehindWriter := true } (init rootScanProgs) s ∧
      deadlocked { readLatchQueuesBehindWriter := true } s = true :=
  ⟨runSched _ (init rootScanProgs) rootScanSchedule, reachable_runSched _ _ Reachable.init, by decide⟩

/-- the same two threads under the repaired protocol never deadlock (instance of `reader_writer_deadlock_free`) -/
theorem rootScan_repaired_no_deadlock (s : State) (hr : Reachable Defects.none (init rootScanProgs) s) :
    deadlocked Defects.none s = false :=
  reader_writer_deadlock_free (fun _ => 1) [[.scan 1 [] [(1, 1)]], [.write 1 [] []]] (by decide) s hr

/-- the scan of a one-page table is exactly what `TreeOp.wf` excludes under the defect -/
example : (TreeOp.scan 1 [] [(1, 1)]).wf { readLatchQueuesBehindWriter := true } (fun _ => 1) = false := by decide

/-- `Pager::flush` is not one of the shapes: it waits for latches while it holds the pager lock -/
theorem flushProg_holds_pager_while_waiting : pagerOk false (flushProg [7]) = false := by decide

def flushProgs : List (List Instr) := [threadProg [.write 7 [8] []], flushProg [7, 8]]

/-- writer: latches page 7, is about to fetch page 8; flusher: takes the pager lock, parks on page 7; writer: waits for the pager lock -/
def flushSchedule : List Nat := [0, 0, 0, 0, 1, 1]

/-- **Witness.**  `Database::flush` next to one writer reaches a state with no enabled step. -/
theorem flush_writer_deadlock_witness :
    ∃ s, Reachable Defects.none (init flushProgs) s ∧ deadlocked Defects.none s = true :=
  ⟨runSched _ (init flushProgs) flushSchedule, reachable_runSched _ _ Reachable.init, by decide⟩


/-! ## Histories -/

open AxVerif.Db AxVerif.Db.MT

/-- `popThread p i` takes the first pending event of thread `i` -/
theorem popThread_spec : ∀ (p : Pending) (i : Nat) (e : Ev) (p' : Pending), popThread p i = some (e, p') →
    ∃ es, p[i]? = some (e :: es) ∧ p' = p.set i es
  | [], i, e, p', h => by simp [popThread] at h
  | [] :: rest, 0, e, p', h => by simp [popThread] at h
  | (x :: xs) :: rest, 0, e, p', h => by
    simp only [popThread, Option.some.injEq, Prod.mk.injEq] at h
    obtain ⟨rfl, rfl⟩ := h
    exact ⟨xs, by simp, by simp⟩
  | evs :: rest, i + 1, e, p', h => by
    cases hr : popThread rest i with
    | none => cases evs <;> simp [popThread, hr] at h
    | some r =>
      obtain ⟨e1, rest'⟩ := r
      have h' : e1 = e ∧ evs :: rest' = p' := by
        cases evs <;> simpa [popThread, hr] using h
      obtain ⟨rfl, rfl⟩ := h'
      obtain ⟨es, h1, h2⟩ := popThread_spec rest i e1 rest' hr
      exact ⟨es, by simpa using h1, by simp [h2]⟩

/-- `lin` is an interleaving of the threads' event sequences: each event is the next pending one of some thread, and
    nothing is left over -/
inductive Interleaves : Pending → List Ev → Prop
  | done {p : Pending} : (∀ evs ∈ p, evs = []) → Interleaves p []
  | next {p p' : Pending} {i : Nat} {e : Ev} {lin : List Ev} :
      popThread p i = some (e, p') → Interleaves p' lin → Interleaves p (e :: lin)

theorem interleaves_of_replay : ∀ (sched : List Nat) (p : Pending) (lin : List Ev),
    replay p sched = some lin → Interleaves p lin
  | [], p, lin, h => by
    unfold replay at h
    by_cases hall : p.all List.isEmpty = true
    · simp only [hall, if_true, Option.some.injEq] at h
      subst h
      apply Interleaves.done
      intro evs hevs
      have := (List.all_eq_true.1 hall) evs hevs
      simpa [List.isEmpty_iff] using this
    · simp [hall] at h
  | i :: sched, p, lin, h => by
    unfold replay at h
    cases hp : popThread p i with
    | none => simp [hp] at h
    | some r =>
      obtain ⟨e, p'⟩ := r
      simp only [hp] at h
      cases hr : replay p' sched with
      | none => simp [hr] at h
      | some l =>
        simp only [hr, Option.some.injEq] at h
        subst h
        exact Interleaves.next hp (interleaves_of_replay sched p' l hr)

/-- ticket order as a property of the linearisation: whenever an event is placed before another one, the call of the
    later one had not returned before the call of the earlier one was issued -/
def TicketOrder (lin : List Ev) : Prop := lin.Pairwise (fun a b => ¬ b.t1 < a.t0)

theorem ticketOrder_of_rtOk : ∀ lin : List Ev, rtOk lin = true → TicketOrder lin
  | [], _ => List.Pairwise.nil
  | e :: rest, h => by
    simp only [rtOk, Bool.and_eq_true, List.all_eq_true] at h
    refine List.Pairwise.cons ?_ (ticketOrder_of_rtOk rest h.2)
    intro b hb
    simpa using h.1 b hb

/-- event by event: the answer given renders to the answer observed (where one was observed) -/
inductive AllAnswered (render : Render) : List Ev → List Out → Prop
  | nil : AllAnswered render [] []
  | cons {e : Ev} {o : Out} {es : List Ev} {os : List Out} :
      (∀ x, e.expect = some x → render o = x) → AllAnswered render es os → AllAnswered render (e :: es) (o :: os)

/-- the MVCC model (`Db.run` with no defect), run over the linearisation, gives every observed answer -/
def AnswersAs (render : Render) (cat : Catalog) (lin : List Ev) : Prop :=
  AllAnswered render lin (run Defects.none cat (lin.map (·.op))).2

theorem allAnswered_of_answersOk (render : Render) : ∀ (lin : List Ev) (α : Spec.State), answersOk render α lin = true →
    AllAnswered render lin (Spec.outs α (lin.map (·.op)))
  | [], _, _ => by simpa [Spec.outs] using AllAnswered.nil
  | e :: rest, α, h => by
    simp only [answersOk, Bool.and_eq_true] at h
    simp only [List.map_cons, Spec.outs]
    refine AllAnswered.cons ?_ (allAnswered_of_answersOk render rest _ h.2)
    intro x hx
    have := h.1
    rw [hx] at this
    simp only [expectOk, beq_iff_eq] at this
    exact this.symm

theorem answersAs_of_answersOk (render : Render) (cat : Catalog) (lin : List Ev)
    (h : answersOk render (Spec.State.init cat) lin = true) : AnswersAs render cat lin := by
  unfold AnswersAs
  rw [C04.read_is_snapshot, spec_run_outs]
  exact allAnswered_of_answersOk render lin _ h

/-- a linearisation of the observation: interleaving of the threads' own orders that respects the ticket order -/
def Linearises (p : Pending) (lin : List Ev) : Prop := Interleaves p lin ∧ TicketOrder lin

/-- **Soundness of the history checker.**  If `checkSerialSI` accepts the observed calls `p` (per thread, in program
    order, with tickets and answers), then there is a linearisation of them — every thread's order and the ticket order
    kept — on which the MVCC model gives every observed answer, and (by `C04.checkSI_sound`) that history is explained
    by the MVCC model and is snapshot-isolated: every read returned committed-at-begin ⊕ own writes, every commit was
    decided by first-committer-wins.  The search budget plays no role in what acceptance means. -/
theorem checkSerialSI_sound (render : Render) (cat : Catalog) (budget : Nat) (p : Pending)
    (h : checkSerialSI render cat budget p = true) :
    ∃ lin, Linearises p lin ∧ AnswersAs render cat lin ∧
      ∃ hist, C04.Explains cat hist (obsOf cat lin) ∧ C04.SnapshotIsolated cat hist := by
  unfold checkSerialSI at h
  cases hs : findSchedule render cat budget p with
  | none => simp [hs] at h
  | some sched =>
    simp only [hs] at h
    unfold verify at h
    cases hr : replay p sched with
    | none => simp [hr] at h
    | some lin =>
      simp only [hr, Bool.and_eq_true] at h
      obtain ⟨⟨hrt, hans⟩, hsi⟩ := h
      exact ⟨lin, ⟨interleaves_of_replay sched p lin hr, ticketOrder_of_rtOk lin hrt⟩,
        answersAs_of_answersOk render cat lin hans, C04.checkSI_sound cat (obsOf cat lin) hsi⟩

/-- the events of every transaction are contiguous: the linearisation is a sequence of transaction blocks -/
def Serial (lin : List Ev) : Prop :=
  ∃ blocks : List (String × List Ev), lin = (blocks.map (·.2)).flatten ∧
    (∀ b ∈ blocks, ∀ e ∈ b.2, e.txn = b.1) ∧ (blocks.map (·.1)).Nodup

theorem runsOf_flatten : ∀ lin : List Ev, ((runsOf lin).map (·.2)).flatten = lin
  | [] => by simp [runsOf]
  | e :: rest => by
    have ih := runsOf_flatten rest
    unfold runsOf
    cases hr : runsOf rest with
    | nil => rw [hr] at ih; simp at ih; simp [← ih]
    | cons b more =>
      obtain ⟨n, evs⟩ := b
      rw [hr] at ih
      simp only
      split
      · simp only [List.map_cons, List.flatten_cons, List.cons_append] at ih ⊢; rw [ih]
      · simp only [List.map_cons, List.flatten_cons, List.cons_append, List.nil_append] at ih ⊢; rw [ih]

theorem runsOf_txn : ∀ (lin : List Ev) (b : String × List Ev), b ∈ runsOf lin → ∀ e ∈ b.2, e.txn = b.1
  | [], b, hb => by simp [runsOf] at hb
  | x :: rest, b, hb => by
    have ih := runsOf_txn rest
    unfold runsOf at hb
    cases hr : runsOf rest with
    | nil =>
      simp only [hr, List.mem_cons, List.mem_nil_iff, or_false] at hb
      subst hb
      intro e he
      simp only [List.mem_cons, List.mem_nil_iff, or_false] at he
      rw [he]
    | cons c more =>
      obtain ⟨n, evs⟩ := c
      rw [hr] at ih
      simp only [hr] at hb
      by_cases hn : (n == x.txn) = true
      · simp only [hn, if_true, List.mem_cons] at hb
        rcases hb with rfl | hb
        · intro e he
          rcases List.mem_cons.1 he with rfl | he
          · exact (by simpa using hn : n = e.txn).symm
          · exact ih (n, evs) List.mem_cons_self e he
        · exact ih b (List.mem_cons_of_mem _ hb)
      · simp only [hn, Bool.false_eq_true, if_false, List.mem_cons] at hb
        rcases hb with rfl | rfl | hb
        · intro e he
          simp only [List.mem_cons, List.mem_nil_iff, or_false] at he
          rw [he]
        · exact ih (n, evs) List.mem_cons_self
        · exact ih b (List.mem_cons_of_mem _ hb)

theorem nodup_of_nodupStr : ∀ xs : List String, nodupStr xs = true → xs.Nodup
  | [], _ => List.nodup_nil
  | x :: xs, h => by
    simp only [nodupStr, Bool.and_eq_true, Bool.not_eq_true', List.contains_eq_mem, decide_eq_false_iff_not] at h
    exact List.nodup_cons.2 ⟨h.1, nodup_of_nodupStr xs h.2⟩

theorem serial_of_serialB (lin : List Ev) (h : serialB lin = true) : Serial lin :=
  ⟨runsOf lin, (runsOf_flatten lin).symm, runsOf_txn lin, nodup_of_nodupStr _ h⟩

/-- **Serial certification.**  If `checkSerial` accepts, the same per-thread event sequences can be scheduled one
    transaction at a time (`Serial`) such that the MVCC model still gives every observed answer — including the final
    contents of every table, which the harness reads at the end: the run is equivalent to a serial execution of its
    transactions, and the final database is the one that serial execution produces. -/
theorem checkSerial_sound (render : Render) (cat : Catalog) (budget : Nat) (p : Pending)
    (h : checkSerial render cat budget p = true) :
    ∃ lin, Interleaves p lin ∧ Serial lin ∧ AnswersAs render cat lin ∧
      ∃ hist, C04.Explains cat hist (obsOf cat lin) ∧ C04.SnapshotIsolated cat hist := by
  unfold checkSerial at h
  cases hs : findSchedule render cat budget p with
  | none => simp [hs] at h
  | some sched =>
    simp only [hs] at h
    unfold verifySerial at h
    cases hr : replay p (serialSchedule p sched) with
    | none => simp [hr] at h
    | some lin =>
      simp only [hr, Bool.and_eq_true] at h
      obtain ⟨⟨hser, hans⟩, hsi⟩ := h
      exact ⟨lin, interleaves_of_replay _ p lin hr, serial_of_serialB lin hser,
        answersAs_of_answersOk render cat lin hans, C04.checkSI_sound cat (obsOf cat lin) hsi⟩

def stmtTable : Stmt → String
  | .sel t _ => t | .ins t _ => t | .upd t _ _ _ _ => t | .del t _ => t

def evTable (e : Ev) : Option String :=
  match e.op with
  | .exec _ st => some (stmtTable st)
  | _ => none

def touched (evs : List Ev) : List String := evs.filterMap evTable

def written (evs : List Ev) : List String := evs.filterMap (fun e => if e.wrote then evTable e else none)

/-- no table is touched by two threads that both write -/
def ConflictFree (p : Pending) : Prop :=
  ∀ (i j : Nat) (evs evs' : List Ev), i ≠ j → p[i]? = some evs → p[j]? = some evs' → written evs ≠ [] → written evs' ≠ [] →
    ∀ t ∈ touched evs, t ∉ touched evs'

/-- **Not claimed** (kept as a statement): every observation of a conflict-free case (no table touched by two writing
    threads) that `checkSerialSI` accepts is also accepted by `checkSerial`.  It is what one expects of snapshot isolation
    without write skew; it is not proved here — the judge *decides* it per run instead (`bad not-serial`). -/
def serial_of_conflict_free_statement : Prop :=
  ∀ (render : Render) (cat : Catalog) (budget : Nat) (p : Pending), ConflictFree p →
    checkSerialSI render cat budget p = true → checkSerial render cat budget p = true

/-- a two-thread observation the checkers accept: thread 0 inserts a row in its own transaction, thread 1 reads the
    table before and after; tickets leave the order of the first read and the commit open -/
def exCat : Catalog := [⟨"t", [⟨"k", .big, false, false⟩], []⟩]

def exRender : Render := fun o =>
  match o with
  | .ok => "ok"
  | .stmt (.okN n) => s!"ok{n}"
  | .stmt (.rows rs) => s!"rows{rs.length}"
  | _ => "?"

def exPending : Pending :=
  [[⟨1, 2, "a", .begin "a", some "ok", false, false, false⟩,
    ⟨3, 6, "a", .exec "a" (.ins "t" [[.int 1]]), some "ok1", false, true, false⟩,
    ⟨7, 10, "a", .commit "a", some "ok", true, false, true⟩],
   [⟨4, 5, "b", .begin "b", none, false, false, false⟩,
    ⟨4, 5, "b", .exec "b" (.sel "t" none), some "rows0", false, false, false⟩,
    ⟨4, 5, "b", .commit "b", some "ok", true, false, true⟩,
    ⟨8, 9, "c", .begin "c", none, false, false, false⟩,
    ⟨8, 9, "c", .exec "c" (.sel "t" none), some "rows1", false, false, false⟩,
    ⟨8, 9, "c", .commit "c", some "ok", true, false, true⟩]]

example : checkSerialSI exRender exCat 1000 exPending = true := by decide
example : checkSerial exRender exCat 1000 exPending = true := by decide


/-! ## `begin` is one step -/

open AxVerif.Coord in
/-- **Snapshots are sound when `begin` is atomic** (the repaired coordinator).  In every reachable state — any number of
    transactions beginning, committing and aborting in any order — whatever a snapshot counts as "committed before me"
    (`Snapshot::is_committed_before_snapshot`) is a transaction that is committed. -/
theorem begin_atomic_snapshots_sound (σ : Coord.State) (hr : Coord.Reachable Coord.Defects.none σ)
    (s : Coord.Snap) (hs : s ∈ σ.snaps) (x : Nat) (hcb : s.cb x = true) :
    Coord.statusOf σ.table x = some .committed :=
  (Coord.inv_reachable hr).sound s hs x hcb

/-- transaction 1 takes its id and is preempted; transaction 2 begins and commits; transaction 3 takes its id and its
    snapshot: 1 is not registered, hence not in the active set, and 1 ≤ xmax = 2 -/
def beginRaceOps : List Coord.Op := [.alloc, .alloc, .snap 2, .register 2, .commit 2, .alloc, .snap 3]

/-- **Witness of the shipped defect.**  With the three steps of `begin` interleavable, a snapshot is reached that counts a
    transaction as committed which has not even been registered (its rows are read while it is open: dirty read).
    Observed on the real code and repaired (`fix:` TransactionCoordinator::begin … in one step). -/
theorem beginNotAtomic_witness :
    ∃ σ, Coord.Reachable { beginNotAtomic := true } σ ∧ Coord.snapshotsSound σ = false := by
  refine ⟨Coord.runOps { beginNotAtomic := true } Coord.State.init beginRaceOps, ?_, by decide⟩
  have hrun : ∀ (ops : List Coord.Op) (σ : Coord.State), Coord.Reachable { beginNotAtomic := true } σ →
      Coord.Reachable { beginNotAtomic := true } (Coord.runOps { beginNotAtomic := true } σ ops) := by
    intro ops
    induction ops with
    | nil => intro σ h; simpa [Coord.runOps] using h
    | cons op ops ih =>
      intro σ h
      unfold Coord.runOps
      cases hs : Coord.step { beginNotAtomic := true } σ op with
      | none => exact h
      | some σ' => exact ih σ' (Coord.Reachable.step h hs)
  exact hrun _ _ Coord.Reachable.init

/-- the same operations are impossible with the atomic `begin`: its three steps do not exist as separate operations -/
example : Coord.step Coord.Defects.none Coord.State.init .alloc = none := by decide

/-- non-trivial reachable state of the atomic coordinator: two open transactions, one committed, one aborted, and the
    snapshots are sound -/
example : Coord.snapshotsSound (Coord.runOps Coord.Defects.none Coord.State.init
    [.begin, .begin, .commit 2, .begin, .abort 1, .begin, .commit 3, .begin]) = true := by decide


/-! ## Statements on different tables: non-interference and commutation -/

open AxVerif.Db.NI in
/-- **Non-interference.**  In any history of autocommit `SELECT` / `INSERT` / `DELETE` statements, over any catalog
    (constraints included), the statements on table `a` give the same answers and leave the same rows in `a` — row ids
    included — whether the statements on the other tables are there or are replaced by `nop`s.  Answers are those of the
    MVCC machine (`Db.run` without defects), the rows those of the abstract machine it refines. -/
theorem statements_on_other_tables_do_not_interfere (cat : Catalog) (a : String) (ops : List Op)
    (hok : ops.all okOp = true) :
    answersOn a ops (run Defects.none cat ops).2 =
      answersOn a (eraseOthers a ops) (run Defects.none cat (eraseOthers a ops)).2 ∧
    proj a (Spec.run cat ops).1.committed = (Spec.run cat (eraseOthers a ops)).1.committed := by
  have h := noninterference_from a ops (Spec.State.init cat) (Spec.State.init cat) hok (inv_init cat)
    ⟨rfl, rfl, by simp [Spec.State.init, proj]⟩
  rw [C04.read_is_snapshot, C04.read_is_snapshot, spec_run_outs, spec_run_outs]
  refine ⟨h.1, ?_⟩
  simpa [Spec.run, Spec.runFrom_eq] using h.2

open AxVerif.Db.NI in
theorem okOp_erase (a : String) : ∀ ops : List Op, ops.all okOp = true → (eraseOthers a ops).all okOp = true
  | [], _ => rfl
  | op :: ops, h => by
    simp only [List.all_cons, Bool.and_eq_true] at h
    simp only [eraseOthers, List.map_cons, List.all_cons, Bool.and_eq_true]
    refine ⟨?_, okOp_erase a ops h.2⟩
    split
    · exact h.1
    · rfl

open AxVerif.Db.NI in
theorem answersOn_erased (a : String) : ∀ (ops : List Op) (outs : List Out),
    answersOn a (eraseOthers a ops) outs = realAnswers (eraseOthers a ops) outs
  | [], _ => rfl
  | op :: ops, [] => by simp [eraseOthers, answersOn, realAnswers]
  | op :: ops, o :: os => by
    have ih := answersOn_erased a ops os
    simp only [eraseOthers, List.map_cons] at ih ⊢
    by_cases ht : touches a op = true
    · have hn : isNop op = false := by
        cases op <;> simp [touches] at ht <;> rfl
      simp only [ht, if_true, answersOn, realAnswers, hn, Bool.false_eq_true, if_false, ih]
    · have ht' : touches a op = false := by simpa using ht
      simp only [ht', Bool.false_eq_true, if_false, answersOn, realAnswers, touches_nop, isNop, if_true, ih]

open AxVerif.Db.NI in
/-- **The position of a statement does not matter** (catalog without constraints): removing the `nop`s from a history
    changes no answer and nothing observable of the final rows (tables and values, in order). -/
theorem nops_do_not_matter (cat : Catalog) (hp : plainCat cat = true) (ops : List Op) (hok : ops.all okOp = true) :
    realAnswers ops (Spec.run cat ops).2 = realAnswers (dropNops ops) (Spec.run cat (dropNops ops)).2 ∧
    keys (Spec.run cat ops).1.committed = keys (Spec.run cat (dropNops ops)).1.committed := by
  have h := sim_from ops (Spec.State.init cat) (Spec.State.init cat) hp hok (inv_init cat) (inv_init cat) ⟨rfl, rfl⟩
  rw [spec_run_outs, spec_run_outs]
  refine ⟨h.1, ?_⟩
  simpa [Spec.run, Spec.runFrom_eq] using h.2

open AxVerif.Db.NI in
theorem dropNops_erase_swap (a : String) (pre : List Op) (s1 s2 : Stmt) (hne : NI.stmtTable s1 ≠ NI.stmtTable s2) :
    dropNops (eraseOthers a (pre ++ [.auto s1, .auto s2])) = dropNops (eraseOthers a (pre ++ [.auto s2, .auto s1])) := by
  simp only [eraseOthers, List.map_append, List.map_cons, List.map_nil, dropNops, List.filter_append, touches]
  congr 1
  by_cases h1 : NI.stmtTable s1 = a
  · have h2 : ¬ NI.stmtTable s2 = a := fun h => hne (h1.trans h.symm)
    simp [h1, h2, isNop]
  · by_cases h2 : NI.stmtTable s2 = a
    · simp [h1, h2, isNop]
    · simp [h1, h2, isNop]

open AxVerif.Db.NI in
/-- **Statements on different tables commute** (catalog without constraints).  After any history `pre` of autocommit
    `SELECT` / `INSERT` / `DELETE` statements, executing `s1` then `s2`, or `s2` then `s1`, where the two are statements on
    different tables: for every table `a`, the statements on `a` (those of `pre`, and `s1` or `s2` if it is on `a`) give the
    same answers in both orders, and `a` ends up with the same rows (values, in the same order) in both orders. -/
theorem statements_on_different_tables_commute (cat : Catalog) (hp : plainCat cat = true) (pre : List Op)
    (hpre : pre.all okOp = true) (s1 s2 : Stmt) (h1 : simpleStmt s1 = true) (h2 : simpleStmt s2 = true)
    (hne : NI.stmtTable s1 ≠ NI.stmtTable s2) (a : String) :
    answersOn a (pre ++ [.auto s1, .auto s2]) (run Defects.none cat (pre ++ [.auto s1, .auto s2])).2 =
      answersOn a (pre ++ [.auto s2, .auto s1]) (run Defects.none cat (pre ++ [.auto s2, .auto s1])).2 ∧
    keys (proj a (Spec.run cat (pre ++ [.auto s1, .auto s2])).1.committed) =
      keys (proj a (Spec.run cat (pre ++ [.auto s2, .auto s1])).1.committed) := by
  have hok12 : (pre ++ [Op.auto s1, Op.auto s2]).all okOp = true := by simp [List.all_append, hpre, okOp, h1, h2]
  have hok21 : (pre ++ [Op.auto s2, Op.auto s1]).all okOp = true := by simp [List.all_append, hpre, okOp, h1, h2]
  obtain ⟨a12, r12⟩ := statements_on_other_tables_do_not_interfere cat a _ hok12
  obtain ⟨a21, r21⟩ := statements_on_other_tables_do_not_interfere cat a _ hok21
  obtain ⟨n12, k12⟩ := nops_do_not_matter cat hp _ (okOp_erase a _ hok12)
  obtain ⟨n21, k21⟩ := nops_do_not_matter cat hp _ (okOp_erase a _ hok21)
  have hd := dropNops_erase_swap a pre s1 s2 hne
  constructor
  · rw [a12, a21, C04.read_is_snapshot, C04.read_is_snapshot, answersOn_erased, answersOn_erased, n12, n21, hd]
  · rw [r12, r21, k12, k21, hd]

/-- a non-trivial instance: two tables, a history that fills both, then an `INSERT` into one and a `DELETE` on the other -/
example : NI.plainCat [⟨"t", [⟨"k", .big, false, false⟩], []⟩, ⟨"u", [⟨"k", .big, false, false⟩], []⟩] = true ∧
    [Op.auto (.ins "t" [[.int 1]]), .auto (.ins "u" [[.int 2], [.int 3]]), .tick].all NI.okOp = true := by decide

end AxVerif.C14
