/-
  C01 — Acknowledged commits survive a crash at any later instant.

  Protocol-level theorems about the write-ahead-logging machine of `Model/Recovery.lean`; the tie to the code is the
  `crash` engine (every crash point of real workloads judged against `committedState`) and `checkR1` applied to the
  real I/O trace.  All statements quantify over arbitrary event lists / crash points / histories.
-/
import AxVerif.Lemmas.RecoveryR1
namespace AxVerif.Recovery
open AxVerif AxVerif.Durable

/-- **Recovery after a crash at any point is redo of exactly the durable history.**
    Whatever was appended, forced and checkpointed, in any order, for any number of transactions:
    crash + recovery yields the replay, from the empty database, of the records made durable so far. -/
theorem recover_crash_eq_replay_durable (es : List Ev) (hw : WfRecs (appended es)) :
    recover (crash (run es)) = replay [] (durable es) := by
  obtain ⟨old, hist, cdur, _, stab, quie⟩ := inv_exists es hw
  have hd : durable es = old ++ (run es).log := by
    rw [durable_eq, cdur, hist, List.append_assoc, ← List.append_assoc old, List.take_left']
    rfl
  have hdis : TxDisjoint old (run es).log := by
    have hw' : WfRecs (old ++ (run es).log) := by
      have : appended es = (old ++ (run es).log) ++ (run es).buf := by rw [hist]
      rw [this] at hw; exact hw.left
    exact txDisjoint_of_wf hw' quie
  simp only [recover, crash]
  rw [hd, replay_append _ _ _ hdis, stab]

/-- Rule R1 (checked on the event trace) implies that the COMMIT record of every acknowledged transaction is durable. -/
theorem acked_commit_is_durable (es : List Ev) (h : checkR1 es = true) (t : Nat) (ht : Ev.ack t ∈ es) :
    Rec.commit t ∈ durable es :=
  (r1Inv es).acks (by rw [← checkR1_eq]; exact h) t ht

/-- **C01.** For every trace obeying R1, every crash point `k` and every transaction acknowledged before it:
    the recovered state is the redo of a durable log `D` in which the transaction is a winner, and no record of the
    transaction lies outside `D` (all of its operations are redone). -/
theorem acked_commit_survives_any_crash (es : List Ev) (hw : WfRecs (appended es)) (hr : checkR1 es = true)
    (k : Nat) (t : Nat) (ht : Ev.ack t ∈ es.take k) :
    ∃ D rest, recover (crash (run (es.take k))) = replay [] D ∧
      appended es = D ++ rest ∧ Rec.commit t ∈ D ∧ isWinner D t = true ∧ ∀ r ∈ rest, r.tid ≠ t := by
  have hsplit : es = es.take k ++ es.drop k := (List.take_append_drop k es).symm
  have happ : appended es = appended (es.take k) ++ appended (es.drop k) := by
    conv => lhs; rw [hsplit]
    exact appended_append _ _
  have hwk : WfRecs (appended (es.take k)) := by rw [happ] at hw; exact hw.left
  have hrk : checkR1 (es.take k) = true := by
    apply checkR1_prefix (es.take k) (es.drop k); rw [← hsplit]; exact hr
  have hc := acked_commit_is_durable (es.take k) hrk t ht
  have hD : durable (es.take k) = (appended (es.take k)).take (counts (es.take k)).1 := durable_eq _
  refine ⟨durable (es.take k),
          (appended (es.take k)).drop (counts (es.take k)).1 ++ appended (es.drop k), ?_, ?_, hc, ?_, ?_⟩
  · exact recover_crash_eq_replay_durable _ hwk
  · rw [happ, hD, ← List.append_assoc, List.take_append_drop]
  · exact isWinner_of_commit_mem (by rw [hD]; exact wf_take _ hwk) hc
  · intro r hrm e
    have hw2 : WfRecs (durable (es.take k) ++
        ((appended (es.take k)).drop (counts (es.take k)).1 ++ appended (es.drop k))) := by
      rw [hD, ← List.append_assoc, List.take_append_drop, ← happ]; exact hw
    exact (List.pairwise_append.mp hw2).2.2 _ hc r hrm ⟨rfl, by rw [e]; rfl⟩

/-- The commit procedure of the code (append COMMIT, force, acknowledge) obeys R1 for every history. -/
theorem exec_obeys_R1 (h : List HOp) : checkR1 (events h) = true := by
  have gen : ∀ (h : List HOp) (st : R1State), ((events h).foldl r1Step (st, true)).2 = true := by
    intro h
    induction h with
    | nil => intro st; rfl
    | cons op h ih =>
      intro st
      simp only [events, List.map_cons, List.flatten_cons, List.foldl_append]
      cases op with
      | write t d => simpa [HOp.events, r1Step, events] using ih st
      | commit t =>
        simp only [HOp.events, List.foldl_cons, List.foldl_nil, r1Step]
        have : (List.contains ((t :: st.pending) ++ st.safe) t) = true := by simp
        simpa [this, events] using ih _
      | rollback t => simpa [HOp.events, r1Step, events] using ih _
      | checkpoint => simpa [HOp.events, r1Step, events] using ih _
  exact gen h _

/-- **C01 for the code's commit procedure**: in every history, at every crash point, a transaction whose commit has
    returned is a winner of the recovered log, with all its records. -/
theorem commit_returned_is_durable (h : List HOp) (hw : WfRecs (appended (events h))) (k t : Nat)
    (ht : Ev.ack t ∈ (events h).take k) :
    ∃ D rest, recover (crash (run ((events h).take k))) = replay [] D ∧
      appended (events h) = D ++ rest ∧ Rec.commit t ∈ D ∧ isWinner D t = true ∧ ∀ r ∈ rest, r.tid ≠ t :=
  acked_commit_survives_any_crash _ hw (exec_obeys_R1 h) k t ht

/-- Witness (why R1 matters): acknowledging before the force loses the commit at the crash point in between. -/
theorem ack_before_force_witness :
    let es := [Ev.append (.op 1 (.crt "t")), Ev.append (.commit 1), Ev.ack 1, Ev.force]
    checkR1 es = false ∧ recover (crash (run (es.take 3))) = [] ∧ recover (crash (run es)) = [("t", [])] := by
  decide

/-- Non-vacuity: a two-transaction history with a checkpoint in the middle is well-formed and obeys R1. -/
example :
    let h := [HOp.write 1 (.crt "t"), .commit 1, .checkpoint, .write 2 (.ins "t" 1 10), .write 3 (.ins "t" 2 20),
              .commit 3, .rollback 2]
    WfRecs (appended (events h)) ∧ checkR1 (events h) = true ∧
      recover (crash (run (events h))) = [("t", [(2, 20)])] := by
  refine ⟨by decide, by decide, by decide⟩

end AxVerif.Recovery
