/-
  C07 — UNIQUE, PRIMARY KEY and NOT NULL always hold in committed data.

  Theorems for `Defects.none`, for EVERY history over every catalog (single- and multi-column UNIQUE / PRIMARY KEY,
  NOT NULL; `TableSchema.keySets`, `Col.notNull`).  `constraintsHold cat v` is the decidable statement "no row of
  `v` has NULL in a NOT NULL column and no two rows of a table agree on a fully non-NULL key".
  They rest on the refinement `refine_run` (MVCC machine = abstract machine `Db.Spec` on every history), in which
  a commit is refused when the committed database would stop satisfying a constraint.
  Witness theorems of the defect flags at the end.
-/
import AxVerif.Lemmas.DbCons
namespace AxVerif.Db.C07
open AxVerif.Db

/-- **Committed states satisfy the constraints** (abstract machine): after every prefix of every history. -/
theorem spec_committed_states_satisfy_constraints (cat : Catalog) (ops : List Op) :
    constraintsHold cat (Spec.final (Spec.State.init cat) ops).committed = true := by
  have h := spec_final_holds ops (Spec.State.init cat) (by simp [Spec.State.init, constraintsHold])
  rw [spec_final_cat] at h
  exact h

/-- **Committed states satisfy the constraints** (MVCC machine): in every reachable state, what a transaction
    beginning now would read — the live committed rows — satisfies every declared constraint.  (A history is a
    list of operations; every prefix of a history is a history, so this covers every point in time.) -/
theorem committed_states_satisfy_constraints (cat : Catalog) (ops : List Op) :
    constraintsHold cat
      (view Defects.none ((run Defects.none cat ops).1.freshSnap Defects.none) (run Defects.none cat ops).1.rows) = true := by
  have hrun : (run Defects.none cat ops).1 = finalM D0 (State.init cat) ops := by simp [run, runFrom_eq, D0]
  rw [hrun]
  have hc := (reach_rel cat ops).core.committed
  have : view Defects.none ((finalM D0 (State.init cat) ops).freshSnap Defects.none) (finalM D0 (State.init cat) ops).rows =
      (Spec.final (Spec.State.init cat) ops).committed := hc
  rw [this]
  exact spec_committed_states_satisfy_constraints cat ops

/-- the same holds for every reading transaction's base: a snapshot never shows a constraint violation among
    committed rows, because the refinement makes every read the abstract machine's read -/
theorem outputs_are_the_abstract_machines (cat : Catalog) (ops : List Op) :
    (run Defects.none cat ops).2 = (Spec.run cat ops).2 := refine_run cat ops

/-- **A violating statement is rejected as a whole**: a statement answering `constraint` (or any other error)
    inside a session leaves store, transaction table, write sets and sessions exactly as they were. -/
theorem violating_statement_rejected_whole (σ : State) (s : String) (st : Stmt)
    (h : (step Defects.none σ (.exec s st)).2 = .stmt (.err .constraint)) :
    (step Defects.none σ (.exec s st)).1 = { σ with clock := σ.clock + 1 } := by
  unfold step at h ⊢
  simp only [stepCore] at h ⊢
  cases hl : lookup s σ.sessions with
  | none => rfl
  | some tid =>
    rw [hl] at h
    simp only at h ⊢
    have hs := stmt_none σ tid 0 st
    simp only [D0] at hs
    rw [hs] at h ⊢
    split at h
    · rename_i herr; simp only [herr, if_true]
    · rename_i herr
      simp only [Out.stmt.injEq] at h
      rw [h] at herr
      simp [SOut.isErr] at herr

/-- a commit that the constraint re-check (or first-committer-wins) refuses changes nothing in the committed
    database; in particular the second of two open transactions inserting the same key is refused as a whole -/
theorem refused_commit_keeps_committed (α : Spec.State) (a : Spec.ATxn) (e : Err) (h : (α.commitC a).2 = some e) :
    (α.commitC a).1 = α := by
  unfold Spec.State.commitC at h ⊢
  split
  · rename_i h1
    simp only [h1, if_true] at h
    split
    · rfl
    · rename_i h2; simp [h2] at h
  · rfl

/-- `dupKey` — the only reason for a UNIQUE / PRIMARY KEY rejection — means: the key is fully non-NULL and another row
    *of the view* carries it.  The view is what the transaction reads (`C04.read_is_snapshot`: committed at its begin ⊕
    own writes): deleted rows, rows of rolled-back transactions and old versions of changed rows are not in it. -/
theorem unique_rejection_needs_a_live_row (v : View) (t : String) (self : Option Rid) (K : List Nat) (vals : List Val) :
    dupKey v t self K vals = true ↔
      (.null ∉ keyOf K vals) ∧ ∃ x ∈ v, x.table = t ∧ some x.rid ≠ self ∧ keyOf K x.vals = keyOf K vals :=
  dupKey_iff v t self K vals

/-- **No spurious rejection / no missed violation** for an INSERT of one row `r` (cast to `r'`): it is accepted
    exactly when `r'` has no NULL in a NOT NULL column and no row of the transaction's view carries one of its keys;
    otherwise it is rejected with `constraint`. -/
theorem insert_accepted_iff (ts : TableSchema) (c j : Nat) (v : View) (r r' : List Val)
    (hc : castRow ts.cols r = .ok r') :
    ((planIns ts c none v [r] j).out = .okN 1 ↔
      (notNullOk ts.cols r' = true ∧ ∀ K ∈ ts.keySets, dupKey v ts.name none K r' = false)) ∧
    ((planIns ts c none v [r] j).out = .okN 1 ∨ (planIns ts c none v [r] j).out = .err .constraint) := by
  unfold planIns
  simp only [hc]
  by_cases hn : notNullOk ts.cols r' = true
  · simp only [hn, Bool.not_true, Bool.false_eq_true, if_false]
    by_cases hu : uniqueOk none v ts none r' = true
    · simp only [hu, Bool.not_true, Bool.false_eq_true, if_false]
      have hall : ∀ K ∈ ts.keySets, dupKey v ts.name none K r' = false := by
        intro K hK
        have := List.all_eq_true.1 hu K hK
        simpa using this
      have hout : ((planIns ts c (Probe.step none v (Effect.ins (c, j) ts.name r'))
          (View.apply v (Effect.ins (c, j) ts.name r')) [] (j + 1)).cons (Effect.ins (c, j) ts.name r')).out = .okN 1 := by
        simp [planIns, Plan.cons]
      exact ⟨⟨fun _ => ⟨trivial, hall⟩, fun _ => hout⟩, Or.inl hout⟩
    · have hu' : uniqueOk none v ts none r' = false := by simpa using hu
      simp only [hu', Bool.not_false, if_true]
      refine ⟨⟨fun h => absurd h (by simp), ?_⟩, Or.inr trivial⟩
      rintro ⟨_, hall⟩
      exfalso
      apply hu
      apply List.all_eq_true.2
      intro K hK
      simp [hall K hK]
  · have hn' : notNullOk ts.cols r' = false := by simpa using hn
    simp only [hn', Bool.not_false, if_true]
    exact ⟨⟨fun h => absurd h (by simp), fun h => absurd h.1 (by simp)⟩, Or.inr trivial⟩

/-! ## witnesses of the defect flags -/

def catU : Catalog := [{ name := "u", cols := [⟨"k", .big, false, true⟩, ⟨"v", .int, true, false⟩] }]
def preU : List Op := [.tick, .tick, .auto (.ins "u" [[.int 1, .int 10]]), .auto (.ins "u" [[.int 2, .int 20]])]
def kEq (n : Int) : Option Pred := some ⟨"k", .eq, .int n⟩

/-- the live committed rows of a state, as a transaction beginning now reads them -/
def live (D : Defects) (σ : State) : View := view D (σ.freshSnap D) σ.rows

/-- two open transactions insert the same key; nothing is re-checked at commit: both commit, the key is there twice -/
theorem uniqueNotRecheckedAtCommit_witness :
    constraintsHold catU (live { uniqueNotRecheckedAtCommit := true }
      (run { uniqueNotRecheckedAtCommit := true } catU
        (preU ++ [.begin "s1", .begin "s2", .exec "s1" (.ins "u" [[.int 5, .int 50]]),
                  .exec "s2" (.ins "u" [[.int 5, .int 51]]), .commit "s1", .commit "s2"])).1) = false := by
  decide

/-- after `UPDATE u SET k = 3 WHERE k = 1` the index still carries 1 and does not carry 3: inserting 1 is rejected
    although no live row has it, inserting 3 is accepted although a live row has it -/
theorem indexNotMaintainedOnKeyUpdate_witness :
    (run { indexNotMaintainedOnKeyUpdate := true, uniqueNotRecheckedAtCommit := true } catU
      (preU ++ [.auto (.upd "u" "k" false (.int 3) (kEq 1)), .auto (.ins "u" [[.int 1, .int 30]]),
                .auto (.ins "u" [[.int 3, .int 40]])])).2
      = [.ok, .ok, .stmt (.okN 1), .stmt (.okN 1), .stmt (.okN 1), .stmt (.err .constraint), .stmt (.okN 1)] ∧
    constraintsHold catU (live { indexNotMaintainedOnKeyUpdate := true, uniqueNotRecheckedAtCommit := true }
      (run { indexNotMaintainedOnKeyUpdate := true, uniqueNotRecheckedAtCommit := true } catU
        (preU ++ [.auto (.upd "u" "k" false (.int 3) (kEq 1)), .auto (.ins "u" [[.int 1, .int 30]]),
                  .auto (.ins "u" [[.int 3, .int 40]])])).1) = false := by
  decide

/-- a transaction deletes key 1, inserts it again and rolls back: its index entry replaced the old row's, so after the
    rollback the index no longer knows the (live again) old row and a second row with key 1 is accepted -/
theorem indexOneEntryPerKey_witness :
    constraintsHold catU (live { indexOneEntryPerKey := true, uniqueNotRecheckedAtCommit := true }
      (run { indexOneEntryPerKey := true, uniqueNotRecheckedAtCommit := true } catU
        (preU ++ [.begin "s1", .exec "s1" (.del "u" (kEq 1)), .exec "s1" (.ins "u" [[.int 1, .int 11]]), .rollback "s1",
                  .auto (.ins "u" [[.int 1, .int 12]])])).1) = false := by
  decide

/-- a rolled-back `UPDATE u SET k = 5 WHERE k = 1` stays in the table (the version carries the inserter's id):
    the committed rows then differ from the specification's, and a later insert of 5 produces a duplicate key -/
theorem updateKeepsInserterXmin_witness :
    constraintsHold catU (live { updateKeepsInserterXmin := true, indexNotMaintainedOnKeyUpdate := true, uniqueNotRecheckedAtCommit := true }
      (run { updateKeepsInserterXmin := true, indexNotMaintainedOnKeyUpdate := true, uniqueNotRecheckedAtCommit := true } catU
        (preU ++ [.begin "s1", .exec "s1" (.upd "u" "k" false (.int 5) (kEq 1)), .rollback "s1",
                  .auto (.ins "u" [[.int 5, .int 55]])])).1) = false := by
  decide

/-! the code after `fix: the keys a transaction inserts into a unique index join its write set` -/

/-- two open transactions insert the same key: the second committer is refused with a constraint error, as specified -/
theorem commitChecksInsertedKeysOnly_second_inserter_refused :
    (run { commitChecksInsertedKeysOnly := true } catU
      (preU ++ [.begin "s1", .begin "s2", .exec "s1" (.ins "u" [[.int 5, .int 50]]),
                .exec "s2" (.ins "u" [[.int 5, .int 51]]), .commit "s1", .commit "s2"])).2.getLast?
      = some (.refused .constraint) ∧
    constraintsHold catU (live { commitChecksInsertedKeysOnly := true }
      (run { commitChecksInsertedKeysOnly := true } catU
        (preU ++ [.begin "s1", .begin "s2", .exec "s1" (.ins "u" [[.int 5, .int 50]]),
                  .exec "s2" (.ins "u" [[.int 5, .int 51]]), .commit "s1", .commit "s2"])).1) = true := by
  decide

/-- … but only INSERTed keys are compared: a transaction that reaches key 5 by UPDATE and one that inserts 5 both
    commit, the key is there twice -/
theorem commitChecksInsertedKeysOnly_witness :
    constraintsHold catU (live { commitChecksInsertedKeysOnly := true }
      (run { commitChecksInsertedKeysOnly := true } catU
        (preU ++ [.begin "s1", .begin "s2", .exec "s1" (.upd "u" "k" false (.int 5) (kEq 1)),
                  .exec "s2" (.ins "u" [[.int 5, .int 51]]), .commit "s1", .commit "s2"])).1) = false := by
  decide

/-- … and a key stays in the write set when its row is deleted again: the commit is refused although the committed
    database would hold the key once (the specification commits) -/
theorem commitChecksInsertedKeysOnly_spurious_refusal :
    (run { commitChecksInsertedKeysOnly := true } catU
      (preU ++ [.begin "s1", .begin "s2", .exec "s1" (.ins "u" [[.int 5, .int 50]]), .exec "s1" (.del "u" (kEq 5)),
                .exec "s2" (.ins "u" [[.int 5, .int 51]]), .commit "s2", .commit "s1"])).2.getLast?
      = some (.refused .constraint) ∧
    (run Defects.none catU
      (preU ++ [.begin "s1", .begin "s2", .exec "s1" (.ins "u" [[.int 5, .int 50]]), .exec "s1" (.del "u" (kEq 5)),
                .exec "s2" (.ins "u" [[.int 5, .int 51]]), .commit "s2", .commit "s1"])).2.getLast? = some .ok := by
  decide

/-- the index defects under the key comparison at commit: delete + re-insert + rollback still loses the live row's
    entry, and the duplicate inserted afterwards is not caught at its commit -/
theorem indexOneEntryPerKey_witness_keys :
    constraintsHold catU (live { indexOneEntryPerKey := true, commitChecksInsertedKeysOnly := true }
      (run { indexOneEntryPerKey := true, commitChecksInsertedKeysOnly := true } catU
        (preU ++ [.begin "s1", .exec "s1" (.del "u" (kEq 1)), .exec "s1" (.ins "u" [[.int 1, .int 11]]), .rollback "s1",
                  .auto (.ins "u" [[.int 1, .int 12]])])).1) = false := by
  decide

theorem indexNotMaintainedOnKeyUpdate_witness_keys :
    constraintsHold catU (live { indexNotMaintainedOnKeyUpdate := true, commitChecksInsertedKeysOnly := true }
      (run { indexNotMaintainedOnKeyUpdate := true, commitChecksInsertedKeysOnly := true } catU
        (preU ++ [.auto (.upd "u" "k" false (.int 3) (kEq 1)), .auto (.ins "u" [[.int 1, .int 30]]),
                  .auto (.ins "u" [[.int 3, .int 40]])])).1) = false := by
  decide

/-- the specification on the same histories: the second commit / the duplicate insert is refused, the constraints hold -/
example :
    (run Defects.none catU
      (preU ++ [.begin "s1", .begin "s2", .exec "s1" (.ins "u" [[.int 5, .int 50]]),
                .exec "s2" (.ins "u" [[.int 5, .int 51]]), .commit "s1", .commit "s2"])).2.getLast? = some (.refused .constraint) := by
  decide

end AxVerif.Db.C07
