/-
  C03 — ROLLBACK, a failed statement or a failed batch leaves no effects.
  Witness theorems of the defect flags (the property theorems follow below them).
-/
import AxVerif.Model.Db
namespace AxVerif.Db.C03
open AxVerif.Db

def catT : Catalog := [⟨"t", [⟨"k", .big, false, false⟩, ⟨"v", .int, false, false⟩]⟩]
def catU : Catalog := [⟨"u", [⟨"k", .big, false, true⟩, ⟨"v", .int, true, false⟩]⟩]

def pre : List Op := [.tick, .tick, .auto (.ins "t" [[.int 1, .int 10]])]
def preU : List Op := [.tick, .tick, .auto (.ins "u" [[.int 1, .int 10]])]

/-- a rolled-back UPDATE stays visible to every later transaction (what `test_session_rollback_updates` asserts) -/
theorem updateKeepsInserterXmin_witness :
    (run { updateKeepsInserterXmin := true } catT
      (pre ++ [.begin "s1", .exec "s1" (.upd "t" "v" false (.int 999) none), .rollback "s1", .auto (.sel "t" none)])).2
    ≠ (Spec.run catT
      (pre ++ [.begin "s1", .exec "s1" (.upd "t" "v" false (.int 999) none), .rollback "s1", .auto (.sel "t" none)])).2 := by
  decide

/-- after a rolled-back DELETE, a later DELETE of the same row has no effect -/
theorem deleteKeepsStaleXmax_witness :
    (run { deleteKeepsStaleXmax := true } catT
      (pre ++ [.begin "s1", .exec "s1" (.del "t" none), .rollback "s1", .auto (.del "t" none), .auto (.sel "t" none)])).2
    ≠ (Spec.run catT
      (pre ++ [.begin "s1", .exec "s1" (.del "t" none), .rollback "s1", .auto (.del "t" none), .auto (.sel "t" none)])).2 := by
  decide

/-- a multi-row INSERT failing on its last row keeps the first rows, and they are committed with the session -/
theorem stmtNotAtomicInSession_witness :
    (run { stmtNotAtomicInSession := true } catU
      (preU ++ [.begin "s1", .exec "s1" (.ins "u" [[.int 2, .int 20], [.int 1, .int 30]]), .commit "s1", .auto (.sel "u" none)])).2
    ≠ (Spec.run catU
      (preU ++ [.begin "s1", .exec "s1" (.ins "u" [[.int 2, .int 20], [.int 1, .int 30]]), .commit "s1", .auto (.sel "u" none)])).2 := by
  decide

end AxVerif.Db.C03
