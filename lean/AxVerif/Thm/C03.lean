/-
  C03 — ROLLBACK, a failed statement or a failed batch leaves no effects.

  Property theorems for `Defects.none`, for EVERY history.  They rest on the refinement of `Thm/C04.lean`
  (`runFrom_ok`: the MVCC machine produces the outputs of the abstract machine `Db.Spec`, in which a rolled-back
  transaction never touches the committed database).  Witness theorems of the defect flags at the end.
-/
import AxVerif.Lemmas.DbHist
namespace AxVerif.Db.C03
open AxVerif.Db

def catT : Catalog := [{ name := "t", cols := [⟨"k", .big, false, false⟩, ⟨"v", .int, false, false⟩] }]
def catU : Catalog := [{ name := "u", cols := [⟨"k", .big, false, true⟩, ⟨"v", .int, true, false⟩] }]

def pre : List Op := [.tick, .tick, .auto (.ins "t" [[.int 1, .int 10]])]
def preU : List Op := [.tick, .tick, .auto (.ins "u" [[.int 1, .int 10]])]

/-- a rolled-back UPDATE stays visible to every later transaction (what `test_session_rollback_updates` asserts) -/
theorem updateKeepsInserterXmin_witness :
    (run { updateKeepsInserterXmin := true } catT
      (pre ++ [.begin "s1", .exec "s1" (.upd "t" "v" false (.int 999) none), .rollback "s1", .auto (.sel "t" none)])).2
    ≠ (Spec.run catT
      (pre ++ [.begin "s1", .exec "s1" (.upd "t" "v" false (.int 999) none), .rollback "s1", .auto (.sel "t" none)])).2 := by
  decide

/-- after a rolled-back DELETE, a later DELETE of the same row has no effect -/
theorem deleteKeepsStaleXmax_witness :
    (run { deleteKeepsStaleXmax := true } catT
      (pre ++ [.begin "s1", .exec "s1" (.del "t" none), .rollback "s1", .auto (.del "t" none), .auto (.sel "t" none)])).2
    ≠ (Spec.run catT
      (pre ++ [.begin "s1", .exec "s1" (.del "t" none), .rollback "s1", .auto (.del "t" none), .auto (.sel "t" none)])).2 := by
  decide

/-- a multi-row INSERT failing on its last row keeps the first rows, and they are committed with the session -/
theorem stmtNotAtomicInSession_witness :
    (run { stmtNotAtomicInSession := true } catU
      (preU ++ [.begin "s1", .exec "s1" (.ins "u" [[.int 2, .int 20], [.int 1, .int 30]]), .commit "s1", .auto (.sel "u" none)])).2
    ≠ (Spec.run catU
      (preU ++ [.begin "s1", .exec "s1" (.ins "u" [[.int 2, .int 20], [.int 1, .int 30]]), .commit "s1", .auto (.sel "u" none)])).2 := by
  decide

/-! ## property theorems -/

theorem run_final (cat : Catalog) (ops : List Op) :
    (run Defects.none cat ops).1 = finalM D0 (State.init cat) ops := by simp [run, runFrom_eq, D0]

/-- **Abort erases (store level).**  In every reachable state, for a transaction `tid` that is aborted (rolled back,
    dropped, refused at commit) or still open: the snapshot of every other transaction, whenever it was or will be
    taken, reads the same from the store as from the store with every version and delete mark of `tid` physically
    removed. -/
theorem abort_erases_store (cat : Catalog) (ops : List Op) (tid tid' : Nat) (t t' : Txn)
    (ht : (run Defects.none cat ops).1.txns[tid]? = some t) (hnc : t.status ≠ .committed)
    (ht' : (run Defects.none cat ops).1.txns[tid']? = some t') (hne : tid' ≠ tid) :
    view Defects.none t'.snap (eraseTxn tid (run Defects.none cat ops).1.rows) =
      view Defects.none t'.snap (run Defects.none cat ops).1.rows := by
  rw [run_final] at ht ht' ⊢
  have hc := (reach_rel cat ops).core.cinv
  apply view_eraseTxn
  have hx : t'.snap.xid = tid' := hc.xid tid' t' ht'
  cases hcb : t'.snap.cb tid with
  | false => simp [Snapshot.sees, hx, hcb]; exact fun e => hne e.symm
  | true =>
    exfalso
    have := (hc.snap_clog tid' t' ht' tid (fun e => hne e.symm)).1 hcb
    obtain ⟨en, hen, hen1⟩ := List.mem_map.1 this
    obtain ⟨tu, h1, h2, _⟩ := hc.clog_comm en (List.mem_of_mem_take hen)
    rw [hen1, ht] at h1; cases h1
    exact hnc h2

/-- … and so does every snapshot taken from now on -/
theorem abort_erases_store_fresh (cat : Catalog) (ops : List Op) (tid : Nat) (t : Txn)
    (ht : (run Defects.none cat ops).1.txns[tid]? = some t) (hnc : t.status ≠ .committed) :
    view Defects.none ((run Defects.none cat ops).1.freshSnap Defects.none) (eraseTxn tid (run Defects.none cat ops).1.rows) =
      view Defects.none ((run Defects.none cat ops).1.freshSnap Defects.none) (run Defects.none cat ops).1.rows := by
  rw [run_final] at ht ⊢
  have hc := (reach_rel cat ops).core.cinv
  apply view_eraseTxn
  cases h : ((finalM D0 (State.init cat) ops).freshSnap D0).sees tid with
  | false => rfl
  | true =>
    exfalso
    obtain ⟨tu, h1, h2⟩ := (fresh_sees _ hc tid (getElem?_lt ht)).1 h
    rw [ht] at h1; cases h1
    exact hnc h2

/-- the general history-level statement: the operations of ONE transaction that does not commit (from its `begin`
    to its rollback / drop) replaced by `nop` give every other operation the same output, also those of later —
    possibly committing — transactions of the same session.  Proved below (`abort_erases`); `abort_erases_refused`
    extends it to a transaction whose commit is REFUSED, `failed_statement_erases` to a single failing statement of a
    transaction that goes on. -/
def abort_erases_statement : Prop :=
  ∀ (cat : Catalog) (pre seg post : List Op) (s : String),
    lookup s (finalM Defects.none (State.init cat) pre).sessions = none →
    (∀ op ∈ seg, op ≠ .commit s) →
    lookup s (finalM Defects.none (State.init cat) (pre ++ seg)).sessions = none →
    (run Defects.none cat (pre ++ eraseSess s seg ++ post)).2 =
      (run Defects.none cat pre).2 ++ maskOuts s seg ((run Defects.none cat (pre ++ seg)).2.drop pre.length) ++
        ((run Defects.none cat (pre ++ seg ++ post)).2.drop (pre.length + seg.length))

theorem drop_outs_left (l : List Op) (α : Spec.State) (r : List Out) : (Spec.outs α l ++ r).drop l.length = r := by
  have := List.drop_left (l₁ := Spec.outs α l) (l₂ := r)
  rwa [Spec.outs_length] at this

/-- **Abort erases (history level, one transaction).**  `seg` runs from a point where session `s` has no transaction
    to a point where it has none again and contains no commit of `s` (its transactions there ended in ROLLBACK, a
    session drop, or were replaced by the next `begin`): the history with the operations of `s` inside `seg` replaced by
    `nop` answers every other operation — before, inside and AFTER `seg`, including later committing transactions of `s`
    itself — exactly as the full history does. -/
theorem abort_erases : abort_erases_statement := by
  intro cat pre seg post s hpre hnc hseg
  have hp : lookup s (Spec.final (Spec.State.init cat) pre).sessions = none := (reach_rel cat pre).sessNone s hpre
  have hs : lookup s (Spec.final (Spec.State.init cat) (pre ++ seg)).sessions = none :=
    (reach_rel cat (pre ++ seg)).sessNone s hseg
  rw [Spec.final_append] at hs
  obtain ⟨e1, e2⟩ := spec_erase_from s seg (Spec.final (Spec.State.init cat) pre) hnc
  rw [dropSess_absent s _ hp] at e1 e2
  rw [dropSess_absent s _ hs] at e1
  rw [refine_run, refine_run, refine_run, refine_run, spec_run_outs, spec_run_outs, spec_run_outs, spec_run_outs]
  rw [Spec.outs_append, Spec.outs_append, Spec.final_append, e1, e2]
  rw [Spec.outs_append pre seg, drop_outs_left]
  rw [Spec.outs_append (pre ++ seg) post, Spec.outs_append pre seg, Spec.final_append]
  have hlen : pre.length + seg.length = (Spec.outs (Spec.State.init cat) pre ++
      Spec.outs (Spec.final (Spec.State.init cat) pre) seg).length := by
    simp [Spec.outs_length]
  rw [hlen, List.drop_left]

/-- **Abort erases, refused commits included.**  As `abort_erases`, but `seg` may contain commits of `s` as long as none
    of them was answered with `ok`: a transaction whose COMMIT is refused (write-write conflict, or the constraint
    re-check) is erased like one that rolls back — every other operation of the history, before, inside and after
    `seg`, answers the same when the operations of `s` in `seg` (the refused `commit` included) are replaced by `nop`. -/
theorem abort_erases_refused (cat : Catalog) (pre seg post : List Op) (s : String)
    (hpre : lookup s (finalM Defects.none (State.init cat) pre).sessions = none)
    (hnc : noCommitOk s seg ((run Defects.none cat (pre ++ seg)).2.drop pre.length) = true)
    (hseg : lookup s (finalM Defects.none (State.init cat) (pre ++ seg)).sessions = none) :
    (run Defects.none cat (pre ++ eraseSess s seg ++ post)).2 =
      (run Defects.none cat pre).2 ++ maskOuts s seg ((run Defects.none cat (pre ++ seg)).2.drop pre.length) ++
        ((run Defects.none cat (pre ++ seg ++ post)).2.drop (pre.length + seg.length)) := by
  have hp : lookup s (Spec.final (Spec.State.init cat) pre).sessions = none := (reach_rel cat pre).sessNone s hpre
  have hs : lookup s (Spec.final (Spec.State.init cat) (pre ++ seg)).sessions = none :=
    (reach_rel cat (pre ++ seg)).sessNone s hseg
  rw [Spec.final_append] at hs
  rw [refine_run, spec_run_outs, Spec.outs_append, drop_outs_left] at hnc
  obtain ⟨e1, e2⟩ := spec_erase_from' s seg (Spec.final (Spec.State.init cat) pre) hnc
  rw [dropSess_absent s _ hp] at e1 e2
  rw [dropSess_absent s _ hs] at e1
  rw [refine_run, refine_run, refine_run, refine_run, spec_run_outs, spec_run_outs, spec_run_outs, spec_run_outs]
  rw [Spec.outs_append, Spec.outs_append, Spec.final_append, e1, e2]
  rw [Spec.outs_append pre seg, drop_outs_left]
  rw [Spec.outs_append (pre ++ seg) post, Spec.outs_append pre seg, Spec.final_append]
  have hlen : pre.length + seg.length = (Spec.outs (Spec.State.init cat) pre ++
      Spec.outs (Spec.final (Spec.State.init cat) pre) seg).length := by
    simp [Spec.outs_length]
  rw [hlen, List.drop_left]

/-- **Abort erases (history level).**  If session `s` never commits (each of its transactions ends in ROLLBACK, a
    session drop, is implicitly rolled back by the next `begin`, or stays open), the history with all of its operations
    replaced by `nop` gives every other operation — reads of all other sessions, autocommit statements, batches,
    commits — exactly the same output. -/
theorem abort_erases_partial (cat : Catalog) (ops : List Op) (s : String) (hnc : ∀ op ∈ ops, op ≠ .commit s) :
    (run Defects.none cat (eraseSess s ops)).2 = maskOuts s ops (run Defects.none cat ops).2 := by
  rw [refine_run, refine_run, spec_run_outs, spec_run_outs]
  exact (spec_erase s ops _ _ (eqExcept_init s cat) hnc).symm

example : eraseSess "s1" [.begin "s1", .exec "s2" (.sel "t" none), .exec "s1" (.del "t" none), .rollback "s1"] =
    [.nop, .exec "s2" (.sel "t" none), .nop, .nop] := by simp [eraseSess, Op.ofSess]

/-- **A failing statement is atomic.**  A statement that answers with an error inside a session leaves the whole
    state (store, transaction table, write sets, sessions) exactly as it found it; only the history clock advances. -/
theorem failed_statement_atomic (σ : State) (s : String) (st : Stmt) (e : Err)
    (h : (step Defects.none σ (.exec s st)).2 = .stmt (.err e)) :
    (step Defects.none σ (.exec s st)).1 = { σ with clock := σ.clock + 1 } := by
  unfold step at h ⊢
  simp only [stepCore] at h ⊢
  cases hl : lookup s σ.sessions with
  | none => rfl
  | some tid =>
    rw [hl] at h
    simp only at h ⊢
    have hs := stmt_none σ tid 0 st
    simp only [D0] at hs
    rw [hs] at h ⊢
    split at h
    · rename_i herr; simp only [herr, if_true]
    · rename_i herr
      simp only [Out.stmt.injEq] at h
      rw [h] at herr
      simp [SOut.isErr] at herr

theorem outOfCommit_stmt_err {r : Option Err} {o : SOut} {e : Err} (h : outOfCommit r (.stmt o) = .stmt (.err e)) :
    o = .err e := by
  cases r with
  | none => simpa [outOfCommit] using h
  | some e' => simp [outOfCommit] at h

/-- the same for the abstract machine, including autocommit statements and batches: a failing one is a `nop` -/
theorem spec_failed_auto_is_nop (α : Spec.State) (st : Stmt) (e : Err)
    (h : (Spec.step α (.auto st)).2 = .stmt (.err e)) : (Spec.step α (.auto st)).1 = (Spec.step α .nop).1 := by
  unfold Spec.step at h ⊢
  simp only [Spec.stepCore] at h ⊢
  split at h
  · rename_i herr; simp only [herr, if_true]
  · rename_i herr
    exfalso
    have := outOfCommit_stmt_err h
    rw [this] at herr
    simp [SOut.isErr] at herr

/-- a commit refused by the abstract machine (conflict, or constraint re-check) changes nothing -/
theorem spec_refused_commit_keeps_state (α : Spec.State) (a : Spec.ATxn) (e : Err)
    (h : (α.commitC a).2 = some e) : (α.commitC a).1 = α := by
  unfold Spec.State.commitC at h ⊢
  split
  · rename_i h1
    simp only [h1, if_true] at h
    split
    · rfl
    · rename_i h2; simp [h2] at h
  · rfl

theorem spec_failed_batch_is_nop (α : Spec.State) (sts : List Stmt) (e : Err)
    (h : (Spec.step α (.batch sts)).2 = .batchErr e) :
    (Spec.step α (.batch sts)).1 = (Spec.step α .nop).1 := by
  unfold Spec.step at h ⊢
  simp only [Spec.stepCore] at h ⊢
  split at h
  · rename_i heq; simp only
  · rename_i a' outs heq
    simp only
    simp only at h
    cases hr : (α.commitC a').2 with
    | none => rw [hr] at h; cases h
    | some e' => rw [spec_refused_commit_keeps_state α a' e' hr]

theorem spec_failed_eqSess (α : Spec.State) (op : Op) (hf : (Spec.step α op).2.failed = true) :
    EqSess (Spec.step α op).1 (Spec.step α .nop).1 := by
  cases op with
  | exec s st =>
    cases ho : (Spec.step α (.exec s st)).2 with
    | stmt o =>
      cases o with
      | err e => exact spec_failed_exec_eqSess α s st e ho
      | okN n => rw [ho] at hf; simp [Out.failed] at hf
      | rows rs => rw [ho] at hf; simp [Out.failed] at hf
    | ok => rw [ho] at hf; simp [Out.failed] at hf
    | refused e => rw [ho] at hf; simp [Out.failed] at hf
    | noSession => rw [ho] at hf; simp [Out.failed] at hf
    | batch os => rw [ho] at hf; simp [Out.failed] at hf
    | batchErr e =>
      exfalso
      unfold Spec.step at ho; simp only [Spec.stepCore] at ho
      split at ho <;> simp at ho
    | none => rw [ho] at hf; simp [Out.failed] at hf
  | auto st =>
    cases ho : (Spec.step α (.auto st)).2 with
    | stmt o =>
      cases o with
      | err e => rw [spec_failed_auto_is_nop α st e ho]; exact EqSess.refl _
      | okN n => rw [ho] at hf; simp [Out.failed] at hf
      | rows rs => rw [ho] at hf; simp [Out.failed] at hf
    | ok => rw [ho] at hf; simp [Out.failed] at hf
    | refused e => rw [ho] at hf; simp [Out.failed] at hf
    | noSession => rw [ho] at hf; simp [Out.failed] at hf
    | batch os => rw [ho] at hf; simp [Out.failed] at hf
    | batchErr e =>
      exfalso
      unfold Spec.step at ho; simp only [Spec.stepCore] at ho
      split at ho
      · simp at ho
      · simp only [outOfCommit] at ho
        split at ho <;> simp at ho
    | none => rw [ho] at hf; simp [Out.failed] at hf
  | batch sts =>
    cases ho : (Spec.step α (.batch sts)).2 with
    | batchErr e => rw [spec_failed_batch_is_nop α sts e ho]; exact EqSess.refl _
    | stmt o =>
      exfalso
      unfold Spec.step at ho; simp only [Spec.stepCore] at ho
      split at ho
      · simp at ho
      · simp only at ho
        split at ho <;> simp at ho
    | ok => rw [ho] at hf; simp [Out.failed] at hf
    | refused e => rw [ho] at hf; simp [Out.failed] at hf
    | noSession => rw [ho] at hf; simp [Out.failed] at hf
    | batch os => rw [ho] at hf; simp [Out.failed] at hf
    | none => rw [ho] at hf; simp [Out.failed] at hf
  | begin s => simp [Spec.step, Spec.stepCore, Out.failed] at hf
  | commit s =>
    exfalso
    unfold Spec.step at hf; simp only [Spec.stepCore] at hf
    split at hf
    · simp [Out.failed] at hf
    · simp only [outOfCommit] at hf
      split at hf <;> simp [Out.failed] at hf
  | rollback s =>
    exfalso
    unfold Spec.step at hf; simp only [Spec.stepCore] at hf
    split at hf <;> simp [Out.failed] at hf
  | drop s =>
    exfalso
    unfold Spec.step at hf; simp only [Spec.stepCore] at hf
    split at hf <;> simp [Out.failed] at hf
  | tick => simp [Spec.step, Spec.stepCore, Out.failed] at hf
  | nop => simp [Spec.step, Spec.stepCore, Out.failed] at hf

/-- **A failed statement erases (history level).**  An operation answered with an error — a statement failing inside a
    session whose transaction goes on and may commit, a failing autocommit statement, a failing batch — can be
    replaced by `nop`: every other operation of the history, before and after it, answers the same. -/
theorem failed_statement_erases (cat : Catalog) (pre post : List Op) (op : Op)
    (hf : ((run Defects.none cat (pre ++ [op])).2.getLast?.map Out.failed) = some true) :
    (run Defects.none cat (pre ++ .nop :: post)).2 =
      (run Defects.none cat pre).2 ++ Out.none :: (run Defects.none cat (pre ++ op :: post)).2.drop (pre.length + 1) := by
  rw [refine_run, spec_run_outs, Spec.outs_append] at hf
  simp only [Spec.outs, List.getLast?_append, List.getLast?_singleton, Option.or_some, Option.map_some,
    Option.some.injEq, List.getLast?_nil, Option.some_or] at hf
  have hq := spec_failed_eqSess (Spec.final (Spec.State.init cat) pre) op hf
  rw [refine_run, refine_run, refine_run, spec_run_outs, spec_run_outs, spec_run_outs]
  rw [Spec.outs_append, Spec.outs_append]
  simp only [Spec.outs]
  rw [outs_eqSess post _ _ hq]
  have hlen : pre.length + 1 = (Spec.outs (Spec.State.init cat) pre ++
      [(Spec.step (Spec.final (Spec.State.init cat) pre) op).2]).length := by
    simp [Spec.outs_length]
  have happ : ∀ (a : List Out) (x : Out) (r : List Out), a ++ x :: r = (a ++ [x]) ++ r := by
    intro a x r; simp
  rw [happ _ (Spec.step (Spec.final (Spec.State.init cat) pre) op).2, hlen, List.drop_left]
  rfl

/-- a failing autocommit statement writes no version and no delete mark: the stored rows are untouched -/
theorem failed_auto_writes_nothing (σ : State) (st : Stmt) (e : Err)
    (h : (step Defects.none σ (.auto st)).2 = .stmt (.err e)) : (step Defects.none σ (.auto st)).1.rows = σ.rows := by
  unfold step at h ⊢
  simp only [stepCore] at h ⊢
  have hs := stmt_none (σ.beginTxn Defects.none).1 (σ.beginTxn Defects.none).2 0 st
  simp only [D0] at hs
  rw [hs] at h ⊢
  split at h
  · rename_i herr
    simp only [herr, if_true]
    rfl
  · rename_i herr
    simp only at h
    exfalso
    have := outOfCommit_stmt_err h
    rw [this] at herr
    simp [SOut.isErr] at herr

/-- **Dropping a session is a rollback.**  (Both are `abort` of the session's transaction; for every defect setting.) -/
theorem session_drop_is_abort (D : Defects) (σ : State) (s : String) :
    step D σ (.drop s) = step D σ (.rollback s) := rfl

theorem spec_session_drop_is_abort (α : Spec.State) (s : String) :
    Spec.step α (.drop s) = Spec.step α (.rollback s) := rfl

/-- a rolled-back transaction leaves the abstract committed database and commit log untouched -/
theorem spec_rollback_keeps_committed (α : Spec.State) (s : String) :
    (Spec.step α (.rollback s)).1.committed = α.committed ∧ (Spec.step α (.rollback s)).1.log = α.log := by
  unfold Spec.step
  simp only [Spec.stepCore]
  cases lookup s α.sessions <;> exact ⟨rfl, rfl⟩

end AxVerif.Db.C03
