/-
  C04 — Transactions read a consistent snapshot (snapshot isolation).
  Witness theorems of the defect flags (the property theorems follow below them).
-/
import AxVerif.Model.Db
namespace AxVerif.Db.C04
open AxVerif.Db

def catT : Catalog := [⟨"t", [⟨"k", .big, false, false⟩, ⟨"v", .int, false, false⟩]⟩]

def kEq (n : Int) : Option Pred := some ⟨"k", .eq, .int n⟩

/-- setup used by the witnesses: table `t`, warm-up transaction, one committed row (1,10) -/
def pre : List Op := [.tick, .tick, .auto (.ins "t" [[.int 1, .int 10]])]

/-- an uncommitted (and later rolled back) UPDATE is read by a concurrent transaction -/
theorem updateKeepsInserterXmin_witness :
    (run { updateKeepsInserterXmin := true } catT
      (pre ++ [.begin "s1", .begin "s2", .exec "s2" (.upd "t" "v" false (.int 99) (kEq 1)), .exec "s1" (.sel "t" none)])).2
    ≠ (Spec.run catT
      (pre ++ [.begin "s1", .begin "s2", .exec "s2" (.upd "t" "v" false (.int 99) (kEq 1)), .exec "s1" (.sel "t" none)])).2 := by
  decide

/-- two concurrent transactions delete the same row and both commit -/
theorem writeSetNeverRecorded_witness :
    (run { writeSetNeverRecorded := true } catT
      (pre ++ [.begin "s1", .begin "s2", .exec "s1" (.del "t" (kEq 1)), .exec "s2" (.del "t" (kEq 1)), .commit "s1", .commit "s2"])).2
    ≠ (Spec.run catT
      (pre ++ [.begin "s1", .begin "s2", .exec "s1" (.del "t" (kEq 1)), .exec "s2" (.del "t" (kEq 1)), .commit "s1", .commit "s2"])).2 := by
  decide

/-- a session opened before any transaction with id > 0 committed sees rows committed later -/
theorem xmaxNoneSeesAll_witness :
    (run { xmaxNoneSeesAll := true } catT
      [.tick, .begin "s1", .exec "s1" (.sel "t" none), .auto (.ins "t" [[.int 1, .int 10]]), .exec "s1" (.sel "t" none)]).2
    ≠ (Spec.run catT
      [.tick, .begin "s1", .exec "s1" (.sel "t" none), .auto (.ins "t" [[.int 1, .int 10]]), .exec "s1" (.sel "t" none)]).2 := by
  decide

/-- a transaction that deletes an updated row sees it again, with the old value -/
theorem ownDeleteWalksDeltas_witness :
    (run { ownDeleteWalksDeltas := true, updateKeepsInserterXmin := true } catT
      (pre ++ [.auto (.upd "t" "v" false (.int 11) none), .begin "s1", .exec "s1" (.del "t" none), .exec "s1" (.sel "t" none)])).2
    ≠ (Spec.run catT
      (pre ++ [.auto (.upd "t" "v" false (.int 11) none), .begin "s1", .exec "s1" (.del "t" none), .exec "s1" (.sel "t" none)])).2 := by
  decide

/-- the second of two concurrent deleters overwrites the first one's mark; when it rolls back, the committed delete is lost -/
theorem deleteMarkSingleSlot_witness :
    (run { deleteMarkSingleSlot := true } catT
      (pre ++ [.begin "s1", .begin "s2", .exec "s1" (.del "t" (kEq 1)), .exec "s2" (.del "t" (kEq 1)), .commit "s1", .rollback "s2",
               .auto (.sel "t" none)])).2
    ≠ (Spec.run catT
      (pre ++ [.begin "s1", .begin "s2", .exec "s1" (.del "t" (kEq 1)), .exec "s2" (.del "t" (kEq 1)), .commit "s1", .rollback "s2",
               .auto (.sel "t" none)])).2 := by
  decide

end AxVerif.Db.C04
