/-
  C04 — Transactions read a consistent snapshot (snapshot isolation).

  All property theorems are about `Defects.none` (= `D0`) and hold for EVERY history `ops : List Op` over every
  catalog: any number of sessions, statements, tables, rows, any interleaving.  The proofs are the invariant
  (`CInv`, `SInv`) and the simulation (`Rel`, `step_ok`) of `Lemmas/Db.lean`, `Lemmas/DbSim.lean`,
  `Lemmas/DbHist.lean`.  `run D cat ops` = (final state, outputs) of the MVCC machine, `Spec.run` the same for the
  abstract machine in which every transaction works on `base ⊕ own effects` (`Spec.ATxn.view`).
  The witness theorems at the end show, per defect flag, a concrete history on which the property fails.
-/
import AxVerif.Lemmas.DbHist
namespace AxVerif.Db.C04
open AxVerif.Db

def catT : Catalog := [{ name := "t", cols := [⟨"k", .big, false, false⟩, ⟨"v", .int, false, false⟩] }]

def kEq (n : Int) : Option Pred := some ⟨"k", .eq, .int n⟩

/-- setup used by the witnesses: table `t`, warm-up transaction, one committed row (1,10) -/
def pre : List Op := [.tick, .tick, .auto (.ins "t" [[.int 1, .int 10]])]

/-- an uncommitted (and later rolled back) UPDATE is read by a concurrent transaction -/
theorem updateKeepsInserterXmin_witness :
    (run { updateKeepsInserterXmin := true } catT
      (pre ++ [.begin "s1", .begin "s2", .exec "s2" (.upd "t" "v" false (.int 99) (kEq 1)), .exec "s1" (.sel "t" none)])).2
    ≠ (Spec.run catT
      (pre ++ [.begin "s1", .begin "s2", .exec "s2" (.upd "t" "v" false (.int 99) (kEq 1)), .exec "s1" (.sel "t" none)])).2 := by
  decide

/-- two concurrent transactions delete the same row and both commit -/
theorem writeSetNeverRecorded_witness :
    (run { writeSetNeverRecorded := true } catT
      (pre ++ [.begin "s1", .begin "s2", .exec "s1" (.del "t" (kEq 1)), .exec "s2" (.del "t" (kEq 1)), .commit "s1", .commit "s2"])).2
    ≠ (Spec.run catT
      (pre ++ [.begin "s1", .begin "s2", .exec "s1" (.del "t" (kEq 1)), .exec "s2" (.del "t" (kEq 1)), .commit "s1", .commit "s2"])).2 := by
  decide

/-- a session opened before any transaction with id > 0 committed sees rows committed later -/
theorem xmaxNoneSeesAll_witness :
    (run { xmaxNoneSeesAll := true } catT
      [.tick, .begin "s1", .exec "s1" (.sel "t" none), .auto (.ins "t" [[.int 1, .int 10]]), .exec "s1" (.sel "t" none)]).2
    ≠ (Spec.run catT
      [.tick, .begin "s1", .exec "s1" (.sel "t" none), .auto (.ins "t" [[.int 1, .int 10]]), .exec "s1" (.sel "t" none)]).2 := by
  decide

/-- a transaction that deletes an updated row sees it again, with the old value -/
theorem ownDeleteWalksDeltas_witness :
    (run { ownDeleteWalksDeltas := true, updateKeepsInserterXmin := true } catT
      (pre ++ [.auto (.upd "t" "v" false (.int 11) none), .begin "s1", .exec "s1" (.del "t" none), .exec "s1" (.sel "t" none)])).2
    ≠ (Spec.run catT
      (pre ++ [.auto (.upd "t" "v" false (.int 11) none), .begin "s1", .exec "s1" (.del "t" none), .exec "s1" (.sel "t" none)])).2 := by
  decide

/-- the second of two concurrent deleters overwrites the first one's mark; when it rolls back, the committed delete is lost -/
theorem deleteMarkSingleSlot_witness :
    (run { deleteMarkSingleSlot := true } catT
      (pre ++ [.begin "s1", .begin "s2", .exec "s1" (.del "t" (kEq 1)), .exec "s2" (.del "t" (kEq 1)), .commit "s1", .rollback "s2",
               .auto (.sel "t" none)])).2
    ≠ (Spec.run catT
      (pre ++ [.begin "s1", .begin "s2", .exec "s1" (.del "t" (kEq 1)), .exec "s2" (.del "t" (kEq 1)), .commit "s1", .rollback "s2",
               .auto (.sel "t" none)])).2 := by
  decide

/-! ## property theorems -/

/-- **Refinement.**  On every history the MVCC machine (version chains, snapshots computed as the coordinator
    computes them, commit-time validation) produces exactly the outputs of the abstract snapshot-isolation machine:
    the same rows for every read, the same outcome for every write, commit, batch. -/
theorem read_is_snapshot (cat : Catalog) (ops : List Op) :
    (run Defects.none cat ops).2 = (Spec.run cat ops).2 :=
  refine_run cat ops

/-- what the abstract machine answers to a read: the query evaluated on
    `committed database at the reader's begin ⊕ the reader's own writes so far` -/
theorem spec_read_is_base_plus_own (α : Spec.State) (s t : String) (p : Option Pred) (a : Spec.ATxn)
    (ts : TableSchema) (bp : Option (Nat × CmpOp × Val))
    (hs : lookup s α.sessions = some a) (ht : findTable α.cat t = some ts) (hp : bindPred ts p = .ok bp) :
    (Spec.step α (.exec s (.sel t p))).2 = .stmt (.rows (evalQuery t bp (a.base.applyAll a.effs))) := by
  rw [spec_read_out, hs]
  simp [planStmt, ht, hp, Spec.ATxn.view]

/-- `begin` records the committed database of that moment as the transaction's base, with no own writes -/
theorem spec_begin_takes_committed (α : Spec.State) (s : String) :
    lookup s (Spec.step α (.begin s)).1.sessions = some ⟨α.committed, [], α.log.length⟩ := by
  simp [Spec.step, Spec.stepCore, lookup, Spec.State.beginTxn]

/-- nothing another session or an autocommit statement does (writes, commits, rollbacks) changes a transaction's
    base or its own writes -/
theorem spec_others_do_not_touch (α : Spec.State) (s : String) (op : Op) (h : op.keeps s = true) :
    lookup s (Spec.step α op).1.sessions = lookup s α.sessions :=
  keeps_session α s op h

/-- a statement of the transaction appends exactly its own effects (none when it fails) -/
theorem spec_own_write_extends (cat : Catalog) (c : Nat) (a : Spec.ATxn) (st : Stmt) :
    (Spec.stmt cat c a 0 st).1 = a ∨
    (Spec.stmt cat c a 0 st).1 = { a with effs := a.effs ++ (planStmt none cat c 0 a.view st).effs } := by
  unfold Spec.stmt
  simp only
  split
  · exact Or.inl rfl
  · exact Or.inr rfl

/-- **Repeatable read.**  The same query issued twice by a transaction, with anything in between except its own
    writes and its own begin/commit/rollback (other sessions may write, commit, abort; autocommit statements and
    batches may run), returns the same answer. -/
theorem repeatable (cat : Catalog) (pre mid : List Op) (s t : String) (p : Option Pred)
    (hmid : ∀ op ∈ mid, op.keeps s = true) :
    ∃ o, (run Defects.none cat (pre ++ .exec s (.sel t p) :: (mid ++ [.exec s (.sel t p)]))).2[pre.length]? = some o ∧
         (run Defects.none cat (pre ++ .exec s (.sel t p) :: (mid ++ [.exec s (.sel t p)]))).2[pre.length + 1 + mid.length]? = some o := by
  rw [read_is_snapshot, spec_run_outs]
  exact spec_repeatable _ pre mid s t p hmid

example : (Op.commit "s2").keeps "s1" = true := by decide
example : (Op.auto (.ins "t" [[.int 1]])).keeps "s1" = true := by decide
example : (Op.exec "s1" (.sel "t" none)).keeps "s1" = true := by decide
example : (Op.exec "s1" (.del "t" none)).keeps "s1" = false := by decide

/-- **No dirty, no future, no rolled-back data.**  In every reachable state, whatever a transaction's snapshot reads
    from a row is a version of that row created by the reader itself or by a transaction that is committed and
    entered the commit log before the reader began (`startTs` = number of commits at its begin); and no delete mark
    of the reader or of such a transaction is on the row. -/
theorem no_dirty_no_future (cat : Catalog) (ops : List Op) (tid : Nat) (t : Txn) (r : Row) (vals : List Val)
    (ht : (run Defects.none cat ops).1.txns[tid]? = some t) (hv : rowVisible Defects.none t.snap r = some vals) :
    (∃ v ∈ r.versions, v.vals = vals ∧
      (v.creator = tid ∨
        (v.creator ∈ ((run Defects.none cat ops).1.clog.take t.startTs).map (·.1) ∧
         ∃ tu, (run Defects.none cat ops).1.txns[v.creator]? = some tu ∧ tu.status = .committed))) ∧
    (∀ d ∈ r.deleters, d ≠ tid ∧ d ∉ ((run Defects.none cat ops).1.clog.take t.startTs).map (·.1)) := by
  have hrun : (run Defects.none cat ops).1 = finalM D0 (State.init cat) ops := by simp [run, runFrom_eq, D0]
  rw [hrun] at ht ⊢
  have hc := (reach_rel cat ops).core.cinv
  have hx : t.snap.xid = tid := hc.xid tid t ht
  have hsees : ∀ u, t.snap.sees u = true → u = tid ∨
      (u ∈ ((finalM D0 (State.init cat) ops).clog.take t.startTs).map (·.1) ∧
        ∃ tu, (finalM D0 (State.init cat) ops).txns[u]? = some tu ∧ tu.status = .committed) := by
    intro u hu
    by_cases e : u = tid
    · exact Or.inl e
    · right
      have hcb : t.snap.cb u = true := by
        simp only [Snapshot.sees, hx, Bool.or_eq_true, beq_iff_eq] at hu
        rcases hu with h | h
        · exact (e h).elim
        · exact h
      have hm := (hc.snap_clog tid t ht u e).1 hcb
      refine ⟨hm, ?_⟩
      obtain ⟨en, hen, hen1⟩ := List.mem_map.1 hm
      obtain ⟨tu, h1, h2, _⟩ := hc.clog_comm en (List.mem_of_mem_take hen)
      rw [hen1] at h1
      exact ⟨tu, h1, h2⟩
  have hv' : rowVisible D0 t.snap r = some vals := hv
  rw [rowVisible_none] at hv'
  by_cases hd : r.deleters.any t.snap.sees = true
  · simp [hd] at hv'
  · simp only [hd, Bool.false_eq_true, if_false] at hv'
    constructor
    · cases hf : r.versions.find? (fun v => t.snap.sees v.creator) with
      | none => rw [hf] at hv'; cases hv'
      | some v =>
        rw [hf] at hv'
        simp only [Option.map_some, Option.some.injEq] at hv'
        have hsv : t.snap.sees v.creator = true := by
          have := List.find?_some hf
          simpa using this
        exact ⟨v, List.mem_of_find?_eq_some hf, hv', hsees v.creator hsv⟩
    · intro d hdm
      have hns : t.snap.sees d = false := by
        cases h : t.snap.sees d with
        | false => rfl
        | true => exact (hd (List.any_eq_true.2 ⟨d, hdm, h⟩)).elim
      constructor
      · intro e; subst e
        rw [← hx, sees_self] at hns; cases hns
      · intro hm
        by_cases e : d = tid
        · subst e; rw [← hx, sees_self] at hns; cases hns
        · have := (hc.snap_clog tid t ht d e).2 hm
          simp [Snapshot.sees, this] at hns

/-- every row a transaction stamped (version created, delete mark set) is in its recorded write set -/
theorem writes_are_recorded (cat : Catalog) (ops : List Op) (r : Row) (u : Nat)
    (hr : r ∈ (run Defects.none cat ops).1.rows) (hu : u ∈ r.owners) :
    ∃ t, (run Defects.none cat ops).1.txns[u]? = some t ∧ r.rid ∈ t.ws := by
  have hrun : (run Defects.none cat ops).1 = finalM D0 (State.init cat) ops := by simp [run, runFrom_eq, D0]
  rw [hrun] at hr ⊢
  exact (reach_rel cat ops).core.sinv.stamps r hr u hu

theorem overlaps_symm {a b : List Rid} (h : overlaps a b = true) : overlaps b a = true := by
  unfold overlaps at *
  obtain ⟨x, hx, hb⟩ := List.any_eq_true.1 h
  exact List.any_eq_true.2 ⟨x, by simpa using hb, by simpa using hx⟩

/-- **First committer wins.**  In every reachable state: if two different transactions are both committed and their
    write sets share a row, then one of them had committed before the other one's snapshot was taken — they were
    not concurrent.  Contrapositive: of two concurrent transactions that wrote the same row at most one commits
    (the later `commit` answers `conflict` and aborts). -/
theorem first_committer_wins (cat : Catalog) (ops : List Op) (u v : Nat) (tu tv : Txn)
    (hu : (run Defects.none cat ops).1.txns[u]? = some tu) (hv : (run Defects.none cat ops).1.txns[v]? = some tv)
    (hne : u ≠ v) (hcu : tu.status = .committed) (hcv : tv.status = .committed)
    (hov : overlaps tu.ws tv.ws = true) :
    tv.snap.cb u = true ∨ tu.snap.cb v = true := by
  have hrun : (run Defects.none cat ops).1 = finalM D0 (State.init cat) ops := by simp [run, runFrom_eq, D0]
  rw [hrun] at hu hv
  have hc := (reach_rel cat ops).core.cinv
  obtain ⟨eu, heu, heu1⟩ := List.mem_map.1 (hc.comm_clog u tu hu hcu)
  obtain ⟨ev, hev, hev1⟩ := List.mem_map.1 (hc.comm_clog v tv hv hcv)
  obtain ⟨i, hi⟩ := List.mem_iff_getElem?.1 heu
  obtain ⟨j, hj⟩ := List.mem_iff_getElem?.1 hev
  obtain ⟨tu', h1, _, h3⟩ := hc.clog_comm eu heu
  obtain ⟨tv', h1', _, h3'⟩ := hc.clog_comm ev hev
  rw [heu1, hu] at h1; cases h1
  rw [hev1, hv] at h1'; cases h1'
  have hij : i ≠ j := by
    intro e; subst e
    rw [hi] at hj; cases hj
    exact hne (heu1.symm.trans hev1)
  rcases Nat.lt_or_gt_of_ne hij with hlt | hgt
  · left
    obtain ⟨t, ht, hst⟩ := hc.fcw i j eu ev hlt hi hj (by rw [← h3, ← h3']; exact hov)
    rw [hev1, hv] at ht; cases ht
    apply (hc.snap_clog v tv hv u hne).2
    apply List.mem_map.2
    refine ⟨eu, ?_, heu1⟩
    apply List.mem_iff_getElem?.2
    exact ⟨i, by rw [List.getElem?_take]; simp [hst, hi]⟩
  · right
    obtain ⟨t, ht, hst⟩ := hc.fcw j i ev eu hgt hj hi (by rw [← h3, ← h3']; exact overlaps_symm hov)
    rw [heu1, hu] at ht; cases ht
    apply (hc.snap_clog u tu hu v (fun e => hne e.symm)).2
    apply List.mem_map.2
    refine ⟨ev, ?_, hev1⟩
    apply List.mem_iff_getElem?.2
    exact ⟨j, by rw [List.getElem?_take]; simp [hst, hj]⟩

/-! ### verified checker for observed histories -/

/-- history `h` explains the observation: these are the operations, and the MVCC model answers them as observed -/
def Explains (cat : Catalog) (h : List Op) (obs : Observed) : Prop :=
  h = obs.ops ∧ (run Defects.none cat h).2 = obs.outs

/-- every answer of the history is the abstract machine's: each read = committed-at-begin ⊕ own writes, each commit
    decided by first-committer-wins -/
def SnapshotIsolated (cat : Catalog) (h : List Op) : Prop :=
  (run Defects.none cat h).2 = (Spec.run cat h).2

theorem checkSI_sound (cat : Catalog) (obs : Observed) (hc : checkSI cat obs = true) :
    ∃ h, Explains cat h obs ∧ SnapshotIsolated cat h := by
  refine ⟨obs.ops, ⟨rfl, ?_⟩, read_is_snapshot cat obs.ops⟩
  rw [read_is_snapshot]
  simpa [checkSI] using hc

/-- the checker accepts exactly the observations the MVCC model can produce -/
theorem checkSI_complete (cat : Catalog) (ops : List Op) :
    checkSI cat ⟨ops, (run Defects.none cat ops).2⟩ = true := by
  simp [checkSI, read_is_snapshot]

/-- the same on the abstract machine, where it is immediate: a commit is refused when a write set committed since
    the transaction began shares a row with its own -/
theorem spec_commit_refused_on_conflict (α : Spec.State) (a : Spec.ATxn) (h : Spec.conflict α.log a = true) :
    α.commitTxn a = (α, false) := by
  simp [Spec.State.commitTxn, h]

end AxVerif.Db.C04
