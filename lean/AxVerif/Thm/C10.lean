import AxVerif.Lemmas.BTree
namespace AxVerif.C10
open AxVerif.BTree

theorem placeholder : True := trivial

end AxVerif.C10
