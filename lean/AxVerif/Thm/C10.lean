/-
  C10 — Each B+tree is a correct ordered map with sound structure.

  The rebalancer of tree/bplustree.rs is validated, not verified: after every operation the real page graph is dumped
  and judged by `checkTree`. The theorems below say what an accepted dump *proves* about the real tree it was taken
  from — for all keys, not only the probed ones — and that the spec map the dumps are compared with is an ordered map.
-/
import AxVerif.Lemmas.BTree
import AxVerif.Lemmas.Balance
import AxVerif.Lemmas.Slotted
namespace AxVerif.C10
open AxVerif.BTree

/-- strictly increasing keys -/
def Sorted (l : List (Nat × Val)) : Prop := (keysOf l).Pairwise (· < ·)

/-- all leaves at the same depth -/
def UniformDepth (t : T) : Prop := ∃ h, ∀ x ∈ t.leafDepths 0, x = h

/-- every separator has all keys of the subtree to its left below it and all keys to its right at or above it -/
def RoutesCorrectly : T → Prop
  | .leaf _ _ => True
  | .last _ r => RoutesCorrectly r
  | .cons _ ch s rest =>
    (∀ e ∈ ch.toList, e.1 < s) ∧ (∀ e ∈ rest.toList, s ≤ e.1) ∧ RoutesCorrectly ch ∧ RoutesCorrectly rest

/-- keys strictly increasing inside every leaf page -/
def LeavesOrdered (t : T) : Prop := ∀ p ∈ t.leafList, (keysOf p.2).Pairwise (· < ·)

/-- a list of pages is a doubly linked chain in the dump: `prev` of the first is `p`, neighbours point at each other,
    `next` of the last is 0 -/
def Linked (d : Dump) : Nat → List Nat → Prop
  | _, [] => True
  | p, l :: ls => (∃ pg, d.page l = some pg ∧ pg.prev = p ∧ pg.next = ls.headD 0) ∧ Linked d l ls

/-- the pages of every level (interior levels too) are linked in key order -/
def LevelsLinked (d : Dump) (t : T) : Prop := ∀ n, n ≤ t.height.getD 0 → Linked d 0 (t.level n)

theorem chain_linked {d : Dump} : ∀ {l : List Nat} {p : Nat}, chainOk d p l = true → Linked d p l := by
  intro l
  induction l with
  | nil => intro p _; trivial
  | cons x xs ih =>
    intro p h
    simp only [chainOk] at h
    split at h
    · next pg hpg =>
      simp only [Bool.and_eq_true, beq_iff_eq] at h
      exact ⟨⟨pg, hpg, h.1.1, h.1.2⟩, ih h.2⟩
    · cases h

theorem routes_of_bounded {t : T} : ∀ {lo hi : Option Nat}, t.bounded lo hi = true → RoutesCorrectly t := by
  induction t with
  | leaf id cells => intro _ _ _; trivial
  | last id r ih => intro lo hi h; exact ih h
  | cons id ch s rest ihc ihr =>
    intro lo hi h
    simp only [T.bounded, Bool.and_eq_true] at h
    obtain ⟨⟨_, hch⟩, hrest⟩ := h
    refine ⟨?_, ?_, ihc hch, ihr hrest⟩
    · intro e he; exact inHi_of (bounded_keys hch e he).2 s rfl
    · intro e he; exact inLo_of (bounded_keys hrest e he).1 s rfl

theorem leavesOrdered_of_bounded {t : T} : ∀ {lo hi : Option Nat}, t.bounded lo hi = true → LeavesOrdered t := by
  induction t with
  | leaf id cells =>
    intro lo hi h p hp
    simp only [T.leafList, List.mem_singleton] at hp
    subst hp
    simp only [T.bounded, Bool.and_eq_true] at h
    exact ascending_pairwise h.1
  | last id r ih => intro lo hi h; exact ih h
  | cons id ch s rest ihc ihr =>
    intro lo hi h p hp
    simp only [T.bounded, Bool.and_eq_true] at h
    obtain ⟨⟨_, hch⟩, hrest⟩ := h
    simp only [T.leafList, List.mem_append] at hp
    cases hp with
    | inl hp => exact ihc hch p hp
    | inr hp => exact ihr hrest p hp

theorem leaf_ids_mem (t : T) : ∀ p ∈ t.leafList, p.1 ∈ t.ids := by
  induction t with
  | leaf id cells => intro p hp; simp only [T.leafList, List.mem_singleton] at hp; subst hp; simp [T.ids]
  | last id r ih => intro p hp; exact List.mem_cons_of_mem _ (ih p hp)
  | cons id ch s rest ihc ihr =>
    intro p hp
    simp only [T.leafList, List.mem_append] at hp
    simp only [T.ids, List.mem_append]
    cases hp with
    | inl hp => exact Or.inl (ihc p hp)
    | inr hp => exact Or.inr (ihr p hp)

/-- **Soundness of the checker.** If `checkTree` accepts a dump then the page graph below the root is a tree `t`
    (no page reached twice, no cycle), and on that graph: the in-order contents are strictly sorted; the code's forward
    iterator (left-most descent, then `next` links) returns exactly the in-order contents; the code's search (linear
    child routing, binary search in the leaf) returns, for **every** key, what the in-order contents hold; all leaves are
    at one depth; every separator routes correctly; every leaf page is internally ordered; the pages of every level are
    doubly linked in key order. -/
theorem checkTree_sound (d : Dump) (h : checkTree d = true) :
    ∃ t, treeOf d = some t ∧ toList d = t.toList ∧
      Sorted (toList d) ∧
      leafScan d = toList d ∧
      (∀ k, lookup d k = alookup k (toList d)) ∧
      UniformDepth t ∧ RoutesCorrectly t ∧ LeavesOrdered t ∧ t.ids.Nodup ∧ LevelsLinked d t := by
  unfold checkTree at h
  cases ht : treeOf d with
  | none => simp [ht] at h
  | some t =>
    simp only [ht, checkT, Bool.and_eq_true, Bool.not_eq_true', decide_eq_true_eq] at h
    obtain ⟨⟨⟨⟨⟨⟨⟨⟨hb, _hseps⟩, hh⟩, hdist⟩, hzero⟩, hlinks⟩, hfuel⟩, hlevels⟩, _hne⟩ := h
    have hlist : toList d = t.toList := by simp [toList, ht]
    refine ⟨t, rfl, hlist, ?_, ?_, ?_, ?_, routes_of_bounded hb, leavesOrdered_of_bounded hb, distinct_nodup hdist, ?_⟩
    · rw [Sorted, hlist]; exact bounded_sorted hb
    · -- the scan
      have hext : extract d d.fuel d.root = some t := ht
      have hlm := extract_leftmost d d.fuel d.root t hext
      have hmatch := extract_leaves d d.fuel d.root t hext
      have hnz : ∀ e ∈ t.leafList, e.1 ≠ 0 := by
        intro e he h0
        have hmem := leaf_ids_mem t e he
        rw [h0] at hmem
        have : t.ids.contains 0 = true := by simpa using hmem
        rw [this] at hzero
        cases hzero
      have hscan := scan_links d t.leafList 0 d.fuel hmatch hlinks hnz (by omega)
      unfold leafScan
      rw [hlm, hlist, toList_eq_concat]
      cases hl : t.leafList with
      | nil => exact absurd hl (leafList_ne_nil t)
      | cons a b =>
        rw [hl] at hscan
        simpa using hscan
    · intro k
      rw [hlist]
      unfold lookup
      rw [extract_lookup d k d.fuel d.root t ht]
      exact T.lookup_eq hb k
    · cases hhe : t.height with
      | none => simp [hhe] at hh
      | some hgt => exact ⟨0 + hgt, height_depths 0 hhe⟩
    · intro n hn
      simp only [levelsLinked, List.all_eq_true, List.mem_range] at hlevels
      exact chain_linked (hlevels n (by omega))

/-- **Backward iteration.** On an accepted dump the code's backward iterator (right-most descent, cells from last to
    first, `prev` links; it panics on a leaf without cells) does not fail and returns the contents in descending order. -/
theorem checkTree_sound_backward (d : Dump) (h : checkTree d = true) :
    leafScanBack d = some (toList d).reverse := by
  unfold checkTree at h
  cases ht : treeOf d with
  | none => simp [ht] at h
  | some t =>
    simp only [ht, checkT, Bool.and_eq_true, Bool.not_eq_true', decide_eq_true_eq] at h
    obtain ⟨⟨⟨⟨⟨⟨⟨⟨_, _⟩, _⟩, _⟩, hzero⟩, hlinks⟩, hfuel⟩, _⟩, hne⟩ := h
    have hlist : toList d = t.toList := by simp [toList, ht]
    have hext : extract d d.fuel d.root = some t := ht
    have hrm := extract_rightmost d d.fuel d.root t hext
    have hmatch := extract_leaves d d.fuel d.root t hext
    have hnz : ∀ e ∈ t.leafList, e.1 ≠ 0 := by
      intro e he h0
      have hmem := leaf_ids_mem t e he
      rw [h0] at hmem
      have : t.ids.contains 0 = true := by simpa using hmem
      rw [this] at hzero
      cases hzero
    -- the general path: all leaves non-empty
    have general : (∀ e ∈ t.leafList, e.2 ≠ []) →
        (match rightmost d d.fuel d.root with
          | none => none
          | some l => scanBackFrom d d.fuel l) = some (toList d).reverse := by
      intro hall
      have hsb := scanBack_links d t.leafList 0 (d.fuel - t.leafList.length) hmatch hlinks hnz hall
      rw [show t.leafList.length + (d.fuel - t.leafList.length) = d.fuel by omega] at hsb
      rw [hrm, hlist, toList_eq_concat]
      cases hl : t.leafList.getLast? with
      | none => exact absurd (List.getLast?_eq_none_iff.mp hl) (leafList_ne_nil t)
      | some x =>
        rw [hl] at hsb
        simp only [Option.map_some, Option.getD_some] at hsb
        simp only [Option.map_some]
        rw [hsb, scanBackFrom_zero]
        simp
    -- what page is the root?
    unfold leafScanBack
    cases hf : d.fuel with
    | zero => rw [hf] at hext; simp [extract] at hext
    | succ f =>
      rw [hf] at hext
      simp only [extract] at hext
      split at hext
      · cases hext
      · next prev next cells hp =>
        cases hext
        rw [hp]
        cases cells with
        | nil => simp [hlist, T.toList, leafEntries]
        | cons c cs =>
          simp only
          rw [← hf]
          apply general
          intro e he
          simp only [T.leafList, List.mem_singleton] at he
          subst he
          simp [leafEntries]
      · next prev next right cells hp =>
        rw [hp]
        simp only
        rw [← hf]
        apply general
        intro e he hempty
        have hall : t.leafList.all (fun p => !p.2.isEmpty) = true := by
          cases t with
          | leaf id c => exact (buildInt_not_leaf hext).elim
          | last id r => simpa [T.noEmptyLeaf] using hne
          | cons id ch s rest => simpa [T.noEmptyLeaf] using hne
        have := List.all_eq_true.mp hall e he
        simp [hempty] at this

/-- The hypothesis of `checkTree_sound` is satisfiable by a non-trivial graph: a root with two leaves. -/
def exampleDump : Dump :=
  { root := 1, fuel := 4,
    page := fun i =>
      if i = 1 then some (.interior 0 0 3 [{ left := 2, key := 10 }])
      else if i = 2 then some (.leaf 0 3 [{ key := 3, val := (8, 1) }, { key := 7, val := (0, 0) }])
      else if i = 3 then some (.leaf 2 0 [{ key := 10, val := (5, 2) }, { key := 12, val := (9, 9) }])
      else none }

example : checkTree exampleDump = true := by decide
example : toList exampleDump = [(3, (8, 1)), (7, (0, 0)), (10, (5, 2)), (12, (9, 9))] := by decide

/-- The checker is not vacuous: a key on the wrong side of its separator (the shape the unfixed rebalancer produced,
    KF-C10-interior-divider-from-child), a broken sibling link, a page reached twice and a cycle are all rejected. -/
theorem checkTree_rejects_misplaced_key :
    checkTree (exampleDump.withPage 2 (some (.leaf 0 3 [{ key := 3, val := (8, 1) }, { key := 10, val := (0, 0) }]))) = false := by
  decide

theorem checkTree_rejects_broken_link :
    checkTree (exampleDump.withPage 2 (some (.leaf 0 0 [{ key := 3, val := (8, 1) }, { key := 7, val := (0, 0) }]))) = false := by
  decide

theorem checkTree_rejects_shared_page :
    checkTree (exampleDump.withPage 1 (some (.interior 0 0 2 [{ left := 2, key := 10 }]))) = false := by
  decide

theorem checkTree_rejects_cycle :
    checkTree (exampleDump.withPage 1 (some (.interior 0 0 1 [{ left := 2, key := 10 }]))) = false := by
  decide

/-- What one accepted observation establishes: if the dump taken after a run of operations is accepted and its in-order
    contents equal the spec map folded over those operations, then on the real page graph every lookup and the scan
    answer exactly as the spec map does. -/
theorem accepted_dump_refines_spec (d : Dump) (ops : List Op) (h : checkTree d = true)
    (hc : toList d = specRun [] ops) :
    (∀ k, lookup d k = alookup k (specRun [] ops)) ∧ leafScan d = specRun [] ops ∧ Sorted (specRun [] ops) := by
  obtain ⟨t, _, _, hs, hscan, hl, _⟩ := checkTree_sound d h
  refine ⟨fun k => by rw [← hc]; exact hl k, by rw [← hc]; exact hscan, by rw [← hc]; exact hs⟩

/-- Comparing the in-order list with the spec map is comparing the maps: two sorted lists that answer every lookup
    alike are equal. -/
theorem same_answers_same_contents {a b : List (Nat × Val)} (ha : Sorted a) (hb : Sorted b)
    (h : ∀ k, alookup k a = alookup k b) : a = b := sorted_ext ha hb h

/-! ### the spec map is an ordered map -/

theorem spec_sorted (ops : List Op) : Sorted (specRun [] ops) :=
  specRun_sorted ops (by simp [keysOf])

/-- `insert` adds a missing key and refuses an existing one -/
theorem spec_insert (m : List (Nat × Val)) (k : Nat) (v : Val) (k' : Nat) :
    alookup k' (specStep m (.ins k v)).1 =
      if k' = k ∧ alookup k m = none then some v else alookup k' m := by
  simp only [specStep]
  split
  · next hsome =>
    have : alookup k m ≠ none := by
      intro hn; rw [hn] at hsome; cases hsome
    simp [this]
  · next hnone =>
    have : alookup k m = none := by
      cases hk : alookup k m with
      | none => rfl
      | some x => rw [hk] at hnone; simp at hnone
    rw [alookup_sinsert]
    simp [this]

/-- `update` changes an existing key only -/
theorem spec_update (m : List (Nat × Val)) (k : Nat) (v : Val) (k' : Nat) :
    alookup k' (specStep m (.upd k v)).1 =
      if k' = k ∧ (alookup k m).isSome then some v else alookup k' m := by
  simp only [specStep]
  split
  · next hsome => rw [alookup_sinsert]; simp [hsome]
  · next hnone => simp [hnone]

/-- `upsert` always sets the key -/
theorem spec_upsert (m : List (Nat × Val)) (k : Nat) (v : Val) (k' : Nat) :
    alookup k' (specStep m (.ups k v)).1 = if k' = k then some v else alookup k' m := by
  simp only [specStep, alookup_sinsert]

/-- `remove` deletes exactly that key -/
theorem spec_remove {m : List (Nat × Val)} (hs : Sorted m) (k k' : Nat) :
    alookup k' (specStep m (.rm k)).1 = if k' = k then none else alookup k' m := by
  simp only [specStep]
  split
  · exact alookup_serase k hs k'
  · next hnone =>
    split
    · next heq =>
      subst heq
      cases hk : alookup k' m with
      | none => rfl
      | some x => rw [hk] at hnone; simp at hnone
    · rfl

/-- `get` and `scan` leave the map alone and report it -/
theorem spec_reads (m : List (Nat × Val)) (k : Nat) :
    specStep m (.get k) = (m, .found (alookup k m)) ∧ specStep m .scan = (m, .list m) := ⟨rfl, rfl⟩

/-! ### rebalancing helpers (tree/bplustree.rs `split_cells`, `compute_best_cell_distribution`) -/

open AxVerif.Balance in
/-- `split_cells` cuts the cell array in two consecutive pieces, and the right piece is never empty. -/
theorem splitCells_partition (sizes : List Nat) :
    (splitCells sizes).1 ++ (splitCells sizes).2 = sizes ∧ (sizes ≠ [] → (splitCells sizes).2 ≠ []) :=
  ⟨splitCells_append sizes, splitCells_right_ne_nil sizes⟩

open AxVerif.Balance in
/-- … and the left piece is non-empty as soon as the first cell alone is less than half of the total. -/
theorem splitCells_left_nonempty (a : Nat) (rest : List Nat) (h : 2 * a < sum (a :: rest)) :
    (splitCells (a :: rest)).1 ≠ [] := splitCells_left_ne_nil a rest h

open AxVerif.Balance in
/-- The full statement of the design (“both non-empty when there are at least two cells”) is **false** of the code:
    a first cell of at least half the total leaves the left page empty. -/
def splitCells_both_nonempty_statement : Prop :=
  ∀ sizes : List Nat, 2 ≤ sizes.length → (splitCells sizes).1 ≠ [] ∧ (splitCells sizes).2 ≠ []

open AxVerif.Balance in
theorem splitCells_left_empty_witness : ¬ splitCells_both_nonempty_statement := by
  intro h
  have := (h [1000, 10, 10] (by decide)).1
  exact this (by decide)

open AxVerif.Balance in
/-- Greedy phase of `compute_best_cell_distribution`: every cell is assigned, in order, and no page is loaded beyond
    `usable` — provided no single cell is larger than `usable`. -/
theorem greedy_post (usable : Nat) (sizes : List Nat) (h : ∀ s ∈ sizes, s ≤ usable) :
    sum (greedy usable sizes).2 = sizes.length ∧ (greedy usable sizes).1.length = (greedy usable sizes).2.length ∧
      (∀ t ∈ (greedy usable sizes).1, t ≤ usable) ∧ loads sizes (greedy usable sizes).2 = (greedy usable sizes).1 :=
  greedy_spec usable sizes h

open AxVerif.Balance in
/-- Whatever the fix-up does, if `compute_best_cell_distribution` returns at all, the counts still deal out every cell
    exactly once and in order (the pages get consecutive runs of the cell array). -/
theorem bestDistribution_counts (usable under : Nat) (sizes tot cnt : List Nat)
    (h : bestDistribution usable under sizes = some (tot, cnt)) : sum cnt = sizes.length :=
  bestDistribution_sum usable under sizes tot cnt h

open AxVerif.Balance in
/-- The unbounded `while` of the fix-up always ends: every iteration moves the divider one cell to the left and the
    code panics when it reaches cell 0, so `divider + 1` iterations are an upper bound. Running out of fuel is
    therefore unreachable in the model (fuel = number of cells + 2 > divider + 1). -/
theorem fixup_terminates (sizes : List Nat) (under i : Nat) (f : Fix) (fuel : Nat) (h : f.div + 1 < fuel) :
    fixPageR sizes under i fuel f ≠ .outOfFuel :=
  fixPageR_fuel sizes under i fuel f h

open AxVerif.Balance in
/-- Full statement of the design: after the fix-up no page is loaded beyond `usable`. It is **not** claimed: the fix-up
    subtracts the size of the wrong cell and does not re-base the divider, so the returned totals are not the loads, and
    the final "left bias" step moves a cell into the first page without looking at its size. -/
def bestDistribution_loads_statement : Prop :=
  ∀ usable under sizes tot cnt, (∀ s ∈ sizes, s ≤ usable) → under ≤ usable →
    bestDistribution usable under sizes = some (tot, cnt) → ∀ l ∈ loads sizes cnt, l ≤ usable

open AxVerif.Balance in
theorem bestDistribution_loads_witness : ¬ bestDistribution_loads_statement := by
  intro h
  have := h 100 40 [10, 95, 50] [10, 95, 50] [2, 0, 1] (by decide) (by decide) (by decide) 105 (by decide)
  omega

/-! ### slotted-page accounting (storage/core/buffer.rs) — checked on every page of every dump -/

open AxVerif.Slotted in
/-- What the per-page check establishes about a real page: cells inside [free space pointer, end of page), aligned,
    pairwise disjoint, `free_space` exact, slot array below the cells. -/
theorem slotted_check_sound (p : SPage) (h : wfB p = true) : Wf p := wfB_sound h

open AxVerif.Slotted in
/-- `remove`, `replace` by a cell that is not larger, and `insert` into a large enough gap keep the invariant. -/
theorem slotted_ops_preserve (hdr : Nat) (p q : SPage) (hw : Wf p) :
    (∀ idx, removeSlot p idx = some q → Wf q) ∧
    (∀ idx n, replaceShrink Defects.none p idx n = some q → Wf q) ∧
    (∀ idx size, insertAt hdr p idx size = some q → Wf q) :=
  ⟨fun _ h => removeSlot_wf hw h, fun _ _ h => replaceShrink_wf hw h, fun _ _ h => insertAt_wf hw h⟩

open AxVerif.Slotted in
/-- The shipped `replace` (KF-C10-replace-moves-free-pointer, fixed by 4725b87): shrinking the first cell of a page in
    place and then inserting a cell makes two cells overlap. -/
theorem replaceMovesFsp_witness :
    ∃ p q r : SPage, wfB p = true ∧ replaceShrink { replaceMovesFsp := true } p 0 16 = some q ∧
      insertAt 80 q 2 32 = some r ∧ wfB r = false ∧ disjointB r.slots = false :=
  ⟨{ cap := 4016, slots := [(3984, 32), (3952, 32)], fsp := 3952, free := 3948 },
   { cap := 4016, slots := [(3984, 16), (3952, 32)], fsp := 3968, free := 3964 },
   { cap := 4016, slots := [(3984, 16), (3952, 32), (3936, 32)], fsp := 3936, free := 3930 },
   by decide, by decide, by decide, by decide, by decide⟩

open AxVerif.Slotted in
/-- … and without the defect the same two steps keep the page well formed. -/
example : ∃ q r : SPage,
    replaceShrink Defects.none { cap := 4016, slots := [(3984, 32), (3952, 32)], fsp := 3952, free := 3948 } 0 16 = some q ∧
      insertAt 80 q 2 32 = some r ∧ wfB r = true :=
  ⟨{ cap := 4016, slots := [(3984, 16), (3952, 32)], fsp := 3952, free := 3964 },
   { cap := 4016, slots := [(3984, 16), (3952, 32), (3920, 32)], fsp := 3920, free := 3930 },
   by decide, by decide, by decide⟩

end AxVerif.C10
