/-
  C13 — VACUUM frees space without changing what anyone can see.

  The machine: `Model/Db.lean` (version chains, snapshots as `TransactionCoordinator::snapshot` computes them) extended by
  `Model/Vacuum.lean`: `State.vacuum` (abort all active transactions, drop versions of aborted creators, rows deleted by
  committed deleters, delete marks of rolled-back deleters, versions below the horizon; forget old transactions) and
  `State.quiesce` (the same without the physical part = what reopen does).  A history is a list of `VOp`
  (`op o` = any operation of the C04 machine, `vacuum`, `reopen`); `vrun D V cat ops` = its outputs.
  All property theorems are for `Defects.none`, `VDefects.none` and hold for EVERY history: any number of sessions,
  statements, tables, VACUUMs and reopens at any position.  The proofs rest on `Lemmas/Vacuum.lean`: VACUUM and reopen
  preserve the simulation relation `Rel` between the MVCC machine and the abstract snapshot-isolation machine of C04.
-/
import AxVerif.Lemmas.Vacuum
namespace AxVerif.Db.C13
open AxVerif.Db

def catT : Catalog := [⟨"t", [⟨"k", .big, false, false⟩, ⟨"v", .int, false, false⟩]⟩]

def kEq (n : Int) : Option Pred := some ⟨"k", .eq, .int n⟩

/-- setup of the witnesses: table `t`, warm-up transaction, committed rows (1,10), (2,20) -/
def pre : List VOp :=
  [.op .tick, .op .tick, .op (.auto (.ins "t" [[.int 1, .int 10]])), .op (.auto (.ins "t" [[.int 2, .int 20]]))]

/-! ## witnesses: one concrete history per defect flag on which the property fails -/

/-- DELETE, ROLLBACK, VACUUM: the row is gone -/
theorem vacuumRemovesUncommittedDelete_witness :
    vrun {} { vacuumRemovesUncommittedDelete := true } catT
      (pre ++ [.op (.begin "s1"), .op (.exec "s1" (.del "t" (kEq 1))), .op (.rollback "s1"), .vacuum, .op (.auto (.sel "t" none))])
    ≠ vrun {} {} catT
      (pre ++ [.op (.begin "s1"), .op (.exec "s1" (.del "t" (kEq 1))), .op (.rollback "s1"), .vacuum, .op (.auto (.sel "t" none))]) := by
  decide

/-- a session open across VACUUM goes on answering (the specification ends it) -/
theorem vacuumLeavesSessionsOpen_witness :
    vrun {} { vacuumLeavesSessionsOpen := true } catT
      (pre ++ [.op (.begin "s1"), .vacuum, .op (.exec "s1" (.sel "t" none))])
    ≠ vrun {} {} catT
      (pre ++ [.op (.begin "s1"), .vacuum, .op (.exec "s1" (.sel "t" none))]) := by
  decide

/-- … and when its id is below the horizon, the coordinator has forgotten that it was aborted: the row it inserts after the
    VACUUM is read by a fresh transaction although it never commits -/
theorem cleanupForgetsAborted_witness :
    (vrun {} { vacuumLeavesSessionsOpen := true, cleanupForgetsAborted := true } catT
      (pre ++ [.op (.begin "s1"), .op (.auto (.ins "t" [[.int 3, .int 30]])), .vacuum,
               .op (.exec "s1" (.ins "t" [[.int 5, .int 50]])), .op (.auto (.sel "t" (kEq 5)))])).getLast? =
      some (.out (.stmt (.rows [[.int 5, .int 50]]))) ∧
    (vrun {} { vacuumLeavesSessionsOpen := true } catT
      (pre ++ [.op (.begin "s1"), .op (.auto (.ins "t" [[.int 3, .int 30]])), .vacuum,
               .op (.exec "s1" (.ins "t" [[.int 5, .int 50]])), .op (.auto (.sel "t" (kEq 5)))])).getLast? =
      some (.out (.stmt (.rows []))) := by
  decide

/-- with versions stamped by their updaters (the specification of UPDATE), the shipped row pass — decide by the header's
    creator, cut the chain below the horizon — loses a committed row whose newest version was rolled back -/
theorem vacuumDropsHorizonVersion_witness :
    vrun {} { vacuumDropsHorizonVersion := true } catT
      (pre ++ [.op (.begin "s1"), .op (.exec "s1" (.upd "t" "v" false (.int 77) (kEq 1))), .op (.rollback "s1"), .vacuum,
               .op (.auto (.sel "t" none))])
    ≠ vrun {} {} catT
      (pre ++ [.op (.begin "s1"), .op (.exec "s1" (.upd "t" "v" false (.int 77) (kEq 1))), .op (.rollback "s1"), .vacuum,
               .op (.auto (.sel "t" none))]) := by
  decide


/-! ## property theorems -/

/-- the state reached by a history with VACUUM and reopen -/
def reached (cat : Catalog) (ops : List VOp) : State := (vfinal Defects.none VDefects.none (VState.init cat) ops).db

/-- **Refinement.**  On every history with VACUUM and reopen at arbitrary places, the MVCC machine with VACUUM's physical
    effect answers every operation exactly as the abstract snapshot-isolation machine, in which a VACUUM does nothing but
    end the open transactions (`Spec.State.quiesce`).  In particular every read issued after a VACUUM — by an autocommit
    statement, by a session opened after it, by a session opened after several more VACUUMs and reopens — returns
    committed-at-its-begin ⊕ its own writes. -/
theorem vacuum_refines_spec (cat : Catalog) (ops : List VOp) :
    vrun Defects.none VDefects.none cat ops = (Spec.vouts (Spec.State.init cat) ops).map VOut.out :=
  (vrunFrom_ok ops _ _ (vinit_rel cat)).1

/-- replaces every VACUUM by "abort every open transaction" (`reopen` = `State.quiesce`: no physical change at all) -/
def noVacuum : VOp → VOp
  | .vacuum => .reopen
  | o => o

theorem spec_vouts_noVacuum : ∀ (ops : List VOp) (α : Spec.State), Spec.vouts α (ops.map noVacuum) = Spec.vouts α ops
  | [], _ => rfl
  | o :: os, α => by
    cases o <;> simp [Spec.vouts, Spec.vstep, noVacuum, spec_vouts_noVacuum os]

/-- **VACUUM changes no answer.**  For every history — whatever happened before the VACUUMs (committed, rolled-back,
    superseded versions, rolled-back deletes, transactions still open), wherever they stand, however many there are, with
    or without reopens — every operation gets the same answer as in the history in which each VACUUM is replaced by the
    mere rollback of the open transactions: all later reads of autocommit statements and of sessions begun after a
    VACUUM, all outcomes of later writes and commits. -/
theorem vacuum_view_preserving (cat : Catalog) (ops : List VOp) :
    vrun Defects.none VDefects.none cat ops = vrun Defects.none VDefects.none cat (ops.map noVacuum) := by
  rw [vacuum_refines_spec, vacuum_refines_spec, spec_vouts_noVacuum]

example : [VOp.op (.begin "s1"), .vacuum, .op (.auto (.sel "t" none)), .reopen].map noVacuum =
    [.op (.begin "s1"), .reopen, .op (.auto (.sel "t" none)), .reopen] := rfl

/-- the same at the level of states: in every reachable state, the snapshot of a transaction that begins right after the
    VACUUM reads from the vacuumed store exactly what a transaction beginning now reads from the present store, for every
    table at once (`view` = all rows of all tables the snapshot selects, with their values) -/
theorem vacuum_preserves_committed_view (cat : Catalog) (ops : List VOp) :
    view Defects.none (((reached cat ops).vacuum Defects.none VDefects.none).freshSnap Defects.none)
        ((reached cat ops).vacuum Defects.none VDefects.none).rows =
      view Defects.none ((reached cat ops).freshSnap Defects.none) (reached cat ops).rows := by
  have hr := (vreach_rel cat ops).1
  have h1 := (vacuum_rel _ _ hr).core.committed
  have h2 := hr.core.committed
  exact h1.trans h2.symm

/-- … and so does the snapshot of a transaction that begins after a reopen -/
theorem reopen_preserves_committed_view (cat : Catalog) (ops : List VOp) :
    view Defects.none (((reached cat ops).quiesce Defects.none).freshSnap Defects.none)
        ((reached cat ops).quiesce Defects.none).rows =
      view Defects.none ((reached cat ops).freshSnap Defects.none) (reached cat ops).rows := by
  have hr := (vreach_rel cat ops).1
  exact ((quiesce_rel _ _ hr).core.committed).trans hr.core.committed.symm

/-- **Sessions opened after a VACUUM read consistently.**  A session begun after the VACUUM that issues the same query
    twice, with anything in between except its own writes and transaction control — other sessions' writes and commits,
    autocommit statements, further VACUUMs excluded only because they end the session — gets the same rows.
    (This is `C04.repeatable` on the abstract machine, which `vacuum_refines_spec` makes applicable after any VACUUM.) -/
theorem vacuum_keeps_later_sessions_consistent (cat : Catalog) (pre : List VOp) (mid : List Op) (s t : String) (p : Option Pred)
    (hmid : ∀ op ∈ mid, op.keeps s = true) :
    let ops := pre ++ [.vacuum, .op (.begin s), .op (.exec s (.sel t p))] ++ mid.map VOp.op ++ [.op (.exec s (.sel t p))]
    (vrun Defects.none VDefects.none cat ops)[pre.length + 2]? = (vrun Defects.none VDefects.none cat ops)[pre.length + 3 + mid.length]? := by
  intro ops
  rw [vacuum_refines_spec]
  simp only [List.getElem?_map]
  congr 1
  -- on the abstract machine
  have key : ∀ (α : Spec.State) (ms : List Op), Spec.vouts α (ms.map VOp.op) = Spec.outs α ms ∧
      Spec.vfinal α (ms.map VOp.op) = Spec.final α ms := by
    intro α ms
    induction ms generalizing α with
    | nil => exact ⟨rfl, rfl⟩
    | cons m ms ih =>
      simp only [List.map_cons, Spec.vouts, Spec.vfinal, Spec.outs, Spec.final, Spec.vstep]
      exact ⟨by rw [(ih _).1], (ih _).2⟩
  have vouts_append : ∀ (a b : List VOp) (α : Spec.State),
      Spec.vouts α (a ++ b) = Spec.vouts α a ++ Spec.vouts (Spec.vfinal α a) b := by
    intro a
    induction a with
    | nil => intro b α; rfl
    | cons x xs ih => intro b α; simp [Spec.vouts, Spec.vfinal, ih]
  have vouts_length : ∀ (a : List VOp) (α : Spec.State), (Spec.vouts α a).length = a.length := by
    intro a
    induction a with
    | nil => intro α; rfl
    | cons x xs ih => intro α; simp [Spec.vouts, ih]
  -- split the history: pre ++ [vacuum] | begin ; read ; mid ; read
  let α0 := Spec.vfinal (Spec.State.init cat) (pre ++ [.vacuum])
  have hsplit : ops = (pre ++ [.vacuum]) ++ ([Op.begin s, Op.exec s (.sel t p)] ++ mid ++ [Op.exec s (.sel t p)]).map VOp.op := by
    simp [ops]
  rw [hsplit, vouts_append, (key _ _).1]
  have hl : (Spec.vouts (Spec.State.init cat) (pre ++ [VOp.vacuum])).length = pre.length + 1 := by
    rw [vouts_length]; simp
  rw [List.getElem?_append_right (by omega), List.getElem?_append_right (by omega), hl]
  have e1 : pre.length + 2 - (pre.length + 1) = 1 := by omega
  have e2 : pre.length + 3 + mid.length - (pre.length + 1) = 2 + mid.length := by omega
  rw [e1, e2]
  -- repeatable read on the abstract machine
  obtain ⟨o, hrep1, hrep2⟩ := spec_repeatable (Spec.final α0 [Op.begin s]) [] mid s t p hmid
  simp only [List.nil_append, List.length_nil, Nat.zero_add] at hrep1 hrep2
  have hcons : Spec.outs α0 ([Op.begin s, Op.exec s (.sel t p)] ++ mid ++ [Op.exec s (.sel t p)]) =
      (Spec.step α0 (.begin s)).2 :: Spec.outs (Spec.final α0 [Op.begin s]) (Op.exec s (.sel t p) :: (mid ++ [Op.exec s (.sel t p)])) := by
    simp [Spec.outs, Spec.final]
  show (Spec.outs α0 ([Op.begin s, Op.exec s (.sel t p)] ++ mid ++ [Op.exec s (.sel t p)]))[1]? =
    (Spec.outs α0 ([Op.begin s, Op.exec s (.sel t p)] ++ mid ++ [Op.exec s (.sel t p)]))[2 + mid.length]?
  rw [hcons]
  have e3 : 2 + mid.length = (1 + mid.length) + 1 := by omega
  rw [e3, List.getElem?_cons_succ, List.getElem?_cons_succ, hrep1, hrep2]

end AxVerif.Db.C13
