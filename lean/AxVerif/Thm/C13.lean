/-
  C13 — VACUUM frees space without changing what anyone can see.

  The machine: `Model/Db.lean` (version chains, snapshots as `TransactionCoordinator::snapshot` computes them) extended by
  `Model/Vacuum.lean`: `State.vacuum` (abort all active transactions, drop versions of aborted creators, rows deleted by
  committed deleters, delete marks of rolled-back deleters, versions below the horizon; forget old transactions) and
  `State.quiesce` (the same without the physical part = what reopen does).  A history is a list of `VOp`
  (`op o` = any operation of the C04 machine, `vacuum`, `reopen`); `vrun D V cat ops` = its outputs.
  All property theorems are for `Defects.none`, `VDefects.none` and hold for EVERY history: any number of sessions,
  statements, tables, VACUUMs and reopens at any position.  The proofs rest on `Lemmas/Vacuum.lean`: VACUUM and reopen
  preserve the simulation relation `Rel` between the MVCC machine and the abstract snapshot-isolation machine of C04.
-/
import AxVerif.Lemmas.Vacuum
import AxVerif.Lemmas.VacuumGrowth
namespace AxVerif.Db.C13
open AxVerif.Db

def catT : Catalog := [{ name := "t", cols := [⟨"k", .big, false, false⟩, ⟨"v", .int, false, false⟩] }]

def kEq (n : Int) : Option Pred := some ⟨"k", .eq, .int n⟩

/-- setup of the witnesses: table `t`, warm-up transaction, committed rows (1,10), (2,20) -/
def pre : List VOp :=
  [.op .tick, .op .tick, .op (.auto (.ins "t" [[.int 1, .int 10]])), .op (.auto (.ins "t" [[.int 2, .int 20]]))]

/-! ## witnesses: one concrete history per defect flag on which the property fails -/

/-- DELETE, ROLLBACK, VACUUM: the row is gone -/
theorem vacuumRemovesUncommittedDelete_witness :
    vrun {} { vacuumRemovesUncommittedDelete := true } catT
      (pre ++ [.op (.begin "s1"), .op (.exec "s1" (.del "t" (kEq 1))), .op (.rollback "s1"), .vacuum, .op (.auto (.sel "t" none))])
    ≠ vrun {} {} catT
      (pre ++ [.op (.begin "s1"), .op (.exec "s1" (.del "t" (kEq 1))), .op (.rollback "s1"), .vacuum, .op (.auto (.sel "t" none))]) := by
  decide

/-- a session open across VACUUM goes on answering (the specification ends it) -/
theorem vacuumLeavesSessionsOpen_witness :
    vrun {} { vacuumLeavesSessionsOpen := true } catT
      (pre ++ [.op (.begin "s1"), .vacuum, .op (.exec "s1" (.sel "t" none))])
    ≠ vrun {} {} catT
      (pre ++ [.op (.begin "s1"), .vacuum, .op (.exec "s1" (.sel "t" none))]) := by
  decide

/-- … and when its id is below the horizon, the coordinator has forgotten that it was aborted: the row it inserts after the
    VACUUM is read by a fresh transaction although it never commits -/
theorem cleanupForgetsAborted_witness :
    (vrun {} { vacuumLeavesSessionsOpen := true, cleanupForgetsAborted := true } catT
      (pre ++ [.op (.begin "s1"), .op (.auto (.ins "t" [[.int 3, .int 30]])), .vacuum,
               .op (.exec "s1" (.ins "t" [[.int 5, .int 50]])), .op (.auto (.sel "t" (kEq 5)))])).getLast? =
      some (.out (.stmt (.rows [[.int 5, .int 50]]))) ∧
    (vrun {} { vacuumLeavesSessionsOpen := true } catT
      (pre ++ [.op (.begin "s1"), .op (.auto (.ins "t" [[.int 3, .int 30]])), .vacuum,
               .op (.exec "s1" (.ins "t" [[.int 5, .int 50]])), .op (.auto (.sel "t" (kEq 5)))])).getLast? =
      some (.out (.stmt (.rows []))) := by
  decide

/-- with versions stamped by their updaters (the specification of UPDATE), the shipped row pass — decide by the header's
    creator, cut the chain below the horizon — loses a committed row whose newest version was rolled back -/
theorem vacuumDropsHorizonVersion_witness :
    vrun {} { vacuumDropsHorizonVersion := true } catT
      (pre ++ [.op (.begin "s1"), .op (.exec "s1" (.upd "t" "v" false (.int 77) (kEq 1))), .op (.rollback "s1"), .vacuum,
               .op (.auto (.sel "t" none))])
    ≠ vrun {} {} catT
      (pre ++ [.op (.begin "s1"), .op (.exec "s1" (.upd "t" "v" false (.int 77) (kEq 1))), .op (.rollback "s1"), .vacuum,
               .op (.auto (.sel "t" none))]) := by
  decide


/-! ## property theorems -/

/-- the state reached by a history with VACUUM and reopen -/
def reached (cat : Catalog) (ops : List VOp) : State := (vfinal Defects.none VDefects.none (VState.init cat) ops).db

/-- **Refinement.**  On every history with VACUUM and reopen at arbitrary places, the MVCC machine with VACUUM's physical
    effect answers every operation exactly as the abstract snapshot-isolation machine, in which a VACUUM does nothing but
    end the open transactions (`Spec.State.quiesce`).  In particular every read issued after a VACUUM — by an autocommit
    statement, by a session opened after it, by a session opened after several more VACUUMs and reopens — returns
    committed-at-its-begin ⊕ its own writes. -/
theorem vacuum_refines_spec (cat : Catalog) (ops : List VOp) :
    vrun Defects.none VDefects.none cat ops = (Spec.vouts (Spec.State.init cat) ops).map VOut.out :=
  (vrunFrom_ok ops _ _ (vinit_rel cat)).1

/-- replaces every VACUUM by "abort every open transaction" (`reopen` = `State.quiesce`: no physical change at all) -/
def noVacuum : VOp → VOp
  | .vacuum => .reopen
  | o => o

theorem spec_vouts_noVacuum : ∀ (ops : List VOp) (α : Spec.State), Spec.vouts α (ops.map noVacuum) = Spec.vouts α ops
  | [], _ => rfl
  | o :: os, α => by
    cases o <;> simp [Spec.vouts, Spec.vstep, noVacuum, spec_vouts_noVacuum os]

/-- **VACUUM changes no answer.**  For every history — whatever happened before the VACUUMs (committed, rolled-back,
    superseded versions, rolled-back deletes, transactions still open), wherever they stand, however many there are, with
    or without reopens — every operation gets the same answer as in the history in which each VACUUM is replaced by the
    mere rollback of the open transactions: all later reads of autocommit statements and of sessions begun after a
    VACUUM, all outcomes of later writes and commits. -/
theorem vacuum_view_preserving (cat : Catalog) (ops : List VOp) :
    vrun Defects.none VDefects.none cat ops = vrun Defects.none VDefects.none cat (ops.map noVacuum) := by
  rw [vacuum_refines_spec, vacuum_refines_spec, spec_vouts_noVacuum]

example : [VOp.op (.begin "s1"), .vacuum, .op (.auto (.sel "t" none)), .reopen].map noVacuum =
    [.op (.begin "s1"), .reopen, .op (.auto (.sel "t" none)), .reopen] := rfl

/-- the same at the level of states: in every reachable state, the snapshot of a transaction that begins right after the
    VACUUM reads from the vacuumed store exactly what a transaction beginning now reads from the present store, for every
    table at once (`view` = all rows of all tables the snapshot selects, with their values) -/
theorem vacuum_preserves_committed_view (cat : Catalog) (ops : List VOp) :
    view Defects.none (((reached cat ops).vacuum Defects.none VDefects.none).freshSnap Defects.none)
        ((reached cat ops).vacuum Defects.none VDefects.none).rows =
      view Defects.none ((reached cat ops).freshSnap Defects.none) (reached cat ops).rows := by
  have hr := (vreach_rel cat ops).1
  have h1 := (vacuum_rel _ _ hr).core.committed
  have h2 := hr.core.committed
  exact h1.trans h2.symm

/-- … and so does the snapshot of a transaction that begins after a reopen -/
theorem reopen_preserves_committed_view (cat : Catalog) (ops : List VOp) :
    view Defects.none (((reached cat ops).quiesce Defects.none).freshSnap Defects.none)
        ((reached cat ops).quiesce Defects.none).rows =
      view Defects.none ((reached cat ops).freshSnap Defects.none) (reached cat ops).rows := by
  have hr := (vreach_rel cat ops).1
  exact ((quiesce_rel _ _ hr).core.committed).trans hr.core.committed.symm

/-- **Sessions opened after a VACUUM read consistently.**  A session begun after the VACUUM that issues the same query
    twice, with anything in between except its own writes and transaction control — other sessions' writes and commits,
    autocommit statements, further VACUUMs excluded only because they end the session — gets the same rows.
    (This is `C04.repeatable` on the abstract machine, which `vacuum_refines_spec` makes applicable after any VACUUM.) -/
theorem vacuum_keeps_later_sessions_consistent (cat : Catalog) (pre : List VOp) (mid : List Op) (s t : String) (p : Option Pred)
    (hmid : ∀ op ∈ mid, op.keeps s = true) :
    let ops := pre ++ [.vacuum, .op (.begin s), .op (.exec s (.sel t p))] ++ mid.map VOp.op ++ [.op (.exec s (.sel t p))]
    (vrun Defects.none VDefects.none cat ops)[pre.length + 2]? = (vrun Defects.none VDefects.none cat ops)[pre.length + 3 + mid.length]? := by
  intro ops
  rw [vacuum_refines_spec]
  simp only [List.getElem?_map]
  congr 1
  -- on the abstract machine
  have key : ∀ (α : Spec.State) (ms : List Op), Spec.vouts α (ms.map VOp.op) = Spec.outs α ms ∧
      Spec.vfinal α (ms.map VOp.op) = Spec.final α ms := by
    intro α ms
    induction ms generalizing α with
    | nil => exact ⟨rfl, rfl⟩
    | cons m ms ih =>
      simp only [List.map_cons, Spec.vouts, Spec.vfinal, Spec.outs, Spec.final, Spec.vstep]
      exact ⟨by rw [(ih _).1], (ih _).2⟩
  have vouts_append : ∀ (a b : List VOp) (α : Spec.State),
      Spec.vouts α (a ++ b) = Spec.vouts α a ++ Spec.vouts (Spec.vfinal α a) b := by
    intro a
    induction a with
    | nil => intro b α; rfl
    | cons x xs ih => intro b α; simp [Spec.vouts, Spec.vfinal, ih]
  have vouts_length : ∀ (a : List VOp) (α : Spec.State), (Spec.vouts α a).length = a.length := by
    intro a
    induction a with
    | nil => intro α; rfl
    | cons x xs ih => intro α; simp [Spec.vouts, ih]
  -- split the history: pre ++ [vacuum] | begin ; read ; mid ; read
  let α0 := Spec.vfinal (Spec.State.init cat) (pre ++ [.vacuum])
  have hsplit : ops = (pre ++ [.vacuum]) ++ ([Op.begin s, Op.exec s (.sel t p)] ++ mid ++ [Op.exec s (.sel t p)]).map VOp.op := by
    simp [ops]
  rw [hsplit, vouts_append, (key _ _).1]
  have hl : (Spec.vouts (Spec.State.init cat) (pre ++ [VOp.vacuum])).length = pre.length + 1 := by
    rw [vouts_length]; simp
  rw [List.getElem?_append_right (by omega), List.getElem?_append_right (by omega), hl]
  have e1 : pre.length + 2 - (pre.length + 1) = 1 := by omega
  have e2 : pre.length + 3 + mid.length - (pre.length + 1) = 2 + mid.length := by omega
  rw [e1, e2]
  -- repeatable read on the abstract machine
  obtain ⟨o, hrep1, hrep2⟩ := spec_repeatable (Spec.final α0 [Op.begin s]) [] mid s t p hmid
  simp only [List.nil_append, List.length_nil, Nat.zero_add] at hrep1 hrep2
  have hcons : Spec.outs α0 ([Op.begin s, Op.exec s (.sel t p)] ++ mid ++ [Op.exec s (.sel t p)]) =
      (Spec.step α0 (.begin s)).2 :: Spec.outs (Spec.final α0 [Op.begin s]) (Op.exec s (.sel t p) :: (mid ++ [Op.exec s (.sel t p)])) := by
    simp [Spec.outs, Spec.final]
  show (Spec.outs α0 ([Op.begin s, Op.exec s (.sel t p)] ++ mid ++ [Op.exec s (.sel t p)]))[1]? =
    (Spec.outs α0 ([Op.begin s, Op.exec s (.sel t p)] ++ mid ++ [Op.exec s (.sel t p)]))[2 + mid.length]?
  rw [hcons]
  have e3 : 2 + mid.length = (1 + mid.length) + 1 := by omega
  rw [e3, List.getElem?_cons_succ, List.getElem?_cons_succ, hrep1, hrep2]


/-! ### only unneeded versions are removed -/

theorem reached_append (cat : Catalog) (a b : List VOp) :
    reached cat (a ++ b) = (vfinal Defects.none VDefects.none (vfinal Defects.none VDefects.none (VState.init cat) a) b).db := by
  unfold reached; rw [vfinal_append]

/-- **VACUUM removes only what no later transaction can need.**  `r` is a stored row when VACUUM runs after the history `ops`
    (`vacSnap` = the vacuum transaction's snapshot, horizon = last committed id); `S` is the snapshot of a transaction that
    begins after the VACUUM and after ANY further history `later` (more VACUUMs, reopens, sessions, statements).
    If VACUUM removes the row, `S` selects no version of it.  If VACUUM keeps the row (as `r'`), `S` reads from `r'` exactly
    what it reads from `r`, and the version `S` selects in `r` is still there — it is the head of `r'`: every dropped version
    and every erased delete mark is one `S` does not use. -/
theorem vacuum_removes_only_unneeded (cat : Catalog) (ops later : List VOp) (r : Row) (hr : r ∈ (reached cat ops).rows) :
    let σ := reached cat ops
    let S := (reached cat (ops ++ VOp.vacuum :: later)).freshSnap Defects.none
    (r.vacuum VDefects.none (vacSnap σ) σ.lastCommitted = none → rowVisible Defects.none S r = none) ∧
    (∀ r', r.vacuum VDefects.none (vacSnap σ) σ.lastCommitted = some r' →
      rowVisible Defects.none S r' = rowVisible Defects.none S r ∧
      ∀ v, r.versions.find? (fun v => S.sees v.creator) = some v → r'.versions.head? = some v) := by
  intro σ S
  have hrel := vreach_rel cat ops
  have hadm : ∀ u ∈ r.owners, S.sees u = (vacSnap σ).cb u ∧ (vacSnap σ).aborted.contains u = !(vacSnap σ).cb u := by
    intro u hu
    have hult : u < σ.txns.length := owners_lt σ 0 hrel.1.core.sinv r hr u hu
    have := later_snapshot_admissible _ _ hrel later u hult
    simp only [S, reached_append]
    exact this
  have hview := Row.vacuum_view (vacSnap σ) S σ.lastCommitted r (fun u hu => (hadm u hu).1) (fun u hu => (hadm u hu).2)
  refine ⟨?_, ?_⟩
  · intro hnone
    rw [hnone] at hview
    simp only [Option.bind_none, Row.toARow] at hview
    cases hrv : rowVisible D0 S r with
    | none => rfl
    | some vals => rw [hrv] at hview; cases hview
  · intro r' hsome
    refine ⟨?_, ?_⟩
    · rw [hsome] at hview
      simp only [Option.bind_some, Row.toARow] at hview
      obtain ⟨e1, e2, _⟩ := Row.vacuum_some hsome
      cases h1 : rowVisible D0 S r' with
      | none =>
        cases h2 : rowVisible D0 S r with
        | none => rfl
        | some v2 => rw [h1, h2] at hview; cases hview
      | some v1 =>
        cases h2 : rowVisible D0 S r with
        | none => rw [h1, h2] at hview; cases hview
        | some v2 =>
          rw [h1, h2] at hview
          simp only [Option.map_some, Option.some.injEq, ARow.mk.injEq] at hview
          show some v1 = some v2
          rw [hview.2.2]
    · intro v hsel
      exact Row.vacuum_keeps_selected (vacSnap σ) S σ.lastCommitted r r' (fun u hu => (hadm u hu).1)
        (fun u hu => (hadm u hu).2) hsome v hsel

/-- what VACUUM leaves of a row: no delete mark, only versions of committed transactions that were stored before, and at most
    ONE version older than the horizon (`belowCount`): nothing behind the newest pre-horizon version survives -/
theorem no_chain_survives (cat : Catalog) (ops : List VOp) (r r' : Row) (hr : r ∈ (reached cat ops).rows)
    (hv : r.vacuum VDefects.none (vacSnap (reached cat ops)) (reached cat ops).lastCommitted = some r') :
    r'.deleters = [] ∧ r'.versions ≠ [] ∧
    (∀ w ∈ r'.versions, (reached cat ops).isCommitted w.creator ∧ w.creator ≤ (reached cat ops).lastCommitted) ∧
    r'.versions.Sublist r.versions ∧ belowCount (reached cat ops).lastCommitted r'.versions ≤ 1 :=
  vacuum_row_shape _ _ (vreach_rel cat ops).1 r r' hr hv

/-- **The general bound**, for arbitrary work before the VACUUM: what is stored afterwards is at least one version per surviving
    row and at most one per row plus the versions written by the single transaction that committed last (`stampedBy`).  Nothing
    older is kept, so chains cannot grow from one VACUUM to the next. -/
theorem size_after_vacuum_le (cat : Catalog) (ops : List VOp) :
    ((reached cat ops).vacuum Defects.none VDefects.none).rows.length ≤ ((reached cat ops).vacuum Defects.none VDefects.none).size ∧
    ((reached cat ops).vacuum Defects.none VDefects.none).size ≤
      ((reached cat ops).vacuum Defects.none VDefects.none).rows.length +
        stampedBy (reached cat ops).lastCommitted (reached cat ops).rows := by
  unfold State.size
  rw [vacuum_rows]
  exact sizeRows_vacuum_le _ _ (vreach_rel cat ops).1 _ (fun r hr => hr)

/-- **VACUUM ends the open sessions.**  In the specification every session that is open when VACUUM runs is gone afterwards:
    whatever it tries next — a statement, COMMIT, ROLLBACK — is answered `noSession`, in every reachable state.  (Its writes are
    rolled back: `vacuum_refines_spec` relates the VACUUM to the abstract machine's `quiesce`, which forgets every open
    transaction.)  This is what `vacuum_keeps_open_sessions_consistent` has to mean for a VACUUM that aborts all active
    transactions: such a session gets errors, never a mix of old and new data. -/
theorem vacuum_ends_open_sessions (cat : Catalog) (ops : List VOp) (s : String) (st : Stmt) :
    let τ := vfinal Defects.none VDefects.none (VState.init cat) (ops ++ [.vacuum])
    (vstep Defects.none VDefects.none τ (.op (.exec s st))).2 = .out .noSession ∧
    (vstep Defects.none VDefects.none τ (.op (.commit s))).2 = .out .noSession ∧
    (vstep Defects.none VDefects.none τ (.op (.rollback s))).2 = .out .noSession ∧ τ.db.sessions = [] := by
  intro τ
  have hrel0 := vreach_rel cat ops
  have hk : τ.killed = [] := by
    have := (vstep_ok _ _ hrel0 .vacuum).2.2
    simp only [τ, vfinal_append]; exact this
  have hs : τ.db.sessions = [] := by
    simp only [τ, vfinal_append, vfinal, vstep]
    show (State.vacuumWith D0 false (vacuumRows V0) _ _ _).sessions = []
    simp only [State.vacuumWith]
    rw [commitTxn_sessions]; rfl
  have hl : lookup s τ.db.sessions = none := by rw [hs]; rfl
  refine ⟨?_, ?_, ?_, hs⟩
  · simp only [vstep, hk, List.contains_nil, Bool.false_eq_true, if_false, step, stepCore, hl]
  · simp only [vstep, hk, List.contains_nil, Bool.false_eq_true, if_false, step, stepCore, hl]
  · simp only [vstep, hk, List.contains_nil, Bool.false_eq_true, if_false, step, stepCore, hl]

/-- **VACUUM frees space**: it never stores more than before — in any state, for any defect setting -/
theorem vacuum_size_le (D : Defects) (V : VDefects) (σ : State) : (σ.vacuum D V).size ≤ σ.size := by
  unfold State.size State.vacuum State.vacuumWith
  rw [commitTxn_rows]
  exact sizeRows_vacuumRows_le V _ _ σ.rows

/-! ### idempotence -/

/-- the design's statement: a second VACUUM changes neither what is read nor the size -/
def vacuum_idempotent_statement : Prop :=
  ∀ (cat : Catalog) (ops : List VOp),
    let σ := reached cat ops
    let σ1 := σ.vacuum Defects.none VDefects.none
    let σ2 := σ1.vacuum Defects.none VDefects.none
    view Defects.none (σ2.freshSnap Defects.none) σ2.rows = view Defects.none (σ1.freshSnap Defects.none) σ1.rows ∧
    σ2.size = σ1.size

/-- **Idempotence (proved part).**  After any history: a second VACUUM changes nothing a later transaction reads, never
    stores more, drops no row and leaves exactly one version per row and no delete mark; from the second VACUUM on the size
    does not change any more. -/
theorem vacuum_idempotent_partial (cat : Catalog) (ops : List VOp) :
    let σ := reached cat ops
    let σ1 := σ.vacuum Defects.none VDefects.none
    let σ2 := σ1.vacuum Defects.none VDefects.none
    let σ3 := σ2.vacuum Defects.none VDefects.none
    view Defects.none (σ2.freshSnap Defects.none) σ2.rows = view Defects.none (σ1.freshSnap Defects.none) σ1.rows ∧
    σ2.size ≤ σ1.size ∧ σ2.rows.length = σ1.rows.length ∧ σ2.size = σ2.rows.length ∧ σ3.size = σ2.size := by
  intro σ σ1 σ2 σ3
  have hr := (vreach_rel cat ops).1
  have hr1 := vacuum_rel σ _ hr
  have hr2 := vacuum_rel σ1 _ hr1
  have hs2 : σ2.size = σ2.rows.length := by
    apply size_vacuum_eq_rows σ1 _ hr1
    intro r hrm w hw
    have hlt := vacuum_no_stamp_at_horizon σ _ hr r hrm w.creator (by
      simp only [Row.owners, List.mem_append, List.mem_map]
      exact Or.inl ⟨w, hw, rfl⟩)
    exact Nat.ne_of_lt hlt
  have hs3 : σ3.size = σ3.rows.length := by
    apply size_vacuum_eq_rows σ2 _ hr2
    intro r hrm w hw
    have hlt := vacuum_no_stamp_at_horizon σ1 _ hr1 r hrm w.creator (by
      simp only [Row.owners, List.mem_append, List.mem_map]
      exact Or.inl ⟨w, hw, rfl⟩)
    exact Nat.ne_of_lt hlt
  refine ⟨?_, vacuum_size_le _ _ σ1, vacuum_twice_rows_length σ _ hr, hs2, ?_⟩
  · exact (hr2.core.committed).trans hr1.core.committed.symm
  · rw [hs3, hs2]; exact vacuum_twice_rows_length σ1 _ hr1

/-- the size part of the design's statement is false of the code-mirroring model: `vaccum_with` keeps the deltas whose `xmin`
    equals the horizon and the newest version older than it, so a transaction that updated a row twice leaves three versions
    after the first VACUUM, one after the second -/
theorem vacuum_size_not_idempotent_witness :
    let σ := reached catT (pre ++ [.op (.batch [.upd "t" "v" true (.int 1) none, .upd "t" "v" true (.int 1) none])])
    (σ.vacuum {} {}).size = 6 ∧ ((σ.vacuum {} {}).vacuum {} {}).size = 2 := by
  decide

/-! ### bounded growth -/

/-- one cycle: an autocommit statement, then VACUUM -/
def cycle1 (τ : VState) (st : Stmt) : VState := vfinal Defects.none VDefects.none τ [.op (.auto st), .vacuum]

def cycles : VState → List Stmt → VState
  | τ, [] => τ
  | τ, st :: sts => cycles (cycle1 τ st) sts

/-- the design's statement, for arbitrary work between two VACUUMs: the size after each VACUUM is bounded by a function of the
    number of rows alone -/
def bounded_growth_statement : Prop :=
  ∃ c : Nat → Nat, ∀ (cat : Catalog) (ops : List VOp),
    ((reached cat ops).vacuum Defects.none VDefects.none).size ≤ c ((reached cat ops).vacuum Defects.none VDefects.none).rows.length

theorem cycle1_db (τ : VState) (st : Stmt) :
    (cycle1 τ st).db = ((step D0 τ.db (.auto st)).1).vacuum D0 V0 := by
  unfold cycle1
  simp only [vfinal, vstep]

theorem cycle_step (τ : VState) (α : Spec.State) (h : VRel τ α)
    (hK : ∀ r ∈ τ.db.rows, ∀ u ∈ r.owners, u < τ.db.lastCommitted) (st : Stmt) :
    (∃ α', VRel (cycle1 τ st) α') ∧
    (∀ r ∈ (cycle1 τ st).db.rows, ∀ u ∈ r.owners, u < (cycle1 τ st).db.lastCommitted) ∧
    (cycle1 τ st).db.rows.length ≤ (cycle1 τ st).db.size ∧ (cycle1 τ st).db.size ≤ 2 * (cycle1 τ st).db.rows.length := by
  have h1 := vstep_ok τ α h (.op (.auto st))
  have hdb : (vstep D0 V0 τ (.op (.auto st))).1.db = (step D0 τ.db (.auto st)).1 := by simp [vstep]
  have h2 := vstep_ok _ _ h1.2 .vacuum
  have hrel1 : Rel (step D0 τ.db (.auto st)).1 (Spec.vstep α (.op (.auto st))).1 := by rw [← hdb]; exact h1.2.1
  refine ⟨⟨_, h2.2⟩, ?_, ?_⟩
  · rw [cycle1_db]; exact vacuum_no_stamp_at_horizon _ _ hrel1
  · rw [cycle1_db]
    apply size_vacuum_le_two_rows _ _ hrel1
    have htail := auto_tail τ.db α h.1 st (fun u => u < τ.db.lastCommitted ∧ u < τ.db.txns.length) (by
      intro r hr w hw
      have hown : w.creator ∈ r.owners := by
        simp only [Row.owners, List.mem_append, List.mem_map]; exact Or.inl ⟨w, hw, rfl⟩
      exact ⟨hK r hr _ hown, owners_lt τ.db 0 h.1.core.sinv r hr _ hown⟩)
    intro r hr w hw
    obtain ⟨g1, g2⟩ := htail r hr w hw
    rcases auto_lastCommitted τ.db st with e | e <;> rw [e] <;> omega

theorem cycles_invariant : ∀ (sts : List Stmt) (τ0 : VState), sts ≠ [] → (∃ α, VRel τ0 α) →
    (∀ r ∈ τ0.db.rows, ∀ u ∈ r.owners, u < τ0.db.lastCommitted) →
    (cycles τ0 sts).db.rows.length ≤ (cycles τ0 sts).db.size ∧ (cycles τ0 sts).db.size ≤ 2 * (cycles τ0 sts).db.rows.length
  | [], _, h, _, _ => (h rfl).elim
  | [st], τ0, _, ⟨α0, hr⟩, hK => by
    show (cycle1 τ0 st).db.rows.length ≤ (cycle1 τ0 st).db.size ∧ (cycle1 τ0 st).db.size ≤ 2 * (cycle1 τ0 st).db.rows.length
    exact (cycle_step τ0 α0 hr hK st).2.2
  | st :: st2 :: rest, τ0, _, ⟨α0, hr⟩, hK => by
    show (cycles (cycle1 τ0 st) (st2 :: rest)).db.rows.length ≤ (cycles (cycle1 τ0 st) (st2 :: rest)).db.size ∧
      (cycles (cycle1 τ0 st) (st2 :: rest)).db.size ≤ 2 * (cycles (cycle1 τ0 st) (st2 :: rest)).db.rows.length
    obtain ⟨hr', hK', _⟩ := cycle_step τ0 α0 hr hK st
    exact cycles_invariant (st2 :: rest) _ (by simp) hr' hK'

/-- **Bounded growth.**  Start anywhere (any history `ops`), run VACUUM once, then any number of cycles
    "one autocommit statement (an UPDATE of every row, or any other statement, failing ones included); VACUUM": after every
    cycle the store holds, per row, the head version and at most the one version older than the horizon that `vaccum_with`
    keeps, and no delete mark — `rows ≤ size ≤ 2 · rows`, however many cycles have run.  Version chains do not grow. -/
theorem bounded_growth (cat : Catalog) (ops : List VOp) (sts : List Stmt) (hne : sts ≠ []) :
    (cycles (vfinal Defects.none VDefects.none (VState.init cat) (ops ++ [.vacuum])) sts).db.rows.length ≤
      (cycles (vfinal Defects.none VDefects.none (VState.init cat) (ops ++ [.vacuum])) sts).db.size ∧
    (cycles (vfinal Defects.none VDefects.none (VState.init cat) (ops ++ [.vacuum])) sts).db.size ≤
      2 * (cycles (vfinal Defects.none VDefects.none (VState.init cat) (ops ++ [.vacuum])) sts).db.rows.length := by
  have hrel0 := vreach_rel cat ops
  have h0 := vstep_ok _ _ hrel0 .vacuum
  apply cycles_invariant sts _ hne
  · rw [vfinal_append]; exact ⟨_, h0.2⟩
  · rw [vfinal_append]
    exact vacuum_no_stamp_at_horizon _ _ hrel0.1

example : cycles (VState.init catT) [.upd "t" "v" true (.int 1) none] =
    vfinal Defects.none VDefects.none (VState.init catT) [.op (.auto (.upd "t" "v" true (.int 1) none)), .vacuum] := rfl

/-! ### forgetting aborted transactions -/

/-- **Forgetting is unobservable after the specification's VACUUM.**  `cleanup_old_transactions` forgets aborted transactions
    below the horizon, after which their stamps are read as committed (`forgetAux`, flag `cleanupForgetsAborted`).  After the
    specification's row pass no stored row carries a stamp of an aborted transaction, so whichever of them are relabelled
    (any bound `h`), a transaction beginning after the VACUUM reads the same. -/
theorem forget_aborted_unobservable (cat : Catalog) (ops : List VOp) (h : Nat) :
    let σv := (reached cat ops).vacuum Defects.none VDefects.none
    view Defects.none (State.freshSnap Defects.none { σv with txns := forgetAux h σv.txns 0 }) σv.rows =
      view Defects.none (σv.freshSnap Defects.none) σv.rows := by
  intro σv
  have hr := (vreach_rel cat ops).1
  have hr1 := vacuum_rel _ _ hr
  apply filterMap_congr_mem
  intro r' hr'
  apply toARow_congr
  intro u hu
  -- u is committed in σv
  have hr'' := hr'
  rw [show σv.rows = vacuumRows V0 (vacSnap (reached cat ops)) (reached cat ops).lastCommitted (reached cat ops).rows from vacuum_rows _] at hr''
  obtain ⟨r, hrm, hv⟩ := mem_vacuumRows.1 hr''
  obtain ⟨s1, _, s3, _⟩ := vacuum_row_shape _ _ hr r r' hrm hv
  have hu' : u ∈ r'.versions.map (·.creator) := by
    simp only [Row.owners, s1, List.append_nil] at hu; exact hu
  obtain ⟨w, hw, rfl⟩ := List.mem_map.1 hu'
  obtain ⟨⟨t, ht, hst⟩, _⟩ := s3 w hw
  obtain ⟨t', g1, g2⟩ := frame_finished (reached cat ops) (vacuumRows V0) (vacuumIndex V0) _ t ht (by rw [hst]; simp)
  have g1' : σv.txns[w.creator]? = some t' := g1
  have hcomm : t'.status = Status.committed := by rw [g2, hst]
  -- both snapshots see it
  have hlen : (forgetAux h σv.txns 0).length = σv.txns.length := length_forgetAux h _ 0
  have hfg : (forgetAux h σv.txns 0)[w.creator]? = some t' := by
    rw [getElem?_forgetAux, g1']
    simp [hcomm]
  have hle : w.creator ≤ σv.lastCommitted := hr1.core.cinv.lc_max _ t' g1' hcomm
  have hne : w.creator ≠ σv.txns.length := Nat.ne_of_lt (getElem?_lt g1')
  have notin : ∀ (txns : List Txn) (st : Status), txns[w.creator]? = some t' → st ≠ Status.committed →
      w.creator ∉ idsWith st txns 0 := by
    intro txns st hg hst' hm
    obtain ⟨t2, h2, h3⟩ := (mem_idsWith0 st txns w.creator).1 hm
    rw [hg] at h2; cases h2
    rw [hcomm] at h3; exact hst' h3.symm
  have see : ∀ (txns : List Txn), txns.length = σv.txns.length → txns[w.creator]? = some t' →
      (State.freshSnap Defects.none { σv with txns := txns }).sees w.creator = true := by
    intro txns hl hg
    have e := freshSnap_none { σv with txns := txns }
    rw [show State.freshSnap Defects.none { σv with txns := txns } = State.freshSnap D0 { σv with txns := txns } from rfl, e]
    simp only [Snapshot.sees, Snapshot.cb, Bool.or_eq_true, beq_iff_eq, Bool.and_eq_true, Bool.not_eq_eq_eq_not, Bool.not_true,
      decide_eq_false_iff_not, List.contains_eq_mem]
    right
    refine ⟨⟨by omega, ?_⟩, ?_⟩
    · exact notin txns .active hg (by simp)
    · exact notin txns .aborted hg (by simp)
  rw [see _ hlen hfg]
  have := see σv.txns rfl g1'
  exact this.symm


/-! ## the hypotheses are satisfiable, the statements are not vacuous -/

/-- a state in which VACUUM has something to do: row 1 was updated (2 versions), row 2 carries the mark of a rolled-back
    DELETE, a rolled-back INSERT left a third row -/
def busy : List VOp :=
  pre ++ [.op (.auto (.upd "t" "v" true (.int 1) (kEq 1))),
          .op (.begin "s1"), .op (.exec "s1" (.del "t" (kEq 2))), .op (.exec "s1" (.ins "t" [[.int 3, .int 30]])), .op (.rollback "s1")]

/-- … VACUUM removes the rolled-back row and the stale delete mark (size 5 → 3, 3 rows → 2; the superseded version of row 1 is the
    newest one below the horizon and stays until the next VACUUM) and a transaction beginning afterwards reads the same two rows
    as one beginning before -/
example : (reached catT busy).size = 5 ∧ ((reached catT busy).vacuum {} {}).size = 3 ∧
    (((reached catT busy).vacuum {} {}).vacuum {} {}).size = 2 ∧
    (reached catT busy).rows.length = 3 ∧ ((reached catT busy).vacuum {} {}).rows.length = 2 ∧
    (view {} (((reached catT busy).vacuum {} {}).freshSnap {}) ((reached catT busy).vacuum {} {}).rows).map (·.vals) =
      [[.int 1, .int 11], [.int 2, .int 20]] := by decide

/-- an instance of `bounded_growth` (three UPDATE-all cycles) and of the hypothesis of `vacuum_keeps_later_sessions_consistent` -/
example : (cycles (vfinal {} {} (VState.init catT) (busy ++ [.vacuum]))
    [.upd "t" "v" true (.int 1) none, .upd "t" "v" true (.int 1) none, .upd "t" "v" true (.int 1) none]).db.size = 4 := by decide

example : ∀ op ∈ [Op.auto (.upd "t" "v" true (.int 1) none), .begin "s2", .exec "s2" (.del "t" none), .commit "s2"],
    op.keeps "s1" = true := by decide

end AxVerif.Db.C13
