/-
  C13 — VACUUM frees space without changing what anyone can see.
-/
import AxVerif.Lemmas.Vacuum
namespace AxVerif.Db.C13
open AxVerif.Db

def catT : Catalog := [⟨"t", [⟨"k", .big, false, false⟩, ⟨"v", .int, false, false⟩]⟩]

def kEq (n : Int) : Option Pred := some ⟨"k", .eq, .int n⟩

/-- setup of the witnesses: table `t`, warm-up transaction, committed rows (1,10), (2,20) -/
def pre : List VOp :=
  [.op .tick, .op .tick, .op (.auto (.ins "t" [[.int 1, .int 10]])), .op (.auto (.ins "t" [[.int 2, .int 20]]))]

/-! ## witnesses: one concrete history per defect flag on which the property fails -/

/-- DELETE, ROLLBACK, VACUUM: the row is gone -/
theorem vacuumRemovesUncommittedDelete_witness :
    vrun {} { vacuumRemovesUncommittedDelete := true } catT
      (pre ++ [.op (.begin "s1"), .op (.exec "s1" (.del "t" (kEq 1))), .op (.rollback "s1"), .vacuum, .op (.auto (.sel "t" none))])
    ≠ vrun {} {} catT
      (pre ++ [.op (.begin "s1"), .op (.exec "s1" (.del "t" (kEq 1))), .op (.rollback "s1"), .vacuum, .op (.auto (.sel "t" none))]) := by
  decide

/-- a session open across VACUUM goes on answering (the specification ends it) -/
theorem vacuumLeavesSessionsOpen_witness :
    vrun {} { vacuumLeavesSessionsOpen := true } catT
      (pre ++ [.op (.begin "s1"), .vacuum, .op (.exec "s1" (.sel "t" none))])
    ≠ vrun {} {} catT
      (pre ++ [.op (.begin "s1"), .vacuum, .op (.exec "s1" (.sel "t" none))]) := by
  decide

/-- … and when its id is below the horizon, the coordinator has forgotten that it was aborted: the row it inserts after the
    VACUUM is read by a fresh transaction although it never commits -/
theorem cleanupForgetsAborted_witness :
    (vrun {} { vacuumLeavesSessionsOpen := true, cleanupForgetsAborted := true } catT
      (pre ++ [.op (.begin "s1"), .op (.auto (.ins "t" [[.int 3, .int 30]])), .vacuum,
               .op (.exec "s1" (.ins "t" [[.int 5, .int 50]])), .op (.auto (.sel "t" (kEq 5)))])).getLast? =
      some (.out (.stmt (.rows [[.int 5, .int 50]]))) ∧
    (vrun {} { vacuumLeavesSessionsOpen := true } catT
      (pre ++ [.op (.begin "s1"), .op (.auto (.ins "t" [[.int 3, .int 30]])), .vacuum,
               .op (.exec "s1" (.ins "t" [[.int 5, .int 50]])), .op (.auto (.sel "t" (kEq 5)))])).getLast? =
      some (.out (.stmt (.rows []))) := by
  decide

/-- with versions stamped by their updaters (the specification of UPDATE), the shipped row pass — decide by the header's
    creator, cut the chain below the horizon — loses a committed row whose newest version was rolled back -/
theorem vacuumDropsHorizonVersion_witness :
    vrun {} { vacuumDropsHorizonVersion := true } catT
      (pre ++ [.op (.begin "s1"), .op (.exec "s1" (.upd "t" "v" false (.int 77) (kEq 1))), .op (.rollback "s1"), .vacuum,
               .op (.auto (.sel "t" none))])
    ≠ vrun {} {} catT
      (pre ++ [.op (.begin "s1"), .op (.exec "s1" (.upd "t" "v" false (.int 77) (kEq 1))), .op (.rollback "s1"), .vacuum,
               .op (.auto (.sel "t" none))]) := by
  decide

end AxVerif.Db.C13
