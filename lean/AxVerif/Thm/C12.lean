/-
  C12 — Configuration changes performance, never results.

  The statements are about the model of `PageCache` + the page-moving part of `Pager` (Model/Cache.lean) and of
  the configuration path (Model/Config.lean); helper lemmas are in Lemmas/Cache.lean.

  * `Spec` (Lemmas/Cache.lean) is the flat store: page ↦ last value written, no cache, no disk, no capacity.
  * `Pager.run D s ops` runs an operation sequence on the model with defect flags `D`; `Spec.run` on the flat store.
  * Hypotheses of the refinement theorems: no operation answered out-of-memory (`NoOom`), and checkpoints happen
    only while no frame is referenced from outside the cache (`Spec.admissible`, a decidable check of the
    operation list alone).

  The refinement theorems hold for EVERY combination of defect flags: the shipped defects only ever produced
  spurious out-of-memory errors, never wrong data. The out-of-memory theorems need the eviction sweep of the fixed
  code (`cursorForwardOnly = false`); the witness theorems show they fail with the shipped defects.
-/
import AxVerif.Lemmas.Cache
import AxVerif.Generated.Cache
import AxVerif.Thm.C10
namespace AxVerif.Cache
open AxVerif

/-- no operation of the run answered "Buffer pool got out of memory" -/
def NoOom (outs : List Out) : Prop := ∀ o ∈ outs, o ≠ .oom
instance (outs : List Out) : Decidable (NoOom outs) := inferInstanceAs (Decidable (∀ o ∈ outs, o ≠ .oom))

/-! ## Data survives any amount of eviction: refinement to a flat store -/

/-- **Main theorem.** For any capacity, any defect flags and ANY sequence of operations (allocate, read, write, pin,
    unpin, read/write through a pinned frame, checkpoint, re-open, raw look at the file) in which no operation
    answered out-of-memory, reading any page through the cache-or-file gives exactly the last value written to
    it, as recorded by the flat store; pages never allocated read as absent. No bound on the length of the
    sequence, the number of pages or the number of evictions. -/
theorem cache_refines_store (D : Defects) (cap : Nat) (ops : List POp)
    (hok : NoOom ((Pager.init cap).run D ops).2) (hadm : Spec.admissible {} ops = true) (p : Nat) :
    readThrough ((Pager.init cap).run D ops).1 p = (Spec.run {} ops).1.get p :=
  readThrough_eq (run_coupled D _ _ ops (init_coupled cap) hok hadm).1.inv p

/-- Under the same hypotheses every answer the pager gives (bytes read, page ids, handles, error classes) is the
    answer of the flat store — i.e. the cache capacity, the eviction policy and the defect flags are unobservable. -/
theorem outputs_refine_store (D : Defects) (cap : Nat) (ops : List POp)
    (hok : NoOom ((Pager.init cap).run D ops).2) (hadm : Spec.admissible {} ops = true) :
    OutsAgree ops ((Pager.init cap).run D ops).2 (Spec.run {} ops).2 :=
  (run_coupled D _ _ ops (init_coupled cap) hok hadm).2

/-- Two configurations (capacities `cap₁`, `cap₂`, any defect flags) give the same answers to the same operations
    as long as neither runs out of memory: "configuration changes performance, never results" at the pager. -/
theorem capacity_irrelevant (D₁ D₂ : Defects) (cap₁ cap₂ : Nat) (ops : List POp)
    (h₁ : NoOom ((Pager.init cap₁).run D₁ ops).2) (h₂ : NoOom ((Pager.init cap₂).run D₂ ops).2)
    (hadm : Spec.admissible {} ops = true) (p : Nat) :
    readThrough ((Pager.init cap₁).run D₁ ops).1 p = readThrough ((Pager.init cap₂).run D₂ ops).1 p := by
  rw [cache_refines_store D₁ cap₁ ops h₁ hadm, cache_refines_store D₂ cap₂ ops h₂ hadm]

/-- After a checkpoint the file alone holds the last written value of every allocated page, and the cache is empty:
    re-opening (or reloading any page) finds everything. -/
theorem flush_then_reload (D : Defects) (cap : Nat) (ops : List POp)
    (hok : NoOom ((Pager.init cap).run D (ops ++ [.flush])).2)
    (hadm : Spec.admissible {} (ops ++ [.flush]) = true) (p v : Nat)
    (hv : (Spec.run {} ops).1.get p = some v) :
    let s := ((Pager.init cap).run D (ops ++ [.flush])).1
    s.mem.cache.frames = [] ∧ p < s.disk.len ∧ s.disk.read p = v := by
  have hrunS : ∀ (sp : Spec) (l : List POp), (sp.run (l ++ [.flush])).1 = (sp.run l).1 := by
    intro sp l
    induction l generalizing sp with
    | nil => rfl
    | cons x xs ih => exact ih (sp.step x).1
  have hrunP : ∀ (s : Pager) (l : List POp), (s.run D (l ++ [.flush])).1 = ((s.run D l).1.flush D) := by
    intro s l
    induction l generalizing s with
    | nil => rfl
    | cons x xs ih => exact ih (s.step D x).1
  have hC := (run_coupled D _ _ (ops ++ [POp.flush]) (init_coupled cap) hok hadm).1
  rw [hrunS] at hC
  have hfr : ((Pager.init cap).run D (ops ++ [.flush])).1.mem.cache.frames = [] := by
    rw [hrunP]
    have hps := parkAll_same ({ ((Pager.init cap).run D ops).1.mem with
      cache := (((Pager.init cap).run D ops).1.mem.cache.clear D).1 }) (((Pager.init cap).run D ops).1.mem.cache.clear D).2
    have hcache : ((((Pager.init cap).run D ops).1).flush D).mem.cache =
        (((Pager.init cap).run D ops).1.mem.cache.clear D).1 := hps.1
    rw [hcache]; rfl
  refine ⟨hfr, ?_⟩
  exact hC.inv.uncached p v hv (by simp) (by rw [hfr]; intro f hf; cases hf)

/-! ## Out of memory only when the cache really is too small -/

/-- `PageCache::evict` (fixed sweep) fails only if the cache is non-empty and every frame is referenced from outside. -/
theorem evict_oom_only_if_all_pinned (D : Defects) (hD : D.cursorForwardOnly = false) (free : Frame → Bool)
    (c : Cache) (h : (c.evict D free).2 = .oom) : c.frames ≠ [] ∧ ∀ f ∈ c.frames, free f = false :=
  evict_oom_all_pinned D hD free c h

/-- Any pager operation answers out-of-memory only if the cache is full and every one of its frames is pinned. -/
theorem oom_only_if_all_pinned (D : Defects) (hD : D.cursorForwardOnly = false) (s : Pager) (op : POp)
    (h : (s.step D op).2 = .oom) :
    s.mem.cache.capacity ≤ s.mem.cache.frames.length ∧ ∀ f ∈ s.mem.cache.frames, s.mem.free f = false :=
  let ⟨a, _, c⟩ := step_oom D hD s op h
  ⟨a, c⟩

/-- The `cache_too_small` bound: along any run without earlier out-of-memory answers, an operation can only run out
    of memory while at least `capacity` (and at least one) frames are pinned by the workload. -/
theorem oom_needs_capacity_pins (D : Defects) (hD : D.cursorForwardOnly = false) (cap : Nat) (ops : List POp)
    (hok : NoOom ((Pager.init cap).run D ops).2) (hadm : Spec.admissible {} ops = true) (op : POp)
    (h : (((Pager.init cap).run D ops).1.step D op).2 = .oom) :
    let s := ((Pager.init cap).run D ops).1
    s.mem.cache.capacity ≤ s.mem.handles.length ∧ 1 ≤ s.mem.handles.length :=
  allPinned_handles (run_coupled D _ _ ops (init_coupled cap) hok hadm).1.inv.fids (step_oom D hD _ op h)

/-! ## Structural invariants -/

/-- For every defect combination and every operation sequence (out-of-memory answers included): no page is cached
    twice and the cache never holds more than `max capacity 1` frames. -/
theorem pager_cache_invariant (D : Defects) (cap : Nat) (ops : List POp) :
    let c := ((Pager.init cap).run D ops).1.mem.cache
    (c.frames.map (·.page)).Nodup ∧ c.frames.length ≤ max c.capacity 1 :=
  run_wf D (Pager.init cap) ops (empty_wf _ _)

/-- The same for the bare `PageCache` API (insert with replacement, evict, remove, clear, drain, pin/unpin, writes
    through held frames), for sequences that do not call `set_capacity`. -/
theorem cache_api_invariant (D : Defects) (cap : Nat) (ops : List COp) (hops : ∀ op ∈ ops, op.keepsCapacity = true) :
    let c := ((Mem.init cap).crun D ops).1.cache
    (c.frames.map (·.page)).Nodup ∧ c.frames.length ≤ max c.capacity 1 :=
  crun_wf D (Mem.init cap) ops hops (empty_wf _ _)

/-- `insert` never evicts a pinned frame and keeps every other frame. -/
theorem insert_evicts_only_free (D : Defects) (free : Frame → Bool) (c : Cache) (f v : Frame)
    (hnew : c.get f.page = none) (h : (c.insert D free f).2 = .inserted (some v)) :
    free v = true ∧ ∃ rest, c.frames.Perm (v :: rest) ∧ (c.insert D free f).1.frames = rest ++ [f] := by
  have := insert_spec D free c f hnew
  cases hi : c.insert D free f with
  | mk c' r =>
    rw [hi] at this h
    simp only at h
    subst h
    exact ⟨this.1, this.2.2⟩

/-! ## Witnesses: each shipped defect breaks the property it is named after -/

/-- As shipped (`clear` zeroes the capacity): with a cache of 4 pages, after a checkpoint, one pinned page is enough
    to make the next read fail with out-of-memory. Without the defect the same sequence succeeds. -/
theorem clearZeroesCapacity_witness :
    ((Pager.init 4).run { clearZeroesCapacity := true } [.alloc, .alloc, .flush, .pin 1, .read 2]).2.getLast? = some .oom ∧
    ((Pager.init 4).run Defects.none [.alloc, .alloc, .flush, .pin 1, .read 2]).2.getLast? = some (.val 0) := by
  decide

/-- As shipped (cursor only moves forward): `evict` reports out-of-memory although an unpinned frame is in the
    cache — `evict_oom_only_if_all_pinned` fails. The cache holds pages 1,2 (fids 0,1), page 2 pinned, cursor at 1
    after an earlier sweep; page 1 is free. -/
theorem cursorForwardOnly_witness :
    let c : Cache := { capacity := 2, frames := [⟨1, 0, 1, false⟩, ⟨2, 1, 2, false⟩], cursor := 1 }
    let free : Frame → Bool := fun f => f.fid != 1
    (c.evict { cursorForwardOnly := true } free).2 = .oom ∧ free ⟨1, 0, 1, false⟩ = true ∧
    (c.evict Defects.none free).2 = .victim ⟨1, 0, 1, false⟩ := by
  decide

/-- The same defect at the pager: two pages pinned then released, a third page read — out of memory as shipped,
    fine after the fix. -/
theorem cursorForwardOnly_pager_witness :
    ((Pager.init 2).run { cursorForwardOnly := true }
      [.alloc, .alloc, .alloc, .pin 1, .pin 2, .read 3, .unpin 0, .read 3]).2.getLast? = some .oom ∧
    ((Pager.init 2).run Defects.none
      [.alloc, .alloc, .alloc, .pin 1, .pin 2, .read 3, .unpin 0, .read 3]).2.getLast? = some (.val 0) := by
  decide

/-- As shipped (`Pager::open` ignores the stored cache size): a database created with a 2-page cache runs with
    10 000 pages after a re-open — three pages can be pinned at once. -/
theorem openIgnoresCacheSize_witness :
    ((Pager.init 2).run { openIgnoresCacheSize := true }
      [.alloc, .alloc, .alloc, .reopen, .pin 1, .pin 2, .pin 3]).2.getLast? = some (.handle 2) ∧
    ((Pager.init 2).run Defects.none
      [.alloc, .alloc, .alloc, .reopen, .pin 1, .pin 2, .pin 3]).2.getLast? = some .oom ∧
    (((Pager.init 2).run { openIgnoresCacheSize := true } [.reopen]).1.mem.cache.capacity = 10000) := by
  decide

/-- As shipped (`as u16`): a cache of 65 536 pages is recorded as 0 in page zero; once `open` honours the header
    that is a one-frame cache. -/
theorem cacheSizeWraps_witness :
    headerCacheSize { cacheSizeWraps := true } 65536 = 0 ∧ headerCacheSize Defects.none 65536 = 65535 ∧
    ((Pager.init 65536).run { cacheSizeWraps := true } [.alloc, .alloc, .reopen, .pin 1, .read 2]).2.getLast? = some .oom ∧
    ((Pager.init 65536).run Defects.none [.alloc, .alloc, .reopen, .pin 1, .read 2]).2.getLast? = some (.val 0) := by
  decide

/-! ## Hypotheses are satisfiable; examples -/

/-- a sequence with evictions, write-back, re-reads and a checkpoint satisfies the hypotheses of the refinement
    theorems (capacity 2, four pages) -/
example :
    NoOom ((Pager.init 2).run Defects.none
      [.alloc, .alloc, .alloc, .write 1 7, .alloc, .read 1, .pin 2, .hwrite 0 9, .unpin 0, .flush, .read 2]).2 ∧
    Spec.admissible {} [.alloc, .alloc, .alloc, .write 1 7, .alloc, .read 1, .pin 2, .hwrite 0 9, .unpin 0, .flush, .read 2] = true ∧
    ((Pager.init 2).run Defects.none
      [.alloc, .alloc, .alloc, .write 1 7, .alloc, .read 1, .pin 2, .hwrite 0 9, .unpin 0, .flush, .read 2]).2.getLast? = some (.val 9) := by
  decide

/-- an out-of-memory answer that the theorems allow: capacity 1, the only frame pinned -/
example : ((Pager.init 1).run Defects.none [.alloc, .alloc, .pin 1, .read 2]).2.getLast? = some .oom := by decide

/-! ## Configuration (all theorems of this file live in one namespace so that the audit finds them) -/
section Configuration
open AxVerif.Config

/-- the ranges in which the settings survive the page-zero header: the page size is anything (it is normalised), the
    cache at most 65 535 pages, min keys and siblings below 256 -/
def InDocumentedRange (cache minKeys siblings : Nat) : Prop := cache ≤ 65535 ∧ minKeys < 256 ∧ siblings < 256
instance (a b c : Nat) : Decidable (InDocumentedRange a b c) := inferInstanceAs (Decidable (_ ∧ _ ∧ _))

/-- What `DBConfig::new` produces is what the engine runs with, both in the creating session and after the
    settings went through page zero and `Pager::open` read them back. -/
theorem config_roundtrip (page cache pool minKeys siblings : Nat)
    (h : InDocumentedRange cache (max minKeys treeMinKeys) siblings) :
    let c := Config.new page cache pool minKeys siblings
    effectiveAtCreate Defects.none c = requested c ∧
    effectiveAtOpen Defects.none (toHeader Defects.none c) = requested c := by
  obtain ⟨h1, h2, h3⟩ := h
  have hp := clampPage_range page
  simp only [effectiveAtCreate, effectiveAtOpen, requested, toHeader, Config.new, headerCacheSize,
    Defects.none]
  have e1 : clampPage page % 2 ^ 32 = clampPage page := Nat.mod_eq_of_lt (by omega)
  have e2 : max minKeys treeMinKeys % 2 ^ 8 = max minKeys treeMinKeys := Nat.mod_eq_of_lt (by omega)
  have e3 : siblings % 2 ^ 8 = siblings := Nat.mod_eq_of_lt (by omega)
  have e4 : min cache 65535 = cache := by omega
  simp [e1, e2, e3, e4]

/-- Whatever is asked for, the engine never runs a tree with fewer keys per page than the tree supports. -/
theorem min_keys_at_least_tree_minimum (page cache pool minKeys siblings : Nat) :
    treeMinKeys ≤ (Config.new page cache pool minKeys siblings).minKeys ∧
    treeMinKeys ≤ (Config.builder page cache pool minKeys siblings).minKeys := by
  simp only [Config.new, Config.builder]
  omega

/-- Witness for the shipped clamping: min keys 2 was accepted although the tree needs 3. -/
theorem minKeysBelowTreeMinimum_witness :
    (Config.newShipped 4096 48 1 2 2).minKeys < treeMinKeys ∧ (Config.builderShipped 4096 48 1 0 2).minKeys < treeMinKeys := by
  decide

/-- the same through the builder -/
theorem config_roundtrip_builder (page cache pool minKeys siblings : Nat)
    (h : InDocumentedRange cache (max minKeys treeMinKeys) siblings) :
    let c := Config.builder page cache pool minKeys siblings
    effectiveAtOpen Defects.none (toHeader Defects.none c) = requested c := by
  obtain ⟨h1, h2, h3⟩ := h
  have hp := clampPage_range page
  simp only [effectiveAtOpen, requested, toHeader, Config.builder, headerCacheSize, Defects.none]
  have e1 : clampPage page % 2 ^ 32 = clampPage page := Nat.mod_eq_of_lt (by omega)
  have e2 : max minKeys treeMinKeys % 2 ^ 8 = max minKeys treeMinKeys := Nat.mod_eq_of_lt (by omega)
  have e3 : siblings % 2 ^ 8 = siblings := Nat.mod_eq_of_lt (by omega)
  have e4 : min cache 65535 = cache := by omega
  simp [e1, e2, e3, e4]

/-- Every page size the engine can end up with is a power of two between 4 KiB and 64 KiB, whatever was asked for;
    a legal page size is kept as it is. -/
theorem page_size_normalised (n : Nat) : ∃ k, 12 ≤ k ∧ k ≤ 16 ∧ clampPage n = 2 ^ k := clampPage_pow2 n

theorem page_size_kept (k : Nat) (h1 : 12 ≤ k) (h2 : k ≤ 16) : clampPage (2 ^ k) = 2 ^ k := clampPage_fix k h1 h2

/-- `nextPow2` is the least power of two not below its argument (the meaning of `usize::next_power_of_two`). -/
theorem nextPow2_spec (n : Nat) : n ≤ nextPow2 n ∧ (∃ k, nextPow2 n = 2 ^ k) ∧ (1 < n → nextPow2 n / 2 < n) :=
  ⟨nextPow2_ge n, nextPow2_pow n, nextPow2_least n⟩

/-- Outside the range the header cannot represent the request: the round trip fails (by design of the u16/u8 fields,
    after saturation of the cache size). -/
theorem config_out_of_range_witness :
    effectiveAtOpen Defects.none (toHeader Defects.none (Config.new 4096 100000 4 3 2)) ≠ requested (Config.new 4096 100000 4 3 2) ∧
    (toHeader Defects.none (Config.new 4096 48 4 256 2)).minKeys = 0 := by
  decide

/-- as shipped, even in range, the cache size did not survive a re-open -/
theorem openIgnoresCacheSize_config_witness :
    effectiveAtOpen { openIgnoresCacheSize := true } (toHeader Defects.none (Config.new 4096 48 4 3 2)) ≠
      requested (Config.new 4096 48 4 3 2) := by
  decide

example : InDocumentedRange 48 3 2 := by decide
example : InDocumentedRange 10000 5 3 := by decide

/-- the constants of the model are the constants of the code (extracted on this run) -/
theorem generated_constants_match :
    AxVerif.Generated.cacheConsts = [minPageSize, maxPageSize, defaultCacheSize, defaultPageSize, defaultMinKeys, defaultSiblings] := by
  decide

end Configuration

/-! ## Lifting to the users of the pager: results do not depend on the configuration

  Everything above the pager — B+tree, catalog, executor — is a *client* of it: a deterministic program that chooses its
  next pager operation from the answers received so far (`Client`). The theorems below say that such a client cannot
  tell which cache capacity it runs on, as long as it never pins as many frames as the cache holds: no hypothesis
  about out-of-memory is left, the bound on the pins implies there is none. A page's content is one number in the model,
  which loses nothing: whole page images can be numbered. -/

/-- **Any client, any capacity above its pin bound, sees the flat store.** If the client's dialogue with the flat
    store never has `bound` or more frames pinned at once (and checkpoints with none pinned), then against the real
    pager with any capacity `cap` with `bound ≤ min cap 65535` — 65 535 being what page zero can record, which is what a
    re-opened pager runs with — the dialogue is *identical*: same operations, same answers, no out-of-memory, for
    any number of steps, any number of evictions, write-backs, checkpoints and re-opens in between. -/
theorem client_sees_flat_store (cap bound : Nat) (hb : bound ≤ min cap 65535) (client : Client) (n : Nat)
    (hok : Spec.clientOk bound client n {} [] = true) :
    Pager.interact Defects.none client n (Pager.init cap) [] = Spec.interact client n {} [] :=
  interact_refines cap bound hb client n _ _ [] (init_coupled cap) (init_capOk cap) hok

/-- **Results are independent of the cache size.** The same client on two pagers of different capacities, both at
    least the client's pin bound: identical dialogues, hence identical results of whatever the client computes. -/
theorem results_independent_of_capacity (cap₁ cap₂ bound : Nat) (h₁ : bound ≤ min cap₁ 65535)
    (h₂ : bound ≤ min cap₂ 65535) (client : Client) (n : Nat) (hok : Spec.clientOk bound client n {} [] = true) :
    Pager.interact Defects.none client n (Pager.init cap₁) [] =
      Pager.interact Defects.none client n (Pager.init cap₂) [] := by
  rw [client_sees_flat_store cap₁ bound h₁ client n hok, client_sees_flat_store cap₂ bound h₂ client n hok]

/-- The same, stated on configurations as `DBConfig::new` makes them: page size, pool size, min keys and siblings do
    not reach the pager at all (its behaviour is a function of the cache size alone), and the cache size does not show. -/
theorem results_independent_of_configuration (c₁ c₂ : Config.Config) (bound : Nat)
    (h₁ : bound ≤ min c₁.cacheSize 65535) (h₂ : bound ≤ min c₂.cacheSize 65535) (client : Client) (n : Nat)
    (hok : Spec.clientOk bound client n {} [] = true) :
    Pager.interact Defects.none client n (Pager.init (Config.effectiveAtCreate Defects.none c₁).cacheCapacity) [] =
      Pager.interact Defects.none client n (Pager.init (Config.effectiveAtCreate Defects.none c₂).cacheCapacity) [] :=
  results_independent_of_capacity _ _ bound h₁ h₂ client n hok

/-- For a fixed operation list the pin bound alone excludes out-of-memory … -/
theorem no_oom_above_pin_bound (cap bound : Nat) (hb : bound ≤ min cap 65535) (ops : List POp)
    (hadm : Spec.admissible {} ops = true) (hpins : Spec.pinBounded bound {} ops = true) :
    NoOom ((Pager.init cap).run Defects.none ops).2 :=
  run_no_oom cap bound hb ops _ _ (init_coupled cap) (init_capOk cap) hadm hpins

/-- … so every capacity at or above the bound gives the same observable reads (the refinement theorem with its
    out-of-memory hypothesis discharged). -/
theorem reads_independent_of_capacity (cap₁ cap₂ bound : Nat) (h₁ : bound ≤ min cap₁ 65535)
    (h₂ : bound ≤ min cap₂ 65535) (ops : List POp) (hadm : Spec.admissible {} ops = true)
    (hpins : Spec.pinBounded bound {} ops = true) (p : Nat) :
    readThrough ((Pager.init cap₁).run Defects.none ops).1 p = readThrough ((Pager.init cap₂).run Defects.none ops).1 p ∧
    OutsAgree ops ((Pager.init cap₁).run Defects.none ops).2 (Spec.run {} ops).2 ∧
    OutsAgree ops ((Pager.init cap₂).run Defects.none ops).2 (Spec.run {} ops).2 :=
  ⟨capacity_irrelevant _ _ cap₁ cap₂ ops (no_oom_above_pin_bound cap₁ bound h₁ ops hadm hpins)
      (no_oom_above_pin_bound cap₂ bound h₂ ops hadm hpins) hadm p,
   outputs_refine_store _ cap₁ ops (no_oom_above_pin_bound cap₁ bound h₁ ops hadm hpins) hadm,
   outputs_refine_store _ cap₂ ops (no_oom_above_pin_bound cap₂ bound h₂ ops hadm hpins) hadm⟩

/-- The bound is sharp: a client that pins as many frames as the cache holds does run out of memory (capacity 2, two
    pins, a third page), and the same client is fine with one more frame. -/
theorem pin_bound_is_sharp :
    ((Pager.init 2).run Defects.none [.alloc, .alloc, .alloc, .pin 1, .pin 2, .read 3]).2.getLast? = some .oom ∧
    ((Pager.init 3).run Defects.none [.alloc, .alloc, .alloc, .pin 1, .pin 2, .read 3]).2.getLast? = some (.val 0) ∧
    Spec.pinBounded 3 {} [.alloc, .alloc, .alloc, .pin 1, .pin 2, .read 3] = true ∧
    Spec.pinBounded 2 {} [.alloc, .alloc, .alloc, .pin 1, .pin 2, .read 3] = false := by
  decide

/-- the hypotheses are satisfiable by a client that adapts to what it reads: it allocates two pages, writes 5 into
    the first, reads it back, and writes what it read plus one into the second -/
example :
    let client : Client := fun hist =>
      match hist with
      | [] => some .alloc
      | [_] => some .alloc
      | [_, _] => some (.write 1 5)
      | [_, _, _] => some (.read 1)
      | [_, _, _, .val v] => some (.write 2 (v + 1))
      | [_, _, _, _, _] => some (.read 2)
      | _ => none
    Spec.clientOk 1 client 10 {} [] = true ∧
    (Pager.interact Defects.none client 10 (Pager.init 1) []).getLast? = some (.read 2, .val 6) := by
  decide

/-! ### page geometry

  Page size, minimum keys per page and siblings per side decide the *shape* of a B+tree, i.e. which client of the
  pager the tree code is. That every shape answers alike is C10's subject; its verified checker has no geometry
  parameter, so the statement needed here is a corollary of `C10.checkTree_sound`. -/

/-- **Geometry is irrelevant to the answers.** Two page graphs — built under any page sizes, minimum-key and sibling
    settings — that the checker accepts and that hold the same contents answer every point lookup, the forward scan and
    the backward scan identically; in particular so do two graphs whose contents are the ordered-map fold of the same
    operations, which is what C10's engine establishes for every geometry it runs (4–16 KiB pages, 3–16 min keys,
    1–8 siblings) and the configuration grid below re-checks through SQL. -/
theorem geometry_irrelevant (d₁ d₂ : AxVerif.BTree.Dump) (h₁ : AxVerif.BTree.checkTree d₁ = true)
    (h₂ : AxVerif.BTree.checkTree d₂ = true) (hc : AxVerif.BTree.toList d₁ = AxVerif.BTree.toList d₂) :
    (∀ k, AxVerif.BTree.lookup d₁ k = AxVerif.BTree.lookup d₂ k) ∧
    AxVerif.BTree.leafScan d₁ = AxVerif.BTree.leafScan d₂ ∧
    AxVerif.BTree.leafScanBack d₁ = AxVerif.BTree.leafScanBack d₂ := by
  obtain ⟨_, _, _, _, hs₁, hl₁, _⟩ := AxVerif.C10.checkTree_sound d₁ h₁
  obtain ⟨_, _, _, _, hs₂, hl₂, _⟩ := AxVerif.C10.checkTree_sound d₂ h₂
  refine ⟨fun k => by rw [hl₁ k, hl₂ k, hc], by rw [hs₁, hs₂, hc], ?_⟩
  rw [AxVerif.C10.checkTree_sound_backward d₁ h₁, AxVerif.C10.checkTree_sound_backward d₂ h₂, hc]

/-! ## The SQL-level statement -/

/-- The full SQL-level statement of C12 for an engine semantics `run` (configuration → statements → answers): any
    two configurations in the documented ranges answer every workload identically unless one of them reports
    out-of-memory. It is a statement about the Rust engine as a whole and stays a `def`. What the theorems above
    contribute to it, and what is left to the tie:
    * storage: every client of the pager gets the flat store's answers for every cache capacity above its pin bound
      (`client_sees_flat_store`, `results_independent_of_capacity`) — proved, unbounded;
    * settings: what is requested is what the engine runs with (`config_roundtrip`, `header_roundtrip_requested`) — proved;
    * geometry: accepted page graphs with equal contents answer alike (`geometry_irrelevant`, from C10) — proved; that
      the tree code produces accepted graphs with the right contents under every geometry is C10's tie (checked dump
      after every operation), not a theorem about the Rust code;
    * the logical database model (Model/Db.lean, C03–C09) takes no configuration argument at all;
    * that the engine is such a client — deterministic, reaching its data only through the pager — and the pool size
      are covered by the configuration grids of engine `cache` (`grid`, `sqlgrid`, `histgrid` cases: the same script under
      page 4–64 KiB, cache 8–4096, min keys 3–8, siblings 1–4, pool 1–8; identical canonical results required). -/
def sql_results_independent_of_configuration_statement {Stmt Answer : Type}
    (run : Config.Config → List Stmt → List Answer) (isOom : Answer → Bool) : Prop :=
  ∀ (c₁ c₂ : Config.Config) (w : List Stmt),
    InDocumentedRange c₁.cacheSize c₁.minKeys c₁.siblings → InDocumentedRange c₂.cacheSize c₂.minKeys c₂.siblings →
    (run c₁ w).all (fun a => !isOom a) = true → (run c₂ w).all (fun a => !isOom a) = true →
    run c₁ w = run c₂ w

end AxVerif.Cache
