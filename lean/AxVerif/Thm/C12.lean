/-
  C12 — Configuration changes performance, never results.
-/
import AxVerif.Lemmas.Cache
import AxVerif.Generated.Cache
namespace AxVerif.Cache
open AxVerif

def shipped1 : Defects := { clearZeroesCapacity := true }
def shipped2 : Defects := { cursorForwardOnly := true }
def shipped3 : Defects := { openIgnoresCacheSize := true }

/-- As shipped, a checkpoint leaves a cache of one frame: with a cache of 4 pages and a single pinned page, reading
    another page fails with out-of-memory; without the defect it succeeds. -/
theorem clearZeroesCapacity_witness :
    ((Pager.init 4).run shipped1 [.alloc, .alloc, .flush, .pin 1, .read 2]).2.getLast? = some .oom ∧
    ((Pager.init 4).run Defects.none [.alloc, .alloc, .flush, .pin 1, .read 2]).2.getLast? = some (.val 0) := by
  decide

end AxVerif.Cache
