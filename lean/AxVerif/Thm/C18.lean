/-
  C18 — Row versions decode to the right values for every snapshot.

  Property theorems about the byte-level model of `storage/tuple.rs` and of `Snapshot` (Model/Tuple.lean,
  Model/Snapshot.lean) with every defect flag off; helper lemmas are in Lemmas/Tuple*.lean.  All statements hold
  for an arbitrary `Params` satisfying `Params.Wf`; `generated_wf` instantiates them with the sizes and alignments
  extracted from the code on this run.  No bound on the number of columns, updates, versions, or on text lengths.

  Reading guide:  `LRow` is the logical row (newest version, older versions newest first, optional deleter),
  `specVisible s L` what snapshot `s` is entitled to see of it, `encode L` its bytes, `decodeFor s bytes` what
  `Row::from_bytes_checked_with_snapshot` computes.
-/
import AxVerif.Lemmas.Tuple
import AxVerif.Generated.Tuple
namespace AxVerif.Tuple
open AxVerif

/-- The extracted constants satisfy the side conditions (header layout xmin@0 / xmax@8 / version@16 in 24 bytes, delta
    header xmin@0 / version@8 in 16 bytes, both aligned to 8; Bool and Blob unaligned; every other alignment in
    {1,2,4,8}). -/
theorem generated_wf : Params.Wf Generated.tupleParams := by decide

/-! ### the snapshot predicate -/

/-- `is_committed_before_snapshot` as a statement: the id is not above the last committed id of the snapshot
    (0 when there is none) and is neither active nor aborted in it. -/
theorem committedBefore_iff (s : Snapshot) (t : Nat) :
    committedBefore {} s t = true ↔ t ≤ s.xmax.getD 0 ∧ t ∉ s.active ∧ t ∉ s.aborted := by
  unfold committedBefore
  cases s.xmax <;> simp [and_assoc]

/-- what a reader may see of a creator: its own work and what committed before its snapshot, nothing else -/
theorem creatorVisible_iff (s : Snapshot) (t : Nat) :
    creatorVisible {} s t = true ↔ t = s.xid ∨ (t ≤ s.xmax.getD 0 ∧ t ∉ s.active ∧ t ∉ s.aborted) := by
  simp only [creatorVisible, Bool.or_eq_true, decide_eq_true_eq, committedBefore_iff]

/-- `Snapshot::is_tuple_visible` (not used by any reader) agrees with the rule of the readers except for the reader's own
    undeleted version, which it judges by the committed-before test. -/
theorem isTupleVisible_eq (s : Snapshot) (tmin : Nat) (tmax : Option Nat) (h : tmin ≠ s.xid) :
    isTupleVisible {} s tmin tmax
      = (committedBefore {} s tmin && !(match tmax with | some x => committedBefore {} s x | none => false)) := by
  unfold isTupleVisible
  have : decide (tmin = s.xid) = false := by simp [h]
  rw [this]
  cases hc : committedBefore {} s tmin <;> cases tmax <;> simp

theorem isTupleVisible_own_undeleted (s : Snapshot) :
    isTupleVisible {} s s.xid none = committedBefore {} s s.xid := by
  unfold isTupleVisible
  cases hc : committedBefore {} s s.xid <;> simp

/-- the specification in words: nothing if the deleter is visible, otherwise the newest version with a visible creator -/
theorem specVisible_none_of_deleted (s : Snapshot) (L : LRow) (x : Nat) (hd : L.deleter = some x)
    (hx : creatorVisible {} s x = true) : specVisible {} s L = none := by
  simp [specVisible, specDeleted, hd, hx]

theorem specVisible_newest (s : Snapshot) (L : LRow) (hd : specDeleted {} s L.deleter = false)
    (hc : creatorVisible {} s L.cur.creator = true) : specVisible {} s L = some { keys := L.keys, vals := L.cur.vals } := by
  simp [specVisible, hd, firstVisible, hc]

/-! ### encoding then decoding is the identity -/

/-- a row whose keys and values fit the schema (fixed-width values have their width, a bool is 0 or 1, a text is
    shorter than 2^69 bytes); keys are never NULL -/
def RowFits (P : Params) (sch : Schema) (row : Row) : Prop :=
  CellsFit P sch.keys (row.keys.map some) ∧ CellsFit P sch.vals row.vals

/-- parse ∘ build = id: for every schema and every row that fits it, `TupleBuilder::build` succeeds and
    `Row::from_bytes_checked` of the result is the row — every column value and NULL flag intact. -/
theorem parse_build (P : Params) (hP : P.Wf) (sch : Schema) (row : Row) (x : Nat) (h : RowFits P sch row) (hx : x < 2 ^ 64) :
    ∃ d, build {} P sch row x = .ok d ∧ decodeLast P sch d = .ok row := by
  refine ⟨encMain P sch x none 0 row.keys row.vals, by simp [build], ?_⟩
  have := decodeLast_main P hP sch x none 0 row.keys row.vals [] hx trivial (by omega) h.1 h.2
  simpa using this

/-- `compute_initial_size` = number of bytes `build` writes. -/
theorem build_size (P : Params) (hP : P.Wf) (sch : Schema) (row : Row) (x : Nat) (h : RowFits P sch row) :
    build {} P sch row x = .ok (encMain P sch x none 0 row.keys row.vals)
      ∧ computeInitialSize P sch row = (encMain P sch x none 0 row.keys row.vals).length :=
  ⟨by simp [build], computeInitialSize_eq P hP sch row x h.2.length⟩

/-- `build` produces the encoding of the freshly inserted logical row. -/
theorem build_refines (P : Params) (sch : Schema) (row : Row) (x : Nat) :
    build {} P sch row x = .ok (encode P sch (LRow.insert row.keys row.vals x)) :=
  build_encode P sch row x

/-! ### the chain theorem -/

/-- THE CHAIN THEOREM.  For every well-formed logical row — any number of versions, each update touching any subset
    of the columns, values turning NULL and back, texts growing and shrinking, with or without a deleter — and for
    every snapshot, decoding the encoded row yields exactly the version the snapshot is entitled to, or nothing. -/
theorem chain_decodes (P : Params) (hP : P.Wf) (sch : Schema) (L : LRow) (h : WfRow P sch L) (s : Snapshot) :
    decodeFor {} P sch s (encode P sch L) = .ok (specVisible {} s L) := by
  have := decodeFor_encode_append P hP sch L h s [] (by simp)
  simpa using this

/-- The same for the padded form of a tuple (`full_data`, what the log stores and recovery decodes). -/
theorem padded_decodes (P : Params) (hP : P.Wf) (sch : Schema) (L : LRow) (h : WfRow P sch L) (s : Snapshot) :
    decodeFor {} P sch s (padded P (encode P sch L)) = .ok (specVisible {} s L) := by
  have a8 : AlignOk 8 := Or.inr (Or.inr (Or.inr rfl))
  apply decodeFor_encode_append P hP sch L h s
  have := alignUp_lt (c := (encode P sch L).length) a8
  rw [padTo_length, hP.cella]; omega

/-! ### the writers refine the logical operations -/

/-- `add_version_with` on the bytes of a row is the logical update: the new version carries the updater's id, the old
    version becomes the first delta, older deltas follow at the next aligned offset. -/
theorem addVersion_refines (P : Params) (hP : P.Wf) (sch : Schema) (L : LRow) (h : WfRow P sch L) (m : Mods) (t : Nat)
    (hm : ModsFit P sch m) :
    addVersion {} P sch (encode P sch L) m t = .ok (encode P sch (L.update t m)) :=
  addVersion_encode P hP sch L h m t hm

/-- `calculate_new_tuple_size` = number of bytes `add_version_with` writes (size of the older deltas =
    what lies behind the aligned end of the main part). -/
theorem size_matches_calculate (P : Params) (hP : P.Wf) (sch : Schema) (L : LRow) (m : Mods) (t : Nat)
    (hme : m.isEmpty = false) :
    calcNewTupleSize {} P sch L.keys (applyMods m 0 L.cur.vals) L.cur.vals (changedIdx m 0 L.cur.vals)
        ((encode P sch L).drop (alignUp (encMain P sch L.cur.creator L.deleter L.cur.ver L.keys L.cur.vals).length P.dhAlign)).length
      = (encode P sch (L.update t m)).length := by
  rw [drop_encode P hP sch L]
  exact calcNewTupleSize_eq P hP sch L m t hme

/-- `Tuple::delete` on the bytes is the logical delete: the single delete mark names the new deleter, an existing mark
    is overwritten (the code since c92877b; whether that is right is C03/C04's `deleteMarkSingleSlot`). -/
theorem delete_refines (P : Params) (hP : P.Wf) (sch : Schema) (L : LRow) (h : WfRow P sch L) (t : Nat) :
    delete P (encode P sch L) t = .ok (encode P sch (L.delete t)) :=
  delete_encode P hP sch L h t

/-- `vaccum_with` on the bytes is the logical vacuum, and it reports the bytes it dropped. -/
theorem vacuum_refines (P : Params) (hP : P.Wf) (sch : Schema) (L : LRow) (h : WfRow P sch L) (hz : Nat) :
    vacuumWith {} P sch (encode P sch L) hz
      = .ok ((encode P sch L).length - (encode P sch (L.vacuum hz)).length, encode P sch (L.vacuum hz)) :=
  vacuum_encode P hP sch L h hz

/-- well-formedness is preserved by every operation -/
theorem ops_preserve_wf (P : Params) (sch : Schema) (L : LRow) (h : WfRow P sch L) (hn : sch.vals.length < 256) :
    (∀ m t, ModsFit P sch m → t < 2 ^ 64 → WfRow P sch (L.update t m))
      ∧ (∀ t, t < 2 ^ 63 → WfRow P sch (L.delete t)) ∧ (∀ hz, WfRow P sch (L.vacuum hz)) :=
  ⟨fun m t hm ht => update_wf P sch L h m t hm ht hn, fun t ht => delete_wf P sch L h t ht, fun hz => vacuum_wf P sch L h hz⟩

/-! ### trimming history -/

/-- Logical statement: a vacuum with horizon `h` does not change what any snapshot at or above `h` is entitled to. -/
theorem vacuum_preserves_spec (s : Snapshot) (hz : Nat) (L : LRow) (ha : AtOrAbove s hz L) :
    specVisible {} s (L.vacuum hz) = specVisible {} s L :=
  specVisible_vacuum s hz L ha

/-- Byte-level statement: trimming the history of a stored row with horizon `h` never alters what a snapshot at or
    above that horizon decodes. -/
theorem vacuum_preserves (P : Params) (hP : P.Wf) (sch : Schema) (L : LRow) (h : WfRow P sch L) (hz : Nat) (s : Snapshot)
    (ha : AtOrAbove s hz L) :
    ∃ freed d', vacuumWith {} P sch (encode P sch L) hz = .ok (freed, d')
      ∧ decodeFor {} P sch s d' = decodeFor {} P sch s (encode P sch L) := by
  refine ⟨_, _, vacuum_encode P hP sch L h hz, ?_⟩
  rw [chain_decodes P hP sch _ (vacuum_wf P sch L h hz) s, chain_decodes P hP sch L h s, specVisible_vacuum s hz L ha]

/-! ### any history -/

/-- THE HISTORY THEOREM.  Build a row, then apply ANY sequence of updates (any column subsets, any creators), deletes
    and vacuums (any horizons) through the byte-level operations of the code: every step succeeds, the bytes are the
    encoding of the logical row the sequence denotes, and every snapshot decodes exactly what it is entitled to. -/
theorem history_decodes (P : Params) (hP : P.Wf) (sch : Schema) (hn : sch.vals.length < 256) (row : Row) (x : Nat)
    (hr : RowFits P sch row) (hx : x < 2 ^ 64) (ops : List LOp) (hops : ∀ op, op ∈ ops → OpOk P sch op) (s : Snapshot) :
    ∃ d0 d, build {} P sch row x = .ok d0 ∧ runB {} P sch ops d0 = .ok d
      ∧ d = encode P sch (runL ops (LRow.insert row.keys row.vals x))
      ∧ decodeFor {} P sch s d = .ok (specVisible {} s (runL ops (LRow.insert row.keys row.vals x))) := by
  have hw0 := insert_wf P sch row x hr.1 hr.2 hx
  obtain ⟨hrun, hw⟩ := run_refines P hP sch hn ops _ hw0 hops
  exact ⟨_, _, build_encode P sch row x, hrun, rfl, chain_decodes P hP sch _ hw s⟩

/-! ### non-vacuity of the hypotheses -/

/-- a two-key, three-value schema with a text, a NULL and a bool; one update; a delete -/
example : let P := Generated.tupleParams
    let sch : Schema := { keys := [.biguint, .blob], vals := [.blob, .int, .bool] }
    let row : Row := { keys := [[1, 0, 0, 0, 0, 0, 0, 0], [0x61, 0x62]], vals := [some [0x78], none, some [1]] }
    let m : Mods := [(1, some [9, 0, 0, 0]), (0, none)]
    RowFits P sch row ∧ ModsFit P sch m ∧ OpOk P sch (.update 7 m) ∧ OpOk P sch (.delete 9) ∧ sch.vals.length < 256 := by
  refine ⟨⟨by decide, by decide⟩, ?_, ⟨?_, by decide⟩, by simp [OpOk], by decide⟩ <;>
  · intro e he
    simp only [List.mem_cons, List.not_mem_nil, or_false] at he
    rcases he with rfl | rfl
    · exact ⟨.int, rfl, by intro p hp; cases hp; decide⟩
    · exact ⟨.blob, rfl, by intro p hp; cases hp⟩

/-- a snapshot at or above horizon 8 of a three-version row whose writers are 5, 6 and 9 -/
example : let L : LRow := ((LRow.insert [[1]] [some [2]] 5).update 6 [(0, some [3])]).update 9 [(0, some [4])]
    AtOrAbove { xid := 8, xmin := 8, xmax := some 7, active := [], aborted := [] } 8 L := by
  intro L v hv hlt
  simp only [L, LRow.update, LRow.insert, List.isEmpty_cons, Bool.false_eq_true, if_false, List.map_cons, List.map_nil,
    List.mem_cons, List.not_mem_nil, or_false] at hv
  rcases hv with rfl | rfl | rfl <;> first | (exfalso; revert hlt; decide) | decide

/-! ### witnesses: each shipped defect breaks the property (model with that one flag on, constants of the code) -/

namespace Witness
def P : Params := Generated.tupleParams
/-- one BIGUINT key, one BIGINT value -/
def sch : Schema := { keys := [.biguint], vals := [.bigint] }
def key : Bytes := [1, 0, 0, 0, 0, 0, 0, 0]
def val (n : UInt8) : Cell := some [n, 0, 0, 0, 0, 0, 0, 0]
def setTo (n : UInt8) : Mods := [(0, val n)]
/-- inserted by 5 with value 2 -/
def L0 : LRow := LRow.insert [key] [val 2] 5
def rowOf (n : UInt8) : Row := { keys := [key], vals := [val n] }
/-- a reader with the given id for which everything up to `xmax` that is not in `active` has committed -/
def reader (xid xmax : Nat) (active : List Nat := []) : Snapshot :=
  { xid := xid, xmin := xid, xmax := some xmax, active := active, aborted := [] }
end Witness

set_option maxRecDepth 16384 in
open Witness in
/-- `updateKeepsInserterXmin` (KF-C18-update-keeps-inserter-xmin): 5 inserts 2, 7 updates to 3; a reader whose
    snapshot contains 5 but not 7 is entitled to 2 and decodes 3. -/
theorem updateKeepsInserterXmin_witness :
    ∃ d, addVersion { updateKeepsInserterXmin := true } P sch (encode P sch L0) (setTo 3) 7 = .ok d
      ∧ decodeFor { updateKeepsInserterXmin := true } P sch (reader 6 5) d = .ok (some (rowOf 3))
      ∧ specVisible {} (reader 6 5) (L0.update 7 (setTo 3)) = some (rowOf 2) :=
  ⟨_, rfl, by decide, by decide⟩

set_option maxRecDepth 16384 in
open Witness in
/-- `xmaxNoneSeesAll` (KF-C18-xmax-none-sees-all): a snapshot taken before anything committed (xmax = None) counts
    transaction 5, which started later, as committed before it, and decodes its row. -/
theorem xmaxNoneSeesAll_witness :
    let s : Snapshot := { xid := 3, xmin := 3, xmax := none, active := [], aborted := [] }
    committedBefore { xmaxNoneSeesAll := true } s 5 = true ∧ committedBefore {} s 5 = false
      ∧ decodeFor { xmaxNoneSeesAll := true } P sch s (encode P sch L0) = .ok (some (rowOf 2))
      ∧ specVisible {} s L0 = none := by
  decide

set_option maxRecDepth 16384 in
open Witness in
/-- `ownDeleteWalksDeltas`: 5 inserts 2, 6 updates to 3 (both committed), the reader 7 deletes the row — and decodes
    the version before the update instead of nothing. -/
theorem ownDeleteWalksDeltas_witness :
    let L := (L0.update 6 (setTo 3)).delete 7
    decodeFor { ownDeleteWalksDeltas := true } P sch (reader 7 6) (encode P sch L) = .ok (some (rowOf 2))
      ∧ specVisible {} (reader 7 6) L = none := by
  decide

set_option maxRecDepth 16384 in
open Witness in
/-- `walkIgnoresOwnVersions`: 5 inserts 2, the reader 7 updates to 3, the still active 8 updates to 4: the reader is
    entitled to its own 3 and decodes 2. -/
theorem walkIgnoresOwnVersions_witness :
    let L := (L0.update 7 (setTo 3)).update 8 (setTo 4)
    decodeFor { walkIgnoresOwnVersions := true } P sch (reader 7 6 [8]) (encode P sch L) = .ok (some (rowOf 2))
      ∧ specVisible {} (reader 7 6 [8]) L = some (rowOf 3) := by
  decide

set_option maxRecDepth 16384 in
open Witness in
/-- `vacuumDropsHorizonVersion`: 5 inserts 2, 6 updates to 3, 9 updates to 4; reader 8 (snapshot: 5 and 6 committed,
    at horizon 8) decodes 3 — after a vacuum with horizon 8 it decodes nothing. -/
theorem vacuumDropsHorizonVersion_witness :
    let L := (L0.update 6 (setTo 3)).update 9 (setTo 4)
    ∃ freed d', vacuumWith { vacuumDropsHorizonVersion := true } P sch (encode P sch L) 8 = .ok (freed, d')
      ∧ decodeFor {} P sch (reader 8 7) d' = .ok none
      ∧ decodeFor {} P sch (reader 8 7) (encode P sch L) = .ok (some (rowOf 3)) :=
  ⟨_, _, rfl, by decide, by decide⟩

set_option maxRecDepth 16384 in
open Witness in
/-- `deltasCopiedUnaligned`: text column; 5 inserts "ab", 7 sets NULL, 9 sets "c". The third version is written with
    the first delta at an unaligned offset; a reader entitled to "ab" fails to decode (the code panics). -/
theorem deltasCopiedUnaligned_witness :
    let sch : Schema := { keys := [.biguint], vals := [.blob] }
    let L1 := (LRow.insert [key] [some [0x61, 0x62]] 5).update 7 [(0, none)]
    ∃ d, addVersion { deltasCopiedUnaligned := true } P sch (encode P sch L1) [(0, some [0x63])] 9 = .ok d
      ∧ decodeFor {} P sch (reader 6 5) d = .error .panic
      ∧ specVisible {} (reader 6 5) (L1.update 9 [(0, some [0x63])]) = some { keys := [key], vals := [some [0x61, 0x62]] } :=
  ⟨_, rfl, by decide, by decide⟩

set_option maxRecDepth 16384 in
open Witness in
/-- `versionOverflowPanics`: updating a row whose version counter is 255 panics instead of producing version 0. -/
theorem versionOverflowPanics_witness :
    let L : LRow := { L0 with cur := { L0.cur with ver := 255 } }
    addVersion { versionOverflowPanics := true } P sch (encode P sch L) (setTo 3) 7 = .error .panic
      ∧ addVersion {} P sch (encode P sch L) (setTo 3) 7 = .ok (encode P sch (L.update 7 (setTo 3)))
      ∧ (L.update 7 (setTo 3)).cur.ver = 0 := by
  decide

set_option maxRecDepth 16384 in
open Witness in
/-- `boolWriteNeedsLastByte`: a row with a BOOLEAN column followed by another column cannot be built. -/
theorem boolWriteNeedsLastByte_witness :
    let sch : Schema := { keys := [.biguint], vals := [.bool, .bigint] }
    let row : Row := { keys := [key], vals := [some [1], val 5] }
    build { boolWriteNeedsLastByte := true } P sch row 5 = .error .panic
      ∧ (∃ d, build {} P sch row 5 = .ok d ∧ decodeLast P sch d = .ok row) :=
  ⟨by decide, _, rfl, by decide⟩

set_option maxRecDepth 16384 in
open Witness in
/-- `paddedWalkPanics`: text column; 5 inserts "ab", 7 updates to "c"; on the padded form (as logged) a reader that
    sees neither version walks past the last delta and panics instead of decoding nothing. -/
theorem paddedWalkPanics_witness :
    let sch : Schema := { keys := [.biguint], vals := [.blob] }
    let L := (LRow.insert [key] [some [0x61, 0x62]] 5).update 7 [(0, some [0x63])]
    decodeFor { paddedWalkPanics := true } P sch (reader 4 3) (padded P (encode P sch L)) = .error .panic
      ∧ decodeFor {} P sch (reader 4 3) (padded P (encode P sch L)) = .ok none := by
  decide

end AxVerif.Tuple
