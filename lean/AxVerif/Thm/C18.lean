/-
  C18 — Row versions decode to the right values for every snapshot.  (theorems follow; placeholder while the model is tied)
-/
import AxVerif.Model.Tuple
import AxVerif.Generated.Tuple
namespace AxVerif.Tuple

theorem placeholder_c18 : True := trivial

end AxVerif.Tuple
