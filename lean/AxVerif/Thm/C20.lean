/-
  C20 — The wire protocol carries every message intact and rejects garbage.
  Property theorems (helper lemmas are in Lemmas/Wire.lean).  All statements are for an arbitrary
  `Params` with `protocolVersion < 256`; `Generated.wireParams_wf` instantiates them with the values
  extracted from the code on this run.
-/
import AxVerif.Lemmas.Wire
import AxVerif.Generated.Wire
namespace AxVerif.Wire
open AxVerif

/-- side conditions on the extracted constants -/
def Params.Wf (P : Params) : Prop := P.protocolVersion < 256 ∧ P.maxMessageSize < 2^32
instance (P : Params) : Decidable P.Wf := inferInstanceAs (Decidable (P.protocolVersion < 256 ∧ P.maxMessageSize < 2^32))

/-- Requests a Rust `Request` value can be: strings are valid UTF-8 shorter than 4 GiB. -/
def WfReq : Request → Prop
  | .create p | .open_ p | .sql p | .explain p => StrOk p
  | _ => True

/-- Responses with valid strings, fewer than 2^32 columns and rows, and rectangular data
    (exactly what `query_result_to_response` produces). -/
def WfResp : Response → Prop
  | .ok m | .error m | .ddl m | .explain m => StrOk m
  | .rows cols data =>
    cols.length < 2^32 ∧ data.length < 2^32 ∧ (∀ c ∈ cols, StrOk c) ∧
    (∀ r ∈ data, r.length = cols.length) ∧ (∀ r ∈ data, ∀ s ∈ r, StrOk s)
  | _ => True

private theorem ver (P : Params) (h : P.Wf) : (UInt8.ofNat P.protocolVersion).toNat = P.protocolVersion := by
  have := h.1
  simp only [UInt8.toNat_ofNat']
  omega

/-- Every request is received exactly as sent. -/
theorem decode_encode_request (P : Params) (hP : P.Wf) (r : Request) (h : WfReq r) :
    Request.decode P (Request.encode P r) = .ok r := by
  have hv := ver P hP
  cases r <;>
    simp only [Request.encode, Request.decode, hv, ne_eq, not_true_eq_false, if_false] <;>
    first
    | rfl
    | (simp only [WfReq] at h
       have := readString1_writeString _ [] h.1 h.2
       simp only [List.append_nil] at this
       simp [strReq, this])
    | skip
  -- analyze
  rename_i rate rows
  have h1 : UInt8.toNat 5 = 5 := rfl
  simp only [h1]
  rw [take64_le64 _ _ rate.toNat_lt]
  simp only
  have := take64_le64 rows.toNat [] rows.toNat_lt
  simp only [List.append_nil] at this
  rw [this]
  simp

/-- Every response is received exactly as sent — any number of rows and columns, empty strings included. -/
theorem decode_encode_response (P : Params) (hP : P.Wf) (r : Response) (h : WfResp r) :
    Response.decode P (Response.encode P r) = .ok r := by
  have hv := ver P hP
  cases r with
  | rows cols data =>
    obtain ⟨hc, hd, hcs, hrect, hss⟩ := h
    simp only [Response.encode, Response.decode, hv, ne_eq, not_true_eq_false, if_false]
    have h2 : UInt8.toNat 2 = 2 := rfl
    simp only [h2, decodeRows, List.append_assoc]
    rw [take32_le32 _ _ hc]
    simp only
    rw [readStrings_flatten cols _ hcs]
    simp only
    rw [take32_le32 _ _ hd]
    simp only
    have := readRows_flatten cols.length data [] hrect hss
    simp only [List.append_nil] at this
    rw [this]
  | ok m | error m | ddl m | explain m =>
    simp only [WfResp] at h
    have := readString1_writeString _ [] h.1 h.2
    simp only [List.append_nil] at this
    simp [Response.encode, Response.decode, hv, strResp, this]
  | rowsAffected n =>
    have := take64_le64 n.toNat [] n.toNat_lt
    simp only [List.append_nil] at this
    simp [Response.encode, Response.decode, hv, this]
  | vacuumComplete a b c =>
    simp only [Response.encode, Response.decode, hv, ne_eq, not_true_eq_false, if_false]
    have h9 : UInt8.toNat 9 = 9 := rfl
    simp only [h9, List.append_assoc]
    rw [take64_le64 _ _ a.toNat_lt]
    simp only
    rw [take64_le64 _ _ b.toNat_lt]
    simp only
    have := take64_le64 c.toNat [] c.toNat_lt
    simp only [List.append_nil] at this
    rw [this]
    simp
  | _ => simp [Response.encode, Response.decode, hv]

/-- Framing round-trip: a message within the cap, followed by anything, is read back exactly, and the stream
    is left positioned right behind it. -/
theorem frame_roundtrip (P : Params) (hP : P.Wf) (d rest : Bytes) (h : d.length ≤ P.maxMessageSize) :
    ∃ f, writeMessage P d = .ok f ∧ readMessage P (f ++ rest) = .ok (d, rest) := by
  refine ⟨le32 d.length ++ d, ?_, ?_⟩
  · simp [writeMessage, Nat.not_lt.mpr h]
  · unfold readMessage
    rw [List.append_assoc, take32_le32 _ _ (by have := hP.2; omega)]
    simp only [Nat.not_lt.mpr h, if_false, List.length_append, List.take_left', List.drop_left']
    have : ¬ (d.length + rest.length < d.length) := by omega
    simp [this]

/-- Pipelining: any number of frames written one after the other are read back one after the other, exactly,
    and then the stream is at its end (reported as an I/O error by `read_exact`). -/
theorem frames_roundtrip (P : Params) (hP : P.Wf) (ds : List Bytes) (h : ∀ d ∈ ds, d.length ≤ P.maxMessageSize) :
    readAll P ((ds.map (fun d => le32 d.length ++ d)).flatten) = (ds, .io) := by
  have gen : ∀ (ds : List Bytes) (fuel : Nat), (∀ d ∈ ds, d.length ≤ P.maxMessageSize) → ds.length < fuel →
      readAllFuel P fuel ((ds.map (fun d => le32 d.length ++ d)).flatten) = (ds, .io) := by
    intro ds
    induction ds with
    | nil =>
      intro fuel _ hf
      cases fuel with
      | zero => omega
      | succ n => simp [readAllFuel, readMessage, take32]
    | cons d ds ih =>
      intro fuel hd hf
      cases fuel with
      | zero => omega
      | succ n =>
        have hdl := hd d (by simp)
        have hrm : readMessage P ((le32 d.length ++ d) ++ ((ds.map (fun d => le32 d.length ++ d)).flatten))
            = .ok (d, (ds.map (fun d => le32 d.length ++ d)).flatten) := by
          obtain ⟨f, hf1, hf2⟩ := frame_roundtrip P hP d ((ds.map (fun d => le32 d.length ++ d)).flatten) hdl
          simp [writeMessage, Nat.not_lt.mpr hdl] at hf1
          subst hf1
          exact hf2
        simp only [List.map_cons, List.flatten_cons, readAllFuel, hrm]
        rw [ih n (fun x hx => hd x (by simp [hx])) (by simp at hf; omega)]
  unfold readAll
  apply gen ds _ h
  have : ds.length ≤ ((ds.map (fun d => le32 d.length ++ d)).flatten).length := by
    induction ds with
    | nil => simp
    | cons d ds ih =>
      simp only [List.map_cons, List.flatten_cons, List.length_append, List.length_cons, le32_length]
      have := ih (fun x hx => h x (by simp [hx]))
      omega
  omega

/-- Oversized frames are refused on both sides, before any buffer is allocated. -/
theorem frame_rejects_oversize (P : Params) (d : Bytes) (h : d.length > P.maxMessageSize) :
    writeMessage P d = .error .tooLarge := by
  simp [writeMessage, h]

theorem read_rejects_oversize (P : Params) (len : Nat) (s rest : Bytes)
    (ht : take32 s = some (len, rest)) (h : len > P.maxMessageSize) :
    readMessage P s = .error .tooLarge := by
  simp [readMessage, ht, h]

/-- The buffer `read_message` allocates never exceeds the cap. -/
theorem read_alloc_bounded (P : Params) (s m rest : Bytes) (h : readMessage P s = .ok (m, rest)) :
    m.length ≤ P.maxMessageSize := by
  unfold readMessage at h
  split at h
  · simp at h
  · rename_i len r ht
    split at h
    · simp at h
    · split at h
      · simp at h
      · simp only [Except.ok.injEq, Prod.mk.injEq] at h
        obtain ⟨h1, _⟩ := h
        subst h1
        simp only [List.length_take]
        omega

/-- Garbage is answered with a protocol error: empty / one-byte / wrong-version / unknown-opcode inputs. -/
theorem request_rejects_empty (P : Params) : Request.decode P [] = .error .invalidMessage := rfl
theorem request_rejects_short (P : Params) (v : UInt8) (h : v.toNat = P.protocolVersion) :
    Request.decode P [v] = .error .invalidMessage := by
  simp [Request.decode, h]
theorem request_rejects_bad_version (P : Params) (v : UInt8) (rest : Bytes) (h : v.toNat ≠ P.protocolVersion) :
    Request.decode P (v :: rest) = .error .versionMismatch := by
  simp [Request.decode, h]
theorem response_rejects_short (P : Params) (d : Bytes) (h : d.length < 2) :
    Response.decode P d = .error .invalidMessage := by
  match d, h with
  | [], _ => rfl
  | [_], _ => rfl
theorem response_rejects_bad_version (P : Params) (v st : UInt8) (rest : Bytes) (h : v.toNat ≠ P.protocolVersion) :
    Response.decode P (v :: st :: rest) = .error .versionMismatch := by
  simp [Response.decode, h]
theorem response_rejects_unknown_status (P : Params) (v st : UInt8) (rest : Bytes)
    (hv : v.toNat = P.protocolVersion) (h : 0x0B < st.toNat) :
    Response.decode P (v :: st :: rest) = .error .unknownStatus := by
  simp only [Response.decode, hv, ne_eq, not_true_eq_false, if_false]
  split <;> first | rfl | omega
theorem string_rejects_truncated (d rest : Bytes) (len : Nat)
    (ht : take32 d = some (len, rest)) (h : rest.length < len) :
    readString d = .error .invalidMessage := by
  simp [readString, ht, h]

/-- No unbounded allocation: with the capacity bound in place every `Vec::with_capacity` request made while
    decoding is at most the number of bytes received. -/
theorem decode_alloc_bounded (P : Params) (d : Bytes) :
    ∀ c ∈ Response.decodeAllocs P {} d, c ≤ d.length := by
  intro c hc
  unfold Response.decodeAllocs at hc
  split at hc
  · rename_i v st payload
    have hcap : ∀ n, capReq {} n payload.length ≤ (v :: st :: payload).length := by
      intro n
      simp only [capReq, Bool.false_eq_true, if_false, List.length_cons]
      omega
    split at hc
    · unfold rowsAllocs at hc
      split at hc
      · simp at hc
      · simp only [List.mem_cons] at hc
        rcases hc with hc | hc
        · subst hc; exact hcap _
        · split at hc
          · simp at hc
          · split at hc
            · simp at hc
            · simp only [List.mem_cons] at hc
              rcases hc with hc | hc
              · subst hc; exact hcap _
              · split at hc
                · simp at hc
                · simp only [List.mem_cons, List.not_mem_nil, or_false] at hc
                  subst hc; exact hcap _
    · simp at hc
  · simp at hc

/-- Witness for the defect of the pinned commit: with the capacity taken from the wire, a 6-byte message
    asks for 2^32 − 1 elements. -/
theorem capUnbounded_witness :
    let P : Params := { protocolVersion := 1, maxMessageSize := 16777216 }
    ∃ d : Bytes, d.length = 6 ∧ (4294967295 ∈ Response.decodeAllocs P { capUnbounded := true } d) := by
  refine ⟨[1, 2, 255, 255, 255, 255], rfl, ?_⟩
  decide

/-- The extracted constants satisfy the side conditions. -/
theorem generated_wf : Params.Wf Generated.wireParams := by decide

/-- Non-vacuity: a non-trivial response (two columns, two rows, an empty string and non-ASCII text)
    meets `WfResp`. -/
example : WfResp (.rows [[0x61], [0xC3, 0xA9]] [[[], [0x62]], [[0xE2, 0x82, 0xAC], [0x63]]]) := by
  refine ⟨by decide, by decide, ?_, ?_, ?_⟩ <;> decide

end AxVerif.Wire
