/-
  C11 — Every page has exactly one owner; freed pages are reused, never lost.

  Two parts.

  A. The page allocator of io/pager.rs (`Pages.alloc` / `Pages.dealloc`, pointer level: header fields and `next` links)
     refines a FIFO queue of free page ids (`Pages.Abs`) for every sequence of operations that respects the caller's contract
     (only pages that were handed out are given back). Consequences: used and free pages partition 1 … total-1 at every step,
     the free list a reader of the file finds is duplicate free and consistent with the recorded head and tail, the file
     never grows while a free page exists, pages are reused in the order in which they were freed. What the code does when the
     contract is broken (double free) is stated too. The tie is the `seq` cases of engine `pager`.

  B. `checkOwnership` is a verified checker for whole-file dumps of a real database (taken after every statement of the SQL
     histories of engine `pager`): an accepted dump *proves* that every page other than page zero is exactly one of: a node of
     exactly one tree, a link of exactly one overflow chain of exactly one stored cell, a member of the free list; that the
     free list is acyclic and consistent with the recorded head and tail; and that no page is lost.
-/
import AxVerif.Lemmas.Pages
import AxVerif.Thm.C10
namespace AxVerif.C11
open AxVerif.Pages
open AxVerif.BTree hiding Op Res

/-! ## A. the allocator -/

/-- The partition property at one moment: `used` are the pages handed out and not yet given back. -/
structure Partition (s : Alloc) (used : List Nat) : Prop where
  /-- the free list a reader finds has no duplicate (so it is acyclic) -/
  free_nodup : (freeList s).Nodup
  used_nodup : used.Nodup
  /-- no page is both free and used -/
  disjoint : ∀ p ∈ used, p ∉ freeList s
  /-- every page other than page zero is used or free: nothing is lost, nothing outside the file is listed -/
  cover : ∀ p, (0 < p ∧ p < s.total) ↔ (p ∈ used ∨ p ∈ freeList s)
  /-- the recorded head and tail are the ends of the list (0 = none) -/
  head : s.first = (freeList s).headD 0
  tail : s.last = FileDump.lastD (freeList s)

theorem partition_of_inv {s : Alloc} {a : Abs} (h : Inv s a) : Partition s a.used ∧ freeList s = a.free := by
  have hfl := h.freeList_eq
  refine ⟨⟨?_, h.usedNodup, ?_, ?_, ?_, ?_⟩, hfl⟩
  · rw [hfl]; exact h.freeNodup
  · intro p hp hq; rw [hfl] at hq; exact h.disj p hq hp
  · intro p; rw [hfl, h.total]; exact h.cover p
  · rw [hfl]; exact h.first_eq
  · rw [hfl]; exact h.last

/-- **Partition, for any sequence of operations.** Whatever sequence of allocations, deallocations of handed-out pages, link
    updates of handed-out pages and checkpoints is applied to a fresh file, the pointer-level state represents the
    specification state: used ∪ free = 1 … total-1, disjoint, free list duplicate free, head/tail consistent; and the free
    list found by walking the `next` links is the specification's queue. -/
theorem alloc_dealloc_preserve_partition (ops : List Op) (h : legal ops = true) :
    ∃ a, Abs.init.run ops = some a ∧ Partition (run {} Alloc.init ops) a.used ∧
      freeList (run {} Alloc.init ops) = a.free ∧ (run {} Alloc.init ops).total = a.total := by
  unfold legal at h
  cases hr : Abs.init.run ops with
  | none => rw [hr] at h; cases h
  | some a =>
    have hinv := run_inv ops inv_init hr
    exact ⟨a, rfl, (partition_of_inv hinv).1, (partition_of_inv hinv).2, hinv.total⟩

/-- the states the theorems below talk about: reached from a fresh file by a contract-respecting sequence -/
def Reachable (s : Alloc) (a : Abs) : Prop := ∃ ops, Abs.init.run ops = some a ∧ s = run {} Alloc.init ops

theorem reachable_inv {s : Alloc} {a : Abs} (h : Reachable s a) : Inv s a := by
  obtain ⟨ops, hr, rfl⟩ := h
  exact run_inv ops inv_init hr

/-- the hypothesis is satisfiable by a non-trivial state: three pages handed out, two given back -/
example : Reachable (run {} Alloc.init [.alloc false, .alloc true, .alloc false, .dealloc 2 true, .dealloc 1 false])
    { total := 4, free := [2, 1], used := [3] } := ⟨_, by decide, rfl⟩

/-- **Reuse before growth.** While the free list is not empty an allocation returns its head and the file keeps its size. -/
theorem alloc_reuses_before_growing {s : Alloc} {a : Abs} (h : Inv s a) (k : Bool) (p : Nat)
    (hp : (freeList s).head? = some p) :
    (alloc s k).2 = .ok p ∧ (alloc s k).1.total = s.total ∧ freeList (alloc s k).1 = (freeList s).tail := by
  obtain ⟨hi, ho⟩ := alloc_inv h k
  rw [h.freeList_eq] at hp ⊢
  cases hf : a.free with
  | nil => rw [hf] at hp; cases hp
  | cons x xs =>
    rw [hf] at hp
    simp only [List.head?_cons, Option.some.injEq] at hp
    subst hp
    have habs : a.alloc = ({ a with free := xs, used := x :: a.used }, x) := by simp [Abs.alloc, hf]
    rw [habs] at hi ho
    refine ⟨ho, ?_, ?_⟩
    · rw [hi.total, h.total]
    · rw [hi.freeList_eq]; rfl

/-- … and unconditionally: with a recorded free head the allocator never extends the file (not even when it fails). -/
theorem alloc_never_grows_with_free_head (s : Alloc) (k : Bool) (h : s.first ≠ 0) : (alloc s k).1.total = s.total := by
  unfold alloc
  simp only [h, if_false]
  split <;> rfl

/-- with an empty free list the file grows by exactly one page, which is the page returned -/
theorem alloc_grows_when_empty {s : Alloc} {a : Abs} (h : Inv s a) (k : Bool) (he : freeList s = []) :
    (alloc s k).2 = .ok s.total ∧ (alloc s k).1.total = s.total + 1 := by
  have hf : a.free = [] := by rw [← h.freeList_eq]; exact he
  have hfirst : s.first = 0 := by rw [h.first_eq, hf]; rfl
  simp [alloc, hfirst]

/-- **Page zero is never freed**: the call is rejected and nothing changes. -/
theorem dealloc_zero_rejected (D : Defects) (s : Alloc) (k : Bool) : dealloc D s 0 k = (s, .error .invalidInput) := by
  simp [dealloc]

/-- a freed page goes to the tail of the free list -/
theorem dealloc_appends {s : Alloc} {a : Abs} (h : Inv s a) (p : Nat) (k : Bool) (hp : p ∈ a.used) :
    freeList (dealloc {} s p k).1 = freeList s ++ [p] ∧ (dealloc {} s p k).1.total = s.total := by
  obtain ⟨hi, _⟩ := dealloc_inv h p k hp
  rw [hi.freeList_eq, h.freeList_eq]
  exact ⟨rfl, by rw [hi.total, h.total]; rfl⟩

/-- outputs of a run -/
def runOuts (D : Defects) (s : Alloc) : List Op → Alloc × List Out
  | [] => (s, [])
  | op :: ops =>
    let r := step D s op
    let rest := runOuts D r.1 ops
    (rest.1, r.2 :: rest.2)

theorem runOuts_append (D : Defects) : ∀ (xs ys : List Op) (s : Alloc),
    runOuts D s (xs ++ ys) = ((runOuts D (runOuts D s xs).1 ys).1, (runOuts D s xs).2 ++ (runOuts D (runOuts D s xs).1 ys).2) := by
  intro xs
  induction xs with
  | nil => intro ys s; simp [runOuts]
  | cons x xs ih => intro ys s; simp [runOuts, ih]

/-- giving back handed-out pages one after the other appends them to the queue in that order -/
theorem deallocs_append {kd : Bool} : ∀ (ps : List Nat) {s : Alloc} {a : Abs}, Inv s a → ps.Nodup → (∀ p ∈ ps, p ∈ a.used) →
    ∃ a', Inv (runOuts {} s (ps.map (Op.dealloc · kd))).1 a' ∧ a'.free = a.free ++ ps ∧ a'.total = a.total ∧
      (runOuts {} s (ps.map (Op.dealloc · kd))).2 = ps.map (fun _ => Out.ok) := by
  intro ps
  induction ps with
  | nil => intro s a h _ _; exact ⟨a, by simpa [runOuts] using h, by simp, rfl, by simp [runOuts]⟩
  | cons p ps ih =>
    intro s a h hnd hsub
    rw [List.nodup_cons] at hnd
    have hp : p ∈ a.used := hsub p (by simp)
    have hst : a.step (.dealloc p kd) = some (a.dealloc p) := by simp [Abs.step, hp]
    obtain ⟨hi, ho⟩ := step_inv h (.dealloc p kd) hst
    have hsub' : ∀ q ∈ ps, q ∈ (a.dealloc p).used := by
      intro q hq
      simp only [Abs.dealloc]
      rw [h.usedNodup.mem_erase_iff]
      exact ⟨fun he => hnd.1 (he ▸ hq), hsub q (by simp [hq])⟩
    obtain ⟨a', hi', hfree, htot, houts⟩ := ih hi hnd.2 hsub'
    refine ⟨a', by simpa [runOuts] using hi', ?_, ?_, ?_⟩
    · rw [hfree]; simp [Abs.dealloc]
    · rw [htot]; rfl
    · simp only [List.map_cons, runOuts]
      rw [ho _ rfl, houts]

/-- allocations pop the queue from its head, in order, without extending the file -/
theorem allocs_pop : ∀ (ks : List Bool) {s : Alloc} {a : Abs}, Inv s a → ks.length ≤ a.free.length →
    ∃ a', Inv (runOuts {} s (ks.map Op.alloc)).1 a' ∧ a'.free = a.free.drop ks.length ∧ a'.total = a.total ∧
      (runOuts {} s (ks.map Op.alloc)).2 = (a.free.take ks.length).map Out.page := by
  intro ks
  induction ks with
  | nil => intro s a h _; exact ⟨a, by simpa [runOuts] using h, by simp, rfl, by simp [runOuts]⟩
  | cons k ks ih =>
    intro s a h hlen
    cases hf : a.free with
    | nil => rw [hf] at hlen; simp at hlen
    | cons x xs =>
      have hst : a.step (.alloc k) = some a.alloc.1 := rfl
      obtain ⟨hi, ho⟩ := step_inv h (.alloc k) hst
      have habs : a.alloc = ({ a with free := xs, used := x :: a.used }, x) := by simp [Abs.alloc, hf]
      rw [habs] at hi
      have hlen' : ks.length ≤ xs.length := by rw [hf] at hlen; simpa using hlen
      obtain ⟨a', hi', hfree, htot, houts⟩ := ih hi hlen'
      refine ⟨a', by simpa [runOuts] using hi', ?_, ?_, ?_⟩
      · rw [hfree]; simp
      · rw [htot]
      · simp only [List.map_cons, runOuts, List.length_cons, List.take_succ_cons]
        rw [ho _ rfl, houts, habs]

/-- **FIFO reuse.** From any reachable state: give back the handed-out pages `ps` (in this order), then allocate as many pages
    as are free now. The allocations return first the pages that were free before, then `ps`, each in the order in which it
    was freed, and the file does not grow. -/
theorem dealloc_then_alloc_fifo {s : Alloc} {a : Abs} (h : Inv s a) (ps : List Nat) (hnd : ps.Nodup)
    (hsub : ∀ p ∈ ps, p ∈ a.used) (kd : Bool) (ks : List Bool) (hk : ks.length = a.free.length + ps.length) :
    (runOuts {} s (ps.map (Op.dealloc · kd) ++ ks.map Op.alloc)).2 =
        ps.map (fun _ => Out.ok) ++ (a.free ++ ps).map Out.page ∧
      (runOuts {} s (ps.map (Op.dealloc · kd) ++ ks.map Op.alloc)).1.total = s.total := by
  obtain ⟨a1, hi1, hfree1, htot1, houts1⟩ := deallocs_append (kd := kd) ps h hnd hsub
  obtain ⟨a2, hi2, _, htot2, houts2⟩ := allocs_pop ks hi1 (by rw [hfree1]; simp [hk])
  rw [runOuts_append]
  refine ⟨?_, ?_⟩
  · simp only
    rw [houts1, houts2, hfree1]
    have : ks.length = (a.free ++ ps).length := by simp [hk]
    rw [this, List.take_length]
  · simp only
    rw [hi2.total, htot2, htot1, h.total]

/-- **What a double free does** (the code has no check; `dealloc_page` of a page that is already free):
    * of the tail of the free list: nothing changes — the state still represents the same queue;
    * of any other free page `p` (free list `pre ++ p :: post`, `post ≠ []`): the list is cut after `p` — a reader finds
      `pre ++ [p]` — and every page of `post` is **lost**: neither free nor used, although inside the file. -/
theorem double_free_statement {s : Alloc} {a : Abs} (h : Inv s a) (p : Nat) (k : Bool) :
    (a.free ≠ [] → p = FileDump.lastD a.free → Inv (dealloc {} s p k).1 a) ∧
    (∀ pre post, a.free = pre ++ p :: post → post ≠ [] →
        freeList (dealloc {} s p k).1 = pre ++ [p] ∧ (dealloc {} s p k).1.total = s.total ∧
        ∀ q ∈ post, q ∉ freeList (dealloc {} s p k).1 ∧ q ∉ a.used ∧ 0 < q ∧ q < s.total) := by
  constructor
  · intro hne hpl
    have hlmem : FileDump.lastD a.free ∈ a.free := lastD_mem hne
    have hp0 : p ≠ 0 := by rw [hpl]; exact Nat.pos_iff_ne_zero.mp (h.free_pos _ hlmem).1
    have hfirst : s.first ≠ 0 := by
      rw [h.first_eq]
      cases hf : a.free with
      | nil => exact absurd hf hne
      | cons x xs => exact Nat.pos_iff_ne_zero.mp (h.free_pos x (by rw [hf]; simp)).1
    have hl : s.last = p := by rw [h.last, hpl]
    have hlk : s.ovf p ≠ some false := by rw [hpl]; exact h.kind _ hlmem
    have hd : dealloc {} s p k = ({ s with last := p, next := setF (setF s.next p p) p 0, ovf := setF (setF s.ovf p (some true)) p (some true) }, .ok ()) := by
      simp [dealloc, hp0, hfirst, hl, hlk]
    rw [hd]
    obtain ⟨pre, hpre⟩ := eq_append_lastD hne
    have hnd := h.freeNodup
    rw [hpre, List.nodup_append] at hnd
    have hppre : p ∉ pre := by rw [hpl]; exact fun hm => hnd.2.2 _ hm _ (by simp) rfl
    refine ⟨h.total, h.pos, ?_, ?_, h.freeNodup, h.usedNodup, h.disj, h.cover, h.count, ?_⟩
    · show Seg (setF (setF s.next p p) p 0) s.first a.free 0
      have hpath := h.path
      rw [hpre, seg_append] at hpath ⊢
      obtain ⟨b, hs1, hs2⟩ := hpath
      refine ⟨b, ?_, ?_⟩
      · rw [seg_setF hppre, seg_setF hppre]; exact hs1
      · rw [← hpl] at hs2 ⊢
        simp only [Seg] at hs2 ⊢
        exact ⟨hs2.1, hs2.2.1, by simp [setF]⟩
    · show p = FileDump.lastD a.free
      exact hpl
    · intro q hq
      show setF (setF s.ovf p (some true)) p (some true) q ≠ some false
      by_cases hqp : q = p
      · simp [setF, hqp]
      · simp only [setF, hqp, if_false]; exact h.kind q hq
  · intro pre post hfree hpost
    have hpm : p ∈ a.free := by rw [hfree]; simp
    have hp0 : p ≠ 0 := Nat.pos_iff_ne_zero.mp (h.free_pos p hpm).1
    have hne : a.free ≠ [] := by rw [hfree]; simp
    have hfirst : s.first ≠ 0 := by
      rw [h.first_eq]
      cases hf : a.free with
      | nil => exact absurd hf hne
      | cons x xs => exact Nat.pos_iff_ne_zero.mp (h.free_pos x (by rw [hf]; simp)).1
    have hlmem : FileDump.lastD a.free ∈ a.free := lastD_mem hne
    have hl0 : s.last ≠ 0 := by rw [h.last]; exact Nat.pos_iff_ne_zero.mp (h.free_pos _ hlmem).1
    have hlk : s.ovf s.last ≠ some false := by rw [h.last]; exact h.kind _ hlmem
    have hd : dealloc {} s p k = ({ s with last := p, next := setF (setF s.next s.last p) p 0, ovf := setF (setF s.ovf s.last (some true)) p (some true) }, .ok ()) := by
      simp [dealloc, hp0, hfirst, hl0, hlk]
    rw [hd]
    have hnd := h.freeNodup
    rw [hfree, List.nodup_append, List.nodup_cons] at hnd
    -- the tail lies in `post`
    have hlast_post : s.last ∈ post := by
      rw [h.last, hfree]
      have : FileDump.lastD (pre ++ p :: post) = FileDump.lastD post := by
        unfold FileDump.lastD
        rw [List.getLast?_append, List.getLast?_cons]
        cases hg : post.getLast? with
        | none => exact absurd (List.getLast?_eq_none_iff.mp hg) hpost
        | some x => simp
      rw [this]; exact lastD_mem hpost
    have hlpre : s.last ∉ pre := fun hm => hnd.2.2 _ hm _ (by simp [hlast_post]) rfl
    have hppre : p ∉ pre := fun hm => hnd.2.2 _ hm _ (by simp) rfl
    have hpath := h.path
    rw [hfree, seg_append] at hpath
    obtain ⟨b, hs1, hs2⟩ := hpath
    simp only [Seg] at hs2
    have hnew : Seg (setF (setF s.next s.last p) p 0) s.first (pre ++ [p]) 0 := by
      rw [seg_append]
      refine ⟨b, ?_, ?_⟩
      · rw [seg_setF hppre, seg_setF hlpre]; exact hs1
      · simp only [Seg]
        exact ⟨hs2.1, hs2.2.1, by simp [setF]⟩
    have hlen : (pre ++ [p]).length < s.total := by
      have := h.count; have := h.total
      have hl : a.free.length = pre.length + 1 + post.length := by rw [hfree]; simp; omega
      simp only [List.length_append, List.length_singleton]
      omega
    have hfl : freeList ({ s with last := p, next := setF (setF s.next s.last p) p 0, ovf := setF (setF s.ovf s.last (some true)) p (some true) } : Alloc) = pre ++ [p] :=
      walk_of_seg hnew hlen
    refine ⟨hfl, rfl, ?_⟩
    intro q hq
    have hqfree : q ∈ a.free := by rw [hfree]; simp [hq]
    refine ⟨?_, h.disj q hqfree, (h.free_pos q hqfree).1, by rw [h.total]; exact (h.free_pos q hqfree).2⟩
    rw [hfl]
    simp only [List.mem_append, List.mem_singleton]
    rintro (hqpre | hqp)
    · exact hnd.2.2 q hqpre q (by simp [hq]) rfl
    · subst hqp; exact hnd.2.1.1 hq

/-- Consequently a double free of a page that is not the tail breaks the partition: some page of the file is neither used nor free. -/
theorem double_free_breaks_partition {s : Alloc} {a : Abs} (h : Inv s a) (p : Nat) (k : Bool) (pre post : List Nat)
    (hfree : a.free = pre ++ p :: post) (hpost : post ≠ []) : ¬ Partition (dealloc {} s p k).1 a.used := by
  intro hpart
  obtain ⟨_, htot, hlost⟩ := (double_free_statement h p k).2 pre post hfree hpost
  cases post with
  | nil => exact hpost rfl
  | cons q qs =>
    obtain ⟨hnf, hnu, hq0, hqt⟩ := hlost q (by simp)
    have := (hpart.cover q).mp ⟨hq0, by rw [htot]; exact hqt⟩
    cases this with
    | inl hu => exact hnu hu
    | inr hf => exact hnf hf

/-! ### witnesses: the shipped `MemFrame::dealloc` kept the header of an overflow frame (KF-C11-dealloc-keeps-next, fixed) -/

/-- With the shipped defect, freeing the first page of a two-page overflow chain puts the second page — still in use — on the
    free list as well: the next two allocations hand out page 1 and then page 2 although page 2 was never freed. -/
theorem deallocKeepsNext_witness :
    let D : Defects := { deallocKeepsNext := true }
    let ops := [Op.alloc true, .alloc true, .link 1 2, .dealloc 1 true]
    freeList (run D Alloc.init ops) = [1, 2] ∧
      (runOuts D Alloc.init (ops ++ [.alloc true, .alloc true])).2 = [.page 1, .page 2, .ok, .ok, .page 1, .page 2] ∧
      freeList (run {} Alloc.init ops) = [1] := by
  decide

/-- With the shipped defect, a double free of the tail of the free list makes the page its own successor: the free list is
    cyclic and the page is handed out twice in a row (to two different owners). Without the defect the double free of the tail is harmless. -/
theorem deallocKeepsNext_double_free_witness :
    let D : Defects := { deallocKeepsNext := true }
    let ops := [Op.alloc true, .dealloc 1 true, .dealloc 1 true]
    (run D Alloc.init ops).next 1 = 1 ∧
      (runOuts D Alloc.init (ops ++ [.alloc true, .alloc true, .alloc true])).2 = [.page 1, .ok, .ok, .page 1, .page 1, .page 2] ∧
      (runOuts {} Alloc.init (ops ++ [.alloc true, .alloc true, .alloc true])).2 = [.page 1, .ok, .ok, .page 1, .page 2, .page 3] := by
  decide

end AxVerif.C11
