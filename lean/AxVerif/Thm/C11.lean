/-
  C11 — Every page has exactly one owner; freed pages are reused, never lost.

  Two parts.

  A. The page allocator of io/pager.rs (`Pages.alloc` / `Pages.dealloc`, pointer level: header fields and `next` links)
     refines a FIFO queue of free page ids (`Pages.Abs`) for every sequence of operations that respects the caller's contract
     (only pages that were handed out are given back). Consequences: used and free pages partition 1 … total-1 at every step,
     the free list a reader of the file finds is duplicate free and consistent with the recorded head and tail, the file
     never grows while a free page exists, pages are reused in the order in which they were freed. What the code does when the
     contract is broken (double free) is stated too. The tie is the `seq` cases of engine `pager`.

  B. `checkOwnership` is a verified checker for whole-file dumps of a real database (taken after every statement of the SQL
     histories of engine `pager`): an accepted dump *proves* that every page other than page zero is exactly one of: a node of
     exactly one tree, a link of exactly one overflow chain of exactly one stored cell, a member of the free list; that the
     free list is acyclic and consistent with the recorded head and tail; and that no page is lost.
-/
import AxVerif.Lemmas.Pages
import AxVerif.Thm.C10
namespace AxVerif.C11
open AxVerif.Pages
open AxVerif.BTree hiding Op Res

/-! ## A. the allocator -/

/-- The partition property at one moment: `used` are the pages handed out and not yet given back. -/
structure Partition (s : Alloc) (used : List Nat) : Prop where
  /-- the free list a reader finds has no duplicate (so it is acyclic) -/
  free_nodup : (freeList s).Nodup
  used_nodup : used.Nodup
  /-- no page is both free and used -/
  disjoint : ∀ p ∈ used, p ∉ freeList s
  /-- every page other than page zero is used or free: nothing is lost, nothing outside the file is listed -/
  cover : ∀ p, (0 < p ∧ p < s.total) ↔ (p ∈ used ∨ p ∈ freeList s)
  /-- the recorded head and tail are the ends of the list (0 = none) -/
  head : s.first = (freeList s).headD 0
  tail : s.last = FileDump.lastD (freeList s)

theorem partition_of_inv {s : Alloc} {a : Abs} (h : Inv s a) : Partition s a.used ∧ freeList s = a.free := by
  have hfl := h.freeList_eq
  refine ⟨⟨?_, h.usedNodup, ?_, ?_, ?_, ?_⟩, hfl⟩
  · rw [hfl]; exact h.freeNodup
  · intro p hp hq; rw [hfl] at hq; exact h.disj p hq hp
  · intro p; rw [hfl, h.total]; exact h.cover p
  · rw [hfl]; exact h.first_eq
  · rw [hfl]; exact h.last

/-- **Partition, for any sequence of operations.** Whatever sequence of allocations, deallocations of handed-out pages, link
    updates of handed-out pages and checkpoints is applied to a fresh file, the pointer-level state represents the
    specification state: used ∪ free = 1 … total-1, disjoint, free list duplicate free, head/tail consistent; and the free
    list found by walking the `next` links is the specification's queue. -/
theorem alloc_dealloc_preserve_partition (ops : List Op) (h : legal ops = true) :
    ∃ a, Abs.init.run ops = some a ∧ Partition (run {} Alloc.init ops) a.used ∧
      freeList (run {} Alloc.init ops) = a.free ∧ (run {} Alloc.init ops).total = a.total := by
  unfold legal at h
  cases hr : Abs.init.run ops with
  | none => rw [hr] at h; cases h
  | some a =>
    have hinv := run_inv ops inv_init hr
    exact ⟨a, rfl, (partition_of_inv hinv).1, (partition_of_inv hinv).2, hinv.total⟩

/-- the states the theorems below talk about: reached from a fresh file by a contract-respecting sequence -/
def Reachable (s : Alloc) (a : Abs) : Prop := ∃ ops, Abs.init.run ops = some a ∧ s = run {} Alloc.init ops

theorem reachable_inv {s : Alloc} {a : Abs} (h : Reachable s a) : Inv s a := by
  obtain ⟨ops, hr, rfl⟩ := h
  exact run_inv ops inv_init hr

/-- the hypothesis is satisfiable by a non-trivial state: three pages handed out, two given back -/
example : Reachable (run {} Alloc.init [.alloc false, .alloc true, .alloc false, .dealloc 2 true, .dealloc 1 false])
    { total := 4, free := [2, 1], used := [3] } := ⟨_, by decide, rfl⟩

/-- **Reuse before growth.** While the free list is not empty an allocation returns its head and the file keeps its size. -/
theorem alloc_reuses_before_growing {s : Alloc} {a : Abs} (h : Inv s a) (k : Bool) (p : Nat)
    (hp : (freeList s).head? = some p) :
    (alloc s k).2 = .ok p ∧ (alloc s k).1.total = s.total ∧ freeList (alloc s k).1 = (freeList s).tail := by
  obtain ⟨hi, ho⟩ := alloc_inv h k
  rw [h.freeList_eq] at hp ⊢
  cases hf : a.free with
  | nil => rw [hf] at hp; cases hp
  | cons x xs =>
    rw [hf] at hp
    simp only [List.head?_cons, Option.some.injEq] at hp
    subst hp
    have habs : a.alloc = ({ a with free := xs, used := x :: a.used }, x) := by simp [Abs.alloc, hf]
    rw [habs] at hi ho
    refine ⟨ho, ?_, ?_⟩
    · rw [hi.total, h.total]
    · rw [hi.freeList_eq]; rfl

/-- … and unconditionally: with a recorded free head the allocator never extends the file (not even when it fails). -/
theorem alloc_never_grows_with_free_head (s : Alloc) (k : Bool) (h : s.first ≠ 0) : (alloc s k).1.total = s.total := by
  unfold alloc
  simp only [h, if_false]
  split <;> rfl

/-- with an empty free list the file grows by exactly one page, which is the page returned -/
theorem alloc_grows_when_empty {s : Alloc} {a : Abs} (h : Inv s a) (k : Bool) (he : freeList s = []) :
    (alloc s k).2 = .ok s.total ∧ (alloc s k).1.total = s.total + 1 := by
  have hf : a.free = [] := by rw [← h.freeList_eq]; exact he
  have hfirst : s.first = 0 := by rw [h.first_eq, hf]; rfl
  simp [alloc, hfirst]

/-- **Page zero is never freed**: the call is rejected and nothing changes. -/
theorem dealloc_zero_rejected (D : Defects) (s : Alloc) (k : Bool) : dealloc D s 0 k = (s, .error .invalidInput) := by
  simp [dealloc]

/-- a freed page goes to the tail of the free list -/
theorem dealloc_appends {s : Alloc} {a : Abs} (h : Inv s a) (p : Nat) (k : Bool) (hp : p ∈ a.used) :
    freeList (dealloc {} s p k).1 = freeList s ++ [p] ∧ (dealloc {} s p k).1.total = s.total := by
  obtain ⟨hi, _⟩ := dealloc_inv h p k hp
  rw [hi.freeList_eq, h.freeList_eq]
  exact ⟨rfl, by rw [hi.total, h.total]; rfl⟩

/-- outputs of a run -/
def runOuts (D : Defects) (s : Alloc) : List Op → Alloc × List Out
  | [] => (s, [])
  | op :: ops =>
    let r := step D s op
    let rest := runOuts D r.1 ops
    (rest.1, r.2 :: rest.2)

theorem runOuts_append (D : Defects) : ∀ (xs ys : List Op) (s : Alloc),
    runOuts D s (xs ++ ys) = ((runOuts D (runOuts D s xs).1 ys).1, (runOuts D s xs).2 ++ (runOuts D (runOuts D s xs).1 ys).2) := by
  intro xs
  induction xs with
  | nil => intro ys s; simp [runOuts]
  | cons x xs ih => intro ys s; simp [runOuts, ih]

/-- giving back handed-out pages one after the other appends them to the queue in that order -/
theorem deallocs_append {kd : Bool} : ∀ (ps : List Nat) {s : Alloc} {a : Abs}, Inv s a → ps.Nodup → (∀ p ∈ ps, p ∈ a.used) →
    ∃ a', Inv (runOuts {} s (ps.map (Op.dealloc · kd))).1 a' ∧ a'.free = a.free ++ ps ∧ a'.total = a.total ∧
      (runOuts {} s (ps.map (Op.dealloc · kd))).2 = ps.map (fun _ => Out.ok) := by
  intro ps
  induction ps with
  | nil => intro s a h _ _; exact ⟨a, by simpa [runOuts] using h, by simp, rfl, by simp [runOuts]⟩
  | cons p ps ih =>
    intro s a h hnd hsub
    rw [List.nodup_cons] at hnd
    have hp : p ∈ a.used := hsub p (by simp)
    have hst : a.step (.dealloc p kd) = some (a.dealloc p) := by simp [Abs.step, hp]
    obtain ⟨hi, ho⟩ := step_inv h (.dealloc p kd) hst
    have hsub' : ∀ q ∈ ps, q ∈ (a.dealloc p).used := by
      intro q hq
      simp only [Abs.dealloc]
      rw [h.usedNodup.mem_erase_iff]
      exact ⟨fun he => hnd.1 (he ▸ hq), hsub q (by simp [hq])⟩
    obtain ⟨a', hi', hfree, htot, houts⟩ := ih hi hnd.2 hsub'
    refine ⟨a', by simpa [runOuts] using hi', ?_, ?_, ?_⟩
    · rw [hfree]; simp [Abs.dealloc]
    · rw [htot]; rfl
    · simp only [List.map_cons, runOuts]
      rw [ho _ rfl, houts]

/-- allocations pop the queue from its head, in order, without extending the file -/
theorem allocs_pop : ∀ (ks : List Bool) {s : Alloc} {a : Abs}, Inv s a → ks.length ≤ a.free.length →
    ∃ a', Inv (runOuts {} s (ks.map Op.alloc)).1 a' ∧ a'.free = a.free.drop ks.length ∧ a'.total = a.total ∧
      (runOuts {} s (ks.map Op.alloc)).2 = (a.free.take ks.length).map Out.page := by
  intro ks
  induction ks with
  | nil => intro s a h _; exact ⟨a, by simpa [runOuts] using h, by simp, rfl, by simp [runOuts]⟩
  | cons k ks ih =>
    intro s a h hlen
    cases hf : a.free with
    | nil => rw [hf] at hlen; simp at hlen
    | cons x xs =>
      have hst : a.step (.alloc k) = some a.alloc.1 := rfl
      obtain ⟨hi, ho⟩ := step_inv h (.alloc k) hst
      have habs : a.alloc = ({ a with free := xs, used := x :: a.used }, x) := by simp [Abs.alloc, hf]
      rw [habs] at hi
      have hlen' : ks.length ≤ xs.length := by rw [hf] at hlen; simpa using hlen
      obtain ⟨a', hi', hfree, htot, houts⟩ := ih hi hlen'
      refine ⟨a', by simpa [runOuts] using hi', ?_, ?_, ?_⟩
      · rw [hfree]; simp
      · rw [htot]
      · simp only [List.map_cons, runOuts, List.length_cons, List.take_succ_cons]
        rw [ho _ rfl, houts, habs]

/-- **FIFO reuse.** From any reachable state: give back the handed-out pages `ps` (in this order), then allocate as many pages
    as are free now. The allocations return first the pages that were free before, then `ps`, each in the order in which it
    was freed, and the file does not grow. -/
theorem dealloc_then_alloc_fifo {s : Alloc} {a : Abs} (h : Inv s a) (ps : List Nat) (hnd : ps.Nodup)
    (hsub : ∀ p ∈ ps, p ∈ a.used) (kd : Bool) (ks : List Bool) (hk : ks.length = a.free.length + ps.length) :
    (runOuts {} s (ps.map (Op.dealloc · kd) ++ ks.map Op.alloc)).2 =
        ps.map (fun _ => Out.ok) ++ (a.free ++ ps).map Out.page ∧
      (runOuts {} s (ps.map (Op.dealloc · kd) ++ ks.map Op.alloc)).1.total = s.total := by
  obtain ⟨a1, hi1, hfree1, htot1, houts1⟩ := deallocs_append (kd := kd) ps h hnd hsub
  obtain ⟨a2, hi2, _, htot2, houts2⟩ := allocs_pop ks hi1 (by rw [hfree1]; simp [hk])
  rw [runOuts_append]
  refine ⟨?_, ?_⟩
  · simp only
    rw [houts1, houts2, hfree1]
    have : ks.length = (a.free ++ ps).length := by simp [hk]
    rw [this, List.take_length]
  · simp only
    rw [hi2.total, htot2, htot1, h.total]

/-- **What a double free does** (the code has no check; `dealloc_page` of a page that is already free):
    * of the tail of the free list: nothing changes — the state still represents the same queue;
    * of any other free page `p` (free list `pre ++ p :: post`, `post ≠ []`): the list is cut after `p` — a reader finds
      `pre ++ [p]` — and every page of `post` is **lost**: neither free nor used, although inside the file. -/
theorem double_free_statement {s : Alloc} {a : Abs} (h : Inv s a) (p : Nat) (k : Bool) :
    (a.free ≠ [] → p = FileDump.lastD a.free → Inv (dealloc {} s p k).1 a) ∧
    (∀ pre post, a.free = pre ++ p :: post → post ≠ [] →
        freeList (dealloc {} s p k).1 = pre ++ [p] ∧ (dealloc {} s p k).1.total = s.total ∧
        ∀ q ∈ post, q ∉ freeList (dealloc {} s p k).1 ∧ q ∉ a.used ∧ 0 < q ∧ q < s.total) := by
  constructor
  · intro hne hpl
    have hlmem : FileDump.lastD a.free ∈ a.free := lastD_mem hne
    have hp0 : p ≠ 0 := by rw [hpl]; exact Nat.pos_iff_ne_zero.mp (h.free_pos _ hlmem).1
    have hfirst : s.first ≠ 0 := by
      rw [h.first_eq]
      cases hf : a.free with
      | nil => exact absurd hf hne
      | cons x xs => exact Nat.pos_iff_ne_zero.mp (h.free_pos x (by rw [hf]; simp)).1
    have hl : s.last = p := by rw [h.last, hpl]
    have hlk : s.ovf p ≠ some false := by rw [hpl]; exact h.kind _ hlmem
    have hd : dealloc {} s p k = ({ s with last := p, next := setF (setF s.next p p) p 0, ovf := setF (setF s.ovf p (some true)) p (some true) }, .ok ()) := by
      simp [dealloc, hp0, hfirst, hl, hlk]
    rw [hd]
    obtain ⟨pre, hpre⟩ := eq_append_lastD hne
    have hnd := h.freeNodup
    rw [hpre, List.nodup_append] at hnd
    have hppre : p ∉ pre := by rw [hpl]; exact fun hm => hnd.2.2 _ hm _ (by simp) rfl
    refine ⟨h.total, h.pos, ?_, ?_, h.freeNodup, h.usedNodup, h.disj, h.cover, h.count, ?_⟩
    · show Seg (setF (setF s.next p p) p 0) s.first a.free 0
      have hpath := h.path
      rw [hpre, seg_append] at hpath ⊢
      obtain ⟨b, hs1, hs2⟩ := hpath
      refine ⟨b, ?_, ?_⟩
      · rw [seg_setF hppre, seg_setF hppre]; exact hs1
      · rw [← hpl] at hs2 ⊢
        simp only [Seg] at hs2 ⊢
        exact ⟨hs2.1, hs2.2.1, by simp [setF]⟩
    · show p = FileDump.lastD a.free
      exact hpl
    · intro q hq
      show setF (setF s.ovf p (some true)) p (some true) q ≠ some false
      by_cases hqp : q = p
      · simp [setF, hqp]
      · simp only [setF, hqp, if_false]; exact h.kind q hq
  · intro pre post hfree hpost
    have hpm : p ∈ a.free := by rw [hfree]; simp
    have hp0 : p ≠ 0 := Nat.pos_iff_ne_zero.mp (h.free_pos p hpm).1
    have hne : a.free ≠ [] := by rw [hfree]; simp
    have hfirst : s.first ≠ 0 := by
      rw [h.first_eq]
      cases hf : a.free with
      | nil => exact absurd hf hne
      | cons x xs => exact Nat.pos_iff_ne_zero.mp (h.free_pos x (by rw [hf]; simp)).1
    have hlmem : FileDump.lastD a.free ∈ a.free := lastD_mem hne
    have hl0 : s.last ≠ 0 := by rw [h.last]; exact Nat.pos_iff_ne_zero.mp (h.free_pos _ hlmem).1
    have hlk : s.ovf s.last ≠ some false := by rw [h.last]; exact h.kind _ hlmem
    have hd : dealloc {} s p k = ({ s with last := p, next := setF (setF s.next s.last p) p 0, ovf := setF (setF s.ovf s.last (some true)) p (some true) }, .ok ()) := by
      simp [dealloc, hp0, hfirst, hl0, hlk]
    rw [hd]
    have hnd := h.freeNodup
    rw [hfree, List.nodup_append, List.nodup_cons] at hnd
    -- the tail lies in `post`
    have hlast_post : s.last ∈ post := by
      rw [h.last, hfree]
      have : FileDump.lastD (pre ++ p :: post) = FileDump.lastD post := by
        unfold FileDump.lastD
        rw [List.getLast?_append, List.getLast?_cons]
        cases hg : post.getLast? with
        | none => exact absurd (List.getLast?_eq_none_iff.mp hg) hpost
        | some x => simp
      rw [this]; exact lastD_mem hpost
    have hlpre : s.last ∉ pre := fun hm => hnd.2.2 _ hm _ (by simp [hlast_post]) rfl
    have hppre : p ∉ pre := fun hm => hnd.2.2 _ hm _ (by simp) rfl
    have hpath := h.path
    rw [hfree, seg_append] at hpath
    obtain ⟨b, hs1, hs2⟩ := hpath
    simp only [Seg] at hs2
    have hnew : Seg (setF (setF s.next s.last p) p 0) s.first (pre ++ [p]) 0 := by
      rw [seg_append]
      refine ⟨b, ?_, ?_⟩
      · rw [seg_setF hppre, seg_setF hlpre]; exact hs1
      · simp only [Seg]
        exact ⟨hs2.1, hs2.2.1, by simp [setF]⟩
    have hlen : (pre ++ [p]).length < s.total := by
      have := h.count; have := h.total
      have hl : a.free.length = pre.length + 1 + post.length := by rw [hfree]; simp; omega
      simp only [List.length_append, List.length_singleton]
      omega
    have hfl : freeList ({ s with last := p, next := setF (setF s.next s.last p) p 0, ovf := setF (setF s.ovf s.last (some true)) p (some true) } : Alloc) = pre ++ [p] :=
      walk_of_seg hnew hlen
    refine ⟨hfl, rfl, ?_⟩
    intro q hq
    have hqfree : q ∈ a.free := by rw [hfree]; simp [hq]
    refine ⟨?_, h.disj q hqfree, (h.free_pos q hqfree).1, by rw [h.total]; exact (h.free_pos q hqfree).2⟩
    rw [hfl]
    simp only [List.mem_append, List.mem_singleton]
    rintro (hqpre | hqp)
    · exact hnd.2.2 q hqpre q (by simp [hq]) rfl
    · subst hqp; exact hnd.2.1.1 hq

/-- Consequently a double free of a page that is not the tail breaks the partition: some page of the file is neither used nor free. -/
theorem double_free_breaks_partition {s : Alloc} {a : Abs} (h : Inv s a) (p : Nat) (k : Bool) (pre post : List Nat)
    (hfree : a.free = pre ++ p :: post) (hpost : post ≠ []) : ¬ Partition (dealloc {} s p k).1 a.used := by
  intro hpart
  obtain ⟨_, htot, hlost⟩ := (double_free_statement h p k).2 pre post hfree hpost
  cases post with
  | nil => exact hpost rfl
  | cons q qs =>
    obtain ⟨hnf, hnu, hq0, hqt⟩ := hlost q (by simp)
    have := (hpart.cover q).mp ⟨hq0, by rw [htot]; exact hqt⟩
    cases this with
    | inl hu => exact hnu hu
    | inr hf => exact hnf hf

/-! ### witnesses: the shipped `MemFrame::dealloc` kept the header of an overflow frame (KF-C11-dealloc-keeps-next, fixed) -/

/-- With the shipped defect, freeing the first page of a two-page overflow chain puts the second page — still in use — on the
    free list as well: the next two allocations hand out page 1 and then page 2 although page 2 was never freed. -/
theorem deallocKeepsNext_witness :
    let D : Defects := { deallocKeepsNext := true }
    let ops := [Op.alloc true, .alloc true, .link 1 2, .dealloc 1 true]
    freeList (run D Alloc.init ops) = [1, 2] ∧
      (runOuts D Alloc.init (ops ++ [.alloc true, .alloc true])).2 = [.page 1, .page 2, .ok, .ok, .page 1, .page 2] ∧
      freeList (run {} Alloc.init ops) = [1] := by
  decide

/-- With the shipped defect, a double free of the tail of the free list makes the page its own successor: the free list is
    cyclic and the page is handed out twice in a row (to two different owners). Without the defect the double free of the tail is harmless. -/
theorem deallocKeepsNext_double_free_witness :
    let D : Defects := { deallocKeepsNext := true }
    let ops := [Op.alloc true, .dealloc 1 true, .dealloc 1 true]
    (run D Alloc.init ops).next 1 = 1 ∧
      (runOuts D Alloc.init (ops ++ [.alloc true, .alloc true, .alloc true])).2 = [.page 1, .ok, .ok, .page 1, .page 1, .page 2] ∧
      (runOuts {} Alloc.init (ops ++ [.alloc true, .alloc true, .alloc true])).2 = [.page 1, .ok, .ok, .page 1, .page 2, .page 3] := by
  decide

/-! ## B. the verified checker -/

open FileDump

/-- exactly one of three -/
def ExactlyOne (a b c : Prop) : Prop := (a ∧ ¬b ∧ ¬c) ∨ (¬a ∧ b ∧ ¬c) ∨ (¬a ∧ ¬b ∧ c)

/-- `ts` are the trees read off the catalog roots, one per root, in the order of the roots: below every root the page graph
    is a tree of B-tree pages (no cycle: the extraction is fuel bounded and succeeded) -/
def TreesOf (f : FileDump) (ts : List T) : Prop :=
  AllRel (fun r t => treeOf (f.dumpOf r) = some t) f.roots ts

/-- `p` is a node of one of the trees -/
def TreeNode (ts : List T) (p : Nat) : Prop := ∃ t ∈ ts, p ∈ t.ids

/-- the overflow chains of the cells stored in the nodes of the trees: one entry per stored cell (page by page, slot by slot;
    `[]` for a cell without a chain) -/
def cellChains (f : FileDump) (ts : List T) : List (List Nat) := chainsOf Defects.none f (ts.map T.ids).flatten

/-- `p` is a link of the overflow chain of some stored cell -/
def OverflowLink (f : FileDump) (ts : List T) (p : Nat) : Prop := ∃ c ∈ cellChains f ts, p ∈ c

/-- the free list: starts at `first_free`, runs through overflow-shaped pages, ends at a page without successor, visits no
    page twice, and its last page is `last_free` (both 0 when the list is empty) -/
structure FreeListOk (f : FileDump) (fl : List Nat) : Prop where
  path : LinkPath f.link f.firstFree fl
  acyclic : fl.Nodup
  tail : lastD fl = f.lastFree

/-- in a well-formed free list the page recorded as `last_free` has `next = none` -/
theorem FreeListOk.tail_next_none {f : FileDump} {fl : List Nat} (h : FreeListOk f fl) (hne : fl ≠ []) :
    f.link f.lastFree = some 0 := by
  rw [← h.tail]; exact linkPath_last_none h.path hne

/-- … and an empty free list is recorded as (none, none) -/
theorem FreeListOk.empty_heads {f : FileDump} (h : FreeListOk f []) : f.firstFree = 0 ∧ f.lastFree = 0 :=
  ⟨h.path, by rw [← h.tail]; rfl⟩

/-- What an accepted dump establishes. -/
structure Ownership (f : FileDump) (ts : List T) (fl : List Nat) : Prop where
  trees : TreesOf f ts
  free : FreeListOk f fl
  /-- every page other than page zero has exactly one kind of owner -/
  exactlyOne : ∀ p, 0 < p → p < f.total → ExactlyOne (TreeNode ts p) (OverflowLink f ts p) (p ∈ fl)
  /-- nothing outside 1 … total-1 is a node, a chain link or a free page -/
  inFile : ∀ p, TreeNode ts p ∨ OverflowLink f ts p ∨ p ∈ fl → 0 < p ∧ p < f.total
  /-- a node belongs to exactly one tree … -/
  oneTree : ∀ (i j : Nat) (hi : i < ts.length) (hj : j < ts.length) (p : Nat), p ∈ ts[i].ids → p ∈ ts[j].ids → i = j
  /-- … and occurs once in it (no page is reached twice inside a tree) -/
  treeNodup : ∀ t ∈ ts, t.ids.Nodup
  /-- a chain link belongs to the chain of exactly one stored cell … -/
  oneCell : ∀ (i j : Nat) (hi : i < (cellChains f ts).length) (hj : j < (cellChains f ts).length) (p : Nat),
    p ∈ (cellChains f ts)[i] → p ∈ (cellChains f ts)[j] → i = j
  /-- … occurs once in it, and every chain is a list of overflow-shaped pages linked by `next` and ending with `next = none` -/
  chains : ∀ c ∈ cellChains f ts, c.Nodup ∧ LinkPath f.link (c.headD 0) c

theorem exactlyOne_of_append {a b c : List Nat} (h : (a ++ b ++ c).Nodup) (p : Nat) (hp : p ∈ a ++ b ++ c) :
    ExactlyOne (p ∈ a) (p ∈ b) (p ∈ c) := by
  rw [List.nodup_append, List.nodup_append] at h
  obtain ⟨⟨_, _, hab⟩, _, habc⟩ := h
  simp only [List.mem_append] at hp habc
  rcases hp with (ha | hb) | hc
  · exact Or.inl ⟨ha, fun hb => hab p ha p hb rfl, fun hc => habc p (Or.inl ha) p hc rfl⟩
  · exact Or.inr (Or.inl ⟨fun ha => hab p ha p hb rfl, hb, fun hc => habc p (Or.inr hb) p hc rfl⟩)
  · exact Or.inr (Or.inr ⟨fun ha => habc p (Or.inl ha) p hc rfl, fun hb => habc p (Or.inr hb) p hc rfl, hc⟩)

/-- **Soundness of the checker.** If `checkOwnership` accepts a dump then: below every catalog root the page graph is a
    tree; every page id in 1 … total-1 is exactly one of (a) a node of a tree — of exactly one tree, reached exactly once —,
    (b) a link of an overflow chain — of the chain of exactly one stored cell, exactly once, the chain being properly linked
    and terminated —, (c) a member of the free list; the free list starts at `first_free`, is acyclic, ends at `last_free`,
    whose `next` is none; no page is both free and used; and no page is unreachable ("lost"). -/
theorem checkOwnership_sound (f : FileDump) (h : checkOwnership f = true) :
    ∃ ts fl, f.trees = some ts ∧ f.freeWalk = some fl ∧ Ownership f ts fl := by
  unfold checkOwnership checkWith at h
  cases hts : f.trees with
  | none => simp [hts] at h
  | some ts =>
    cases hfl : f.freeWalk with
    | none => simp [hts, hfl] at h
    | some fl =>
      simp only [hts, hfl, Bool.and_eq_true, decide_eq_true_eq, beq_iff_eq] at h
      obtain ⟨⟨hchains, htail⟩, hsort⟩ := h
      refine ⟨ts, fl, rfl, rfl, ?_⟩
      -- the owners are a permutation of 1 … total-1
      have hperm : ((ts.map T.ids).flatten ++ (cellChains f ts).flatten ++ fl).Perm f.allPages := by
        have := msort_perm ((ts.map T.ids).flatten ++ (chainsOf Defects.none f (ts.map T.ids).flatten).flatten ++ fl).length
          ((ts.map T.ids).flatten ++ (chainsOf Defects.none f (ts.map T.ids).flatten).flatten ++ fl)
        rw [hsort] at this
        exact this.symm
      have hnd : ((ts.map T.ids).flatten ++ (cellChains f ts).flatten ++ fl).Nodup :=
        hperm.nodup_iff.mpr (List.nodup_range' (step := 1))
      have hmem : ∀ p, p ∈ (ts.map T.ids).flatten ++ (cellChains f ts).flatten ++ fl ↔ (0 < p ∧ p < f.total) := by
        intro p
        rw [hperm.mem_iff, allPages, List.mem_range'_1]
        omega
      have hnd' := hnd
      rw [List.nodup_append, List.nodup_append] at hnd'
      obtain ⟨⟨hndNodes, hndChains, _⟩, hndFree, _⟩ := hnd'
      have hnode : ∀ p, TreeNode ts p ↔ p ∈ (ts.map T.ids).flatten := by
        intro p
        simp only [TreeNode, List.mem_flatten, List.mem_map]
        constructor
        · rintro ⟨t, ht, hp⟩; exact ⟨t.ids, ⟨t, ht, rfl⟩, hp⟩
        · rintro ⟨l, ⟨t, ht, rfl⟩, hp⟩; exact ⟨t, ht, hp⟩
      have hlink : ∀ p, OverflowLink f ts p ↔ p ∈ (cellChains f ts).flatten := by
        intro p
        simp only [OverflowLink, List.mem_flatten]
      have hzero : ∀ c ∈ cellChains f ts, ∀ x ∈ c, x ≠ 0 := by
        intro c hc x hx hx0
        have : x ∈ (ts.map T.ids).flatten ++ (cellChains f ts).flatten ++ fl := by
          simp only [List.mem_append, List.mem_flatten]
          exact Or.inl (Or.inr ⟨c, hc, hx⟩)
        have := (hmem x).mp this
        omega
      refine ⟨?_, ⟨walkFree_path hfl, hndFree, htail⟩, ?_, ?_, ?_, ?_, ?_, ?_⟩
      · exact allSome_allRel (fun r => treeOf (f.dumpOf r)) hts
      · intro p hp0 hpt
        have hp := (hmem p).mpr ⟨hp0, hpt⟩
        have := exactlyOne_of_append hnd p hp
        simpa only [hnode, hlink] using this
      · intro p hp
        apply (hmem p).mp
        simp only [List.mem_append]
        rcases hp with hp | hp | hp
        · exact Or.inl (Or.inl ((hnode p).mp hp))
        · exact Or.inl (Or.inr ((hlink p).mp hp))
        · exact Or.inr hp
      · intro i j hi hj p hpi hpj
        have := (flatten_nodup_index hndNodes).1 i j (by simpa using hi) (by simpa using hj) p
          (by simpa using hpi) (by simpa using hpj)
        exact this
      · intro t ht
        exact (flatten_nodup_index hndNodes).2 t.ids (List.mem_map.mpr ⟨t, ht, rfl⟩)
      · exact (flatten_nodup_index hndChains).1
      · intro c hc
        refine ⟨(flatten_nodup_index hndChains).2 c hc, ?_⟩
        have hl := List.all_eq_true.mp hchains c hc
        exact chainLinked_path hl (hzero c hc)

/-- No page is both free and used, and no page is lost — the two halves of `exactlyOne`, spelled out. -/
theorem accepted_dump_no_overlap_no_loss (f : FileDump) (h : checkOwnership f = true) :
    ∃ ts fl, Ownership f ts fl ∧
      (∀ p ∈ fl, ¬ TreeNode ts p ∧ ¬ OverflowLink f ts p) ∧
      (∀ p, 0 < p → p < f.total → TreeNode ts p ∨ OverflowLink f ts p ∨ p ∈ fl) := by
  obtain ⟨ts, fl, _, _, ho⟩ := checkOwnership_sound f h
  refine ⟨ts, fl, ho, ?_, ?_⟩
  · intro p hp
    have hin := ho.inFile p (Or.inr (Or.inr hp))
    rcases ho.exactlyOne p hin.1 hin.2 with h1 | h1 | h1
    · exact absurd hp h1.2.2
    · exact absurd hp h1.2.2
    · exact ⟨h1.1, h1.2.1⟩
  · intro p hp0 hpt
    rcases ho.exactlyOne p hp0 hpt with h1 | h1 | h1
    · exact Or.inl h1.1
    · exact Or.inr (Or.inl h1.2.1)
    · exact Or.inr (Or.inr h1.2.2)

/-- The per-tree part through C10: a tree of an accepted file that `checkTree` accepts as well is a correct ordered map
    (sorted contents, scan = contents, lookups right for every key, uniform depth, levels linked) and it is the tree the
    ownership statement talks about. -/
theorem accepted_tree_checked (f : FileDump) (ts : List T) (fl : List Nat) (ho : Ownership f ts fl) (i : Nat)
    (hi : i < f.roots.length) (hc : checkTree (f.dumpOf f.roots[i]) = true) :
    ∃ (hj : i < ts.length), treeOf (f.dumpOf f.roots[i]) = some ts[i] ∧ ts[i].ids.Nodup ∧
      C10.Sorted (ts[i].toList) ∧ (∀ k, lookup (f.dumpOf f.roots[i]) k = alookup k ts[i].toList) ∧ C10.UniformDepth ts[i] := by
  have hlen := ho.trees.length_eq
  have hj : i < ts.length := by rw [← hlen]; exact hi
  have hrel := ho.trees.get i hi hj
  obtain ⟨t, ht, hlist, hsorted, _, hlook, hdepth, _, _, hnd, _⟩ := C10.checkTree_sound _ hc
  have : t = ts[i] := by rw [hrel] at ht; exact (Option.some.inj ht).symm
  subst this
  refine ⟨hj, hrel, hnd, ?_, ?_, hdepth⟩
  · rw [← hlist]; exact hsorted
  · intro k; rw [← hlist]; exact hlook k

/-! ### the checker is not vacuous -/

/-- A small file: catalog-less, one tree rooted at page 1 (an interior page with leaves 2 and 3), the second cell of leaf 3
    has a two-page overflow chain 4 → 5, pages 6 → 7 are free. -/
def exampleFile : FileDump :=
  { total := 8, firstFree := 6, lastFree := 7,
    link := fun i => if i = 4 then some 5 else if i = 5 then some 0 else if i = 6 then some 7 else if i = 7 then some 0 else none,
    page := fun i =>
      if i = 1 then some (.interior 0 0 3 [{ left := 2, key := 10 }])
      else if i = 2 then some (.leaf 0 3 [{ key := 3, val := (8, 1) }])
      else if i = 3 then some (.leaf 2 0 [{ key := 10, val := (5, 2) }, { key := 12, val := (9000, 9), chain := [4, 5] }])
      else none,
    roots := [1] }

example : checkOwnership exampleFile = true := by decide

/-- a page that nobody owns (page 7 dropped from the free list: the tail now is 6) is rejected -/
theorem checkOwnership_rejects_lost_page :
    checkOwnership
      { exampleFile with
        lastFree := 6
        link := fun i => if i = 4 then some 5 else if i = 5 then some 0 else if i = 6 then some 0 else if i = 7 then some 0 else none } = false := by
  decide

/-- a page that is both free and a chain link is rejected -/
theorem checkOwnership_rejects_free_and_used :
    checkOwnership
      { exampleFile with
        link := fun i => if i = 4 then some 5 else if i = 5 then some 0 else if i = 6 then some 7 else if i = 7 then some 5 else none
        lastFree := 5 } = false := by
  decide

/-- a cyclic free list is rejected -/
theorem checkOwnership_rejects_cycle :
    checkOwnership
      { exampleFile with
        link := fun i => if i = 4 then some 5 else if i = 5 then some 0 else if i = 6 then some 7 else if i = 7 then some 6 else none } = false := by
  decide

/-- a wrong recorded tail is rejected -/
theorem checkOwnership_rejects_wrong_tail : checkOwnership { exampleFile with lastFree := 6 } = false := by decide

/-- **KF-C11-divider-shares-chain** (the shape the rebalancer produces: the divider in the interior page is a copy of the leaf
    cell, overflow pointer included): the chain 4 → 5 is referenced by two cells, the checker rejects; the judge's tolerance
    flag `dividerSharesChain` (which does not count the chains of dividers) accepts exactly this. -/
def sharedDividerFile : FileDump :=
  { exampleFile with
    page := fun i =>
      if i = 1 then some (.interior 0 0 3 [{ left := 2, key := 10, chain := [4, 5] }])
      else if i = 2 then some (.leaf 0 3 [{ key := 3, val := (8, 1) }])
      else if i = 3 then some (.leaf 2 0 [{ key := 10, val := (9000, 9), chain := [4, 5] }])
      else none }

theorem dividerSharesChain_witness :
    checkOwnership sharedDividerFile = false ∧ checkWith { dividerSharesChain := true } sharedDividerFile = true := by
  decide

end AxVerif.C11
