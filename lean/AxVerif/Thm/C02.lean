/-
  C02 — A crash leaves no trace of unfinished or rolled-back transactions.

  With `recover_crash_eq_replay_durable` (C01) the recovered state is `replay [] D` for the durable log `D`.
  The theorems here say what that state can contain: only transactions with a durable COMMIT (not followed by an
  ABORT), each with all of its operations; erasing every record of a loser changes nothing.
-/
import AxVerif.Thm.C01
namespace AxVerif.Recovery
open AxVerif AxVerif.Durable

/-- analysis of other transactions is unaffected by erasing transaction `t` -/
theorem isWinner_filter_ne (rs : List Rec) (t t' : Nat) (h : t' ≠ t) :
    isWinner (rs.filter (fun r => r.tid != t)) t' = isWinner rs t' := by
  have gen : ∀ (rs : List Rec) (w : Bool),
      (rs.filter (fun r => r.tid != t)).foldl (winnerStep t') w = rs.foldl (winnerStep t') w := by
    intro rs
    induction rs with
    | nil => intro w; rfl
    | cons r rs ih =>
      intro w
      by_cases e : r.tid = t
      · have : (r.tid != t) = false := by simp [e]
        simp only [List.filter_cons, this, List.foldl_cons]
        rw [winnerStep_of_ne (by rw [e]; exact fun x => h x.symm)]
        exact ih w
      · have : (r.tid != t) = true := by simp [e]
        simp only [List.filter_cons, this, List.foldl_cons, if_true]
        exact ih _
  exact gen rs false

/-- **No trace of a loser.** If transaction `t` is not a winner of the durable log `D` (still open at the crash,
    rolled back, failed, or its COMMIT never reached the disk), then recovery yields exactly what it would yield had
    `t` never written a single record. -/
theorem loser_leaves_no_trace (s : DbState) (D : List Rec) (t : Nat) (h : isWinner D t = false) :
    replay s D = replay s (D.filter (fun r => r.tid != t)) := by
  have gen : ∀ (rs : List Rec) (s : DbState),
      rs.foldl (redoStep D) s = (rs.filter (fun r => r.tid != t)).foldl (redoStep (D.filter (fun r => r.tid != t))) s := by
    intro rs
    induction rs with
    | nil => intro s; rfl
    | cons r rs ih =>
      intro s
      by_cases e : r.tid = t
      · have hf : (r.tid != t) = false := by simp [e]
        simp only [List.filter_cons, hf, List.foldl_cons]
        have : redoStep D s r = s := by
          cases r with
          | op t' d => simp only [Rec.tid] at e; subst e; simp [redoStep, h]
          | commit t' => rfl
          | abort t' => rfl
        rw [this]; exact ih s
      · have hf : (r.tid != t) = true := by simp [e]
        simp only [List.filter_cons, hf, List.foldl_cons, if_true]
        have : redoStep D s r = redoStep (D.filter (fun r => r.tid != t)) s r := by
          cases r with
          | op t' d =>
            simp only [Rec.tid] at e
            simp only [redoStep, isWinner_filter_ne D t t' e]
          | commit t' => rfl
          | abort t' => rfl
        rw [this]; exact ih _
  exact gen D s

/-- Only a transaction with a durable COMMIT record can contribute to the recovered state. -/
theorem only_committed_contribute (D : List Rec) (t : Nat) (h : Rec.commit t ∉ D) (s : DbState) :
    replay s D = replay s (D.filter (fun r => r.tid != t)) := by
  apply loser_leaves_no_trace
  cases hw : isWinner D t with
  | false => rfl
  | true => exact absurd (commit_mem_of_isWinner hw) h

/-- **C02.** For every trace, every crash point and every transaction: if its COMMIT record is not durable at the
    crash point (it was open, rolled back, failed, or committing but not yet forced), the recovered database equals
    the one recovered from the durable history with that transaction erased; if it is durable (acknowledged, or in
    flight with its COMMIT forced), then *all* of its records are durable (C01), so it is visible as a whole. -/
theorem crash_shows_whole_transactions_only (es : List Ev) (hw : WfRecs (appended es)) (k t : Nat) :
    (Rec.commit t ∉ durable (es.take k) →
        recover (crash (run (es.take k))) = replay [] ((durable (es.take k)).filter (fun r => r.tid != t))) ∧
    (Rec.commit t ∈ durable (es.take k) →
        ∃ rest, appended es = durable (es.take k) ++ rest ∧ ∀ r ∈ rest, r.tid ≠ t) := by
  have hsplit : es = es.take k ++ es.drop k := (List.take_append_drop k es).symm
  have happ : appended es = appended (es.take k) ++ appended (es.drop k) := by
    conv => lhs; rw [hsplit]
    exact appended_append _ _
  have hwk : WfRecs (appended (es.take k)) := by rw [happ] at hw; exact hw.left
  constructor
  · intro hn
    rw [recover_crash_eq_replay_durable _ hwk]
    exact only_committed_contribute _ t hn []
  · intro hc
    have hD : durable (es.take k) = (appended (es.take k)).take (counts (es.take k)).1 := durable_eq _
    refine ⟨(appended (es.take k)).drop (counts (es.take k)).1 ++ appended (es.drop k), ?_, ?_⟩
    · rw [happ, hD, ← List.append_assoc, List.take_append_drop]
    · intro r hrm e
      have hw2 : WfRecs (durable (es.take k) ++
          ((appended (es.take k)).drop (counts (es.take k)).1 ++ appended (es.drop k))) := by
        rw [hD, ← List.append_assoc, List.take_append_drop, ← happ]; exact hw
      exact (List.pairwise_append.mp hw2).2.2 _ hc r hrm ⟨rfl, by rw [e]; rfl⟩

/-- A rolled-back transaction stays a loser whatever is logged afterwards by others. -/
theorem rolled_back_is_loser (a b : List Rec) (t : Nat) (hb : ∀ r ∈ b, r.tid ≠ t) :
    isWinner (a ++ [Rec.abort t] ++ b) t = false := by
  rw [isWinner_append_right hb]
  simp [isWinner, List.foldl_append, winnerStep]

/-- Witness for the shipped defect "rollback logged as COMMIT": the rolled-back insert is redone. -/
theorem abortLoggedAsCommit_witness :
    replay [("t", [])] [Rec.op 1 (.ins "t" 1 10), Rec.commit 1] = [("t", [(1, 10)])] ∧
    replay [("t", [])] [Rec.op 1 (.ins "t" 1 10), Rec.abort 1] = [("t", [])] := by decide

/-- Witness for "checkpoint with a transaction open": once the log is truncated nothing can undo the open
    transaction's rows that the checkpoint wrote — the model refuses to truncate in that situation. -/
theorem checkpoint_keeps_log_of_open_txn :
    let s := run [Ev.append (.op 1 (.ins "t" 1 10)), Ev.checkpoint]
    s.log = [Rec.op 1 (.ins "t" 1 10)] ∧ s.stable = [] := by decide

end AxVerif.Recovery
