/-
  C15 — Schema changes are transactional and the catalog stays coherent.

  Theorems for `Defects.none`, for EVERY history of DDL and DML operations (`Ddl.DOp`): any number of sessions,
  tables, interleavings, committed and rolled-back transactions, reopen.  In the model the catalog is data: one
  row per relation in the table `$meta` of the same versioned store (`Model/Ddl.lean`), so DDL obeys the
  transaction machinery proved in C04 / C03 / C07.  `Ddl.run D ops` = (final state, outputs) of the MVCC machine,
  `Ddl.Spec.run` of the abstract machine in which a transaction works on `base ⊕ own effects`.
-/
import AxVerif.Lemmas.DdlCat
namespace AxVerif.Ddl.C15
open AxVerif.Db AxVerif.Ddl

/-! ## DDL is atomic with its transaction -/

/-- **Refinement.**  On every history of DDL and DML the MVCC machine answers exactly like the abstract machine:
    DDL outcomes, name resolution of every later statement (`notfound` or not), every `SELECT *`, every commit. -/
theorem ddl_refines (ops : List DOp) : (run Defects.none ops).2 = (Spec.run ops).2 := drefine ops

/-- a statement — DDL or DML — changes nothing but the executing transaction's own record (and appends to the
    descriptor heap): the committed database and every other session are untouched until the commit -/
theorem ddl_invisible_until_commit (α : Spec.State) (s : String) (st : DStmt) :
    (Spec.step α (.exec s st)).1.db.committed = α.db.committed ∧ (Spec.step α (.exec s st)).1.db.log = α.db.log ∧
    ∀ n, n ≠ s → lookup n (Spec.step α (.exec s st)).1.db.sessions = lookup n α.db.sessions := by
  unfold Spec.step
  simp only [Spec.stepCore]
  cases lookup s α.db.sessions with
  | none => exact ⟨rfl, rfl, fun _ _ => rfl⟩
  | some a =>
    refine ⟨rfl, rfl, ?_⟩
    intro n hn
    show lookup n ((s, _) :: erase s α.db.sessions) = _
    rw [lookup_cons_if, lookup_erase_if]
    simp [hn]

/-- **Aborted: as if it never ran.**  ROLLBACK and session drop discard the transaction's record; the committed
    database, the commit log and all other sessions stay exactly as they were — whatever DDL the transaction did. -/
theorem ddl_atomic_abort (α : Spec.State) (s : String) :
    (Spec.step α (.rollback s)).1.db.committed = α.db.committed ∧ (Spec.step α (.rollback s)).1.db.log = α.db.log ∧
    lookup s (Spec.step α (.rollback s)).1.db.sessions = none ∧
    ∀ n, n ≠ s → lookup n (Spec.step α (.rollback s)).1.db.sessions = lookup n α.db.sessions := by
  unfold Spec.step
  simp only [Spec.stepCore, Spec.liftDb, Db.Spec.stepCore]
  cases hl : lookup s α.db.sessions with
  | none => exact ⟨rfl, rfl, hl, fun _ _ => rfl⟩
  | some a =>
    refine ⟨rfl, rfl, ?_, ?_⟩
    · show lookup s (erase s α.db.sessions) = none
      exact lookup_erase_self s _
    · intro n hn
      show lookup n (erase s α.db.sessions) = _
      exact lookup_erase_ne s n _ hn

/-- a refused commit (write-write conflict, or the committed catalog / data would violate a constraint, e.g. two
    live relations of one name) publishes nothing -/
theorem ddl_atomic_refused (α : Spec.State) (a : Db.Spec.ATxn) (e : Err) (h : (α.commitC a).2 = some e) :
    (α.commitC a).1.db.committed = α.db.committed ∧ (α.commitC a).1.db.log = α.db.log := by
  unfold Spec.State.commitC at h ⊢
  simp only at h ⊢
  unfold Db.Spec.State.commitC at h ⊢
  simp only at h ⊢
  split
  · rename_i h1
    simp only [h1, if_true] at h
    split
    · exact ⟨rfl, rfl⟩
    · rename_i h2; simp [h2] at h
  · exact ⟨rfl, rfl⟩

/-- **Committed: all of it at once.**  A successful commit replaces, in the committed database, exactly the rows the
    transaction wrote — meta rows (its DDL) and data rows (its DML) alike — by the transaction's final version of them;
    every transaction beginning later starts from that database. -/
theorem ddl_atomic_commit (α : Spec.State) (a : Db.Spec.ATxn) (h : (α.commitC a).2 = none) :
    (α.commitC a).1.db.committed = takeOver α.db.committed a.view a.ws := by
  unfold Spec.State.commitC at h ⊢
  simp only at h ⊢
  unfold Db.Spec.State.commitC at h ⊢
  simp only at h ⊢
  split
  · rename_i h1
    simp only [h1, if_true] at h
    split
    · rename_i h2; simp [h2] at h
    · show (Db.Spec.State.commitTxn _ a).1.committed = _
      have hok : (Db.Spec.State.commitTxn { α.db with cat := catOf α.heap (α.db.commitTxn a).1.committed } a).2 = true := h1
      unfold Db.Spec.State.commitTxn at hok ⊢
      split
      · rename_i hc; simp [hc] at hok
      · rfl
  · rename_i h1; simp [h1] at h

/-- store level: in every reachable state of the MVCC machine, the snapshot of any transaction reads the same from the
    store with all stamps of a non-committed transaction `tid` (its meta-row and data-row versions and delete marks)
    physically removed -/
theorem ddl_abort_erases_store (ops : List DOp) (tid tid' : Nat) (t t' : Txn)
    (ht : (run Defects.none ops).1.db.txns[tid]? = some t) (hnc : t.status ≠ .committed)
    (ht' : (run Defects.none ops).1.db.txns[tid']? = some t') (hne : tid' ≠ tid) :
    view Defects.none t'.snap (eraseTxn tid (run Defects.none ops).1.db.rows) =
      view Defects.none t'.snap (run Defects.none ops).1.db.rows := by
  have hc := (dreach_rel ops).1.core.cinv
  apply view_eraseTxn
  have hx : t'.snap.xid = tid' := hc.xid tid' t' ht'
  cases hcb : t'.snap.cb tid with
  | false => simp [Snapshot.sees, hx, hcb]; exact fun e => hne e.symm
  | true =>
    exfalso
    have := (hc.snap_clog tid' t' ht' tid (fun e => hne e.symm)).1 hcb
    obtain ⟨en, hen, hen1⟩ := List.mem_map.1 this
    obtain ⟨tu, h1, h2, _⟩ := hc.clog_comm en (List.mem_of_mem_take hen)
    rw [hen1, ht] at h1; cases h1
    exact hnc h2

/-! ## names -/

/-- **A name resolves exactly while the relation exists** in the transaction's view: `resolve` succeeds iff the view
    holds a meta row of that name whose descriptor is on the heap. -/
theorem name_visible_iff_exists (h : Heap) (v : View) (n : String) :
    (resolve h v n).isSome = true ↔
      ∃ r, r ∈ v ∧ r.table = metaName ∧ nameOf r = some n ∧ metaRow v n = some r ∧
        ∃ k ts, handleOf r = some k ∧ h.get k = some ts := by
  unfold resolve
  constructor
  · intro hs
    cases hm : metaRow v n with
    | none => simp [hm] at hs
    | some r =>
      simp only [hm] at hs
      have hmem := List.mem_of_find?_eq_some hm
      have hp := List.find?_some hm
      simp only [Bool.and_eq_true, beq_iff_eq] at hp
      cases hk : handleOf r with
      | none => simp [hk] at hs
      | some k =>
        simp only [hk] at hs
        cases hg : h.get k with
        | none => simp [hg] at hs
        | some ts => exact ⟨r, hmem, hp.1, hp.2, rfl, k, ts, hk, hg⟩
  · rintro ⟨r, _, _, _, hm, k, ts, hk, hg⟩
    simp [hm, hk, hg]

/-- column level: a column name resolves iff a column of that name is in the current descriptor -/
theorem column_visible_iff_exists (ts : TableSchema) (c : String) :
    (colPos ts c).isSome = true ↔ ∃ col ∈ ts.cols, col.name = c := by
  have aux : ∀ (cols : List Col) (k : Nat), (colIndexAux c cols k).isSome = true ↔ ∃ col ∈ cols, col.name = c := by
    intro cols
    induction cols with
    | nil => intro k; simp [colIndexAux]
    | cons x xs ih =>
      intro k
      unfold colIndexAux
      by_cases hx : (x.name == c) = true
      · simp only [hx, if_true, Option.isSome_some, true_iff]
        exact ⟨x, List.mem_cons_self .., by simpa using hx⟩
      · have hx' : (x.name == c) = false := by simpa using hx
        simp only [hx', Bool.false_eq_true, if_false, ih (k + 1), List.mem_cons]
        constructor
        · rintro ⟨col, hm, hn⟩; exact ⟨col, Or.inr hm, hn⟩
        · rintro ⟨col, hm | hm, hn⟩
          · subst hm; simp [hn] at hx'
          · exact ⟨col, hm, hn⟩
  unfold colPos colIndex
  simp only [Option.isSome_map]
  exact aux ts.cols 0

/-- a statement naming a column that is not in the descriptor answers `notfound` (no silent alias):
    e.g. a SELECT with a predicate on a dropped column -/
theorem select_on_missing_column (cat : Catalog) (c j : Nat) (v : View) (t : String) (ts : TableSchema) (p : Pred)
    (ht : findTable cat t = some ts) (hc : colIndex ts p.col = none) :
    planStmt none cat c j v (.sel t (some p)) = ⟨[], .err .notfound⟩ := by
  simp [planStmt, ht, bindPred, hc]

/-- a DML statement on a name that does not resolve answers `notfound` and changes nothing -/
theorem dml_on_missing_name (α : Spec.State) (a : Db.Spec.ATxn) (s : Stmt)
    (h : resolve α.heap a.view (Stmt.table s) = none) : Spec.dml α a s = (a, α.heap, .err .notfound) := by
  simp [Spec.dml, resolveDml, h]

/-- **The names of the live committed relations are unique** (name → relation injective), after every prefix of every
    history: the meta table's `UNIQUE(name)` is re-checked at every commit. -/
theorem catalog_names_unique_spec (ops : List DOp) : namesOk (Spec.run ops).1.db.committed = true :=
  spec_final_names ops Spec.State.init (by simp [Spec.State.init, Db.Spec.State.init, namesOk, constraintsHold])

/-- the same for the MVCC machine: what a transaction beginning now reads from `$meta` has unique names -/
theorem catalog_wellformed_invariant (ops : List DOp) :
    namesOk (view Defects.none ((run Defects.none ops).1.db.freshSnap Defects.none) (run Defects.none ops).1.db.rows) = true := by
  have hc := (dreach_rel ops).1.core.committed
  have : view Defects.none ((run Defects.none ops).1.db.freshSnap Defects.none) (run Defects.none ops).1.db.rows =
      (Spec.run ops).1.db.committed := hc
  rw [this]
  exact catalog_names_unique_spec ops

/-- CREATE TABLE on a name the transaction can see is refused; on a free name it inserts one meta row and writes a
    descriptor under a fresh internal name -/
theorem create_table_iff (h : Heap) (c : Nat) (v : View) (n : String) (cols : List Col) (us : List (List Nat)) :
    (metaRow v n = none →
      planDdl h c v (.createTable n cols us) =
        ⟨[.ins (c, 0) metaName [.text n, .int c]], .okN 0, some { name := mkName c, cols := cols, uniques := us }⟩) ∧
    (metaRow v n ≠ none → planDdl h c v (.createTable n cols us) = failD .other) := by
  constructor
  · intro hm; simp [planDdl, hm]
  · intro hm
    cases hmr : metaRow v n with
    | none => exact (hm hmr).elim
    | some r => simp [planDdl, hmr]

/-- internal names of different CREATE operations differ: a re-created table never meets the rows of its predecessor -/
theorem mkName_injective (a b : Nat) (h : mkName a = mkName b) : a = b := by
  unfold mkName at h
  have := String.ofList_inj.1 h
  have := congrArg List.length this
  simpa using this

/-- **A dropped name can be reused.**  After DROP TABLE the name does not resolve in the transaction's view; CREATE
    TABLE of that name succeeds there. -/
theorem dropped_name_reusable (h : Heap) (c c' : Nat) (v : View) (n : String) (m : ARow) (ts : TableSchema)
    (cols : List Col) (us : List (List Nat)) (hr : resolve h v n = some (m, ts))
    (huniq : ∀ r ∈ v, r.table = metaName → nameOf r = some n → r.rid = m.rid) :
    (planDdl h c v (.dropTable n)).effs = [.del m.rid] ∧
    metaRow (v.applyAll [.del m.rid]) n = none ∧
    (planDdl h c' (v.applyAll [.del m.rid]) (.createTable n cols us)).out = .okN 0 := by
  have h1 : (planDdl h c v (.dropTable n)).effs = [.del m.rid] := by simp [planDdl, hr]
  have h2 : metaRow (v.applyAll [.del m.rid]) n = none := by
    simp only [View.applyAll, List.foldl_cons, List.foldl_nil, View.apply, metaRow]
    apply List.find?_eq_none.2
    intro r hr'
    simp only [List.mem_filterMap] at hr'
    obtain ⟨r0, hr0, hap⟩ := hr'
    simp only [ARow.apply] at hap
    by_cases hne : r0.rid = m.rid
    · simp [hne] at hap
    · simp only [hne, if_false, Option.some.injEq] at hap
      subst hap
      simp only [Bool.and_eq_true, beq_iff_eq, not_and]
      intro ht hn
      exact hne (huniq r0 hr0 ht hn)
  refine ⟨h1, h2, ?_⟩
  rw [(create_table_iff h c' _ n cols us).1 h2]

/-! ## frame: DDL on one table touches nothing else -/

/-- every effect of a DDL statement on relation `t` concerns `t`'s meta row, or a data row of `t`'s internal name
    (deleted, or re-inserted with the new shape); CREATE TABLE only inserts its own meta row -/
theorem ddl_frame (h : Heap) (c : Nat) (v : View) (st : DStmt) (t : String) (m : ARow) (ts : TableSchema)
    (hst : st = .addKey t pk cols ∨ st = .addColumn t col d ∨ st = .dropColumn t cn ∨ st = .setNotNull t cn ∨
      st = .dropNotNull t cn ∨ st = .dropTable t)
    (hr : resolve h v t = some (m, ts)) :
    ∀ e ∈ (planDdl h c v st).effs,
      e = .upd m.rid 1 (.int c) ∨ e = .del m.rid ∨
      (∃ r ∈ v, r.table = ts.name ∧ e = .del r.rid) ∨ (∃ j vals, e = .ins (c, j) ts.name vals) := by
  have hrw : ∀ (f : List Val → List Val) (rows : List ARow) (j : Nat), (∀ r ∈ rows, r ∈ v) →
      ∀ e ∈ rewriteRows c ts.name f rows j,
        (∃ r ∈ v, r.table = ts.name ∧ e = .del r.rid) ∨ (∃ j vals, e = .ins (c, j) ts.name vals) := by
    intro f rows
    induction rows with
    | nil => intro j _ e he; simp [rewriteRows] at he
    | cons r rs ih =>
      intro j hsub e he
      unfold rewriteRows at he
      split at he
      · rename_i ht
        simp only [List.mem_cons] at he
        rcases he with he | he | he
        · exact Or.inl ⟨r, hsub r (List.mem_cons_self ..), by simpa using ht, he⟩
        · exact Or.inr ⟨j, _, he⟩
        · exact ih (j + 1) (fun x hx => hsub x (List.mem_cons_of_mem _ hx)) e he
      · exact ih j (fun x hx => hsub x (List.mem_cons_of_mem _ hx)) e he
  intro e he
  rcases hst with rfl | rfl | rfl | rfl | rfl | rfl
  · simp only [planDdl, hr] at he
    revert he
    repeat' split
    all_goals intro he
    all_goals first
      | (simp [failD] at he; done)
      | (simp only [List.mem_singleton] at he; exact Or.inl he)
  · simp only [planDdl, hr] at he
    split at he
    · simp [failD] at he
    · simp only [List.mem_cons] at he
      rcases he with he | he
      · exact Or.inl he
      · exact Or.inr (Or.inr (hrw _ v 0 (fun _ hx => hx) e he))
  · simp only [planDdl, hr] at he
    split at he
    · simp [failD] at he
    · simp only [List.mem_cons] at he
      rcases he with he | he
      · exact Or.inl he
      · exact Or.inr (Or.inr (hrw _ v 0 (fun _ hx => hx) e he))
  · simp only [planDdl, hr] at he
    split at he
    · simp [failD] at he
    · split at he
      · simp [failD] at he
      · simp only [List.mem_singleton] at he; exact Or.inl he
  · simp only [planDdl, hr] at he
    split at he
    · simp [failD] at he
    · simp only [List.mem_singleton] at he; exact Or.inl he
  · simp only [planDdl, hr, List.mem_singleton] at he
    exact Or.inr (Or.inl he)

/-- descriptors are only ever appended: whatever a handle resolved to, it resolves to for ever — a schema change of
    one relation never changes the descriptor another relation's meta row points to -/
theorem heap_append_keeps (h : Heap) (c : Nat) (d : Option TableSchema) (k : Nat) (ts : TableSchema)
    (hk : h.get k = some ts) : (addDesc h c d).get k = some ts := by
  cases d with
  | none => exact hk
  | some x =>
    unfold addDesc Heap.get at *
    rw [List.find?_append]
    cases hf : h.find? (fun e => e.1 == k) with
    | none => simp [hf] at hk
    | some e => simpa [hf] using hk

/-! ## shape of existing rows after ADD / DROP COLUMN -/

/-- the effects of ADD COLUMN: the meta row gets the new descriptor (old columns ++ the new one), and every row of the
    table that the transaction sees is re-written with the default (NULL if none) appended -/
theorem add_column_reads_default_or_null (h : Heap) (c : Nat) (v : View) (t : String) (col : Col) (d : Val)
    (m : ARow) (ts : TableSchema) (hr : resolve h v t = some (m, ts)) (hfree : colPos ts col.name = none) :
    planDdl h c v (.addColumn t col d) =
      ⟨.upd m.rid 1 (.int c) :: rewriteRows c ts.name (fun vals => vals ++ [d]) v 0, .okN 0,
        some { ts with cols := ts.cols ++ [col] }⟩ := by
  simp [planDdl, hr, hfree]

/-- the effects of DROP COLUMN: the column leaves the descriptor (key sets containing it go, the others are
    re-indexed) and every row of the table that the transaction sees is re-written without it; the remaining columns
    keep their values (`List.eraseIdx`) -/
theorem drop_column_disappears (h : Heap) (c : Nat) (v : View) (t cn : String) (i : Nat)
    (m : ARow) (ts : TableSchema) (hr : resolve h v t = some (m, ts)) (hi : colPos ts cn = some i) :
    planDdl h c v (.dropColumn t cn) =
      ⟨.upd m.rid 1 (.int c) :: rewriteRows c ts.name (fun vals => vals.eraseIdx i) v 0, .okN 0,
        some { ts with cols := ts.cols.eraseIdx i, uniques := dropFromKeys i ts.uniques }⟩ := by
  simp [planDdl, hr, hi]

/-- what the re-write does to a view, row by row: a row of the table is deleted and re-inserted with `f` applied to
    its values (new row id of this operation), every other row is not mentioned -/
theorem rewriteRows_spec (c : Nat) (tname : String) (f : List Val → List Val) : ∀ (rows : List ARow) (j : Nat),
    (rewriteRows c tname f rows j).length = 2 * (rows.filter (fun r => r.table == tname)).length ∧
    ∀ r ∈ rows, r.table = tname →
      Effect.del r.rid ∈ rewriteRows c tname f rows j ∧ ∃ k, Effect.ins (c, k) tname (f r.vals) ∈ rewriteRows c tname f rows j
  | [], j => by simp [rewriteRows]
  | r :: rs, j => by
    unfold rewriteRows
    by_cases ht : (r.table == tname) = true
    · obtain ⟨ih1, ih2⟩ := rewriteRows_spec c tname f rs (j + 1)
      simp only [ht, if_true, List.length_cons, List.filter_cons]
      refine ⟨by omega, ?_⟩
      intro x hx hxt
      rcases List.mem_cons.1 hx with e | hx'
      · subst e
        exact ⟨List.mem_cons_self .., j, List.mem_cons_of_mem _ (List.mem_cons_self ..)⟩
      · obtain ⟨g1, k, g2⟩ := ih2 x hx' hxt
        exact ⟨List.mem_cons_of_mem _ (List.mem_cons_of_mem _ g1), k, List.mem_cons_of_mem _ (List.mem_cons_of_mem _ g2)⟩
    · obtain ⟨ih1, ih2⟩ := rewriteRows_spec c tname f rs j
      have ht' : (r.table == tname) = false := by simpa using ht
      simp only [ht', Bool.false_eq_true, if_false, List.filter_cons]
      refine ⟨ih1, ?_⟩
      intro x hx hxt
      rcases List.mem_cons.1 hx with e | hx'
      · subst e; simp [hxt] at ht'
      · exact ih2 x hx' hxt

/-- **Existing rows stay readable with the new shape.**  Applying the re-write to a view (row ids unique, none from
    this operation yet) leaves every row of every other table where it was and replaces the table's rows, in order, by
    rows with `f` applied to their values — `f = (· ++ [default])` for ADD COLUMN, `f = (·.eraseIdx i)` for DROP COLUMN. -/
theorem rewrite_view (c : Nat) (tname : String) (f : List Val → List Val) (v : View)
    (hu : v.Pairwise (fun a b => a.rid ≠ b.rid)) (hf : ∀ r ∈ v, r.rid.1 ≠ c) :
    View.applyAll v (rewriteRows c tname f v 0) =
      v.filter (fun r => !(r.table == tname)) ++ newRows c tname f v 0 := by
  have := rewrite_view_aux c tname f v [] [] 0 (by simp) hu hf
  simpa using this

/-- the new rows: one per row of the table, same order, values `f vals`, all in the table -/
theorem newRows_spec (c : Nat) (tname : String) (f : List Val → List Val) : ∀ (rows : List ARow) (j : Nat),
    (newRows c tname f rows j).map (·.vals) = (rows.filter (fun r => r.table == tname)).map (fun r => f r.vals) ∧
    ∀ x ∈ newRows c tname f rows j, x.table = tname
  | [], j => by simp [newRows]
  | r :: rs, j => by
    unfold newRows
    by_cases ht : (r.table == tname) = true
    · obtain ⟨h1, h2⟩ := newRows_spec c tname f rs (j + 1)
      simp only [ht, if_true, List.map_cons, List.filter_cons, h1, true_and]
      intro x hx
      rcases List.mem_cons.1 hx with e | hx'
      · subst e; rfl
      · exact h2 x hx'
    · obtain ⟨h1, h2⟩ := newRows_spec c tname f rs j
      have ht' : (r.table == tname) = false := by simpa using ht
      simp only [ht', Bool.false_eq_true, if_false, List.filter_cons]
      exact ⟨h1, h2⟩

/-- the full view-level statements (meta-row update followed by the re-write, as one transaction's view) are
    consequences of `add_column_reads_default_or_null` / `drop_column_disappears` (the effect lists),
    `rewrite_view` and `newRows_spec`; the composition is stated here and not proved separately -/
def add_column_view_statement : Prop :=
  ∀ (h : Heap) (c : Nat) (v : View) (t : String) (col : Col) (d : Val) (m : ARow) (ts : TableSchema),
    resolve h v t = some (m, ts) → colPos ts col.name = none →
    v.Pairwise (fun a b => a.rid ≠ b.rid) → (∀ r ∈ v, r.rid.1 ≠ c) →
    ((View.applyAll v (planDdl h c v (.addColumn t col d)).effs).filter (fun r => r.table == ts.name)).map (·.vals) =
      ((v.filter (fun r => r.table == ts.name)).map (fun r => r.vals ++ [d]))

/-! ## witnesses: the shipped defects break the property -/

def tdef : DStmt := .createTable "t" [⟨"k", .big, false, false⟩, ⟨"v", .int, false, false⟩] []

/-- an ALTER inside a rolled-back transaction stays: the new meta-row version carries the creating transaction's id -/
theorem updateKeepsInserterXmin_witness :
    (run { updateKeepsInserterXmin := true }
      [.tick, .auto tdef, .begin "s1", .exec "s1" (.setNotNull "t" "v"), .rollback "s1",
       .auto (.dml (.ins "t" [[.int 1, .null]]))]).2
    ≠ (Spec.run
      [.tick, .auto tdef, .begin "s1", .exec "s1" (.setNotNull "t" "v"), .rollback "s1",
       .auto (.dml (.ins "t" [[.int 1, .null]]))]).2 := by
  decide

/-- two open transactions create the same name and both commit: two live relations of one name -/
theorem uniqueNotRecheckedAtCommit_witness :
    namesOk (view { uniqueNotRecheckedAtCommit := true }
      ((run { uniqueNotRecheckedAtCommit := true }
        [.tick, .begin "s1", .begin "s2", .exec "s1" tdef, .exec "s2" tdef, .commit "s1", .commit "s2"]).1.db.freshSnap
          { uniqueNotRecheckedAtCommit := true })
      (run { uniqueNotRecheckedAtCommit := true }
        [.tick, .begin "s1", .begin "s2", .exec "s1" tdef, .exec "s2" tdef, .commit "s1", .commit "s2"]).1.db.rows) = false := by
  decide

/-! the code after `fix: the name of a table a transaction creates joins its write set` -/

/-- two open transactions create the same name: the second committer is refused, one live relation of that name -/
theorem commitChecksInsertedKeysOnly_second_creator_refused :
    (run { commitChecksInsertedKeysOnly := true }
      [.tick, .begin "s1", .begin "s2", .exec "s1" tdef, .exec "s2" tdef, .commit "s1", .commit "s2"]).2.getLast?
      = some (.refused .constraint) ∧
    namesOk (view { commitChecksInsertedKeysOnly := true }
      ((run { commitChecksInsertedKeysOnly := true }
        [.tick, .begin "s1", .begin "s2", .exec "s1" tdef, .exec "s2" tdef, .commit "s1", .commit "s2"]).1.db.freshSnap
          { commitChecksInsertedKeysOnly := true })
      (run { commitChecksInsertedKeysOnly := true }
        [.tick, .begin "s1", .begin "s2", .exec "s1" tdef, .exec "s2" tdef, .commit "s1", .commit "s2"]).1.db.rows) = true := by
  decide

/-- … but the name stays in the write set when the table is dropped again in the same transaction: its commit is
    refused although the committed catalog would hold the name once (the specification commits) -/
theorem commitChecksInsertedKeysOnly_witness :
    (run { commitChecksInsertedKeysOnly := true }
      [.tick, .begin "s1", .begin "s2", .exec "s1" tdef, .exec "s1" (.dropTable "t"), .exec "s2" tdef, .commit "s2",
       .commit "s1"]).2.getLast? = some (.refused .constraint) ∧
    (Spec.run
      [.tick, .begin "s1", .begin "s2", .exec "s1" tdef, .exec "s1" (.dropTable "t"), .exec "s2" tdef, .commit "s2",
       .commit "s1"]).2.getLast? = some .ok := by
  decide

/-! the code after `fix: CREATE TABLE is refused while a transaction the creator does not see holds the name` -/

/-- two open transactions create the same name: the second CREATE is refused with a conflict when it runs (the
    specification lets it run and refuses the second COMMIT); the first creator's table is the one live relation -/
theorem createRefusedWhileNameHeld_witness :
    (run { createRefusedWhileNameHeld := true, commitChecksInsertedKeysOnly := true }
      [.tick, .begin "s1", .begin "s2", .exec "s1" tdef, .exec "s2" tdef]).2.getLast? = some (.stmt (.err .conflict)) ∧
    (Spec.run [.tick, .begin "s1", .begin "s2", .exec "s1" tdef, .exec "s2" tdef]).2.getLast?
      ≠ some (.stmt (.err .conflict)) ∧
    namesOk (view { createRefusedWhileNameHeld := true, commitChecksInsertedKeysOnly := true }
      ((run { createRefusedWhileNameHeld := true, commitChecksInsertedKeysOnly := true }
        [.tick, .begin "s1", .begin "s2", .exec "s1" tdef, .exec "s2" tdef, .commit "s1", .commit "s2"]).1.db.freshSnap
          { createRefusedWhileNameHeld := true, commitChecksInsertedKeysOnly := true })
      (run { createRefusedWhileNameHeld := true, commitChecksInsertedKeysOnly := true }
        [.tick, .begin "s1", .begin "s2", .exec "s1" tdef, .exec "s2" tdef, .commit "s1", .commit "s2"]).1.db.rows) = true := by
  decide

/-- … also when the holder then rolls back: the refused creator has to try again -/
theorem createRefusedWhileNameHeld_holder_rolls_back :
    (run { createRefusedWhileNameHeld := true, commitChecksInsertedKeysOnly := true }
      [.tick, .begin "s1", .begin "s2", .exec "s1" tdef, .exec "s2" tdef, .rollback "s1", .exec "s2" tdef]).2.drop 4
      = [.stmt (.err .conflict), .ok, (Spec.run [.tick, .begin "s2", .exec "s2" tdef]).2.getLast?.getD .none] := by
  decide

end AxVerif.Ddl.C15
