/-
  C08 — The database always reopens after a crash, and recovery can be repeated.

  In the protocol model recovery is a total function of the stable image and the durable log (totality is by
  construction: `recover` is a structural fold), its only durable effect is one atomic checkpoint (`reopen`), and the
  theorems below state repeatability.  The shipped checkpoint is NOT atomic; `tornCheckpoint_witness` shows what
  that costs, and the `crash` engine attributes failures inside that window to the listed finding.
-/
import AxVerif.Thm.C01
namespace AxVerif.Recovery
open AxVerif AxVerif.Durable

/-- Losing the volatile tail twice is losing it once. -/
theorem crash_idem (s : St) : crash (crash s) = crash s := rfl

/-- A crash during recovery (before its final checkpoint) leaves the durable state as it was, so the next
    recovery computes the same database. -/
theorem recover_after_interrupted_recovery (s : St) : recover (crash (crash s)) = recover (crash s) := rfl

/-- Reopening an already recovered database changes nothing … -/
theorem reopen_idem (s : St) : reopen (reopen s) = reopen s := by
  simp [reopen, recover, crash, replay_nil]

/-- `n` successive open/close cycles -/
def reopenN : Nat → St → St
  | 0, s => s
  | n + 1, s => reopen (reopenN n s)

/-- … any number of times. -/
theorem reopen_iterate (s : St) (n : Nat) : reopenN (n + 1) s = reopen s := by
  induction n with
  | zero => rfl
  | succ n ih =>
    show reopen (reopenN (n + 1) s) = reopen s
    rw [ih, reopen_idem]

/-- Opening a cleanly closed database (log empty, nothing volatile) changes nothing. -/
theorem reopen_clean_noop (s : St) (hl : s.log = []) (hb : s.buf = []) : reopen s = s := by
  cases s with
  | mk stable log buf =>
    simp only at hl hb
    subst hl; subst hb
    simp [reopen, recover, crash, replay_nil]

/-- What a reopened database contains is what recovery computed, and it is stable under further crashes. -/
theorem reopen_contents (s : St) : recover (crash (reopen s)) = recover (crash s) := by
  simp [reopen, recover, crash, replay_nil]

/-- **C08 (protocol level).** For every trace and every crash point, however often recovery is interrupted and
    restarted, and however many clean close/open cycles follow, the contents are the redo of the durable history. -/
theorem contents_after_any_number_of_recoveries (es : List Ev) (hw : WfRecs (appended es)) (n : Nat) :
    recover (crash (reopenN n (run es))) = replay [] (durable es) := by
  cases n with
  | zero => exact recover_crash_eq_replay_durable es hw
  | succ n =>
    rw [reopen_iterate, reopen_contents]
    exact recover_crash_eq_replay_durable es hw

/-- Witness for the shipped non-atomic checkpoint: after the checkpoint's page writes but before the log is
    truncated, recovery redoes the log on top of a state that already contains it. -/
theorem tornCheckpoint_witness :
    let s : St := { stable := [("t", [])], log := [Rec.op 1 (.ins "t" 1 10), Rec.commit 1], buf := [] }
    recover (crash s) = [("t", [(1, 10)])] ∧
    recover (crash (tornAfterPages s)) = [("t", [(1, 10), (1, 10)])] := by decide

end AxVerif.Recovery
