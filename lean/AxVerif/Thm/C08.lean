/-
  C08 — The database always reopens after a crash, and recovery can be repeated.

  In the protocol model recovery is a total function of the stable image and the durable log (totality is by
  construction: `recover` is a structural fold), its only durable effect is one atomic checkpoint (`reopen`), and the
  theorems below state repeatability.  The shipped checkpoint is NOT atomic; `tornCheckpoint_witness` shows what
  that costs, and the `crash` engine attributes failures inside that window to the listed finding.
-/
import AxVerif.Thm.C01
namespace AxVerif.Recovery
open AxVerif AxVerif.Durable

/-- Losing the volatile tail twice is losing it once. -/
theorem crash_idem (s : St) : crash (crash s) = crash s := rfl

/-- A crash during recovery (before its final checkpoint) leaves the durable state as it was, so the next
    recovery computes the same database. -/
theorem recover_after_interrupted_recovery (s : St) : recover (crash (crash s)) = recover (crash s) := rfl

/-- Reopening an already recovered database changes nothing … -/
theorem reopen_idem (s : St) : reopen (reopen s) = reopen s := by
  simp [reopen, recover, crash, replay_nil]

/-- `n` successive open/close cycles -/
def reopenN : Nat → St → St
  | 0, s => s
  | n + 1, s => reopen (reopenN n s)

/-- … any number of times. -/
theorem reopen_iterate (s : St) (n : Nat) : reopenN (n + 1) s = reopen s := by
  induction n with
  | zero => rfl
  | succ n ih =>
    show reopen (reopenN (n + 1) s) = reopen s
    rw [ih, reopen_idem]

/-- Opening a cleanly closed database (log empty, nothing volatile) changes nothing. -/
theorem reopen_clean_noop (s : St) (hl : s.log = []) (hb : s.buf = []) : reopen s = s := by
  cases s with
  | mk stable log buf =>
    simp only at hl hb
    subst hl; subst hb
    simp [reopen, recover, crash, replay_nil]

/-- What a reopened database contains is what recovery computed, and it is stable under further crashes. -/
theorem reopen_contents (s : St) : recover (crash (reopen s)) = recover (crash s) := by
  simp [reopen, recover, crash, replay_nil]

/-- **C08 (protocol level).** For every trace and every crash point, however often recovery is interrupted and
    restarted, and however many clean close/open cycles follow, the contents are the redo of the durable history. -/
theorem contents_after_any_number_of_recoveries (es : List Ev) (hw : WfRecs (appended es)) (n : Nat) :
    recover (crash (reopenN n (run es))) = replay [] (durable es) := by
  cases n with
  | zero => exact recover_crash_eq_replay_durable es hw
  | succ n =>
    rw [reopen_iterate, reopen_contents]
    exact recover_crash_eq_replay_durable es hw

/-- Witness for the shipped non-atomic checkpoint: after the checkpoint's page writes but before the log is
    truncated, recovery redoes the log on top of a state that already contains it. -/
theorem tornCheckpoint_witness :
    let s : St := { stable := [("t", [])], log := [Rec.op 1 (.ins "t" 1 10), Rec.commit 1], buf := [] }
    recover (crash s) = [("t", [(1, 10)])] ∧
    recover (crash (tornAfterPages s)) = [("t", [(1, 10), (1, 10)])] := by decide

end AxVerif.Recovery

namespace AxVerif.Recovery
open AxVerif AxVerif.Durable

/-! ### the shipped, non-atomic checkpoint: safe everywhere except inside its window -/

/-- simulation relation between the split-checkpoint machine and the atomic one -/
def Sim (x : St2) (s : St) : Prop :=
  (x.torn = false → x.s = s) ∧ (x.torn = true → s = { stable := x.s.stable, log := [], buf := [] })

theorem sim_step (x : St2) (s : St) (e : Ev2) (h : Sim x s) :
    Sim (step2 x e) ((emit x e).foldl step s) := by
  obtain ⟨h0, h1⟩ := h
  cases ht : x.torn with
  | false =>
    have hs := h0 ht
    subst hs
    cases e with
    | append r => simp [step2, emit, ht, Sim]
    | force => simp [step2, emit, ht, Sim]
    | ack t => simp [step2, emit, ht, Sim, step]
    | ckptTruncate => simp [step2, emit, ht, Sim]
    | ckptPages =>
      by_cases hq : quiescent (x.s.log ++ x.s.buf) = true
      · simp [step2, emit, ht, Sim, step, hq]
      · simp [step2, emit, ht, Sim, step, hq]
  | true =>
    have hs := h1 ht
    cases e with
    | append r => simp [step2, emit, ht, Sim, hs]
    | force => simp [step2, emit, ht, Sim, hs]
    | ack t => simp [step2, emit, ht, Sim, step, hs]
    | ckptPages => simp [step2, emit, ht, Sim, hs]
    | ckptTruncate => simp [step2, emit, ht, Sim, hs]

theorem sim_run (es : List Ev2) (x : St2) (s : St) (h : Sim x s) :
    Sim (es.foldl step2 x) ((glueFrom x es).foldl step s) := by
  induction es generalizing x s with
  | nil => simpa [glueFrom] using h
  | cons e es ih =>
    simp only [List.foldl_cons, glueFrom, List.foldl_append]
    exact ih _ _ (sim_step x s e h)

/-- **Outside the checkpoint window the shipped checkpoint is as good as an atomic one**: whenever the split machine
    is not between a checkpoint's page writes and its log truncation, crash + recovery yields the redo of the durable
    history of the corresponding atomic trace — for every trace, with any number of checkpoints. -/
theorem split_checkpoint_safe_outside_window (es : List Ev2) (hw : WfRecs (appended (glue es)))
    (hn : (run2 es).torn = false) :
    recover (crash (run2 es).s) = replay [] (durable (glue es)) := by
  have hsim := sim_run es { s := init, torn := false } init ⟨fun _ => rfl, fun h => by cases h⟩
  have : (run2 es).s = run (glue es) := hsim.1 hn
  rw [this]
  exact recover_crash_eq_replay_durable _ hw

/-- Inside the window it is not: see `tornCheckpoint_witness`; here the same on the split machine. -/
theorem split_checkpoint_torn_witness :
    let es := [Ev2.append (.op 1 (.crt "t")), .append (.commit 1), .force, .ckptPages, .ckptTruncate,
               .append (.op 2 (.ins "t" 1 10)), .append (.commit 2), .ckptPages]
    (run2 es).torn = true ∧ recover (crash (run2 es).s) = [("t", [(1, 10), (1, 10)])] ∧
    recover (crash (run2 (es ++ [.ckptTruncate])).s) = [("t", [(1, 10)])] := by decide

end AxVerif.Recovery
