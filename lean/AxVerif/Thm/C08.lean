/-
  C08 — The database always reopens after a crash, and recovery can be repeated.

  In the protocol model recovery is a total function of the stable image and the durable log (totality is by
  construction: `recover` is a structural fold), its only durable effect is one atomic checkpoint (`reopen`), and the
  theorems below state repeatability.  The shipped checkpoint is NOT atomic; `tornCheckpoint_witness` shows what
  that costs, and the `crash` engine attributes failures inside that window to the listed finding.
-/
import AxVerif.Thm.C01
import AxVerif.Lemmas.Journal
namespace AxVerif.Recovery
open AxVerif AxVerif.Durable

/-- Losing the volatile tail twice is losing it once. -/
theorem crash_idem (s : St) : crash (crash s) = crash s := rfl

/-- A crash during recovery (before its final checkpoint) leaves the durable state as it was, so the next
    recovery computes the same database. -/
theorem recover_after_interrupted_recovery (s : St) : recover (crash (crash s)) = recover (crash s) := rfl

/-- Reopening an already recovered database changes nothing … -/
theorem reopen_idem (s : St) : reopen (reopen s) = reopen s := by
  simp [reopen, recover, crash, replay_nil]

/-- `n` successive open/close cycles -/
def reopenN : Nat → St → St
  | 0, s => s
  | n + 1, s => reopen (reopenN n s)

/-- … any number of times. -/
theorem reopen_iterate (s : St) (n : Nat) : reopenN (n + 1) s = reopen s := by
  induction n with
  | zero => rfl
  | succ n ih =>
    show reopen (reopenN (n + 1) s) = reopen s
    rw [ih, reopen_idem]

/-- Opening a cleanly closed database (log empty, nothing volatile) changes nothing. -/
theorem reopen_clean_noop (s : St) (hl : s.log = []) (hb : s.buf = []) : reopen s = s := by
  cases s with
  | mk stable log buf =>
    simp only at hl hb
    subst hl; subst hb
    simp [reopen, recover, crash, replay_nil]

/-- What a reopened database contains is what recovery computed, and it is stable under further crashes. -/
theorem reopen_contents (s : St) : recover (crash (reopen s)) = recover (crash s) := by
  simp [reopen, recover, crash, replay_nil]

/-- **C08 (protocol level).** For every trace and every crash point, however often recovery is interrupted and
    restarted, and however many clean close/open cycles follow, the contents are the redo of the durable history. -/
theorem contents_after_any_number_of_recoveries (es : List Ev) (hw : WfRecs (appended es)) (n : Nat) :
    recover (crash (reopenN n (run es))) = replay [] (durable es) := by
  cases n with
  | zero => exact recover_crash_eq_replay_durable es hw
  | succ n =>
    rw [reopen_iterate, reopen_contents]
    exact recover_crash_eq_replay_durable es hw

/-- Witness for the shipped non-atomic checkpoint: after the checkpoint's page writes but before the log is
    truncated, recovery redoes the log on top of a state that already contains it. -/
theorem tornCheckpoint_witness :
    let s : St := { stable := [("t", [])], log := [Rec.op 1 (.ins "t" 1 10), Rec.commit 1], buf := [] }
    recover (crash s) = [("t", [(1, 10)])] ∧
    recover (crash (tornAfterPages s)) = [("t", [(1, 10), (1, 10)])] := by decide

end AxVerif.Recovery

namespace AxVerif.Recovery
open AxVerif AxVerif.Durable

/-! ### the shipped, non-atomic checkpoint: safe everywhere except inside its window -/

/-- simulation relation between the split-checkpoint machine and the atomic one -/
def Sim (x : St2) (s : St) : Prop :=
  (x.torn = false → x.s = s) ∧ (x.torn = true → s = { stable := x.s.stable, log := [], buf := [] })

theorem sim_step (x : St2) (s : St) (e : Ev2) (h : Sim x s) :
    Sim (step2 x e) ((emit x e).foldl step s) := by
  obtain ⟨h0, h1⟩ := h
  cases ht : x.torn with
  | false =>
    have hs := h0 ht
    subst hs
    cases e with
    | append r => simp [step2, emit, ht, Sim]
    | force => simp [step2, emit, ht, Sim]
    | ack t => simp [step2, emit, ht, Sim, step]
    | ckptTruncate => simp [step2, emit, ht, Sim]
    | ckptPages =>
      by_cases hq : quiescent (x.s.log ++ x.s.buf) = true
      · simp [step2, emit, ht, Sim, step, hq]
      · simp [step2, emit, ht, Sim, step, hq]
  | true =>
    have hs := h1 ht
    cases e with
    | append r => simp [step2, emit, ht, Sim, hs]
    | force => simp [step2, emit, ht, Sim, hs]
    | ack t => simp [step2, emit, ht, Sim, step, hs]
    | ckptPages => simp [step2, emit, ht, Sim, hs]
    | ckptTruncate => simp [step2, emit, ht, Sim, hs]

theorem sim_run (es : List Ev2) (x : St2) (s : St) (h : Sim x s) :
    Sim (es.foldl step2 x) ((glueFrom x es).foldl step s) := by
  induction es generalizing x s with
  | nil => simpa [glueFrom] using h
  | cons e es ih =>
    simp only [List.foldl_cons, glueFrom, List.foldl_append]
    exact ih _ _ (sim_step x s e h)

/-- **Outside the checkpoint window the shipped checkpoint is as good as an atomic one**: whenever the split machine
    is not between a checkpoint's page writes and its log truncation, crash + recovery yields the redo of the durable
    history of the corresponding atomic trace — for every trace, with any number of checkpoints. -/
theorem split_checkpoint_safe_outside_window (es : List Ev2) (hw : WfRecs (appended (glue es)))
    (hn : (run2 es).torn = false) :
    recover (crash (run2 es).s) = replay [] (durable (glue es)) := by
  have hsim := sim_run es { s := init, torn := false } init ⟨fun _ => rfl, fun h => by cases h⟩
  have : (run2 es).s = run (glue es) := hsim.1 hn
  rw [this]
  exact recover_crash_eq_replay_durable _ hw

/-- Inside the window it is not: see `tornCheckpoint_witness`; here the same on the split machine. -/
theorem split_checkpoint_torn_witness :
    let es := [Ev2.append (.op 1 (.crt "t")), .append (.commit 1), .force, .ckptPages, .ckptTruncate,
               .append (.op 2 (.ins "t" 1 10)), .append (.commit 2), .ckptPages]
    (run2 es).torn = true ∧ recover (crash (run2 es).s) = [("t", [(1, 10), (1, 10)])] ∧
    recover (crash (run2 (es ++ [.ckptTruncate])).s) = [("t", [(1, 10)])] := by decide

end AxVerif.Recovery

namespace AxVerif.Recovery
open AxVerif AxVerif.Durable

/-! ### the journaled checkpoint (as repaired): safe at every crash point, with steal -/

def Sim3 (x : St3) (s : St) : Prop :=
  match x.phase with
  | .idle => x.s = s
  | .pages => x.s = s ∧ s.buf = [] ∧ quiescent s.log = true ∧ x.file = replay s.stable s.log
  | .done => s = { stable := x.file, log := [], buf := [] }
  | .dropped => s = { stable := x.file, log := [], buf := [] }

theorem sim3_step (x : St3) (s : St) (e : Ev3) (h : Sim3 x s) :
    Sim3 (step3 x e) ((emit3 x e).foldl step s) := by
  cases hp : x.phase with
  | idle =>
    have hs : x.s = s := by simpa [Sim3, hp] using h
    subst hs
    cases e with
    | append r => simp [step3, emit3, hp, Sim3]
    | force => simp [step3, emit3, hp, Sim3]
    | ack t => simp [step3, emit3, hp, Sim3, step]
    | scribble g => simp [step3, emit3, hp, Sim3]
    | ckptDone => simp [step3, emit3, hp, Sim3]
    | ckptDropLog => simp [step3, emit3, hp, Sim3]
    | ckptReset => simp [step3, emit3, hp, Sim3]
    | ckptPages =>
      by_cases hq : quiescent (x.s.log ++ x.s.buf) = true
      · simp [step3, emit3, hp, Sim3, step, hq]
      · simp [step3, emit3, hp, Sim3, step, hq]
  | pages =>
    have hs : x.s = s ∧ s.buf = [] ∧ quiescent s.log = true ∧ x.file = replay s.stable s.log := by
      simpa [Sim3, hp] using h
    obtain ⟨h1, h2, h3, h4⟩ := hs
    cases e with
    | append r => simp [step3, emit3, hp, Sim3, h1, h2, h3, h4]
    | force => simp [step3, emit3, hp, Sim3, h1, h2, h3, h4]
    | ack t => simp [step3, emit3, hp, Sim3, step, h1, h2, h3, h4]
    | scribble g => simp [step3, emit3, hp, Sim3, h1, h2, h3, h4]
    | ckptPages => simp [step3, emit3, hp, Sim3, h1, h2, h3, h4]
    | ckptDropLog => simp [step3, emit3, hp, Sim3, h1, h2, h3, h4]
    | ckptReset => simp [step3, emit3, hp, Sim3, h1, h2, h3, h4]
    | ckptDone => simp [step3, emit3, hp, Sim3, step, h2, h3, h4]
  | done =>
    have hs : s = { stable := x.file, log := [], buf := [] } := by simpa [Sim3, hp] using h
    cases e with
    | append r => simp [step3, emit3, hp, Sim3, hs]
    | force => simp [step3, emit3, hp, Sim3, hs]
    | ack t => simp [step3, emit3, hp, Sim3, step, hs]
    | scribble g => simp [step3, emit3, hp, Sim3, hs]
    | ckptPages => simp [step3, emit3, hp, Sim3, hs]
    | ckptDone => simp [step3, emit3, hp, Sim3, hs]
    | ckptDropLog => simp [step3, emit3, hp, Sim3, hs]
    | ckptReset => simp [step3, emit3, hp, Sim3, hs]
  | dropped =>
    have hs : s = { stable := x.file, log := [], buf := [] } := by simpa [Sim3, hp] using h
    cases e with
    | append r => simp [step3, emit3, hp, Sim3, hs]
    | force => simp [step3, emit3, hp, Sim3, hs]
    | ack t => simp [step3, emit3, hp, Sim3, step, hs]
    | scribble g => simp [step3, emit3, hp, Sim3, hs]
    | ckptPages => simp [step3, emit3, hp, Sim3, hs]
    | ckptDone => simp [step3, emit3, hp, Sim3, hs]
    | ckptDropLog => simp [step3, emit3, hp, Sim3, hs]
    | ckptReset => simp [step3, emit3, hp, Sim3, hs]

theorem sim3_run (es : List Ev3) (x : St3) (s : St) (h : Sim3 x s) :
    Sim3 (es.foldl step3 x) ((glue3From x es).foldl step s) := by
  induction es generalizing x s with
  | nil => simpa [glue3From] using h
  | cons e es ih =>
    simp only [List.foldl_cons, glue3From, List.foldl_append]
    exact ih _ _ (sim3_step x s e h)

/-- **With the pre-image journal a crash at any point — between checkpoints with pages already written in place
    (steal), inside a checkpoint's page writes, between its completion mark, the log truncation and the journal
    restart — recovers the redo of the durable history**: no window is excluded (compare
    `split_checkpoint_safe_outside_window`).  For every trace, with any number of checkpoints and any in-place writes. -/
theorem journaled_checkpoint_safe_at_every_point (es : List Ev3) (hw : WfRecs (appended (glue3 es))) :
    recover3 (crash3 (run3 es)) = replay [] (durable (glue3 es)) := by
  have hsim := sim3_run es init3 init (by simp [Sim3, init3])
  have hrec := recover_crash_eq_replay_durable (glue3 es) hw
  change Sim3 (run3 es) (run (glue3 es)) at hsim
  cases hp : (run3 es).phase with
  | idle =>
    have : (run3 es).s = run (glue3 es) := by simpa [Sim3, hp] using hsim
    simp only [recover3, crash3, hp, this]; exact hrec
  | pages =>
    have : (run3 es).s = run (glue3 es) := by
      have := hsim; simp only [Sim3, hp] at this; exact this.1
    simp only [recover3, crash3, hp, this]; exact hrec
  | done =>
    have hs : run (glue3 es) = { stable := (run3 es).file, log := [], buf := [] } := by simpa [Sim3, hp] using hsim
    rw [← hrec, hs]; simp [recover3, crash3, hp, recover, crash, replay, replayIn]
  | dropped =>
    have hs : run (glue3 es) = { stable := (run3 es).file, log := [], buf := [] } := by simpa [Sim3, hp] using hsim
    rw [← hrec, hs]; simp [recover3, crash3, hp, recover, crash, replay, replayIn]

/-- the trace on which the split checkpoint was torn, now with the journal: every prefix recovers the committed rows once -/
theorem journaled_checkpoint_witness :
    let es := [Ev3.append (.op 1 (.crt "t")), .append (.commit 1), .force, .ckptPages, .ckptDone, .ckptDropLog, .ckptReset,
               .append (.op 2 (.ins "t" 1 10)), .append (.commit 2), .force, .scribble [("t", [(7, 7)])], .ckptPages]
    (run3 es).phase = .pages ∧ recover3 (crash3 (run3 es)) = [("t", [(1, 10)])] ∧
    recover3 (crash3 (run3 (es ++ [.ckptDone]))) = [("t", [(1, 10)])] ∧
    recover3 (crash3 (run3 (es ++ [.ckptDone, .ckptDropLog]))) = [("t", [(1, 10)])] ∧
    recover3 (crash3 (run3 (es.take 11))) = [("t", [(1, 10)])] := by decide

end AxVerif.Recovery

namespace AxVerif.Journal

/-- **Every trace of journal and page I/O that obeys the protocol rule (`accepts` — the rule the real I/O trace is
    checked against), cut anywhere, with any prefix `k` of the not-yet-synced journal entries surviving, is restored
    by `Pager::return_to_checkpoint` to the file of the last checkpoint.** -/
theorem restore_returns_checkpoint (es : List Ev) (s : St) (h : run init es = some s) (k : Nat) :
    restore s k = s.ckpt :=
  restore_of_inv s (run_inv es init s inv_init h) k

/-- **Crash model B** — of the database file only what was written before its last fsync is sure to survive: whatever
    mix `g` of written and synced page contents the crash leaves (`CrashImage`), an accepted trace is still restored to
    the last checkpoint.  The rule therefore also demands the fsync of the file before the journal is marked done and
    before a journal is started. -/
theorem restore_returns_checkpoint_lossy (es : List Ev) (s : St) (h : run init es = some s) (hnf : s.mode ≠ .fresh)
    (g : File) (hg : CrashImage s g) (k : Nat) : restoreFrom s g k = s.ckpt :=
  restoreFrom_of_inv s (run_inv es init s inv_init h) hnf g hg k

/-- every prefix of an accepted trace is accepted (so the theorem covers every crash point of the trace) -/
theorem accepts_prefix (es : List Ev) (n : Nat) (h : accepts es = true) : accepts (es.take n) = true := by
  unfold accepts at *
  suffices ∀ (es : List Ev) (s : St) (n : Nat), (run s es).isSome = true → (run s (es.take n)).isSome = true from
    this es init n h
  intro es
  induction es with
  | nil => intro s n h; simpa using h
  | cons e es ih =>
    intro s n h
    cases n with
    | zero => simp [run]
    | succ n =>
      simp only [List.take_succ_cons, run] at *
      split at h
      · rename_i ha; simp only [ha, if_true]; exact ih _ n h
      · cases h

/-- the rule is not vacuous: an eviction and a whole checkpoint, as the code issues them -/
theorem accepts_witness :
    accepts [.write 0 1, .dsync, .start 1, .save 0, .jsync, .write 1 5, .write 2 6, .write 0 2, .dsync, .done, .dropLog, .empty,
             .start 3, .write 5 9, .save 1, .jsync, .write 1 7] = true ∧
    (run init [.write 0 1, .dsync, .start 1, .save 0, .jsync, .write 1 5, .write 2 6, .write 0 2]).map (fun s => restore s 0) = some [1] ∧
    -- … and from the crash image that lost the unsynced writes of pages 0 and 2
    (run init [.write 0 1, .dsync, .start 1, .save 0, .jsync, .write 1 5, .write 2 6, .write 0 2]).map
        (fun s => restoreFrom s [1, 5] 0) = some [1] ∧
    -- overwriting a checkpointed page that was not saved is rejected
    accepts [.write 0 1, .dsync, .start 1, .write 0 2] = false ∧
    -- … as is dropping the log before the journal is marked done
    accepts [.write 0 1, .dsync, .start 1, .save 0, .jsync, .write 0 2, .dropLog] = false ∧
    -- … and marking the journal done while page writes are not synced
    accepts [.write 0 1, .dsync, .start 1, .save 0, .jsync, .write 0 2, .done] = false := by decide

end AxVerif.Journal
