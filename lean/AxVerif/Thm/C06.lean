/-
  C06 — The chosen plan never changes the answer.

  The optimizer (sql/planner) rewrites the bound plan of a query by five transformation rules, may replace a filter
  over a table scan by an index scan, and picks the cheapest result under the statistics ANALYZE collected.  This file
  proves, for the plan algebra of Model/Plan.lean over the reference evaluator of C05 and for ALL stores, plans and
  predicates:

   * every rule preserves the multiset of result rows (`filter_merge_sound` … `join_assoc_sound`,
     `filter_to_index_scan_sound`), hence so does every sequence of rule applications anywhere in the plan
     (`optimize_sound`), hence every plan reachable from the bound plan of a query returns what the reference
     evaluator returns for the query as written (`optimize_sound_select`);
   * the bounds extracted from a predicate lose no row and admit no wrong one (`range_bounds_sound`,
     `range_bounds_exact`), and over a consistent index the index scan with the residual re-checked is the filter over
     the table scan (`index_scan_eq_filter`);
   * index maintenance on INSERT / UPDATE / DELETE and population at CREATE INDEX keep every index consistent with its
     table (`maintain_preserves_consistency`, `populate_consistent`);
   * a key deleted and inserted again inside one transaction is found through the index afterwards
     (`reinsert_after_own_delete_indexed`, `insert_into_free_key_indexed`);
   * a delivered ordering satisfies a required one exactly if the required one leads it (`ordering_satisfies_iff_prefix`),
     an input ordered by more keys is ordered by fewer (`sorted_on_prefix`), and what the sort enforcer hands to an
     operator is the input's rows in the order the operator requires (`enforcer_sound`);
   * the probe of the hash join is the join condition: no pair through a NULL key (`hash_probe_is_equi_match`);
   * the answer does not depend on the statistics the choice among plans was made with (`stats_irrelevant`).

  Hypotheses are explicit and decidable: `wfStore` (stored rows have the width and the types of their table, NOT NULL
  columns hold no NULL), `StoreConsistent` (row ids identify rows, every index agrees with its table), `wellScoped`
  (expressions read columns their input has — what the binder guarantees); examples at the end show they are
  satisfiable.  Every defect flag of the models has a `…_witness` theorem: a concrete counterexample to the property
  with the flag on.
-/
import AxVerif.Lemmas.PlanSql
import AxVerif.Lemmas.PlanOrd
namespace AxVerif.Thm.C06
open AxVerif.Sql AxVerif.Index AxVerif.Plan

/-! ## The transformation rules, one by one -/

/-- FilterMerge: two stacked filters are the filter on their conjunction (same rows, same order). -/
theorem filter_merge_sound (st : Store) (p q : Plan) (h : filterMerge p = some q) : evalPlan st q = evalPlan st p := by
  unfold filterMerge at h
  split at h
  · simp only [Option.some.injEq] at h
    subst h
    exact filterMerge_eval st _ _ _
  · simp at h

/-- FilterPushdownJoin (INNER / CROSS): conjuncts that read one input only may be evaluated below the join, re-indexed
    for the right input; the others join the condition. -/
theorem filter_pushdown_join_sound (st : Store) (hwf : wfStore st = true) (p q : Plan)
    (h : filterPushdownJoin {} st p = some q) : evalPlan st q = evalPlan st p := by
  obtain ⟨e, k, on, l, r, rfl, hk, rfl⟩ := filterPushdownJoin_shape st p q h
  exact filterPushdownJoin_eval st hwf e k on l r hk

/-- FilterPushdownProject: a filter over a projection of plain column references is the projection of the filter with
    its columns mapped through the projection. -/
theorem filter_pushdown_project_sound (st : Store) (hwf : wfStore st = true) (p q : Plan)
    (hs : p.wellScoped st = true) (h : filterPushdownProject {} p = some q) : evalPlan st q = evalPlan st p := by
  obtain ⟨e, items, c, mapping, rfl, hm, rfl⟩ := filterPushdownProject_shape p q h
  simp only [Plan.wellScoped, Plan.width, Plan.tys, Bool.and_eq_true, List.length_map] at hs
  exact filterPushdownProject_eval st hwf e items c mapping hm ((inScope_iff _ _).mp hs.2)

/-- JoinCommutativity (INNER / CROSS): joining the inputs the other way round, with the condition re-indexed for the
    swapped inputs and the columns put back in order by the projection the rule adds, gives the same multiset. -/
theorem join_comm_sound (st : Store) (hwf : wfStore st = true) (p q : Plan) (hs : p.wellScoped st = true)
    (h : joinCommute {} st p = some q) : (evalPlan st q).Perm (evalPlan st p) := by
  obtain ⟨k, on, l, r, rfl, hk, rfl⟩ := joinCommute_shape st p q h
  simp only [Plan.wellScoped, Bool.and_eq_true] at hs
  apply joinCommute_eval st hwf k on l r hk
  intro e he
  subst he
  exact (inScope_iff _ _).mp hs.2

/-- the column permutation JoinCommutativity records: the restoring projection maps `b ++ a` back to `a ++ b` -/
theorem join_comm_permutation (ltys rtys : List Ty) (a b : Row) (ha : conformsRow ltys a = true)
    (hb : conformsRow rtys b = true) :
    projectRow {} (rtys ++ ltys) (restoreOrder ltys.length rtys.length) (b ++ a) = .ok (a ++ b) :=
  projectRow_restore ltys rtys a b ha hb

/-- JoinAssociativity (inner joins): `(A ⋈ B) ⋈ C` and `A ⋈ (B ⋈ C)` with the conjuncts of both conditions split by
    whether they read `A` return the same rows in the same order. -/
theorem join_assoc_sound (st : Store) (hwf : wfStore st = true) (p q : Plan) (hs : p.wellScoped st = true)
    (h : joinAssoc {} st p = some q) : evalPlan st q = evalPlan st p := by
  obtain ⟨outer, inner, a, b, c, rfl, rfl⟩ := joinAssoc_shape st p q h
  simp only [Plan.wellScoped, join_width, Bool.and_eq_true] at hs
  apply joinAssoc_eval st hwf outer inner a b c
  intro e he
  subst he
  exact (inScope_iff _ _).mp hs.1.1.2

/-- every rule keeps the schema of the plan and keeps it well scoped, so rules can be chained -/
theorem rules_keep_schema (st : Store) (p q : Plan) (hs : p.wellScoped st = true) (h : q ∈ rootSteps {} st p) :
    q.tys st = p.tys st ∧ q.wellScoped st = true := by
  simp only [rootSteps, List.mem_append, List.mem_filterMap, List.mem_cons, List.not_mem_nil, or_false, id] at h
  rcases h with ⟨o, (rfl | rfl | rfl | rfl | rfl), ho⟩ | ⟨k, _, hk⟩
  · exact ⟨(filterMerge_keeps st p q ho).tys, (filterMerge_keeps st p q ho).scope hs⟩
  · exact ⟨(filterPushdownJoin_keeps st p q ho).tys, (filterPushdownJoin_keeps st p q ho).scope hs⟩
  · exact ⟨(filterPushdownProject_keeps st p q ho).tys, (filterPushdownProject_keeps st p q ho).scope hs⟩
  · exact ⟨(joinCommute_keeps st p q ho).tys, (joinCommute_keeps st p q ho).scope hs⟩
  · exact ⟨(joinAssoc_keeps st p q ho).tys, (joinAssoc_keeps st p q ho).scope hs⟩
  · exact ⟨(filterToIndexScan_keeps st k p q hk).tys, (filterToIndexScan_keeps st k p q hk).scope hs⟩

/-! ## Range bounds and index scans -/

/-- Every row on which the predicate is TRUE has its key inside the bounds extracted from the predicate (and satisfies
    the residual): an index scan over the bounds with the residual re-checked loses nothing. -/
theorem range_bounds_sound (ixcols : List Nat) (tys : List Ty) (p : Expr) (r : Row) (h : holds tys p r = true) :
    boundsOk (extractBounds ixcols p).1 (extractBounds ixcols p).2.1 (keyOf ixcols r) = true
      ∧ holdsOpt tys (extractBounds ixcols p).2.2 r = true := by
  rw [extractBounds_spec ixcols tys p r, Bool.and_eq_true] at h
  exact h

/-- … and admits nothing: bounds and residual together are the predicate. -/
theorem range_bounds_exact (ixcols : List Nat) (tys : List Ty) (p : Expr) (r : Row) :
    holds tys p r = (boundsOk (extractBounds ixcols p).1 (extractBounds ixcols p).2.1 (keyOf ixcols r)
      && holdsOpt tys (extractBounds ixcols p).2.2 r) :=
  extractBounds_spec ixcols tys p r

/-- Through a consistent index, a scan delivers exactly the rows whose key lies inside the bounds. -/
theorem index_scan_rows (ix : Index) (rows : Rows) (lo hi : List Bound) (hc : IndexConsistent ix rows)
    (hd : RidsDistinct rows) :
    (Index.scan ix rows lo hi).Perm
      ((rows.filter (fun r => !hasNull (keyOf ix.cols r.2) && boundsOk lo hi (keyOf ix.cols r.2))).map (·.2)) :=
  scan_perm ix rows lo hi hc hd

/-- Under `IndexConsistent`: index scan with the extracted bounds and the residual = filter over the table scan. -/
theorem index_scan_eq_filter (st : Store) (hwf : wfStore st = true) (hc : StoreConsistent st) (t k : Nat) (p : Expr)
    (ix : Index) (hix : (st.getD t default).indexes[k]? = some ix)
    (hnb : nullableBounded (st.getD t default) ix.cols (extractBounds ix.cols p).1 (extractBounds ix.cols p).2.1 = true) :
    (evalPlan st (.indexScan t k (extractBounds ix.cols p).1 (extractBounds ix.cols p).2.1 (extractBounds ix.cols p).2.2)).Perm
      (evalPlan st (.filter p (.scan t))) :=
  indexScan_eval st hwf hc t k p ix hix hnb

/-- FilterToIndexScan, as the rule applies it. -/
theorem filter_to_index_scan_sound (st : Store) (hwf : wfStore st = true) (hc : StoreConsistent st) (k : Nat)
    (p q : Plan) (h : filterToIndexScan {} st k p = some q) : (evalPlan st q).Perm (evalPlan st p) := by
  obtain ⟨e, t, ix, rfl, hix, hnb, rfl⟩ := filterToIndexScan_shape st k p q h
  exact indexScan_eval st hwf hc t k e ix hix hnb

/-! ## The optimizer as a whole -/

/-- Any plan reachable from `p` by any sequence of rule applications, at the root or anywhere inside the plan, evaluates
    to the same multiset of rows (and has the same schema). -/
theorem optimize_sound (st : Store) (hwf : wfStore st = true) (hc : StoreConsistent st) (p q : Plan)
    (hs : p.wellScoped st = true) (h : Reachable st p q) :
    (evalPlan st q).Perm (evalPlan st p) ∧ q.tys st = p.tys st := by
  have s := reachable_sound st hwf hc p q hs h
  exact ⟨s.eval, s.tys⟩

/-- When the error-propagating evaluation of a plan succeeds, its result is that of the total evaluation the rule
    theorems are about. -/
theorem strict_agrees (st : Store) (p : Plan) (rows : List Row) (h : evalPlanE st p = .ok rows) : rows = evalPlan st p :=
  evalPlanE_ok st p rows h

/-- The reference evaluator of C05 on a plain query (no aggregates, ORDER BY, DISTINCT, LIMIT) is the strict evaluation
    of the bound plan. -/
theorem bound_plan_is_select (st : Store) (nf : Bool) (q : Select) (hq : plainQuery q = true) :
    evalSelect {} nf st.db q = evalPlanE st (boundPlan q) :=
  evalSelect_plan st nf q hq

/-- The property: whatever plan the optimizer reaches from the query as written — filters merged or pushed, joins
    commuted or re-associated, table scans replaced by index scans — it returns the rows the reference evaluator returns
    for the query as written (as a multiset). -/
theorem optimize_sound_select (st : Store) (hwf : wfStore st = true) (hc : StoreConsistent st) (nf : Bool) (q : Select)
    (hq : plainQuery q = true) (hs : (boundPlan q).wellScoped st = true) (out : List Row)
    (hout : evalSelect {} nf st.db q = .ok out) (p : Plan) (h : Reachable st (boundPlan q) p) :
    (evalPlan st p).Perm out := by
  rw [bound_plan_is_select st nf q hq] at hout
  rw [strict_agrees st _ out hout]
  exact (optimize_sound st hwf hc _ p hs h).1

/-- … and two plans the optimizer could choose for the same query agree with each other. -/
theorem plans_agree (st : Store) (hwf : wfStore st = true) (hc : StoreConsistent st) (p q₁ q₂ : Plan)
    (hs : p.wellScoped st = true) (h₁ : Reachable st p q₁) (h₂ : Reachable st p q₂) :
    (evalPlan st q₁).Perm (evalPlan st q₂) :=
  (optimize_sound st hwf hc p q₁ hs h₁).1.trans (optimize_sound st hwf hc p q₂ hs h₂).1.symm

/-! ## Statistics -/

theorem choose_mem (s : Stats) : ∀ (cands : List Plan) (q : Plan), choose s cands = some q → q ∈ cands
  | [], q, h => by simp [choose] at h
  | c :: cs, q, h => by
    simp only [choose] at h
    cases hcs : choose s cs with
    | none => simp only [hcs, Option.some.injEq] at h; simp [h]
    | some b =>
      simp only [hcs] at h
      split at h
      · simp only [Option.some.injEq] at h
        subst h
        simp [choose_mem s cs b hcs]
      · simp only [Option.some.injEq] at h; simp [h]

/-- Evaluation does not take statistics: they enter the cost model only (`cost : Stats → Plan → Nat`), which selects
    among plans reachable from the bound plan.  Whatever statistics the choice is made with — before or after ANALYZE,
    any sample — the chosen plans return the same multiset of rows. -/
theorem stats_irrelevant (st : Store) (hwf : wfStore st = true) (hc : StoreConsistent st) (p : Plan)
    (hs : p.wellScoped st = true) (cands : List Plan) (hall : ∀ c ∈ cands, Reachable st p c) (s₁ s₂ : Stats)
    (q₁ q₂ : Plan) (h₁ : choose s₁ cands = some q₁) (h₂ : choose s₂ cands = some q₂) :
    (evalPlan st q₁).Perm (evalPlan st q₂) :=
  plans_agree st hwf hc p q₁ q₂ hs (hall q₁ (choose_mem s₁ cands q₁ h₁)) (hall q₂ (choose_mem s₂ cands q₂ h₂))

/-! ## Index maintenance -/

/-- what the executor guarantees before it touches the index: a fresh row id for an inserted row, the uniqueness check
    of the new key, and an UPDATE that changes only the columns it assigns -/
def OpOk (ix : Index) (rows : Rows) : Op → Prop
  | .insert rid row => rid ∉ rows.map (·.1) ∧ KeyFresh ix rows row
  | .delete _ => True
  | .update rid new assigned =>
    (∀ old, (rid, old) ∈ rows → ∀ c ∈ ix.cols, assigned.contains c = false → new.getD c .null = old.getD c .null)
      ∧ KeyFresh ix (rows.filter (fun r => r.1 != rid)) new

/-- INSERT, UPDATE (of indexed and of other columns) and DELETE of a row, with the maintenance
    `maintain_secondary_indexes` performs, keep the index consistent with the table. -/
theorem maintain_preserves_consistency (ix : Index) (rows : Rows) (op : Op) (hc : IndexConsistent ix rows)
    (hd : RidsDistinct rows) (hok : OpOk ix rows op) :
    IndexConsistent (maintain {} ix rows op) (apply rows op) ∧ RidsDistinct (apply rows op) := by
  cases op with
  | insert rid row =>
    exact ⟨insert_consistent ix rows rid row hc hok.2, rids_apply rows hd (.insert rid row) hok.1⟩
  | delete rid =>
    refine ⟨?_, rids_apply rows hd (.delete rid) trivial⟩
    simp only [maintain, apply]
    cases hf : fetch rows rid with
    | none => simp only [fetch_none_filter rows rid hf]; exact hc
    | some old => exact delete_consistent ix rows rid old hc hd (fetch_some_mem rows rid old hf)
  | update rid new assigned =>
    refine ⟨?_, rids_apply rows hd (.update rid new assigned) trivial⟩
    simp only [maintain, apply]
    cases hf : fetch rows rid with
    | none =>
      -- no such row: nothing changes
      have : rows.map (fun r => if r.1 == rid then (rid, new) else r) = rows := by
        conv => rhs; rw [← List.map_id rows]
        apply List.map_congr_left
        intro r hr
        simp only [fetch, Option.map_eq_none_iff, List.find?_eq_none] at hf
        have := hf r hr
        simp only [Bool.not_eq_true] at this
        simp [this]
      rw [this]; exact hc
    | some old =>
      have hm := fetch_some_mem rows rid old hf
      exact update_consistent ix rows rid old new assigned hc hd hm (hok.1 old hm) hok.2

/-- keys of the rows that get an entry are pairwise different (the UNIQUE constraint the index implements) -/
def KeysUnique (cols : List Nat) (rows : Rows) : Prop := ((rowPairs cols rows).map (·.1)).Nodup

instance (cols : List Nat) (rows : Rows) : Decidable (KeysUnique cols rows) := by unfold KeysUnique; exact inferInstance

theorem populate_step (cols : List Nat) : ∀ (rs : Rows) (ix : Index) (rows0 : Rows), ix.cols = cols →
    IndexConsistent ix rows0 → KeysUnique cols (rows0 ++ rs) → IndexConsistent (rs.foldl (fun ix r => ix.insert r.1 r.2) ix) (rows0 ++ rs)
  | [], ix, rows0, _, hc, _ => by simpa using hc
  | r :: rs, ix, rows0, hcols, hc, hu => by
    have hfresh : KeyFresh ix rows0 r.2 := by
      simp only [KeyFresh, hcols]
      cases hn : hasNull (keyOf cols r.2)
      · right
        intro hmem
        have hu' : ((rowPairs cols (rows0 ++ [(r.1, r.2)] ++ rs)).map (·.1)).Nodup := by
          simpa [KeysUnique, List.append_assoc] using hu
        have : rowPairs cols (rows0 ++ [(r.1, r.2)] ++ rs)
            = rowPairs cols rows0 ++ [(keyOf cols r.2, r.1)] ++ rowPairs cols rs := by
          simp [rowPairs, List.filter_append, hn]
        rw [this] at hu'
        simp only [List.map_append, List.map_cons, List.map_nil, List.append_assoc] at hu'
        have := (List.nodup_append.mp hu').2.2 _ hmem (keyOf cols r.2) (by simp)
        exact this rfl
      · left; rfl
    have h1 := insert_consistent ix rows0 r.1 r.2 hc hfresh
    have := populate_step cols rs (ix.insert r.1 r.2) (rows0 ++ [(r.1, r.2)]) (by rw [insert_cols, hcols]) h1
      (by simpa [List.append_assoc] using hu)
    simpa [List.foldl, List.append_assoc] using this

/-- CREATE INDEX on a populated table: the populated index is consistent with the table. -/
theorem populate_consistent (cols : List Nat) (rows : Rows) (hu : KeysUnique cols rows) :
    IndexConsistent (populate cols rows) rows := by
  have := populate_step cols rows { cols := cols, entries := [] } [] rfl
    ⟨by simp [KeysDistinct], by simp [livePairs, Index.live, rowPairs]⟩ (by simpa using hu)
  simpa [populate] using this

/-! ## Keys re-used inside one transaction (entries with transaction stamps) -/

/-- DELETE of the row with key `k` and INSERT of a row with the same key in ONE transaction (a session, a batch): the
    delete mark the transaction itself set frees the entry, the new row takes it over.  The transaction — and, once it
    has committed, every later reader (`reader_after_commit`) — finds exactly the new row under `k` through the index,
    and every other key as before. -/
theorem reinsert_after_own_delete_indexed (committed aborted : List Nat) (tid : Nat) (k : List Value) (rid rid' : Nat)
    (es : List TEntry) (hkeys : (es.map (·.key)).Nodup) (hrow : (k, rid) ∈ tPairs committed tid es)
    (p : List Value × Nat) :
    p ∈ tPairs committed tid (tInsert {} committed aborted tid k rid' (tDelete committed tid k es))
      ↔ (p = (k, rid') ∨ (p ∈ tPairs committed tid es ∧ p.1 ≠ k)) :=
  delete_then_insert_pairs committed aborted tid k rid rid' es hkeys hrow p

/-- what the transaction sees of the index is what every later reader sees once the transaction has committed -/
theorem reader_after_commit (committed : List Nat) (tid r : Nat) (es : List TEntry)
    (hr : ∀ e ∈ es, e.xmin ≠ r ∧ e.xmax ≠ some r) : tPairs (tid :: committed) r es = tPairs committed tid es :=
  view_after_commit committed tid r es hr

/-- An inserted row always gets an index entry its transaction sees when the key is free: no entry under the key, an
    entry with a delete mark (whoever set it — the transaction itself included), or the entry of a rolled-back INSERT. -/
theorem insert_into_free_key_indexed (committed aborted : List Nat) (tid : Nat) (k : List Value) (rid' : Nat)
    (es : List TEntry) (hfree : ∀ e ∈ es, e.key = k → aborted.contains e.xmin = true ∨ e.xmax.isSome = true) :
    (k, rid') ∈ tPairs committed tid (tInsert {} committed aborted tid k rid' es) :=
  insert_gets_entry committed aborted tid k rid' es hfree

/-- one row with key 60, inserted by the committed transaction 0 -/
def wT : List TEntry := [{ key := [.int 60], rid := 1, xmin := 0 }]

/-- The seeded change "a delete mark counts only if the deleter committed": transaction 1 deletes the row with key 60
    and inserts a row with key 60 — the old, marked entry is kept, the new row (row id 2) has no entry: after the commit
    nobody finds it through the index. -/
theorem reuseNeedsCommittedDelete_witness :
    (([.int 60] : List Value), 2) ∉ tPairs [0] 1 (tInsert { reuseNeedsCommittedDelete := true } [0] [] 1 [.int 60] 2 (tDelete [0] 1 [.int 60] wT))
      ∧ (([.int 60] : List Value), 2) ∈ tPairs [0] 1 (tInsert {} [0] [] 1 [.int 60] 2 (tDelete [0] 1 [.int 60] wT)) := by
  decide

/-- Shipped before 5b107bb: the entry of a rolled-back INSERT (transaction 5) carries no delete mark and was kept: the
    row inserted afterwards under the same key had no entry. -/
theorem keepsAbortedInsert_witness :
    (([.int 60] : List Value), 2) ∉ tPairs [0] 6 (tInsert { keepsAbortedInsert := true } [0] [5] 6 [.int 60] 2 [{ key := [.int 60], rid := 1, xmin := 5 }])
      ∧ (([.int 60] : List Value), 2) ∈ tPairs [0] 6 (tInsert {} [0] [5] 6 [.int 60] 2 [{ key := [.int 60], rid := 1, xmin := 5 }]) := by
  decide

/-- The listed finding KF-C06-index-entry-replaced, in the model as in the code: with one entry per key the re-insert
    REPLACES the entry of the deleted row; if the transaction (1) is then rolled back, a later reader (9) sees the old
    row in the table again but finds no entry for it. -/
theorem reinsert_rolled_back_entry_lost_witness :
    (([.int 60] : List Value), 1) ∈ tPairs [0] 9 wT
      ∧ (([.int 60] : List Value), 1) ∉ tPairs [0] 9 (tInsert {} [0] [] 1 [.int 60] 2 (tDelete [0] 1 [.int 60] wT)) := by
  decide

example : (wT.map (·.key)).Nodup ∧ (([.int 60] : List Value), 1) ∈ tPairs [0] 1 wT := by decide

/-! ## Witnesses: each flag of the models breaks the property on a concrete input -/

/-- two tables of different width -/
def wA : STable := { tys := [.int, .int], rows := [(1, [.int 1, .int 10]), (2, [.int 2, .int 20])] }
def wB : STable := { tys := [.int, .int, .int], rows := [(1, [.int 10, .int 1, .null]), (2, [.int 30, .int 2, .int 6])] }
def wSt : Store := [wA, wB]

/-- `A JOIN B ON a.c1 = b.c0` -/
def wJoin : Plan := .join .inner (some (.cmp .eq (.col 1) (.col 2))) (.scan 0) (.scan 1)

/-- Shipped JoinCommutativity (repaired by 2c21c6e): the commuted join keeps the column indices of the condition and
    the column order of the swapped inputs: it returns other rows than the join it stands for. -/
theorem joinCommuteKeepsIndices_witness :
    ∃ q, joinCommute { joinCommuteKeepsIndices := true } wSt wJoin = some q ∧ ¬ (evalPlan wSt q).Perm (evalPlan wSt wJoin) := by
  refine ⟨_, rfl, ?_⟩
  decide

/-- the repaired rule on the same input -/
example : ∃ q, joinCommute {} wSt wJoin = some q ∧ (evalPlan wSt q).Perm (evalPlan wSt wJoin) := ⟨_, rfl, by decide⟩

/-- `SELECT … FROM A CROSS JOIN B WHERE b.c0 IS NOT NULL` -/
def wPush : Plan := .filter (.isNull true (.col 2)) (.join .inner none (.scan 0) (.scan 1))

/-- Shipped column helpers (repaired by be64507): `shift_columns` did not look inside IS NULL / BETWEEN / IN / unary
    operators, the conjunct was pushed to the right input with its index unshifted and read another column. -/
theorem helpersSkipForms_witness :
    ∃ q, filterPushdownJoin { helpersSkipForms := true } wSt wPush = some q ∧ ¬ (evalPlan wSt q).Perm (evalPlan wSt wPush) := by
  refine ⟨_, rfl, ?_⟩
  decide

example : ∃ q, filterPushdownJoin {} wSt wPush = some q ∧ evalPlan wSt q = evalPlan wSt wPush := ⟨_, rfl, by decide⟩

/-- a self-join with a different filter on either side -/
def wSelf : Plan :=
  .join .inner none (.filter (.cmp .eq (.col 0) (.lit (.int 1))) (.scan 0)) (.filter (.cmp .eq (.col 0) (.lit (.int 2))) (.scan 0))

/-- Shipped memo deduplication (repaired by bb3cfff): two filters over the same input were one memo group, one predicate
    was applied twice and the other lost. -/
theorem memoIgnoresPredicates_witness :
    ¬ (evalPlan wSt (memoJoinInputs { memoIgnoresPredicates := true } wSelf)).Perm (evalPlan wSt wSelf) := by
  decide

example : evalPlan wSt (memoJoinInputs {} wSelf) = evalPlan wSt wSelf := by decide

/-- `(A JOIN B ON a.c0 = b.c1 AND b.c2 = 6) JOIN A` -/
def wAssoc : Plan :=
  .join .inner none
    (.join .inner (some (.and (.cmp .eq (.col 0) (.col 3)) (.cmp .eq (.col 4) (.lit (.int 6))))) (.scan 0) (.scan 1))
    (.scan 0)

/-- Shipped JoinAssociativity (repaired by 9094b3e): the B-only conjunct of the inner condition was dropped. -/
theorem assocDropsBOnly_witness :
    ∃ q, joinAssoc { assocDropsBOnly := true } wSt wAssoc = some q ∧ ¬ (evalPlan wSt q).Perm (evalPlan wSt wAssoc) := by
  refine ⟨_, rfl, ?_⟩
  decide

example : ∃ q, joinAssoc {} wSt wAssoc = some q ∧ evalPlan wSt q = evalPlan wSt wAssoc := ⟨_, rfl, by decide⟩

/-- a table with a unique index on (c0, c1); the row with NULL in c1 has no entry -/
def wC : STable :=
  { tys := [.int, .int], rows := [(1, [.int 5, .null]), (2, [.int 5, .int 7])],
    indexes := [populate [0, 1] [(1, [.int 5, .null]), (2, [.int 5, .int 7])]] }

/-- `WHERE c0 = 5` -/
def wFilter : Plan := .filter (.cmp .eq (.col 0) (.lit (.int 5))) (.scan 0)

/-- Using an index although an unbounded indexed column may be NULL (repaired by 47df9d4): the index scan misses the
    row that has no entry. -/
theorem indexScanIgnoresNullable_witness :
    ∃ q, filterToIndexScan { indexScanIgnoresNullable := true } [wC] 0 wFilter = some q
      ∧ ¬ (evalPlan [wC] q).Perm (evalPlan [wC] wFilter) := by
  refine ⟨_, rfl, ?_⟩
  decide

/-- the repaired rule does not use the index here -/
example : filterToIndexScan {} [wC] 0 wFilter = none := by decide

/-- index on column 1 of a two-row table -/
def wRows : Rows := [(1, [.int 1, .int 10]), (2, [.int 2, .int 20])]
def wIx : Index := populate [1] wRows

/-- Shipped index maintenance on UPDATE of an indexed column (a listed finding, pinned by
    `test_index_maintained_on_update`): the entry stays under the old key, the index no longer agrees with the table —
    and an index scan for the new key finds nothing while the table scan finds the row. -/
theorem indexUpdateKeepsOldKey_witness :
    IndexConsistent wIx wRows
      ∧ ¬ IndexConsistent (maintain { indexUpdateKeepsOldKey := true } wIx wRows (.update 2 [.int 2, .int 25] [1]))
          (apply wRows (.update 2 [.int 2, .int 25] [1]))
      ∧ Index.scan (maintain { indexUpdateKeepsOldKey := true } wIx wRows (.update 2 [.int 2, .int 25] [1]))
          (apply wRows (.update 2 [.int 2, .int 25] [1])) [⟨0, .int 25, true⟩] [⟨0, .int 25, true⟩] = [] := by
  refine ⟨by decide, by decide, by decide⟩

/-- the specified maintenance on the same update -/
example : IndexConsistent (maintain {} wIx wRows (.update 2 [.int 2, .int 25] [1])) (apply wRows (.update 2 [.int 2, .int 25] [1])) := by
  decide

/-! ## Orderings and the sort enforcer -/

/-- PhysicalProperties::satisfies: a delivered ordering satisfies a required one if and only if the required keys
    are the first keys of the delivered ordering (as plain columns, same directions) -/
theorem ordering_satisfies_iff_prefix (delivered : List DKey) (required : List OrdKey) :
    satisfies {} delivered required = true ↔ required.map some <+: delivered := by
  unfold satisfies
  cases required with
  | nil => simp
  | cons k rs => simpa using leads_iff_prefix (k :: rs) delivered

/-- rows ordered by the keys `r ++ t` are ordered by the keys `r` (what makes the prefix rule safe) -/
theorem sorted_on_prefix (nf : Bool) (r t : List OrdKey) (rows : List Row) :
    SortedOn nf (r ++ t) rows → SortedOn nf r rows :=
  sortedOn_prefix nf r t rows

/-- The enforcer of extract_plan.  If the input's rows really are ordered by every column prefix of the ordering it
    declares, then what the operator above receives is a permutation of the input's rows, ordered by the keys the
    operator requires; and the ordering it may rely on afterwards is led by the required one. -/
theorem enforcer_sound (nf : Bool) (delivered : List DKey) (required : List OrdKey) (rows : List Row)
    (hdel : ∀ p : List OrdKey, p.map some <+: delivered → SortedOn nf p rows) :
    SortedOn nf required (enforce {} nf delivered required rows)
      ∧ (enforce {} nf delivered required rows).Perm rows
      ∧ required.map some <+: enforcedOrdering {} delivered required := by
  unfold enforce enforcedOrdering
  by_cases hs : satisfies {} delivered required = true
  · have hp := (ordering_satisfies_iff_prefix delivered required).mp hs
    simp only [hs, if_true]
    exact ⟨hdel required hp, List.Perm.refl _, hp⟩
  · simp only [hs]
    exact ⟨sortOn_sorted nf required rows, sortOn_perm nf required rows, List.prefix_refl _⟩

/-- the Sort operator delivers what it declares: every column prefix of its keys -/
theorem sort_delivers (nf : Bool) (ks p : List OrdKey) (rows : List Row) (hp : p.map some <+: ks.map some) :
    SortedOn nf p (sortOn nf ks rows) := by
  obtain ⟨t, ht⟩ := hp
  have hinj : Function.Injective (some : OrdKey → DKey) := fun a b h => by injection h
  have : ∃ t', ks = p ++ t' := by
    refine ⟨ks.drop p.length, ?_⟩
    have h1 : (ks.map some).take p.length = p.map some := by rw [← ht]; simp
    have h2 : (ks.take p.length).map some = p.map some := by rw [List.map_take]; exact h1
    have h3 : ks.take p.length = p := (List.map_inj_right (fun x y h => hinj h)).mp h2
    conv => lhs; rw [← List.take_append_drop p.length ks]
    rw [h3]
  obtain ⟨t', rfl⟩ := this
  exact sortedOn_prefix nf p t' _ (sortOn_sorted nf (p ++ t') rows)

/-- the zip reading accepts a delivered ordering exactly if one of the two orderings leads the other -/
theorem ordering_zip_reading (k : OrdKey) (required : List OrdKey) (x : DKey) (ds : List DKey) :
    (satisfies { orderingPrefixEitherWay := true } (x :: ds) (k :: required) = true
      ↔ ((k :: required).map some <+: x :: ds ∨ x :: ds <+: (k :: required).map some)) := by
  have := leadsZip_iff (k :: required) (x :: ds)
  simpa [satisfies] using this

/-- The demonstration of the seeded change: t(id, a, b) joined to u on a, the result (ordered by `a` only, as the
    lower merge join declares) joined to v(id, ua, d) on (a, b) = (ua, d).  -/
def wJoined : List Row :=
  [[.int 1, .int 1, .int 30], [.int 2, .int 1, .int 10], [.int 4, .int 1, .int 20], [.int 3, .int 2, .int 20], [.int 5, .int 2, .int 10]]
def wV : List Row :=
  [[.int 1, .int 1, .int 10], [.int 2, .int 1, .int 20], [.int 3, .int 1, .int 30], [.int 4, .int 2, .int 10], [.int 5, .int 2, .int 20]]
def wDelivered : List DKey := [some ⟨1, true⟩]
def wRequired : List OrdKey := [⟨1, true⟩, ⟨2, true⟩]

/-- Seeded change (flag `orderingPrefixEitherWay`): the delivered ordering `[a]` passes for the required `[a, b]`, no
    Sort is put in, the merge join reads an input that is not ordered by its keys and pairs two of the five rows —
    the nested-loop reading of the same join, and the merge join over the enforced input of the specification, pair
    all five. -/
theorem orderingPrefixEitherWay_witness :
    satisfies { orderingPrefixEitherWay := true } wDelivered wRequired = true
      ∧ satisfies {} wDelivered wRequired = false
      ∧ sortedOnB true [⟨1, true⟩] wJoined = true
      ∧ sortedOnB true wRequired (enforce { orderingPrefixEitherWay := true } true wDelivered wRequired wJoined) = false
      ∧ (mergeInner [1, 2] [1, 2] 10 (enforce { orderingPrefixEitherWay := true } true wDelivered wRequired wJoined) wV).length = 2
      ∧ (nlInner [1, 2] [1, 2] wJoined wV).length = 5
      ∧ (mergeInner [1, 2] [1, 2] 10 (enforce {} true wDelivered wRequired wJoined) wV).Perm (nlInner [1, 2] [1, 2] wJoined wV) := by
  refine ⟨by decide, by decide, by decide, by decide, by decide, by decide, by decide⟩

/-! ## Physical join operators -/

/-- an INT / BIGINT value or NULL -/
def IntOrNull (v : Value) : Prop := v = .null ∨ ∃ i, v = .int i

theorem eq3_int_or_null (x y : Value) (hx : IntOrNull x) (hy : IntOrNull y) :
    cmp3 .eq x y = some true ↔ (x = y ∧ x ≠ .null) := by
  rcases hx with rfl | ⟨i, rfl⟩ <;> rcases hy with rfl | ⟨j, rfl⟩
  · simp [cmp3]
  · simp [cmp3]
  · simp [cmp3]
  · simp [cmp3, CmpOp.holds, Value.cmp, cmpInt_eq]

theorem keys_eq_iff_all_eq3 (xs ys : List Value) (hlen : xs.length = ys.length)
    (hx : ∀ v ∈ xs, IntOrNull v) (hy : ∀ v ∈ ys, IntOrNull v) :
    (xs = ys ∧ ∀ v ∈ xs, v ≠ .null) ↔ ∀ p ∈ xs.zip ys, cmp3 .eq p.1 p.2 = some true := by
  induction xs generalizing ys with
  | nil =>
    cases ys with
    | nil => simp
    | cons y ys => simp at hlen
  | cons x xs ih =>
    cases ys with
    | nil => simp at hlen
    | cons y ys =>
      have hlen' : xs.length = ys.length := by simpa using hlen
      have hx' : ∀ v ∈ xs, IntOrNull v := fun v hv => hx v (List.mem_cons_of_mem _ hv)
      have hy' : ∀ v ∈ ys, IntOrNull v := fun v hv => hy v (List.mem_cons_of_mem _ hv)
      have h1 := eq3_int_or_null x y (hx x (by simp)) (hy y (by simp))
      have h2 := ih ys hlen' hx' hy'
      simp only [List.zip_cons_cons, List.mem_cons, forall_eq_or_imp, List.cons.injEq]
      rw [h1, ← h2]
      constructor
      · rintro ⟨⟨hxy, hrest⟩, hnx, hn⟩; exact ⟨⟨hxy, hnx⟩, hrest, hn⟩
      · rintro ⟨⟨hxy, hnx⟩, hrest, hn⟩; exact ⟨⟨hxy, hrest⟩, hnx, hn⟩

/-- The probe of the hash join is the join condition: over INT / BIGINT keys (NULLs allowed) a left row finds a right
    row under its key exactly if every `column = column` of the condition is TRUE for the pair — in particular never
    through a NULL key. -/
theorem hash_probe_is_equi_match (kl kr : List Nat) (hlen : kl.length = kr.length) (a b : Row)
    (ha : ∀ v ∈ joinKey kl a, IntOrNull v) (hb : ∀ v ∈ joinKey kr b, IntOrNull v) :
    hashMatch {} kl kr a b = equiMatch kl kr a b := by
  have hl : (joinKey kl a).length = (joinKey kr b).length := by simp [joinKey, hlen]
  have h := keys_eq_iff_all_eq3 (joinKey kl a) (joinKey kr b) hl ha hb
  rw [Bool.eq_iff_iff]
  simp only [hashMatch, equiMatch, Bool.false_or, Bool.and_eq_true, beq_iff_eq, Bool.not_eq_true', List.any_eq_false,
    List.all_eq_true]
  constructor
  · rintro ⟨he, hn⟩; exact h.mp ⟨he, fun v hv hv0 => by simpa [hv0] using hn v hv⟩
  · intro hall
    obtain ⟨he, hn⟩ := h.mpr hall
    exact ⟨he, fun v hv => by simpa using hn v hv⟩

/-- a ⟕⟖ b on column 0 = column 0 with a NULL key on both sides -/
def wJL : List Row := [[.int 1], [.null]]
def wJR : List Row := [[.null], [.int 1], [.int 2]]

/-- Shipped hash join (flag `hashJoinNullEqualsNull`; never chosen by the shipped cost model, reached by running the
    operator directly): the left row with the NULL key is paired with the right row with the NULL key instead of both
    being NULL-padded.  The repaired probe returns the rows of the join. -/
theorem hashJoinNullEqualsNull_witness :
    hashJoin { hashJoinNullEqualsNull := true } .full [0] [0] 1 1 wJL wJR
        = [[.int 1, .int 1], [.null, .null], [.null, .int 2]]
      ∧ joinPure .full (equiMatch [0] [0]) 1 1 wJL wJR
        = [[.int 1, .int 1], [.null, .null], [.null, .null], [.null, .int 2]]
      ∧ hashJoin {} .full [0] [0] 1 1 wJL wJR = joinPure .full (equiMatch [0] [0]) 1 1 wJL wJR := by
  refine ⟨by decide, by decide, by decide⟩

/-! ## The hypotheses are satisfiable -/

def exT : STable :=
  { tys := [.int, .int, .text], notNull := [true, false, false],
    rows := [(1, [.int 1, .int 10, .text [97]]), (2, [.int 2, .null, .null]), (3, [.int 3, .int 30, .text [98]])],
    indexes := [populate [0] [(1, [.int 1, .int 10, .text [97]]), (2, [.int 2, .null, .null]), (3, [.int 3, .int 30, .text [98]])],
                populate [1] [(1, [.int 1, .int 10, .text [97]]), (2, [.int 2, .null, .null]), (3, [.int 3, .int 30, .text [98]])]] }

example : wfStore [exT, wA] = true := by decide
example : StoreConsistent [exT] := by
  intro tb htb
  simp only [List.mem_singleton] at htb
  subst htb
  refine ⟨by decide, ?_⟩
  intro ix hix
  simp only [exT, List.mem_cons, List.not_mem_nil, or_false] at hix
  rcases hix with rfl | rfl <;> decide
example : (Plan.filter (.cmp .gt (.col 1) (.lit (.int 5))) (.scan 0)).wellScoped [exT] = true := by decide
/-- the index on the nullable column 1 is used for `c1 > 5` (the bound rejects NULL keys) and returns the filter's rows -/
example : ∃ q, filterToIndexScan {} [exT] 1 (.filter (.cmp .gt (.col 1) (.lit (.int 5))) (.scan 0)) = some q
    ∧ (evalPlan [exT] q).Perm (evalPlan [exT] (.filter (.cmp .gt (.col 1) (.lit (.int 5))) (.scan 0))) := ⟨_, rfl, by decide⟩
example : OpOk wIx wRows (.update 2 [.int 2, .int 25] [1]) := by
  refine ⟨?_, ?_⟩
  · intro old hold c hc hna
    have hcols : wIx.cols = [1] := by decide
    rw [hcols] at hc
    simp only [List.mem_singleton] at hc
    subst hc
    simp at hna
  · right; decide
example : KeysUnique [1] wRows := by decide
def exQuery : Select :=
  { distinct := false, from_ := From.table 0, where_ := some (Expr.cmp CmpOp.gt (Expr.col 1) (Expr.lit (Value.int 5))),
    groupBy := [], aggs := [], items := none, orderBy := [], limit := none, offset := none }
example : plainQuery exQuery = true := by decide
example : (boundPlan exQuery).wellScoped [exT] = true := by decide

end AxVerif.Thm.C06
