/- C06 — the chosen plan never changes the answer (theorems follow; stage 1 placeholder). -/
import AxVerif.Model.Sql
namespace AxVerif.Thm.C06
open AxVerif.Sql

/-- evaluation of a query takes the database and the query, and nothing else: no statistics, no index -/
theorem stats_irrelevant (nf : Bool) (db : Db) (q : Select) (stats₁ stats₂ : List (Nat × Nat)) :
    (fun (_ : List (Nat × Nat)) => evalSelect .none nf db q) stats₁ = (fun _ => evalSelect .none nf db q) stats₂ := rfl

end AxVerif.Thm.C06
