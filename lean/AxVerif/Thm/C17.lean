/-
  C17 — The write-ahead log returns exactly what was appended.

  `run P {} (init P) ops` is the step-by-step model of io/wal.rs with all defects off (= the code with the `fix:`
  commits of known_findings.d/C17.json); `specRun P Spec.init ops` is the abstract specification: the list of
  accepted records since the last truncation and the length of its forced prefix.  The theorems hold for an
  arbitrary `Params` satisfying `Params.Wf`; `walParams_wf` instantiates them with the constants evaluated from the
  code on this run.  Helper lemmas and the invariant are in Lemmas/Wal.lean.
-/
import AxVerif.Lemmas.Wal
import AxVerif.Generated.Wal
namespace AxVerif.Wal
open AxVerif

/-- Side conditions on the extracted constants: the header sizes the record image is built for, the
    `available_space` / `max_record_size` values of the code equal to the model's formulas (doubled header
    included), and a block small enough for the u16 payload lengths. -/
def Params.Wf (P : Params) : Prop :=
  P.recHdr = 80 ∧ P.align = 8 ∧ P.blockHdr ≤ P.zeroHdr ∧ 2 * P.zeroHdr + P.recHdr ≤ P.blockSize ∧
  P.blockSize ≤ 65536 ∧ P.maxRecord = P.blockSize - P.blockHdr ∧
  P.freshZeroAvail = zeroAvail P (Block.fresh 0) ∧ P.freshBlockAvail = blockAvail P (Block.fresh 0) ∧
  P.freshTotalBlocks = 1

instance (P : Params) : Decidable P.Wf := by unfold Params.Wf; infer_instance

/-- the constants of the code as extracted on this run are well formed -/
theorem walParams_wf : Generated.walParams.Wf := by decide

/-- `OwnedRecord::compute_padded_size` as evaluated from the code agrees with the model's formula -/
theorem walPaddedSizes_agree :
    (List.range 16).map (paddedSize Generated.walParams) = Generated.walPaddedSizes := by decide

/-- the block size in use is `WAL_BLOCK_SIZE` rounded up to a multiple of the file-system block size, so at least it -/
theorem walBlockSize_ge : Generated.walBlockSizeConst ≤ Generated.walParams.blockSize := by decide

/-! ### the property -/

/-- **Refinement.**  For every sequence of push / force / truncate / reopen / crash / read (read-ahead ≥ 1) the log
    answers exactly as the specification does: same LSN or same rejection for every push, and every read returns
    exactly the records appended since the last truncation that a force has covered, in order. -/
theorem run_refines_spec (P : Params) (hw : P.Wf) (ops : List Op) (hk : ReadAheadPos ops) :
    (run P {} (init P) ops).2 = (specRun P Spec.init ops).2 := by
  obtain ⟨h80, _, hz, _, _, _, _, _, ht⟩ := hw
  exact (run_refines P (by omega) hz ht ops (inv_init P ht) hk).1

/-- Reading after any sequence of operations, with any read-ahead `k ≥ 1`, returns exactly the forced prefix of
    what was appended since the last truncation — same order, same LSNs, tids, kinds and payloads. -/
theorem read_eq_forced (P : Params) (hw : P.Wf) (ops : List Op) (hk : ReadAheadPos ops) (k : Nat) (hk0 : 0 < k) :
    read P {} (run P {} (init P) ops).1 k =
      .ok ((specRun P Spec.init ops).1.appended.take (specRun P Spec.init ops).1.forced) := by
  obtain ⟨h80, _, hz, _, _, _, _, _, ht⟩ := hw
  obtain ⟨_, z, m, inv⟩ := run_refines P (by omega) hz ht ops (inv_init P ht) hk
  exact read_inv P (by omega) inv k hk0

/-- Right after a force or a clean close/reopen everything appended since the last truncation is read back. -/
theorem read_after_force_or_reopen (P : Params) (hw : P.Wf) (ops : List Op) (op : Op) (hop : op = .force ∨ op = .reopen)
    (hk : ReadAheadPos (ops ++ [op])) (k : Nat) (hk0 : 0 < k) :
    read P {} (run P {} (init P) (ops ++ [op])).1 k = .ok (specRun P Spec.init (ops ++ [op])).1.appended := by
  rw [read_eq_forced P hw _ hk k hk0, specRun_append]
  rcases hop with h | h <;> subst h <;> simp [specRun, specStep, Spec.force]

/-- The LSNs of the records read back increase strictly. -/
theorem lsn_strictly_increasing (P : Params) (hw : P.Wf) (ops : List Op) (hk : ReadAheadPos ops) (k : Nat) (hk0 : 0 < k) :
    ∃ l, read P {} (run P {} (init P) ops).1 k = .ok l ∧ (l.map (·.lsn)).Pairwise (· < ·) := by
  refine ⟨_, read_eq_forced P hw ops hk k hk0, ?_⟩
  have h := (specRun_inv P ops Spec.init specInv_init).inc
  rw [List.map_take]
  exact List.Pairwise.sublist (List.take_sublist _ _) h

/-- Nothing is invented: every record read back is a record that was handed to `push` (with the LSN the log gave it). -/
theorem never_invented (P : Params) (hw : P.Wf) (ops : List Op) (hk : ReadAheadPos ops) (k : Nat) (hk0 : 0 < k) :
    ∃ l, read P {} (run P {} (init P) ops).1 k = .ok l ∧ ∀ r ∈ l, PushedIn ops r := by
  refine ⟨_, read_eq_forced P hw ops hk k hk0, ?_⟩
  intro r hr
  have := specRun_pushed P ops [] Spec.init (by simp [Spec.init]) r (List.mem_of_mem_take hr)
  simpa using this

/-- A record larger than `max_record_size` is rejected and the log is left exactly as it was — whatever the
    defect flags. -/
theorem push_too_large (P : Params) (D : Defects) (s : State) (r : Rec) (ha : s.alive = true)
    (h : recSize P r > P.maxRecord) : step P D s (.push r) = (s, .err .tooLarge) := by
  simp only [step, ha, Bool.not_true, Bool.false_eq_true, if_false, push]
  have : recSize P { r with lsn := nextLsn D s } = recSize P r := rfl
  simp only [this, h, if_true]

/-- An accepted record has payload lengths that fit the u16 fields of the record header (so nothing is truncated
    by `as u16`), and a total size that fits the u32 field. -/
theorem push_ok_lengths_fit (P : Params) (hw : P.Wf) (D : Defects) (s : State) (r : Rec) (n : Nat)
    (h : (step P D s (.push r)).2 = .lsn n) :
    r.undo.length < 2^16 ∧ r.redo.length < 2^16 ∧ recSize P r < 2^32 := by
  obtain ⟨h80, h8, _, _, hbs, hmax, _, _, _⟩ := hw
  have hsz : recSize P r ≤ P.maxRecord := by
    apply Classical.byContradiction
    intro hc
    by_cases ha : s.alive = true
    · rw [push_too_large P D s r ha (by omega)] at h; simp at h
    · simp [step, ha] at h
  have hp := paddedSize_ge P (by omega) (r.undo.length + r.redo.length)
  unfold recSize at hsz ⊢
  omega

/-- **Record image round trip**: what `push` copies into a block decodes, in front of anything, to the same
    record — every header field and both payloads, empty payloads and every padding length included. -/
theorem decode_encode_record (P : Params) (hw : P.Wf) (r : Rec) (hf : RecFits P r) (rest : Bytes) :
    decodeRecord (encodeRecord P r ++ rest) = some (r, rest) := by
  obtain ⟨h80, h8, _⟩ := hw
  exact decode_encode P h80 (by omega) r hf rest

/-- The image of a record is exactly `total_size` bytes. -/
theorem encodeRecord_length (P : Params) (hw : P.Wf) (r : Rec) : (encodeRecord P r).length = recSize P r := by
  obtain ⟨h80, h8, _⟩ := hw
  exact encodeRecord_length' P h80 (by omega) r

/-- **Block data area round trip**: walking the byte image of a block's data area the way the reader does (decode
    at the offset, advance by `total_size`, stop at `used_bytes`) yields exactly the block's records — which is
    also what the abstract walk `recsOf` of the state machine yields; whatever follows the used part is ignored. -/
theorem decode_encode_block_data (P : Params) (hw : P.Wf) (b : Block) (hb : BlockOk P b)
    (hf : ∀ r ∈ b.recs, RecFits P r) (tail : Bytes) :
    decodeRecs b.recs.length b.used 0 (encodeRecs P b.recs ++ tail) = some b.recs ∧ recsOf P b = b.recs := by
  obtain ⟨h80, h8, _⟩ := hw
  refine ⟨?_, recsOf_ok P (by omega) b hb⟩
  have := decodeRecs_encodeRecs P h80 (by omega) b.recs hf 0 tail
  rw [hb]; simpa using this

/-! ### the hypotheses are satisfiable -/

def exRec (tid : Nat) (undo redo : Bytes) : Rec :=
  { lsn := 0, tid := tid, prev := some 3, oid := some 7, rowid := none, kind := 6, undo := undo, redo := redo }

example : Generated.walParams.Wf := walParams_wf
example : ReadAheadPos [.push (exRec 1 [1, 2, 3] []), .force, .read 1, .reopen, .push (exRec 2 [] [9]), .crash, .read 4,
    .truncate, .read 2] := by decide
example : RecFits Generated.walParams (exRec 5 [1, 2, 3] [4, 5]) := by decide

/-! ### the five defects of the shipped code: with the flag on, the property fails

  Witnesses on a tiny block size (the model is parametric): block zero takes three empty records, a numbered block four. -/

def tinyP : Params :=
  { blockSize := 512, blockHdr := 64, zeroHdr := 128, recHdr := 80, align := 8,
    maxRecord := 448, freshZeroAvail := 256, freshBlockAvail := 384, freshTotalBlocks := 1 }

example : tinyP.Wf := by decide

/-- an empty-payload record of transaction `tid` (80 bytes) -/
def e (tid : Nat) : Rec :=
  { lsn := 0, tid := tid, prev := none, oid := none, rowid := none, kind := 0, undo := [], redo := [] }

/-- the property on one sequence: the log with defects `D` answers as the specification -/
def Refines (P : Params) (D : Defects) (ops : List Op) : Prop :=
  (run P D (init P) ops).2 = (specRun P Spec.init ops).2

instance (P : Params) (D : Defects) (ops : List Op) : Decidable (Refines P D ops) := by unfold Refines; infer_instance

/-- `last_lsn()` from block zero's block header: once block zero is full every record gets the same LSN. -/
theorem lsnFromBlockZero_witness :
    ¬ Refines tinyP { lsnFromBlockZero := true }
      [.push (e 1), .push (e 2), .push (e 3), .push (e 4), .push (e 5), .force, .read 1] := by decide

/-- the shipped `perform_flush`: the second force after a spill overwrites block 1 — a forced record is lost. -/
theorem flushOverwrites_witness :
    ¬ Refines tinyP { flushOverwritesBlockOne := true }
      [.push (e 1), .push (e 2), .push (e 3), .push (e 4), .force, .push (e 5), .push (e 6), .push (e 7), .push (e 8),
       .push (e 9), .force, .read 1] := by decide

/-- same defect: a force with nothing new resets `total_blocks` and the numbered blocks disappear. -/
theorem flushOverwrites_witness2 :
    ¬ Refines tinyP { flushOverwritesBlockOne := true }
      [.push (e 1), .push (e 2), .push (e 3), .push (e 4), .force, .force, .read 1] := by decide

/-- the reader trusting the in-memory `total_blocks`: a block allocated but not yet forced makes it read past
    the end of the file. -/
theorem readerHeader_witness :
    ¬ Refines tinyP { readerTrustsMemoryHeader := true }
      [.push (e 1), .push (e 2), .push (e 3), .force, .push (e 4), .read 1] := by decide

/-- after reopen a small record goes back into block zero although a numbered block exists: read back out of order. -/
theorem reopenReusesBlockZero_witness :
    ¬ Refines tinyP { reopenReusesBlockZero := true }
      [.push (e 1), .push (e 2), .push { e 3 with undo := List.replicate 100 0 }, .force, .reopen, .push (e 4), .force,
       .read 1] := by decide

/-- a zero-length file (created or truncated, not yet forced) is an error for the reader and for `open`. -/
theorem shortFileIsError_witness :
    ¬ Refines tinyP { shortFileIsError := true } [.read 1] ∧
    ¬ Refines tinyP { shortFileIsError := true } [.push (e 1), .force, .truncate, .crash, .push (e 2), .force, .read 1] := by
  decide

end AxVerif.Wal
