/-
  C19 — Values compare, hash, cast and round-trip consistently.
  Property theorems (helper lemmas are in Lemmas/Value.lean).  Unless a theorem is named `…_witness`, it is about the
  specification `Defects := {}`.
-/
import AxVerif.Lemmas.Value
namespace AxVerif.Value
open AxVerif

/-! ## VarInt (types/varint.rs) -/

/-- Zig-zag is a bijection between the integers and the naturals (both directions, no range restriction). -/
theorem zigzag_bij : (∀ v : Int, VarInt.unzigzag (VarInt.zigzag v) = v) ∧ (∀ u : Nat, VarInt.zigzag (VarInt.unzigzag u) = u) := by
  refine ⟨fun v => ?_, fun u => ?_⟩
  · unfold VarInt.unzigzag VarInt.zigzag
    split <;> split <;> omega
  · unfold VarInt.unzigzag VarInt.zigzag
    split <;> split <;> omega

/-- `encode_zigzag` of an `i64` fits `u64`, and every `u64` is the image of an `i64`. -/
theorem zigzag_range (v : Int) : VarInt.InI64 v ↔ VarInt.zigzag v < 18446744073709551616 := by
  unfold VarInt.zigzag VarInt.InI64
  split <;> omega

/-- Every `i64` survives encode → decode, whatever follows it in the buffer, and the decoder stops exactly
    behind the encoding. -/
theorem varint_roundtrip (v : Int) (h : VarInt.InI64 v) (rest : Bytes) :
    VarInt.decode (VarInt.encode v ++ rest) = some (v, rest) := by
  have hz : VarInt.zigzag v < 18446744073709551616 := (zigzag_range v).mp h
  have hlt : VarInt.zigzag v < 128 ^ (9 + 1) := by omega
  unfold VarInt.decode VarInt.encode VarInt.maxLen
  rw [VarInt.scan_encodeU 9 _ rest hlt]
  simp only [VarInt.valueOf, VarInt.valueU_encodeU 9 _ hlt, Nat.mod_eq_of_lt hz, zigzag_bij.1 v]

/-- An encoding occupies between 1 and `MAX_VARINT_LEN` = 10 bytes, and `encoded_size` predicts it exactly. -/
theorem varint_length (v : Int) :
    1 ≤ (VarInt.encode v).length ∧ (VarInt.encode v).length ≤ 10 ∧ VarInt.encodedSize v = (VarInt.encode v).length :=
  ⟨VarInt.encodeU_length_pos 9 _, VarInt.encodeU_length 10 _, VarInt.sizeU_eq 10 _⟩

/-- Encoding is injective on `i64` (distinct values never share an encoding). -/
theorem varint_encode_injective (a b : Int) (ha : VarInt.InI64 a) (hb : VarInt.InI64 b)
    (h : VarInt.encode a = VarInt.encode b) : a = b := by
  have h1 := varint_roundtrip a ha []
  have h2 := varint_roundtrip b hb []
  rw [h] at h1
  rw [h1] at h2
  simpa using h2

/-- Over-long or unterminated input is rejected: if none of the first ten bytes ends the number
    (this includes the empty buffer), decoding fails. -/
theorem varint_rejects_long (bs : Bytes) (h : ∀ b ∈ bs.take 10, 128 ≤ b.toNat) : VarInt.decode bs = none := by
  unfold VarInt.decode VarInt.maxLen
  rw [VarInt.scan_none_of_all_cont 10 bs h]

/-- The decoder never looks past its own prefix: whatever it accepts splits the input into a prefix of 1–10
    bytes and the untouched rest, and the decoded number is an `i64`. -/
theorem varint_decode_consumes (bs rest : Bytes) (v : Int) (h : VarInt.decode bs = some (v, rest)) :
    ∃ p, bs = p ++ rest ∧ 1 ≤ p.length ∧ p.length ≤ 10 ∧ VarInt.InI64 v := by
  unfold VarInt.decode VarInt.maxLen at h
  split at h
  · simp at h
  · rename_i p r hs
    simp only [Option.some.injEq, Prod.mk.injEq] at h
    obtain ⟨hv, hr⟩ := h
    subst hr
    obtain ⟨h1, h2, h3⟩ := VarInt.scan_length hs
    refine ⟨p, h1, h2, h3, ?_⟩
    rw [← hv, VarInt.valueOf, zigzag_range, zigzag_bij.2]
    exact Nat.mod_lt _ (by omega)

/-! ## Blob (types/blob.rs) -/

/-- Every byte string (shorter than 2^63, the largest length a `VarInt` can announce) survives
    `from_unencoded_slice` → `reinterpret_cast`, whatever follows it, and the reader stops right behind it. -/
theorem blob_roundtrip (data rest : Bytes) (h : data.length < 9223372036854775808) :
    Blob.decode {} (Blob.encode data ++ rest) = .ok (data, (Blob.encode data).length, rest) := by
  have hi : VarInt.InI64 (data.length : Int) := by unfold VarInt.InI64; omega
  have hu : Blob.asUsize (data.length : Int) = data.length := by
    unfold Blob.asUsize
    omega
  have hl := (varint_length (data.length : Int)).2.1
  unfold Blob.decode Blob.encode
  rw [List.append_assoc, varint_roundtrip _ hi]
  simp only [hu, List.length_append, List.take_left', List.drop_left']
  rw [if_neg (by omega), if_neg (by omega)]
  congr 3
  omega

/-- A truncated blob is refused (never a short read). -/
theorem blob_rejects_truncated (data : Bytes) (k : Nat) (h : data.length < 9223372036854775808) (hk : k < data.length) :
    Blob.decode {} (VarInt.encode (data.length : Int) ++ data.take k) = .error .eof := by
  have hi : VarInt.InI64 (data.length : Int) := by unfold VarInt.InI64; omega
  have hu : Blob.asUsize (data.length : Int) = data.length := by
    unfold Blob.asUsize
    omega
  have hl := (varint_length (data.length : Int)).2.1
  unfold Blob.decode
  rw [varint_roundtrip _ hi]
  simp only [hu, List.length_append, List.length_take]
  rw [if_neg (by omega), if_pos (by omega)]

/-- The chunked comparator (8-byte big-endian words, then single bytes, then length) is exactly the
    lexicographic order on the data bytes — for all byte strings. -/
theorem blobCmp_eq_lex (a b : Bytes) : Blob.cmp a b = Blob.lex a b := Blob.cmp_eq_lex a b

/-- …and that order is a total order: reflexive, `eq` only on identical strings, antisymmetric (swapping the
    arguments swaps the verdict), transitive; a proper prefix sorts first. -/
theorem blobCmp_total_order :
    (∀ a, Blob.cmp a a = .eq) ∧
    (∀ a b, Blob.cmp a b = .eq ↔ a = b) ∧
    (∀ a b, Blob.cmp b a = (Blob.cmp a b).swap) ∧
    (∀ a b c, Blob.cmp a b = .lt → Blob.cmp b c = .lt → Blob.cmp a c = .lt) ∧
    (∀ a b : Bytes, b ≠ [] → Blob.cmp a (a ++ b) = .lt) := by
  simp only [blobCmp_eq_lex]
  refine ⟨Blob.lex_refl, Blob.lex_eq_iff, Blob.lex_swap, Blob.lex_trans_lt, ?_⟩
  intro a b hb
  induction a with
  | nil => cases b with
    | nil => exact absurd rfl hb
    | cons _ _ => rfl
  | cons x xs ih => simp [Blob.lex, ih]

/-- With the unchecked `offset + len` of the shipped code, a one-byte buffer announcing length −1 overflows `usize`. -/
theorem blobLenOverflow_witness :
    Blob.decode { blobLenOverflow := true } [1] = .error .overflowPanic ∧ Blob.decode {} [1] = .error .eof :=
  ⟨by decide, by decide⟩

/-- Non-vacuity of the hypotheses above. -/
example : VarInt.InI64 (-9223372036854775808) ∧ VarInt.InI64 9223372036854775807 := by decide
example : VarInt.decode (VarInt.encode (-9223372036854775808) ++ [7]) = some (-9223372036854775808, [7]) := by decide

end AxVerif.Value
