/-
  C19 — Values compare, hash, cast and round-trip consistently.
  Property theorems (helper lemmas are in Lemmas/Value.lean).  Unless a theorem is named `…_witness`, it is about the
  specification `Defects := {}`.
-/
import AxVerif.Lemmas.ValueFloat
import AxVerif.Generated.Value
namespace AxVerif.Value
open AxVerif

/-! ## VarInt (types/varint.rs) -/

/-- Zig-zag is a bijection between the integers and the naturals (both directions, no range restriction). -/
theorem zigzag_bij : (∀ v : Int, VarInt.unzigzag (VarInt.zigzag v) = v) ∧ (∀ u : Nat, VarInt.zigzag (VarInt.unzigzag u) = u) := by
  refine ⟨fun v => ?_, fun u => ?_⟩
  · unfold VarInt.unzigzag VarInt.zigzag
    split <;> split <;> omega
  · unfold VarInt.unzigzag VarInt.zigzag
    split <;> split <;> omega

/-- `encode_zigzag` of an `i64` fits `u64`, and every `u64` is the image of an `i64`. -/
theorem zigzag_range (v : Int) : VarInt.InI64 v ↔ VarInt.zigzag v < 18446744073709551616 := by
  unfold VarInt.zigzag VarInt.InI64
  split <;> omega

/-- Every `i64` survives encode → decode, whatever follows it in the buffer, and the decoder stops exactly
    behind the encoding. -/
theorem varint_roundtrip (v : Int) (h : VarInt.InI64 v) (rest : Bytes) :
    VarInt.decode (VarInt.encode v ++ rest) = some (v, rest) := by
  have hz : VarInt.zigzag v < 18446744073709551616 := (zigzag_range v).mp h
  have hlt : VarInt.zigzag v < 128 ^ (9 + 1) := by omega
  unfold VarInt.decode VarInt.encode VarInt.maxLen
  rw [VarInt.scan_encodeU 9 _ rest hlt]
  simp only [VarInt.valueOf, VarInt.valueU_encodeU 9 _ hlt, Nat.mod_eq_of_lt hz, zigzag_bij.1 v]

/-- An encoding occupies between 1 and `MAX_VARINT_LEN` = 10 bytes, and `encoded_size` predicts it exactly. -/
theorem varint_length (v : Int) :
    1 ≤ (VarInt.encode v).length ∧ (VarInt.encode v).length ≤ 10 ∧ VarInt.encodedSize v = (VarInt.encode v).length :=
  ⟨VarInt.encodeU_length_pos 9 _, VarInt.encodeU_length 10 _, VarInt.sizeU_eq 10 _⟩

/-- Encoding is injective on `i64` (distinct values never share an encoding). -/
theorem varint_encode_injective (a b : Int) (ha : VarInt.InI64 a) (hb : VarInt.InI64 b)
    (h : VarInt.encode a = VarInt.encode b) : a = b := by
  have h1 := varint_roundtrip a ha []
  have h2 := varint_roundtrip b hb []
  rw [h] at h1
  rw [h1] at h2
  simpa using h2

/-- Over-long or unterminated input is rejected: if none of the first ten bytes ends the number
    (this includes the empty buffer), decoding fails. -/
theorem varint_rejects_long (bs : Bytes) (h : ∀ b ∈ bs.take 10, 128 ≤ b.toNat) : VarInt.decode bs = none := by
  unfold VarInt.decode VarInt.maxLen
  rw [VarInt.scan_none_of_all_cont 10 bs h]

/-- The decoder never looks past its own prefix: whatever it accepts splits the input into a prefix of 1–10
    bytes and the untouched rest, and the decoded number is an `i64`. -/
theorem varint_decode_consumes (bs rest : Bytes) (v : Int) (h : VarInt.decode bs = some (v, rest)) :
    ∃ p, bs = p ++ rest ∧ 1 ≤ p.length ∧ p.length ≤ 10 ∧ VarInt.InI64 v := by
  unfold VarInt.decode VarInt.maxLen at h
  split at h
  · simp at h
  · rename_i p r hs
    simp only [Option.some.injEq, Prod.mk.injEq] at h
    obtain ⟨hv, hr⟩ := h
    subst hr
    obtain ⟨h1, h2, h3⟩ := VarInt.scan_length hs
    refine ⟨p, h1, h2, h3, ?_⟩
    rw [← hv, VarInt.valueOf, zigzag_range, zigzag_bij.2]
    exact Nat.mod_lt _ (by omega)

/-! ## Blob (types/blob.rs) -/

/-- Every byte string (shorter than 2^63, the largest length a `VarInt` can announce) survives
    `from_unencoded_slice` → `reinterpret_cast`, whatever follows it, and the reader stops right behind it. -/
theorem blob_roundtrip (data rest : Bytes) (h : data.length < 9223372036854775808) :
    Blob.decode {} (Blob.encode data ++ rest) = .ok (data, (Blob.encode data).length, rest) := by
  have hi : VarInt.InI64 (data.length : Int) := by unfold VarInt.InI64; omega
  have hu : Blob.asUsize (data.length : Int) = data.length := by
    unfold Blob.asUsize
    omega
  have hl := (varint_length (data.length : Int)).2.1
  unfold Blob.decode Blob.encode
  rw [List.append_assoc, varint_roundtrip _ hi]
  simp only [hu, List.length_append, List.take_left', List.drop_left']
  rw [if_neg (by omega), if_neg (by omega)]
  congr 3
  omega

/-- A truncated blob is refused (never a short read). -/
theorem blob_rejects_truncated (data : Bytes) (k : Nat) (h : data.length < 9223372036854775808) (hk : k < data.length) :
    Blob.decode {} (VarInt.encode (data.length : Int) ++ data.take k) = .error .eof := by
  have hi : VarInt.InI64 (data.length : Int) := by unfold VarInt.InI64; omega
  have hu : Blob.asUsize (data.length : Int) = data.length := by
    unfold Blob.asUsize
    omega
  have hl := (varint_length (data.length : Int)).2.1
  unfold Blob.decode
  rw [varint_roundtrip _ hi]
  simp only [hu, List.length_append, List.length_take]
  rw [if_neg (by omega), if_pos (by omega)]

/-- The chunked comparator (8-byte big-endian words, then single bytes, then length) is exactly the
    lexicographic order on the data bytes — for all byte strings. -/
theorem blobCmp_eq_lex (a b : Bytes) : Blob.cmp a b = Blob.lex a b := Blob.cmp_eq_lex a b

/-- …and that order is a total order: reflexive, `eq` only on identical strings, antisymmetric (swapping the
    arguments swaps the verdict), transitive; a proper prefix sorts first. -/
theorem blobCmp_total_order :
    (∀ a, Blob.cmp a a = .eq) ∧
    (∀ a b, Blob.cmp a b = .eq ↔ a = b) ∧
    (∀ a b, Blob.cmp b a = (Blob.cmp a b).swap) ∧
    (∀ a b c, Blob.cmp a b = .lt → Blob.cmp b c = .lt → Blob.cmp a c = .lt) ∧
    (∀ a b : Bytes, b ≠ [] → Blob.cmp a (a ++ b) = .lt) := by
  simp only [blobCmp_eq_lex]
  refine ⟨Blob.lex_refl, Blob.lex_eq_iff, Blob.lex_swap, Blob.lex_trans_lt, ?_⟩
  intro a b hb
  induction a with
  | nil => cases b with
    | nil => exact absurd rfl hb
    | cons _ _ => rfl
  | cons x xs ih => simp [Blob.lex, ih]

/-- With the unchecked `offset + len` of the shipped code, a one-byte buffer announcing length −1 overflows `usize`. -/
theorem blobLenOverflow_witness :
    Blob.decode { blobLenOverflow := true } [1] = .error .overflowPanic ∧ Blob.decode {} [1] = .error .eof :=
  ⟨by decide, by decide⟩

/-! ## serialize / write_to / deserialize (types/core.rs) -/

/-- Storing then loading returns the value unchanged — for every non-NULL value of every kind, at any cursor
    (the value sits at the next multiple of its alignment), whatever precedes and follows it; the reader's new
    cursor is exactly the end of the value. -/
theorem serialize_roundtrip (v : Value) (hw : v.Wf) (hn : v ≠ .null) (pre rest : Bytes) (cursor : Nat)
    (hc : alignUp cursor v.kind.align = pre.length) :
    ∃ bs, serialize v = .ok bs ∧
      deserialize {} v.kind (pre ++ bs ++ rest) cursor = .ok (v, pre.length + bs.length) := by
  cases v with
  | null => exact absurd rfl hn
  | bool b =>
    refine ⟨_, rfl, ?_⟩
    simp only [Value.kind, Kind.align, alignUp_one] at hc
    subst hc
    simp only [deserialize, Value.kind, drop_pre]
    cases b <;> rfl
  | int i =>
    refine ⟨_, rfl, ?_⟩
    simp only [Value.kind, Kind.align] at hc
    simp only [deserialize, Value.kind, hc, drop_pre, take32_le32 _ _ (toU32_lt i), ofU32_toU32 i hw, le32_length]
  | bigint i =>
    refine ⟨_, rfl, ?_⟩
    simp only [Value.kind, Kind.align] at hc
    simp only [deserialize, Value.kind, hc, drop_pre, take64_le64 _ _ (toU64_lt i), ofU64_toU64 i hw, le64_length]
  | uint n =>
    refine ⟨_, rfl, ?_⟩
    simp only [Value.kind, Kind.align] at hc
    simp only [deserialize, Value.kind, hc, drop_pre, take32_le32 _ _ hw, le32_length]
  | biguint n =>
    refine ⟨_, rfl, ?_⟩
    simp only [Value.kind, Kind.align] at hc
    simp only [deserialize, Value.kind, hc, drop_pre, take64_le64 _ _ hw, le64_length]
  | float n =>
    refine ⟨_, rfl, ?_⟩
    simp only [Value.kind, Kind.align] at hc
    simp only [deserialize, Value.kind, hc, drop_pre, take32_le32 _ _ hw, le32_length]
  | double n =>
    refine ⟨_, rfl, ?_⟩
    simp only [Value.kind, Kind.align] at hc
    simp only [deserialize, Value.kind, hc, drop_pre, take64_le64 _ _ hw, le64_length]
  | blob d =>
    refine ⟨_, rfl, ?_⟩
    simp only [Value.kind, Kind.align, alignUp_one] at hc
    subst hc
    simp only [deserialize, Value.kind, drop_pre]
    rw [blob_roundtrip d rest hw]


/-- `write_to` followed by `deserialize` at the same cursor gives the value back and the cursor `write_to` returned;
    writing changes nothing outside the value's own bytes. -/
theorem write_then_read (v : Value) (hw : v.Wf) (buf : Bytes) (cursor : Nat) (buf' : Bytes) (c' : Nat)
    (h : writeTo {} v buf cursor = .ok (some (buf', c'))) :
    deserialize {} v.kind buf' cursor = .ok (v, c') ∧ buf'.length = buf.length ∧
    buf'.take (alignUp cursor v.kind.align) = buf.take (alignUp cursor v.kind.align) ∧
    buf'.drop c' = buf.drop c' := by
  have hn : v ≠ .null := by
    intro e; subst e; simp [writeTo, serialize] at h
  unfold writeTo at h
  split at h
  · simp at h
  · rename_i bs hs
    simp only [Bool.false_eq_true, false_and, if_false] at h
    split at h
    · simp at h
    · rename_i hfit
      simp only [Except.ok.injEq, Option.some.injEq, Prod.mk.injEq] at h
      obtain ⟨hb, hc'⟩ := h
      have hlen : (buf.take (alignUp cursor v.kind.align)).length = alignUp cursor v.kind.align := by
        simp only [List.length_take]; omega
      obtain ⟨bs2, hs2, hd⟩ := serialize_roundtrip v hw hn (buf.take (alignUp cursor v.kind.align))
        (buf.drop (alignUp cursor v.kind.align + bs.length)) cursor hlen.symm
      rw [hs] at hs2
      simp only [Except.ok.injEq] at hs2
      subst hs2
      subst hb
      rw [hlen] at hd
      refine ⟨by rw [hd, hc'], ?_, ?_, ?_⟩
      · simp only [List.length_append, List.length_take, List.length_drop]; omega
      · rw [List.append_assoc, List.take_left' hlen]
      · subst hc'
        rw [show alignUp cursor v.kind.align + bs.length = (buf.take (alignUp cursor v.kind.align) ++ bs).length by
          simp only [List.length_append, hlen]]
        rw [List.drop_left']
        simp only [List.length_append, hlen]

/-! ## try_cast (types/mod.rs, numeric.rs) -/

/-- A cast to the value's own kind is the identity (for every value, also NaN and -0.0). -/
theorem cast_same_kind_id (D : Defects) (v : Value) : tryCast D v v.kind = .ok v := by
  simp [tryCast]

/-- NULL casts to NULL of any kind. -/
theorem cast_null (D : Defects) (k : Kind) : tryCast D .null k = .ok .null := by
  cases k <;> simp [tryCast, Value.kind]

/-- `i` is representable in integer kind `k` -/
def Kind.InRange (k : Kind) (i : Int) : Prop :=
  match k.intRange with
  | some (lo, hi) => lo ≤ i ∧ i ≤ hi
  | none => False

instance (k : Kind) (i : Int) : Decidable (k.InRange i) := by
  unfold Kind.InRange; split <;> infer_instance

/-- Integer → integer casts preserve the mathematical value exactly when it fits the target, and are an error
    (never a wrap-around) when it does not. -/
theorem cast_int_exact (D : Defects) (v : Value) (k : Kind) (i : Int) (hw : v.Wf)
    (hv : v.intVal = some i) (hk : k.isInteger = true) :
    (k.InRange i → ∃ w, tryCast D v k = .ok w ∧ w.kind = k ∧ w.intVal = some i ∧ w.Wf) ∧
    (¬ k.InRange i → tryCast D v k = .error .badCast) := by
  cases v <;> simp only [Value.intVal, Option.some.injEq, reduceCtorEq] at hv <;> subst hv <;>
    cases k <;> simp only [Kind.isInteger, Bool.false_eq_true] at hk <;>
    simp only [Value.Wf, VarInt.InI64] at hw <;>
    simp only [Kind.InRange, Kind.intRange, tryCast, Value.kind, Value.intVal, Value.ofInt, reduceCtorEq, if_false, if_true] <;>
    (constructor
     · intro hr
       first
         | exact ⟨_, rfl, rfl, rfl, by simp only [Value.Wf, VarInt.InI64]; omega⟩
         | (rw [if_pos (by omega)]; exact ⟨_, rfl, rfl, by first | rfl | (simp only [Option.some.injEq]; omega), by simp only [Value.Wf, VarInt.InI64]; omega⟩)
     · intro hr
       first
         | omega
         | (rw [if_neg (by omega)]))


/-- Bool → numeric → Bool is the identity for every numeric kind. -/
theorem cast_bool_roundtrip (D : Defects) (b : Bool) (k : Kind) (hk : k.isNumeric = true) :
    ∃ w, tryCast D (.bool b) k = .ok w ∧ w.kind = k ∧ tryCast D w .bool = .ok (.bool b) := by
  cases k <;> simp only [Kind.isNumeric, Bool.false_eq_true] at hk <;> cases b <;>
    exact ⟨_, rfl, rfl, rfl⟩

/-- There is no cast between blobs and anything else, and none to the NULL kind (error, not garbage). -/
theorem cast_unsupported (D : Defects) (v : Value) (k : Kind) (hn : v ≠ .null) (hne : v.kind ≠ k)
    (h : v.kind = .blob ∨ k = .blob ∨ k = .null) : tryCast D v k = .error .badCast := by
  cases v <;> cases k <;> simp_all [tryCast, Value.kind]

/-- Float → integer casts return the truncation of the value (toward zero) when it fits the target, and fail
    otherwise (NaN, infinities, out of range, negative to unsigned). -/
theorem cast_double_to_int_trunc (b : Nat) (k : Kind) (w : Value) (hk : k.isInteger = true)
    (h : tryCast {} (.double b) k = .ok w) :
    f64.isFinite b = true ∧ w.intVal = some (truncF64 b) ∧ k.InRange (truncF64 b) := by
  have hfl : floatToInt {} k b = some w := by
    cases k <;> simp only [Kind.isInteger, Bool.false_eq_true] at hk <;>
      simp only [tryCast, Value.kind, reduceCtorEq, if_false] at h <;>
      (split at h
       · rename_i w' hw; simp only [Except.ok.injEq] at h; rw [← h]; exact hw
       · exact absurd h (by simp))
  unfold floatToInt at hfl
  split at hfl
  · exact absurd hfl (by simp)
  · rename_i lo hi hr
    simp only [Bool.false_eq_true, false_and, if_false] at hfl
    split at hfl
    · exact absurd hfl (by simp)
    · rename_i hfin
      split at hfl
      · exact absurd hfl (by simp)
      · split at hfl
        · rename_i hin
          simp only [Option.some.injEq] at hfl
          refine ⟨by simpa using hfin, ?_, ?_⟩
          · rw [← hfl]; exact intVal_ofInt k _ lo hi hr hin.1
          · unfold Kind.InRange; rw [hr]; exact hin
        · exact absurd hfl (by simp)

/-- `truncF64` is truncation toward zero of the exact value: |t| ≤ |value| < |t| + 1 (in units of 2^-1074) and the
    sign is the value's. -/
theorem truncF64_spec (b : Nat) :
    (truncF64 b).natAbs * unitScale ≤ f64.scaledMag b ∧ f64.scaledMag b < ((truncF64 b).natAbs + 1) * unitScale ∧
    (f64.isNeg b = true → truncF64 b ≤ 0) ∧ (f64.isNeg b = false → 0 ≤ truncF64 b) := by
  have hso : f64.scaleOff = 0 := by decide
  have hbias : f64.bias = 1023 := by decide
  have hmb : f64.mbits = 52 := rfl
  unfold truncF64
  simp only [FloatFmt.scaledMag, FloatFmt.qexp, hso, hbias, hmb, Nat.add_zero]
  generalize f64.sig b = m
  generalize hg : max (f64.expField b) 1 = g
  have hg1 : 1 ≤ g := by omega
  -- the magnitude of the truncation
  have key : ∀ T : Nat,
      T = (if (0 : Int) ≤ (g : Int) - ((1023 + 52 : Nat) : Int) then m * 2 ^ ((g : Int) - ((1023 + 52 : Nat) : Int)).toNat
           else m / 2 ^ (-((g : Int) - ((1023 + 52 : Nat) : Int))).toNat) →
      T * unitScale ≤ m * 2 ^ (g - 1) ∧ m * 2 ^ (g - 1) < (T + 1) * unitScale := by
    intro T hT
    by_cases hq : (0 : Int) ≤ (g : Int) - ((1023 + 52 : Nat) : Int)
    · rw [if_pos hq] at hT
      have e : ((g : Int) - ((1023 + 52 : Nat) : Int)).toNat = g - 1075 := by omega
      rw [e] at hT
      have : T * unitScale = m * 2 ^ (g - 1) := by
        rw [hT, unitScale, Nat.mul_assoc, pow_split (g - 1075) 1074 (g - 1) (by omega)]
      have hu := unitScale_pos'
      rw [Nat.add_mul, this]
      omega
    · rw [if_neg hq] at hT
      have e : (-((g : Int) - ((1023 + 52 : Nat) : Int))).toNat = 1075 - g := by omega
      rw [e] at hT
      have hd : 0 < 2 ^ (1075 - g) := Nat.pow_pos (by omega)
      have h1 : T * 2 ^ (1075 - g) ≤ m := by rw [hT]; exact Nat.div_mul_le_self m _
      have h2 : m < (T + 1) * 2 ^ (1075 - g) := by
        rw [hT, Nat.mul_comm]; exact Nat.lt_mul_div_succ m hd
      -- scale both bounds by 2^(g-1)
      have hp : 0 < 2 ^ (g - 1) := Nat.pow_pos (by omega)
      have hu : 2 ^ (1075 - g) * 2 ^ (g - 1) = unitScale := by
        rw [unitScale]; exact pow_split (1075 - g) (g - 1) 1074 (by omega)
      constructor
      · have := Nat.mul_le_mul_right (2 ^ (g - 1)) h1
        rw [Nat.mul_assoc, hu] at this
        exact this
      · have := Nat.mul_lt_mul_of_lt_of_le h2 (Nat.le_refl (2 ^ (g - 1))) hp
        rw [Nat.mul_assoc, hu] at this
        exact this
  split
  · -- negative
    rename_i hneg
    obtain ⟨k1, k2⟩ := key _ rfl
    refine ⟨?_, ?_, fun _ => by omega, fun h => by rw [hneg] at h; exact absurd h (by simp)⟩
    · rw [Int.natAbs_neg, Int.natAbs_natCast]; exact k1
    · rw [Int.natAbs_neg, Int.natAbs_natCast]; exact k2
  · rename_i hneg
    obtain ⟨k1, k2⟩ := key _ rfl
    refine ⟨?_, ?_, fun h => by rw [h] at hneg; exact absurd rfl hneg, fun _ => by omega⟩
    · rw [Int.natAbs_natCast]; exact k1
    · rw [Int.natAbs_natCast]; exact k2

/-- Shipped defect (fixed by f2c2f70): the double 2^63 cast to BIGINT gave i64::MAX instead of an error. -/
theorem castSaturates_witness :
    tryCast { castSaturates := true } (.double 4890909195324358656) .bigint = .ok (.bigint 9223372036854775807) ∧
    tryCast {} (.double 4890909195324358656) .bigint = .error .badCast ∧
    truncF64 4890909195324358656 = 9223372036854775808 := by
  refine ⟨by decide, by decide, by decide⟩

/-- Shipped defect (fixed by bd42e24): writing a bool anywhere but into the last byte of the buffer panicked. -/
theorem boolWriteWholeTail_witness :
    writeTo { boolWriteWholeTail := true } (.bool true) [0, 0] 0 = .error .slicePanic ∧
    writeTo {} (.bool true) [0, 0] 0 = .ok (some ([1, 0], 1)) := by
  refine ⟨by decide, by decide⟩

/-! ## Equality, ordering, hashing (types/macros/datatype.rs)

`Value.ext` is the exact mathematical value of a numeric datum (an extended real; finite values as integer multiples
of 2^-1074, so nothing is ever rounded); the specification compares numerics by `Ext.cmp` on it. -/

/-- Equality is an equivalence on all values of all kinds (NULL, every NaN, both zeros included). -/
theorem eq_equivalence :
    (∀ a, eq {} a a = true) ∧
    (∀ a b, eq {} a b = eq {} b a) ∧
    (∀ a b c, eq {} a b = true → eq {} b c = true → eq {} a c = true) := by
  refine ⟨fun a => (eq_iff_key a a).mpr rfl, fun a b => ?_, fun a b c h1 h2 => ?_⟩
  · rw [Bool.eq_iff_iff, eq_iff_key, eq_iff_key]; exact eq_comm
  · rw [eq_iff_key] at *; exact h1.trans h2

/-- Ordering is a total order within each class (booleans; all numeric kinds together; blobs), consistent with
    equality; NULL and values of different classes are unordered (`None`), as SQL requires:
    (1) comparable exactly when same class and not NULL, (2) antisymmetric, (3) transitive,
    (4) `Equal` exactly when `==`. -/
theorem cmp_total_order :
    (∀ a b, (partialCmp {} a b).isSome ↔ a.cls = b.cls ∧ a.cls ≠ 0) ∧
    (∀ a b, partialCmp {} b a = (partialCmp {} a b).map Ordering.swap) ∧
    (∀ a b c, partialCmp {} a b = some .lt → partialCmp {} b c = some .lt → partialCmp {} a c = some .lt) ∧
    (∀ a b, partialCmp {} a b = some .eq ↔ eq {} a b = true ∧ a.cls ≠ 0) := by
  refine ⟨fun a b => ?_, fun a b => ?_, fun a b c => ?_, fun a b => ?_⟩
  · rw [partialCmp_key, EqKey.cmp_isSome_iff, eqKey_cls, eqKey_cls]
  · rw [partialCmp_key, partialCmp_key, EqKey.cmp_swap]
  · rw [partialCmp_key, partialCmp_key, partialCmp_key]; exact EqKey.cmp_lt_trans _ _ _
  · rw [partialCmp_key, EqKey.cmp_eq_iff, eq_iff_key, eqKey_cls]

/-- Numeric comparison across integer and floating kinds is comparison of the exact mathematical values. -/
theorem cmp_is_mathematical (a b : Value) (x y : Ext) (ha : a.ext = some x) (hb : b.ext = some y) :
    partialCmp {} a b = some (Ext.cmp x y) ∧ eq {} a b = (Ext.cmp x y == .eq) :=
  ⟨partialCmp_numeric a b x y ha hb, eq_numeric a b x y ha hb⟩

/-- In particular any two integers of any two integer kinds (Int, BigInt, UInt, BigUInt) compare as integers —
    at every magnitude, 2^53 and beyond included. -/
theorem int_cmp_exact (a b : Value) (i j : Int) (ha : a.intVal = some i) (hb : b.intVal = some j) :
    partialCmp {} a b = some (icmp i j) ∧ (eq {} a b = true ↔ i = j) := by
  rw [partialCmp_numeric a b _ _ (ext_int a i ha) (ext_int b j hb), eq_numeric a b _ _ (ext_int a i ha) (ext_int b j hb)]
  simp only [Ext.cmp, icmp_scale, beq_iff_eq, icmp_eq_iff, and_self]

/-- IEEE comparison on bit patterns (unordered on NaN; otherwise by sign, then exponent field and fraction read as
    one magnitude) is the order of the exact values — for all non-NaN `f64` bit patterns. -/
theorem ieeeCmp_is_value_order (a b : Nat) (ha : f64.isNaN a = false) (hb : f64.isNaN b = false) :
    ieeeCmp a b = some (Ext.cmp (f64.ext a) (f64.ext b)) := ieeeCmp_eq_ext a b ha hb

/-- `f32 as f64` is exact for every `f32` bit pattern (NaN ↦ NaN, ±∞ ↦ ±∞, subnormals included), hence so is
    the cast Float → Double. -/
theorem float_to_double_exact (D : Defects) (b : Nat) (hb : b < 4294967296) :
    ∃ d, tryCast D (.float b) .double = .ok (.double d) ∧ f64.ext d = f32.ext b :=
  ⟨widen b, rfl, widen_exact b hb⟩

/-- Integers up to 2^53 in magnitude convert to `f64` exactly (the cast BigInt → Double preserves the value). -/
theorem int_to_double_exact (D : Defects) (i : Int) (h : i.natAbs ≤ 9007199254740992) :
    ∃ d, tryCast D (.bigint i) .double = .ok (.double d) ∧ f64.ext d = .fin (i * (unitScale : Int)) :=
  ⟨intToFloat f64 i, rfl, f64_ext_intToFloat_small i h⟩

/-- …and so does any integer, of any size, whose value is the value of some `f64` (no double rounding, no loss). -/
theorem int_to_double_exact_if_representable (i : Int) (d : Nat) (h : f64.ext d = .fin (i * (unitScale : Int))) :
    f64.ext (intToFloat f64 i) = .fin (i * (unitScale : Int)) := int_repr_exact i d h

/-- Equality agrees with hashing: values that compare equal feed the same bytes to the hasher — for all values of
    all kinds, across kinds (Int 0, Double -0.0 and Float 0.0; BigInt 2^60 and the Double 2^60; all NaNs). -/
theorem eq_imp_hash_eq (a b : Value) (ha : a.Wf) (hb : b.Wf) (h : eq {} a b = true) :
    hashKey {} a = hashKey {} b := by
  rw [eq_iff_key] at h
  by_cases hc : a.cls = 2
  · have hcb : b.cls = 2 := by rw [← eqKey_cls, ← h, eqKey_cls]; exact hc
    obtain ⟨x, hx⟩ := (ext_isSome_iff a).mp hc
    have hkx : a.eqKey = .num x := by
      cases a <;> simp only [Value.cls] at hc <;> first | omega | skip
      all_goals (simp only [Value.ext, Option.some.injEq] at hx; subst hx; rfl)
    have hxb : b.ext = some x := eqKey_num_ext b x (h ▸ hkx)
    obtain ⟨ta, hta, _⟩ := toF64_some a ha hc
    obtain ⟨tb, htb, _⟩ := toF64_some b hb hcb
    rw [hashKey_num a ta hc hta, hashKey_num b tb hcb htb, canon_of_ext_eq a b ha hb x hx hxb ta tb hta htb]
  · cases a <;> simp only [Value.cls, not_true_eq_false] at hc
    all_goals
      cases b <;> simp only [Value.eqKey, reduceCtorEq, EqKey.bool.injEq, EqKey.blob.injEq] at h
    · rfl
    · subst h; rfl
    · subst h; rfl

/-- The ORDER BY comparator (NULLs first, then `partial_cmp`) is a strict weak order, which is what `sort_by`
    needs: antisymmetric, transitive, and "equal" is transitive. -/
theorem sortCmp_weak_order :
    (∀ a b, sortCmp {} b a = (sortCmp {} a b).swap) ∧
    (∀ a b c, a.cls = b.cls → b.cls = c.cls → sortCmp {} a b = .lt → sortCmp {} b c = .lt → sortCmp {} a c = .lt) ∧
    (∀ a b c, a.cls = b.cls → b.cls = c.cls → sortCmp {} a b = .eq → sortCmp {} b c = .eq → sortCmp {} a c = .eq) := by
  have key : ∀ a b : Value, a.cls = b.cls → a.cls ≠ 0 → partialCmp {} a b = some (sortCmp {} a b) := by
    intro a b h1 h2
    have := (cmp_total_order.1 a b).mpr ⟨h1, h2⟩
    obtain ⟨o, ho⟩ := Option.isSome_iff_exists.mp this
    rw [sortCmp_nonnull {} a b h2 (h1 ▸ h2), ho]; rfl
  refine ⟨fun a b => ?_, fun a b c hab hbc h1 h2 => ?_, fun a b c hab hbc h1 h2 => ?_⟩
  · by_cases ha : a.cls = 0
    · rw [(cls_zero_iff a).mp ha]; cases b <;> rfl
    · by_cases hb : b.cls = 0
      · rw [(cls_zero_iff b).mp hb]; cases a <;> first | rfl | exact absurd rfl ha
      · rw [sortCmp_nonnull {} a b ha hb, sortCmp_nonnull {} b a hb ha, cmp_total_order.2.1 a b]
        cases partialCmp {} a b <;> rfl
  · by_cases h0 : a.cls = 0
    · rw [(cls_zero_iff a).mp h0, (cls_zero_iff b).mp (hab ▸ h0)] at h1; exact absurd h1 (by decide)
    · have p1 := key a b hab h0
      have p2 := key b c hbc (hab ▸ h0)
      have p3 := key a c (hab.trans hbc) h0
      rw [h1] at p1; rw [h2] at p2
      have := cmp_total_order.2.2.1 a b c p1 p2
      rw [p3] at this
      exact Option.some.inj this
  · by_cases h0 : a.cls = 0
    · rw [(cls_zero_iff a).mp h0, (cls_zero_iff c).mp ((hab.trans hbc) ▸ h0)]; rfl
    · have p1 := key a b hab h0
      have p2 := key b c hbc (hab ▸ h0)
      have p3 := key a c (hab.trans hbc) h0
      rw [h1] at p1; rw [h2] at p2
      have e1 := (cmp_total_order.2.2.2 a b).mp p1
      have e2 := (cmp_total_order.2.2.2 b c).mp p2
      have e3 := eq_equivalence.2.2 a b c e1.1 e2.1
      have := (cmp_total_order.2.2.2 a c).mpr ⟨e3, h0⟩
      rw [p3] at this
      exact Option.some.inj this

/-! ### the shipped code (comparison through `f64`, IEEE NaN, raw-bit hashing): full statements, what holds, witnesses -/

/-- full statement (not claimed for the shipped code — refuted below): as shipped, comparison is by mathematical value -/
def shipped_cmp_is_mathematical_statement : Prop :=
  ∀ a b : Value, a.Wf → b.Wf →
    partialCmp Defects.asShipped a b = partialCmp {} a b ∧ eq Defects.asShipped a b = eq {} a b

/-- full statement (refuted below): as shipped, equality is reflexive -/
def shipped_eq_reflexive_statement : Prop := ∀ a : Value, a.Wf → eq Defects.asShipped a a = true

/-- full statement (refuted below): as shipped, equal values hash equally -/
def shipped_eq_imp_hash_eq_statement : Prop :=
  ∀ a b : Value, a.Wf → b.Wf → eq Defects.asShipped a b = true → hashKey Defects.asShipped a = hashKey Defects.asShipped b

/-- What holds as shipped: on safe values (integers of magnitude ≤ 2^53, no NaN) the comparison through `f64` is
    the comparison by exact value — so there equality is an equivalence and the order total, by the theorems above. -/
theorem shipped_cmp_is_mathematical_partial (a b : Value) (ha : a.Wf) (hb : b.Wf) (sa : a.Safe) (sb : b.Safe) :
    partialCmp Defects.asShipped a b = partialCmp {} a b ∧ eq Defects.asShipped a b = eq {} a b :=
  shipped_cmp_agrees a b ha hb sa sb

/-- As shipped, the numeric comparison is IEEE `partial_cmp` of the two `f64` images on their bit patterns. -/
theorem shipped_numeric_cmp_is_ieee (a b : Value) (ta tb : Nat) (hta : a.toF64 = some ta) (htb : b.toF64 = some tb) :
    numCmp Defects.asShipped a b = ieeeCmp ta tb := shipped_numCmp_is_ieee a b ta tb hta htb

/-- What holds as shipped: equal values hash equally unless a negative zero is involved (at any magnitude — the
    collisions of big integers are consistent between `==` and `Hash`). -/
theorem shipped_eq_imp_hash_eq_partial (a b : Value) (ha : a.Wf) (hb : b.Wf)
    (hza : a.toF64 ≠ some 9223372036854775808) (hzb : b.toF64 ≠ some 9223372036854775808)
    (h : eq Defects.asShipped a b = true) : hashKey Defects.asShipped a = hashKey Defects.asShipped b :=
  shipped_eq_imp_hash_eq a b ha hb hza hzb h

/-- Shipped defect `numericViaF64` (fixed by 57ea8a0): the BIGINTs 2^53 and 2^53 + 1 compare equal. -/
theorem big_int_collision_witness :
    eq { numericViaF64 := true } (.bigint 9007199254740992) (.bigint 9007199254740993) = true ∧
    partialCmp { numericViaF64 := true } (.bigint 9007199254740992) (.bigint 9007199254740993) = some .eq ∧
    partialCmp {} (.bigint 9007199254740992) (.bigint 9007199254740993) = some .lt ∧
    ¬ shipped_cmp_is_mathematical_statement := by
  refine ⟨by decide +kernel, by decide +kernel, by decide +kernel, fun h => ?_⟩
  have := (h (.bigint 9007199254740992) (.bigint 9007199254740993) (by decide) (by decide)).2
  revert this
  decide +kernel

/-- Shipped defect `nanUnordered` (fixed by 38f555e): NaN is not equal to itself and is unordered, and the ORDER BY
    comparator is then not transitive (1 ~ NaN ~ 2 but 1 < 2). -/
theorem nan_irreflexive_witness :
    eq { nanUnordered := true } (.double 9221120237041090560) (.double 9221120237041090560) = false ∧
    partialCmp { nanUnordered := true } (.double 9221120237041090560) (.double 4607182418800017408) = none ∧
    (sortCmp { nanUnordered := true } (.int 1) (.double 9221120237041090560) = .eq ∧
     sortCmp { nanUnordered := true } (.double 9221120237041090560) (.int 2) = .eq ∧
     sortCmp { nanUnordered := true } (.int 1) (.int 2) = .lt) ∧
    ¬ shipped_eq_reflexive_statement := by
  refine ⟨by decide +kernel, by decide +kernel, ⟨by decide +kernel, by decide +kernel, by decide +kernel⟩, fun h => ?_⟩
  have := h (.double 9221120237041090560) (by decide)
  revert this
  decide +kernel

/-- Shipped defect `hashRawBits` (fixed by c1c2e9c): 0.0 == -0.0 but their hashes differ. -/
theorem neg_zero_hash_witness :
    eq Defects.asShipped (.double 0) (.double 9223372036854775808) = true ∧
    hashKey Defects.asShipped (.double 0) ≠ hashKey Defects.asShipped (.double 9223372036854775808) ∧
    ¬ shipped_eq_imp_hash_eq_statement := by
  refine ⟨by decide +kernel, by decide +kernel, fun h => ?_⟩
  have := h (.double 0) (.double 9223372036854775808) (by decide) (by decide) (by decide +kernel)
  revert this
  decide +kernel

/-! ## Key comparison in the B+tree (tree/cell_ops.rs) -/

/-- the first key of a laid-out key list reads back, and the reader's cursor ends where the next key's layout starts -/
theorem read_first_key (v : Value) (pre rest : Bytes) (vs : List Value) (hw : v.Wf) (hn : v ≠ .null) :
    ∃ pre' : Bytes,
      pre ++ layoutKeys pre.length (v :: vs) ++ rest = pre' ++ layoutKeys pre'.length vs ++ rest ∧
      deserialize {} v.kind (pre ++ layoutKeys pre.length (v :: vs) ++ rest) pre.length = .ok (v, pre'.length) := by
  obtain ⟨bs, hs⟩ := serialize_ok_of_ne_null v hn
  have hle := le_alignUp v.kind pre.length
  generalize hat : alignUp pre.length v.kind.align = at_ at *
  have hplen : (pre ++ List.replicate (at_ - pre.length) 0).length = at_ := by
    simp only [List.length_append, List.length_replicate]; omega
  obtain ⟨bs2, hs2, hd⟩ := serialize_roundtrip v hw hn (pre ++ List.replicate (at_ - pre.length) 0)
    (layoutKeys (at_ + bs.length) vs ++ rest) pre.length (by rw [hat, hplen])
  rw [hs] at hs2
  simp only [Except.ok.injEq] at hs2
  subst hs2
  refine ⟨pre ++ List.replicate (at_ - pre.length) 0 ++ bs, ?_, ?_⟩
  · rw [layoutKeys_cons _ v vs bs hs, hat]
    have : (pre ++ List.replicate (at_ - pre.length) 0 ++ bs).length = at_ + bs.length := by
      rw [List.length_append, hplen]
    rw [this]
    simp only [List.append_assoc]
  · rw [layoutKeys_cons _ v vs bs hs, hat]
    have e : pre ++ (List.replicate (at_ - pre.length) 0 ++ bs ++ layoutKeys (at_ + bs.length) vs) ++ rest =
        pre ++ List.replicate (at_ - pre.length) 0 ++ bs ++ (layoutKeys (at_ + bs.length) vs ++ rest) := by
      simp only [List.append_assoc]
    rw [e, hd]
    simp only [List.length_append]

/-- Tree search order = value order: on two key tuples laid out as `TupleBuilder` writes them (each key at the next
    multiple of its alignment), `compare_keys` returns the column-by-column order of the key *values* — for any
    number of key columns of any kinds, wherever the keys start, whatever surrounds them. -/
theorem keyCmp_agrees_with_cmp (ks : List Kind) (tvs cvs : List Value)
    (ht : tvs.map Value.kind = ks) (hc : cvs.map Value.kind = ks)
    (hwt : ∀ v ∈ tvs, v.Wf ∧ v ≠ .null) (hwc : ∀ v ∈ cvs, v.Wf ∧ v ≠ .null)
    (tpre trest cpre crest : Bytes) :
    ∃ o, lexValues {} tvs cvs = some o ∧
      compareKeys {} ks (tpre ++ layoutKeys tpre.length tvs ++ trest) tpre.length
        (cpre ++ layoutKeys cpre.length cvs ++ crest) cpre.length = .ok o := by
  induction ks generalizing tvs cvs tpre cpre with
  | nil =>
    cases tvs <;> cases cvs <;> simp at ht hc
    exact ⟨.eq, rfl, rfl⟩
  | cons k ks ih =>
    match tvs, cvs, ht, hc with
    | t :: ts, c :: cs, ht, hc =>
      simp only [List.map_cons, List.cons.injEq] at ht hc
      obtain ⟨hkt, hts⟩ := ht
      obtain ⟨hkc, hcs⟩ := hc
      obtain ⟨hwt0, hnt⟩ := hwt t (by simp)
      obtain ⟨hwc0, hnc⟩ := hwc c (by simp)
      obtain ⟨tpre', tlay, trd⟩ := read_first_key t tpre trest ts hwt0 hnt
      obtain ⟨cpre', clay, crd⟩ := read_first_key c cpre crest cs hwc0 hnc
      have hcls : t.cls = c.cls ∧ t.cls ≠ 0 := by
        have hk : t.kind = c.kind := hkt.trans hkc.symm
        cases t <;> cases c <;> simp only [Value.kind, reduceCtorEq] at hk <;>
          first | exact absurd rfl hnt | exact ⟨rfl, by simp [Value.cls]⟩
      obtain ⟨o, ho⟩ := Option.isSome_iff_exists.mp ((cmp_total_order.1 t c).mpr hcls)
      rw [hkt] at trd
      rw [hkc] at crd
      rw [compareKeys, trd]
      simp only
      rw [crd]
      simp only [ho]
      cases o with
      | eq =>
        obtain ⟨o', h1, h2⟩ := ih ts cs hts hcs (fun v hv => hwt v (by simp [hv])) (fun v hv => hwc v (by simp [hv]))
          tpre' cpre'
        refine ⟨o', by simp only [lexValues, ho, h1], ?_⟩
        rw [tlay, clay]
        exact h2
      | lt => exact ⟨.lt, by simp only [lexValues, ho], rfl⟩
      | gt => exact ⟨.gt, by simp only [lexValues, ho], rfl⟩

/-- Shipped defects seen through the tree: with comparison through `f64` the BIGINT keys 2^53 and 2^53 + 1 are the
    same key (a second INSERT is a duplicate-key error, a lookup finds the wrong row); a NaN key makes the comparator
    fail ("Cannot compare null keys"). Both fixed by 57ea8a0 / 38f555e. -/
theorem key_collision_witness :
    compareKeys { numericViaF64 := true } [.bigint] (layoutKeys 0 [.bigint 9007199254740993]) 0
      (layoutKeys 0 [.bigint 9007199254740992]) 0 = .ok .eq ∧
    compareKeys {} [.bigint] (layoutKeys 0 [.bigint 9007199254740993]) 0
      (layoutKeys 0 [.bigint 9007199254740992]) 0 = .ok .gt ∧
    compareKeys { nanUnordered := true } [.double] (layoutKeys 0 [.double 9221120237041090560]) 0
      (layoutKeys 0 [.double 4607182418800017408]) 0 = .error .nullKey := by
  refine ⟨by decide +kernel, by decide +kernel, by decide +kernel⟩

/-! ## The constants the model relies on are the ones the code has -/

/-- `MAX_VARINT_LEN`, the discriminant / `SIZE` / `ALIGN` / `is_numeric` of every `DataTypeKind`, the key offset of a
    one-value tuple and the cast matrix — evaluated out of the code on this run — are what the model assumes. -/
theorem generated_wf : Generated.valueParams = stdParams := by decide +kernel

/-- Non-vacuity of the hypotheses above. -/
example : Value.Wf (.blob [1, 2, 3]) ∧ Value.Wf (.double 9221120237041090560) ∧ Value.Wf (.int (-2147483648)) := by decide
example : Value.Safe (.bigint (-9007199254740992)) ∧ ¬ Value.Safe (.bigint 9007199254740993) ∧ Value.Safe (.double 9218868437227405312) := by decide
example : Kind.InRange .uint 4294967295 ∧ ¬ Kind.InRange .uint (-1) := by decide
example : VarInt.InI64 (-9223372036854775808) ∧ VarInt.InI64 9223372036854775807 := by decide
example : VarInt.decode (VarInt.encode (-9223372036854775808) ++ [7]) = some (-9223372036854775808, [7]) := by decide

end AxVerif.Value
