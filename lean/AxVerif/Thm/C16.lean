/-
  C16 — Any statement yields a result or an error — never a panic, never a hang.

  Part 1: property theorems for the worker pool every statement runs on (`Model/Pool.lean`; helper lemmas in
  `Lemmas/Pool.lean`).  Part 2 (end of file): what the statement-level model of engine `fuzz` (`Model/Fuzz.lean`)
  answers — the oracle of the correspondence.  All statements quantify over every pool size, every sequence of submitted jobs and
  every schedule (= every sequence of enabled steps) of the model; nothing is bounded.
  `Defects.none` is the intended pool, `{ panicKillsWorker := true }` the shipped worker loop.
-/
import AxVerif.Lemmas.Pool
import AxVerif.Model.Fuzz
namespace AxVerif.C16
open AxVerif AxVerif.Pool

/-! ### safety: holds in every reachable state, for every schedule, with or without the defect -/

/-- Workers are conserved: every worker is idle, running a job, or dead. -/
theorem pool_workers_conserved (D : Defects) (n : Nat) (tr : List Step) (s : State)
    (hr : run D (init n) tr = some s) : s.live + s.dead = n :=
  (inv_reachable hr).workers

/-- Without the defect the number of live workers never changes: no job — whatever it does — costs a worker. -/
theorem pool_workers_invariant (n : Nat) (tr : List Step) (s : State)
    (hr : run Defects.none (init n) tr = some s) : s.live = n ∧ s.dead = 0 := by
  have h := inv_reachable hr
  have hd := h.dead0 rfl
  have hw := h.workers
  unfold State.live
  omega

/-- No job is ever answered twice, and an answer is always the one belonging to the submitted job
    (`ok` → ok, `err` → error, `panic` → error). -/
theorem pool_at_most_once (D : Defects) (n : Nat) (tr : List Step) (s : State)
    (hr : run D (init n) tr = some s) (i : Nat) :
    (s.resp.map (·.1)).count i ≤ 1 ∧
    ∀ r, response s i = some r → ∃ k, (submitted tr)[i]? = some k ∧ r = respOf k :=
  ⟨count_resp_le_one (inv_reachable hr) i, fun _ h => response_kind (inv_reachable hr) h⟩

/-- A submitted job is answered, running or queued — it cannot vanish. -/
theorem pool_no_job_vanishes (D : Defects) (n : Nat) (tr : List Step) (s : State)
    (hr : run D (init n) tr = some s) (i : Nat) (hi : i < (submitted tr).length) :
    i ∈ s.resp.map (·.1) ∨ i ∈ s.busy.map (·.id) ∨ i ∈ s.queue.map (·.id) := by
  have h := inv_reachable hr
  have hm : i ∈ allIds s := by
    rw [h.perm.mem_iff, List.mem_range, h.next_eq]; exact hi
  simpa [allIds] using hm

/-! ### progress and termination -/

/-- A state is quiescent exactly when no internal step (take / finish) is enabled. -/
theorem pool_progress (D : Defects) (s : State) :
    quiescent s = false ↔ ∃ st, st.internal = true ∧ (step D s st).isSome = true := by
  constructor
  · intro hq
    by_cases hb : s.busy = []
    · have hq' : ¬ (s.queue = [] ∨ s.idle = 0) := by
        intro h
        have := (quiescent_iff s).mpr ⟨hb, h⟩
        rw [hq] at this; cases this
      have h1 : s.queue ≠ [] := fun h => hq' (Or.inl h)
      have h2 : 0 < s.idle := by
        rcases Nat.eq_zero_or_pos s.idle with h | h
        · exact absurd (Or.inr h) hq'
        · exact h
      exact ⟨.take, rfl, take_enabled h1 h2⟩
    · exact ⟨.finish 0, rfl, finish_enabled D hb⟩
  · intro ⟨st, hint, hen⟩
    cases hqs : quiescent s with
    | false => rfl
    | true =>
      obtain ⟨hb, hq⟩ := (quiescent_iff s).mp hqs
      cases st with
      | submit k => cases hint
      | take =>
        simp only [step, take] at hen
        rcases hq with hq | hq
        · simp [hq] at hen
        · cases hqq : s.queue <;> simp [hqq, hq] at hen
      | finish i =>
        simp [step, finish, hb] at hen

/-- A non-empty queue with a live idle worker always has an enabled step, and so has a running job. -/
theorem pool_enabled (D : Defects) (s : State) :
    (s.queue ≠ [] → 0 < s.idle → (step D s .take).isSome = true) ∧
    (s.busy ≠ [] → (step D s (.finish 0)).isSome = true) :=
  ⟨fun h1 h2 => take_enabled h1 h2, fun h => finish_enabled D h⟩

/-- Every internal step lowers the measure `2·|queue| + |running|` by exactly one. -/
theorem pool_internal_step_decreases (D : Defects) (s s' : State) (st : Step)
    (hint : st.internal = true) (hs : step D s st = some s') : measure s' + 1 = measure s := by
  cases st with
  | submit k => cases hint
  | take => exact take_measure hs
  | finish i => exact finish_measure hs

/-- Termination: a schedule of internal steps from `s` has exactly `measure s - measure s'` steps, hence at most
    `measure s`: without new submissions the pool cannot run forever. -/
theorem pool_terminates (D : Defects) : ∀ (tr : List Step) (s s' : State),
    (∀ st ∈ tr, st.internal = true) → run D s tr = some s' → tr.length + measure s' = measure s
  | [], s, s', _, hr => by
    simp only [run, Option.some.injEq] at hr
    subst hr; simp
  | st :: tr, s, s', hint, hr => by
    simp only [run] at hr
    split at hr
    · cases hr
    · rename_i s1 hs1
      have h1 := pool_internal_step_decreases D s s1 st (hint st (by simp)) hs1
      have h2 := pool_terminates D tr s1 s' (fun x hx => hint x (by simp [hx])) hr
      simp only [List.length_cons]; omega

/-- Without the defect and with at least one worker, quiescent means: nothing queued, nothing running. -/
theorem pool_quiescent_iff_measure_zero (n : Nat) (hn : 0 < n) (tr : List Step) (s : State)
    (hr : run Defects.none (init n) tr = some s) : quiescent s = true ↔ measure s = 0 := by
  have hw := pool_workers_invariant n tr s hr
  unfold State.live at hw
  rw [quiescent_iff]
  unfold Pool.measure
  constructor
  · intro ⟨hb, hq⟩
    rw [hb] at hw
    simp only [List.length_nil] at hw
    rcases hq with hq | hq
    · simp [hb, hq]
    · omega
  · intro hm
    have h1 : s.queue.length = 0 := by omega
    have h2 : s.busy.length = 0 := by omega
    exact ⟨List.eq_nil_of_length_eq_zero h2, Or.inl (List.eq_nil_of_length_eq_zero h1)⟩

/-! ### liveness: every job is answered exactly once -/

/-- **Every job is answered exactly once.**  For every pool size `n > 0`, every sequence of submissions and every
    schedule: once the pool is quiescent (which every schedule that keeps taking enabled steps reaches, by
    `pool_terminates` and `pool_progress`), each submitted job has exactly one answer, and it is the answer of
    that job — a panicking job is answered with an error like any other failure. -/
theorem pool_every_job_answered (n : Nat) (hn : 0 < n) (tr : List Step) (s : State)
    (hr : run Defects.none (init n) tr = some s) (hq : quiescent s = true)
    (i : Nat) (hi : i < (submitted tr).length) :
    (s.resp.map (·.1)).count i = 1 ∧ response s i = some (respOf ((submitted tr)[i])) := by
  have h := inv_reachable hr
  have hm := (pool_quiescent_iff_measure_zero n hn tr s hr).mp hq
  unfold Pool.measure at hm
  have hq0 : s.queue = [] := List.eq_nil_of_length_eq_zero (by omega)
  have hb0 : s.busy = [] := List.eq_nil_of_length_eq_zero (by omega)
  have hc := count_allIds h i
  rw [h.next_eq, if_pos hi] at hc
  simp only [allIds, hq0, hb0, List.map_nil, List.append_nil] at hc
  refine ⟨hc, ?_⟩
  have hmem : i ∈ s.resp.map (·.1) := List.count_pos_iff.mp (by omega)
  obtain ⟨p, hp, hpi⟩ := List.mem_map.mp hmem
  have hp' : (i, p.2) ∈ s.resp := by rw [← hpi]; exact hp
  obtain ⟨r', hr', _⟩ := response_of_mem hp'
  obtain ⟨k, hk, hrk⟩ := response_kind h hr'
  rw [List.getElem?_eq_getElem hi] at hk
  cases hk
  rw [hr', hrk]

/-- **Fair schedules terminate with every job answered.**  From any reachable state of the defect-free pool, any
    schedule of internal steps has at most `measure s` steps; one that cannot be extended has exactly that many,
    and then every job submitted so far has its one answer. -/
theorem pool_fair_schedule_answers_all (n : Nat) (hn : 0 < n) (tr tr1 : List Step) (s s' : State)
    (hr : run Defects.none (init n) tr = some s)
    (hint : ∀ st ∈ tr1, st.internal = true) (hr1 : run Defects.none s tr1 = some s') :
    tr1.length ≤ measure s ∧
    (quiescent s' = true ↔ tr1.length = measure s) ∧
    (quiescent s' = true → ∀ i (hi : i < (submitted tr).length),
      (s'.resp.map (·.1)).count i = 1 ∧ response s' i = some (respOf ((submitted tr)[i]))) := by
  have hlen := pool_terminates Defects.none tr1 s s' hint hr1
  have hrun : run Defects.none (init n) (tr ++ tr1) = some s' := run_append hr hr1
  have hsub : submitted (tr ++ tr1) = submitted tr := submitted_append_internal tr tr1 hint
  have hqm := pool_quiescent_iff_measure_zero n hn (tr ++ tr1) s' hrun
  refine ⟨by omega, ?_, ?_⟩
  · rw [hqm]; omega
  · intro hq i hi
    have := pool_every_job_answered n hn (tr ++ tr1) s' hrun hq i (by rw [hsub]; exact hi)
    simpa [hsub] using this

/-! ### the driver's canonical schedule -/

/-- What the line-protocol driver computes (`exec`) is the end state of a real schedule of the state machine:
    it submits exactly the jobs of the case, in order, and ends quiescent. -/
theorem exec_is_a_schedule (D : Defects) (n : Nat) (ops : List Op) :
    ∃ tr, run D (init n) tr = some (exec D n ops) ∧ submitted tr = (ops.map Op.kinds).flatten ∧
      quiescent (exec D n ops) = true :=
  exec_run_from D ops (init n) rfl

/-- Hence the spec line of every `seq` case is: each job answered with its own answer, all workers alive. -/
theorem exec_answers_all (n : Nat) (hn : 0 < n) (ops : List Op) :
    outcomes (exec Defects.none n ops) = ((ops.map Op.kinds).flatten).map (fun k => some (respOf k)) ∧
    (exec Defects.none n ops).live = n := by
  obtain ⟨tr, hr, hs, hq⟩ := exec_is_a_schedule Defects.none n ops
  refine ⟨?_, (pool_workers_invariant n tr _ hr).1⟩
  have hnext := (inv_reachable hr).next_eq
  rw [← hs]
  apply List.ext_getElem
  · simp [outcomes, hnext]
  · intro i h1 h2
    have hi : i < (submitted tr).length := by simpa using h2
    have := (pool_every_job_answered n hn tr _ hr hq i hi).2
    simp [outcomes, this]

/-! ### the shipped defect -/

/-- **Witness of `panicKillsWorker`.**  On a pool of any size `n`, after `n` jobs that panic (each of them answered
    with an error), no worker is left, and a job submitted then is never answered: whatever happens afterwards —
    any schedule, any further submissions — its caller stays blocked. -/
theorem panicKillsWorker_witness (n : Nat) (k : Kind) :
    ∃ s, run shipped (init n) (killAll n ++ [.submit k]) = some s ∧ s.live = 0 ∧
      ∀ tr s', run shipped s tr = some s' → response s' n = none ∧ s'.live = 0 := by
  obtain ⟨resp', h⟩ := killAll_run n 0 0 []
  have hrun : run shipped (init n) (killAll n ++ [.submit k])
      = some (submit ⟨0, 0 + n, [], [], resp', 0 + n⟩ k) :=
    run_append (s1 := ⟨0, 0 + n, [], [], resp', 0 + n⟩) h rfl
  refine ⟨_, hrun, by simp [State.live, submit], ?_⟩
  intro tr s' hr'
  have hinv := inv_reachable hrun
  obtain ⟨h1, h2, h3⟩ := stuck_run shipped tr _ s' (by simp [submit]) (by simp [submit]) hr'
  refine ⟨?_, by simp [State.live, h1, h2]⟩
  rw [response_congr h3]
  apply response_none_of_not_mem
  intro hmem
  have hc := count_allIds hinv n
  simp only [allIds, submit, List.map_nil, List.nil_append, List.map_cons, Nat.zero_add,
    Nat.lt_add_one, if_true, List.count_append, List.count_singleton_self] at hc
  have : 0 < List.count n (List.map (fun x => x.fst) resp') := List.count_pos_iff.mpr (by simpa [submit] using hmem)
  omega

/-- the same on the driver's canonical schedule, pool of 2: the third call is lost; without the defect it is answered -/
theorem panicKillsWorker_witness_concrete :
    outcomes (exec shipped 2 [.call .panic, .call .panic, .call .ok])
      = [some .panicAsError, some .panicAsError, none] ∧
    (exec shipped 2 [.call .panic, .call .panic, .call .ok]).live = 0 ∧
    outcomes (exec Defects.none 2 [.call .panic, .call .panic, .call .ok])
      = [some .panicAsError, some .panicAsError, some .ok] := by decide

/-- a single panicking job already costs a worker in the shipped loop -/
theorem panicKillsWorker_one_panic : (exec shipped 2 [.call .ok, .call .panic, .call .ok]).live = 1 := by decide

/-! ### the hypotheses above are satisfiable -/

/-- a non-trivial schedule on 2 workers: three jobs queued, two run concurrently, the younger one ends first -/
example : ∃ s, run Defects.none (init 2)
    [.submit .panic, .submit .ok, .submit .err, .take, .take, .finish 1, .take, .finish 0, .finish 0] = some s ∧
    quiescent s = true ∧ s.resp = [(1, .ok), (0, .panicAsError), (2, .err)] := ⟨_, rfl, rfl, rfl⟩

example : (∀ st ∈ [Step.take, Step.finish 0], st.internal = true) := by decide

/-- **The shipped defect, exactly, for every schedule.**  With the shipped worker loop on a pool of `n` workers, once
    the pool is quiescent the fate of every job is fixed by the submission order alone: job `i` is answered (with its
    own answer) iff fewer than `n` panicking jobs were submitted before it; all other callers stay blocked.  No
    schedule can do better or worse — which is why the model with the flag on predicts one definite line per case. -/
theorem pool_shipped_schedule_independent (n : Nat) (tr : List Step) (s : State)
    (hr : run shipped (init n) tr = some s) (hq : quiescent s = true)
    (i : Nat) (hi : i < (submitted tr).length) :
    response s i =
      if panicsBefore (submitted tr) i < n then some (respOf ((submitted tr)[i])) else none := by
  have h := invS_reachable hr
  obtain ⟨t, ht, hfifo, hh⟩ := h.fifo
  obtain ⟨hb, hqq⟩ := (quiescent_iff s).mp hq
  have hperm := taken_perm h.base ht hfifo
  rw [hb] at hperm
  simp only [List.map_nil, List.append_nil] at hperm
  have hnext := h.base.next_eq
  rcases Nat.lt_or_ge i t with hlt | hge
  · -- taken, hence (nothing is running) answered
    have hmem : i ∈ s.resp.map (·.1) := hperm.mem_iff.mpr (List.mem_range.mpr hlt)
    obtain ⟨p, hp, hpi⟩ := List.mem_map.mp hmem
    have hp' : (i, p.2) ∈ s.resp := by rw [← hpi]; exact hp
    obtain ⟨r', hr', _⟩ := response_of_mem hp'
    obtain ⟨k, hk, hrk⟩ := response_kind h.base hr'
    rw [List.getElem?_eq_getElem hi] at hk
    cases hk
    rw [if_pos (hh i hlt), hr', hrk]
  · -- still queued: no worker is left, and `n` panicking jobs precede it
    have hnot : i ∉ s.resp.map (·.1) := fun hm => by
      have := List.mem_range.mp (hperm.mem_iff.mp hm)
      omega
    have hqne : s.queue ≠ [] := by
      intro h0
      rw [h0] at ht
      simp only [List.length_nil, Nat.add_zero] at ht
      omega
    have hidle : s.idle = 0 := by
      rcases hqq with h0 | h0
      · exact absurd h0 hqne
      · exact h0
    have hw := h.base.workers
    rw [hb, hidle] at hw
    simp only [List.length_nil, Nat.add_zero, Nat.zero_add] at hw
    have hpt := panics_taken h ht hfifo
    rw [hb] at hpt
    simp only [List.map_nil, List.countP_nil, Nat.add_zero] at hpt
    have hmono := panicsBefore_mono (submitted tr) hge
    rw [if_neg (by omega), response_none_of_not_mem hnot]

/-- the two descriptions of the defect agree on a concrete run: pool of 2, jobs panic, ok, panic, ok, err -/
example : outcomes (exec shipped 2 [.burst [.panic, .ok, .panic, .ok, .err]])
    = [some .panicAsError, some .ok, some .panicAsError, none, none] := by decide

/-! ## Part 2 — the statement-level oracle (engine `fuzz`)

The model functions are total by construction (structural recursion on a depth budget and on the syntax tree): for
every case line `Fuzz.stepLine` returns a line, and for a well-formed one it returns exactly one word per op. -/

theorem fuzz_word_of_op (schema : List Fuzz.Table) (st : Fuzz.St) (op : Fuzz.Op) :
    (Fuzz.stepOp schema st op).2 ∈ ["ok-or-error", "rows", "error"] := by
  cases op with
  | x b => simp [Fuzz.stepOp]
  | q q =>
    simp only [Fuzz.stepOp]
    cases Fuzz.classify schema q st.tainted st.touched with
    | none => simp
    | some c => cases c <;> simp

/-- One word per op, and every word is a result class or `ok-or-error` — the model never answers "panic", "hang" or
    anything else, for any sequence of ops on any schema. -/
theorem fuzz_one_word_per_op (schema : List Fuzz.Table) : ∀ (ops : List Fuzz.Op) (st : Fuzz.St),
    (Fuzz.runOps schema st ops).length = ops.length ∧
    ∀ w ∈ Fuzz.runOps schema st ops, w ∈ ["ok-or-error", "rows", "error"]
  | [], st => by simp [Fuzz.runOps]
  | o :: os, st => by
    have ih := fuzz_one_word_per_op schema os (Fuzz.stepOp schema st o).1
    simp only [Fuzz.runOps, List.length_cons]
    refine ⟨by omega, ?_⟩
    intro w hw
    rcases List.mem_cons.mp hw with hw | hw
    · subst hw; exact fuzz_word_of_op schema st o
    · exact ih.2 w hw

/-- The oracle for an arbitrary string offered as SQL: "a result or an error", whatever the bytes are; and from then
    on nothing is predicted about later statements (the string may have changed anything). -/
theorem fuzz_string_is_ok_or_error (schema : List Fuzz.Table) (st : Fuzz.St) (b : Bytes) :
    (Fuzz.stepOp schema st (.x b)).2 = "ok-or-error" ∧ (Fuzz.stepOp schema st (.x b)).1.tainted = true := by
  simp [Fuzz.stepOp]

theorem fuzz_no_prediction_when_tainted (schema : List Fuzz.Table) (q : Fuzz.Q) (touched : List String) :
    Fuzz.classify schema q true touched = none := by
  simp [Fuzz.classify]

/-- A statement on a table the schema does not have is an error. -/
theorem fuzz_unknown_table_is_error (schema : List Fuzz.Table) (q : Fuzz.Q) (touched : List String)
    (h : Fuzz.findTable schema q.table = none) : Fuzz.classify schema q false touched = some .error := by
  simp [Fuzz.classify, h]

/-- A statement that names a column its table does not have is an error. -/
theorem fuzz_unknown_column_is_error (schema : List Fuzz.Table) (q : Fuzz.Q) (touched : List String) (t : Fuzz.Table)
    (ht : Fuzz.findTable schema q.table = some t) (c : String) (hc : c ∈ q.cols) (hn : t.hasCol c = false) :
    Fuzz.classify schema q false touched = some .error := by
  have : (q.cols.any fun c => !t.hasCol c) = true := List.any_eq_true.mpr ⟨c, hc, by simp [hn]⟩
  simp [Fuzz.classify, ht, this]

/-- `rows` is predicted only for statements that are well bound: the table exists, every named column exists, and
    there is no sub-query. -/
theorem fuzz_rows_only_if_well_bound (schema : List Fuzz.Table) (q : Fuzz.Q) (tainted : Bool) (touched : List String)
    (h : Fuzz.classify schema q tainted touched = some .rows) :
    tainted = false ∧ ∃ t, Fuzz.findTable schema q.table = some t ∧ (∀ c ∈ q.cols, t.hasCol c = true) ∧ q.subs = [] := by
  unfold Fuzz.classify at h
  split at h
  · cases h
  · rename_i hnt
    split at h
    · cases h
    · rename_i t ht
      split at h
      · cases h
      · rename_i hcols
        split at h
        · cases h
        · refine ⟨by simpa using hnt, t, ht, ?_, ?_⟩
          · intro c hc
            cases hh : t.hasCol c with
            | true => rfl
            | false => exact absurd (List.any_eq_true.mpr ⟨c, hc, by simp [hh]⟩) hcols
          · cases q with
            | sel tbl items wh group having order limit =>
              simp only at h
              split at h
              · cases h
              · rename_i hs
                have : (Fuzz.Q.sel tbl items wh group having order limit).subs.isEmpty = true := by
                  cases hh : (Fuzz.Q.sel tbl items wh group having order limit).subs.isEmpty with
                  | true => rfl
                  | false => simp [hh] at hs
                exact List.isEmpty_iff.mp this
            | ins tbl vals => simp only at h; split at h <;> cases h
            | upd tbl col val wh => cases h
            | del tbl wh => cases h


/-- Integer `/ 0` and `% 0` in the select list of a plain SELECT over an untouched (hence non-empty) table is an error
    — the spec side of the finding that the implementation panics there. -/
theorem fuzz_division_by_zero_is_error (schema : List Fuzz.Table) (tbl : String) (items : Fuzz.EList)
    (order : Option String) (touched : List String) (t : Fuzz.Table)
    (ht : Fuzz.findTable schema tbl = some t)
    (hcols : ∀ c ∈ (Fuzz.Q.sel tbl items none none none order none).cols, t.hasCol c = true)
    (hsubs : (Fuzz.Q.sel tbl items none none none order none).subs = [])
    (hu : tbl ∉ touched)
    (hs : items.all (Fuzz.strictArith t) = true) (hd : items.any Fuzz.hasDiv0 = true) :
    Fuzz.classify schema (.sel tbl items none none none order none) false touched = some .error := by
  have h1 : ((Fuzz.Q.sel tbl items none none none order none).cols.any fun c => !t.hasCol c) = false := by
    rw [List.any_eq_false]
    intro c hc
    simp [hcols c hc]
  have ht' : Fuzz.findTable schema (Fuzz.Q.sel tbl items none none none order none).table = some t := ht
  simp [Fuzz.classify, ht', h1, hsubs, hu, hs, hd]

/-- the hypotheses are satisfiable: `SELECT a / 0 FROM t1` on `t1(id BIGINT, a INT)` -/
example : ∃ t, Fuzz.findTable [⟨"t1", [("id", 'I'), ("a", 'i')]⟩] "t1" = some t ∧
    (Fuzz.EList.cons (.bin "div" (.col "a") (.int 0)) .nil).all (Fuzz.strictArith t) = true ∧
    (Fuzz.EList.cons (.bin "div" (.col "a") (.int 0)) .nil).any Fuzz.hasDiv0 = true :=
  ⟨_, rfl, by decide, by decide⟩

end AxVerif.C16
