/-
  C16 — Any statement yields a result or an error — never a panic, never a hang.
-/
import AxVerif.Lemmas.Pool
namespace AxVerif.Pool

/-- shipped defect: after `size` panicking jobs the next job is never answered (size 2, canonical schedule) -/
theorem panicKillsWorker_witness_concrete :
    outcomes (exec { panicKillsWorker := true } 2 [.call .panic, .call .panic, .call .ok])
      = [some .panicAsError, some .panicAsError, none] := by decide

end AxVerif.Pool
