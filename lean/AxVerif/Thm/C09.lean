/-
  C09 — Clean close and reopen preserves everything.  (theorems: see below; under construction)
-/
import AxVerif.Model.Reopen
namespace AxVerif.Reopen.C09
open AxVerif.Db AxVerif.Reopen

theorem placeholder : (1 : Nat) = 1 := rfl

end AxVerif.Reopen.C09
