/-
  C09 — Clean close and reopen preserves everything.

  Machine: `Model/Reopen.lean` — the MVCC store of `Model/Db.lean` (row versions with creator ids and delete marks,
  transaction table, snapshots as the coordinator computes them) with a changing catalog, the hidden row ids, object ids,
  VACUUM, and `reopen` = `openDb cfg ∘ closeDb` (checkpoint image: rows, catalog rows with `next_row_id`, page-zero
  counters, the set of rolled-back ids, creation-time settings; open: fresh coordinator that knows only the reloaded
  rolled-back ids, empty commit log, settings from page zero, pool size from the argument).

  `runW D R ideal cfg ops` runs a history `ops : List WOp` (any statements of any number of sessions, DDL, VACUUM, any
  number of `reopen leak cfg'` at any positions) from an empty database created with `cfg`.  `ideal = false` is the machine
  that really closes and opens; `ideal = true` is the machine that never restarts (at a `reopen` it only drops the open
  sessions, rolls back what is still unfinished and runs the empty transaction that recovery runs).
  `D : Db.Defects` are the defect flags of the MVCC store (C03/C04/C07's findings); every theorem below holds for EVERY
  `D`, in particular for `Db.Defects.none` and for the flags that describe the shipped code.  `R : Reopen.Defects` are the
  defect flags of close/open; the property theorems are for `Defects.none`, the `…_witness` theorems show per flag a
  history on which the property fails.

  Proofs: `Lemmas/Reopen.lean` (bisimulation through an erasure of what no operation reads: the history of finished
  transactions and the commit log before the oldest running transaction).
-/
import AxVerif.Lemmas.Reopen
namespace AxVerif.Reopen.C09
open AxVerif.Db AxVerif.Reopen

/-! ## close/open is an observational identity -/

/-- **Main theorem.**  For every history — any statements of any sessions, DDL, VACUUM, any number of close/open cycles
    at arbitrary points, with sessions open or not at the close, any configuration passed to each `open` — the machine
    that closes and reopens gives every operation exactly the answer of the machine that never restarts: the same rows
    for every read (those after a reopen with the same row ids), the same outcome of every write, commit and DDL
    statement, the same object ids, the same transaction ids. -/
theorem reopen_observational_identity (D : Db.Defects) (cfg : Config) (ops : List WOp) :
    (runW D Defects.none false cfg ops).2 = (runW D Defects.none true cfg ops).2 :=
  (runFromW_rel D ops _ _ [] (RelW.refl_of_wf (wf_init []))).1

/-- … and the two machines end in states that agree on every row version and delete mark, the catalog, the row-id
    counters, the object ids and the settings; their transaction tables have the same length and the same statuses. -/
theorem reopen_same_state (D : Db.Defects) (cfg : Config) (ops : List WOp) :
    let w := (runW D Defects.none false cfg ops).1
    let v := (runW D Defects.none true cfg ops).1
    w.db.rows = v.db.rows ∧ w.db.cat = v.db.cat ∧ w.nextRow = v.nextRow ∧ w.rmeta = v.rmeta ∧ w.objs = v.objs ∧
    w.lastObject = v.lastObject ∧ w.nextTxn = v.nextTxn ∧ w.hdr = v.hdr ∧ w.env = v.env ∧
    ∀ st u, statusIs w.db.txns st u = statusIs v.db.txns st u := by
  have h := (runFromW_rel D ops _ _ [] (RelW.refl_of_wf (wf_init []) : RelW (WState.init cfg) (WState.init cfg))).2
  refine ⟨h.db.rows, h.db.cat, h.nextRow, h.rmeta, h.objs, h.lastObject, h.db.length, h.hdr, h.env, ?_⟩
  intro st u
  obtain ⟨k, k', e, _, _⟩ := h.db
  have := congrArg (fun s => statusIs s.txns st u) e
  simp only [E_txns, statusIs_erase] at this
  exact this

/-- **Any number of cycles with work in between**: `h₁, reopen, h₂, reopen, …, hₙ, reopen, tail` answers like the
    never-restarting machine (instance of the main theorem, spelled out). -/
theorem iterate_reopen (D : Db.Defects) (cfg : Config) (cycles : List (List WOp × Bool × Config)) (tail : List WOp) :
    (runW D Defects.none false cfg (cycles.flatMap (fun c => c.1 ++ [WOp.reopen c.2.1 c.2.2]) ++ tail)).2 =
    (runW D Defects.none true cfg (cycles.flatMap (fun c => c.1 ++ [WOp.reopen c.2.1 c.2.2]) ++ tail)).2 :=
  reopen_observational_identity D cfg _

/-- no transaction is open -/
def Quiescent (w : WState) : Prop := idsWith .active w.db.txns 0 = []

instance (w : WState) : Decidable (Quiescent w) := inferInstanceAs (Decidable (_ = _))

/-- **State form.**  What a transaction beginning after `open (close w)` can find out — catalog with column
    definitions and constraints, every table's contents with row ids — is what it finds in `w` with every transaction
    that was still open rolled back … -/
theorem reopen_view_identity (D : Db.Defects) (cfg : Config) (w : WState) :
    observeAll D (openDb cfg (closeDb Defects.none w)) = observeAll D { w with db := quiesce w.db } := by
  have hf : (openDb cfg (closeDb Defects.none w)).db.freshSnap D = (quiesce w.db).freshSnap D := by
    have := congrArg (Db.State.freshSnap D) (open_close_E cfg w)
    rwa [freshSnap_E, freshSnap_E] at this
  unfold observeAll tableView
  rw [hf]
  rfl

/-- … and for a quiescent state it is what it finds in `w` itself. -/
theorem reopen_view_identity_quiescent (D : Db.Defects) (cfg : Config) (w : WState) (hq : Quiescent w) :
    observeAll D (openDb cfg (closeDb Defects.none w)) = observeAll D w := by
  rw [reopen_view_identity]
  have ht : w.db.txns.map deact = w.db.txns := by
    conv => rhs; rw [← List.map_id w.db.txns]
    apply List.map_congr_left
    intro t ht
    obtain ⟨i, hi⟩ := List.mem_iff_getElem?.1 ht
    have : t.status ≠ .active := by
      intro ha
      have hm : i ∈ idsWith Status.active w.db.txns 0 := (mem_idsWith0' _ _ _).2 ⟨t, hi, ha⟩
      rw [hq] at hm; cases hm
    simp [deact, this]
  have hf : (quiesce w.db).freshSnap D = w.db.freshSnap D := by
    simp [quiesce_eq, State.freshSnap, ht]
  unfold observeAll tableView
  simp only [hf]
  rfl

example : Quiescent (WState.init ⟨4096, 64, 2, 3, 2⟩) := by decide

/-! ## the configuration passed to `open` -/

/-- **The configuration handed to `open` changes no observation**: replace the configuration of every `reopen` of a
    history by any other one (`f`) — every answer stays the same, including the settings the pager reports after the
    open (they come from page zero: `Model/Config.lean`, `Thm/C12.config_roundtrip`).  Holds for every setting of the
    defect flags and for both machines. -/
theorem open_config_irrelevant (D : Db.Defects) (R : Defects) (ideal : Bool) (f : Config → Config) (cfg : Config)
    (ops : List WOp) :
    (runW D R ideal cfg ops).2 = (runW D R ideal cfg (ops.map (WOp.setCfg f))).2 :=
  runFromW_envEq D R ideal f ops _ _ [] rfl

/-- state form: two configurations lead to states that differ in the size of the worker pool and in nothing else -/
theorem open_config_only_pool (R : Defects) (c₁ c₂ : Config) (w : WState) :
    openDb c₁ (closeDb R w) = { openDb c₂ (closeDb R w) with
      env := { (openDb c₂ (closeDb R w)).env with pool := c₁.poolSize } } := rfl

theorem open_config_same_observations (D : Db.Defects) (R : Defects) (c₁ c₂ : Config) (w : WState) :
    observeAll D (openDb c₁ (closeDb R w)) = observeAll D (openDb c₂ (closeDb R w)) := rfl

/-! ## ids -/

/-- the three counters are persisted: close/open changes none of them (for every setting of the defect flags) -/
theorem counters_survive_reopen (R : Defects) (cfg : Config) (w : WState) :
    (openDb cfg (closeDb R w)).nextRow = w.nextRow ∧ (openDb cfg (closeDb R w)).lastObject = w.lastObject ∧
    (openDb cfg (closeDb R w)).nextTxn = w.nextTxn := by
  simp [openDb, closeDb, WState.nextTxn]

/-- in every reachable state every row id in use lies below its table's `next_row_id` and every object id in use below
    `last_stored_object` (`IdInv`), whatever the history and the number of reopens -/
theorem ids_below_counters (D : Db.Defects) (R : Defects) (ideal : Bool) (cfg : Config) (ops : List WOp) :
    IdInv (runW D R ideal cfg ops).1 :=
  runFromW_inv D R ideal IdInv (fun _ op h => stepW_idInv D R ideal h op) ops _ [] (idInv_init cfg)

/-- what is handed out next is the counter: the transaction id … -/
theorem next_txn_id (D : Db.Defects) (R : Defects) (ideal : Bool) (w : WState) :
    (stepW D R ideal w .tid).2 = .tid w.nextTxn := rfl

/-- … the object id of a new table … -/
theorem next_object_id (D : Db.Defects) (R : Defects) (ideal : Bool) (w : WState) (ts : TableSchema)
    (h : (findTable w.db.cat ts.name).isSome = false) :
    (stepW D R ideal w (.create ts)).2 = .created w.lastObject := by
  simp [stepW, stepCoreW, h]

/-- … and the row id of a new row of table `t`. -/
theorem next_row_id (nr : List (String × Nat)) (m : List RowMeta) (r : Row) (n : Nat) (h : lookup r.table nr = some n) :
    (assign nr m [r]).2 = m ++ [⟨r.rid, r.table, n⟩] := by
  simp [assign, h]

/-- **Fresh ids after a reopen.**  In every reachable state `w`, after `open (close w)` the next row id of every table
    is above every row id in use in that table, the next object id is above every object id in use, and the next
    transaction id is the one `w` would have handed out (all transaction ids in use are below it: they are positions in
    the transaction table). -/
theorem ids_fresh_after_reopen (D : Db.Defects) (R : Defects) (ideal : Bool) (cfg cfg' : Config) (ops : List WOp) :
    let w := (runW D R ideal cfg ops).1
    let w' := openDb cfg' (closeDb R w)
    (∀ m ∈ w.rmeta, ∃ n, lookup m.table w'.nextRow = some n ∧ m.rowId < n) ∧
    (∀ p ∈ w.objs, p.2 < w'.lastObject) ∧ w'.nextTxn = w.nextTxn := by
  have h := ids_below_counters D R ideal cfg ops
  exact ⟨h.rows, h.objs, by simp [openDb, closeDb, WState.nextTxn]⟩

/-- transaction ids are never handed out twice: the next id never decreases along a history, reopens included -/
theorem txn_ids_increase (D : Db.Defects) (ideal : Bool) (cfg : Config) (ops later : List WOp) :
    let w := (runW D Defects.none ideal cfg ops).1
    w.nextTxn ≤ (runFromW D Defects.none ideal w later []).1.nextTxn := by
  have hw : WfW (runW D Defects.none ideal cfg ops).1 :=
    runFromW_inv D _ ideal WfW (fun _ op h => stepW_wf D _ ideal h op) ops _ [] (wfW_init cfg)
  exact (runFromW_ka D ideal later _ [] hw).1

/-! ## rolled-back data stays invisible -/

/-- a rollback removes nothing physically: the versions and delete marks of a rolled-back transaction stay in the
    tables (until VACUUM), and …-/
theorem rollback_keeps_rows (σ : Db.State) (tid : Nat) : (σ.abortTxn tid).rows = σ.rows := rfl

/-- … a snapshot filters them through the set of rolled-back ids: a transaction beginning in a state in which `u` is
    recorded as rolled back does not see `u`'s work. -/
theorem snapshot_ignores_rolled_back (D : Db.Defects) (σ : Db.State) (u : Nat) (h : statusIs σ.txns .aborted u = true) :
    (σ.freshSnap D).sees u = false :=
  fresh_not_sees_aborted D σ u h

/-- `close` writes the rolled-back and the still-open transactions into the persistent rolled-back set, `open`
    reloads it: both kinds are rolled back afterwards. -/
theorem rolled_back_reloaded (cfg : Config) (w : WState) (u : Nat)
    (h : statusIs w.db.txns .aborted u = true ∨ statusIs w.db.txns .active u = true) :
    statusIs (openDb cfg (closeDb Defects.none w)).db.txns .aborted u = true := by
  rcases h with h | h
  · exact (ka_open_close cfg w).2 u h
  · obtain ⟨t, ht, hs⟩ := (statusIs_iff _ _ _).1 h
    have hlt := getElem?_lt' ht
    have hmem : u ∈ idsWith Status.active w.db.txns 0 := (mem_idsWith0' _ _ _).2 ⟨t, ht, hs⟩
    apply (statusIs_iff _ _ _).2
    refine ⟨reloadTxn (closeDb Defects.none w).aborted u, by simp [openDb, closeDb, hlt], ?_⟩
    simp [reloadTxn, closeDb, Defects.none, hmem]

/-- **Rolled-back data is still invisible after a reopen, and stays so.**  Take any reachable state `w`, a transaction
    `u` that is rolled back or unfinished in it; close, open with any configuration, and run any further history
    (with further reopens): no transaction that begins afterwards sees anything `u` wrote or deleted. -/
theorem rolled_back_stays_invisible (D : Db.Defects) (ideal : Bool) (cfg cfg' : Config) (ops later : List WOp) (u : Nat) :
    let w := (runW D Defects.none ideal cfg ops).1
    (statusIs w.db.txns .aborted u = true ∨ statusIs w.db.txns .active u = true) →
    ((runFromW D Defects.none ideal (openDb cfg' (closeDb Defects.none w)) later []).1.db.freshSnap D).sees u = false := by
  intro w h
  have h1 := rolled_back_reloaded cfg' w u h
  have hw : WfW (openDb cfg' (closeDb Defects.none w)) := ⟨0, wf_open cfg' _ w⟩
  exact fresh_not_sees_aborted D _ u ((runFromW_ka D ideal later _ [] hw).2 u h1)

/-- the same without a reopen at the start: once rolled back, invisible to every later snapshot of every later state -/
theorem rolled_back_never_returns (D : Db.Defects) (ideal : Bool) (cfg : Config) (ops later : List WOp) (u : Nat) :
    let w := (runW D Defects.none ideal cfg ops).1
    statusIs w.db.txns .aborted u = true →
    ((runFromW D Defects.none ideal w later []).1.db.freshSnap D).sees u = false := by
  intro w h
  have hw : WfW w := runFromW_inv D _ ideal WfW (fun _ op h => stepW_wf D _ ideal h op) ops _ [] (wfW_init cfg)
  exact fresh_not_sees_aborted D _ u ((runFromW_ka D ideal later _ [] hw).2 u h)

/-! ## witnesses: with a defect flag on, the property fails -/

def cfg0 : Config := ⟨4096, 10000, 2, 3, 2⟩
def tT : TableSchema := ⟨"t", [⟨"k", .big, false, false⟩, ⟨"v", .int, false, false⟩], []⟩

/-- a session with an INSERT is open when the handle is dropped: after the reopen its row is committed data -/
theorem openTxnAtCloseSurvives_witness :
    (runW Db.Defects.none { openTxnAtCloseSurvives := true } false cfg0
      [.create tT, .db (.begin "s1"), .db (.exec "s1" (.ins "t" [[.int 2, .int 20]])), .reopen true cfg0, .obs "t"]).2
    ≠ (runW Db.Defects.none Defects.none true cfg0
      [.create tT, .db (.begin "s1"), .db (.exec "s1" (.ins "t" [[.int 2, .int 20]])), .reopen true cfg0, .obs "t"]).2 := by
  decide

/-- a table that has taken 255 rows: the next INSERT re-versions its catalog row a 256th time -/
def w255 : WState :=
  { (WState.init cfg0) with db := { Db.State.init [tT] with txns := [⟨⟨0, some 0, [], []⟩, .committed, [], 0⟩] },
                             nextRow := [("t", 255)] }

theorem versionCounterU8_witness :
    (stepW Db.Defects.none { versionCounterU8 := true } false w255 (.db (.auto (.ins "t" [[.int 1, .int 1]])))).2 = .panic ∧
    (stepW Db.Defects.none Defects.none false w255 (.db (.auto (.ins "t" [[.int 1, .int 1]])))).2 = .db (.stmt (.okN 1)) := by
  decide

/-- **The aborted bitmap.**  With `abortedBitmap8192` every rolled-back transaction with an id of 8192 or more whose id is
    not above the last committed one is invisible before close/open and visible — committed data — afterwards (general
    form: for every state and every such transaction; `wBig` below is an instance). -/
theorem abortedBitmap8192_witness (cfg : Config) (w : WState) (u : Nat) (hu : statusIs w.db.txns .aborted u = true)
    (hbig : 8192 ≤ u) (hlc : u ≤ w.db.lastCommitted) :
    (w.db.freshSnap Db.Defects.none).sees u = false ∧
    ((openDb cfg (closeDb { abortedBitmap8192 := true } w)).db.freshSnap Db.Defects.none).sees u = true := by
  refine ⟨fresh_not_sees_aborted _ _ u hu, ?_⟩
  obtain ⟨t, ht, _⟩ := (statusIs_iff _ _ _).1 hu
  have hlt := getElem?_lt' ht
  have hget : ∀ i t', ((List.range w.db.txns.length).map (reloadTxn
      ((idsWith Status.aborted w.db.txns 0 ++ idsWith Status.active w.db.txns 0).filter (fun i => i < bitmapBits))))[i]? = some t' →
      t' = reloadTxn ((idsWith Status.aborted w.db.txns 0 ++ idsWith Status.active w.db.txns 0).filter (fun i => i < bitmapBits)) i := by
    intro i t' h
    simp only [List.getElem?_map, List.getElem?_range] at h
    by_cases hi : i < w.db.txns.length
    · simpa [hi] using h.symm
    · simp [hi] at h
  have hact : u ∉ idsWith Status.active (openDb cfg (closeDb { abortedBitmap8192 := true } w)).db.txns 0 := by
    intro hm
    obtain ⟨t', ht', hs⟩ := (mem_idsWith0' _ _ _).1 hm
    simp only [openDb, closeDb, Bool.false_eq_true, if_false, if_true] at ht'
    rw [hget u t' ht'] at hs
    unfold reloadTxn at hs
    split at hs <;> cases hs
  have hab : u ∉ idsWith Status.aborted (openDb cfg (closeDb { abortedBitmap8192 := true } w)).db.txns 0 := by
    intro hm
    obtain ⟨t', ht', hs⟩ := (mem_idsWith0' _ _ _).1 hm
    simp only [openDb, closeDb, Bool.false_eq_true, if_false, if_true] at ht'
    rw [hget u t' ht'] at hs
    unfold reloadTxn at hs
    split at hs
    · rename_i hc
      have hm := List.mem_filter.1 (List.contains_iff_mem.1 hc)
      have : u < 8192 := of_decide_eq_true hm.2
      omega
    · cases hs
  have hlc' : ¬ (w.db.lastCommitted < u) := by omega
  have h1 : (idsWith Status.active (openDb cfg (closeDb { abortedBitmap8192 := true } w)).db.txns 0).contains u = false := by
    simpa using hact
  have h2 : (idsWith Status.aborted (openDb cfg (closeDb { abortedBitmap8192 := true } w)).db.txns 0).contains u = false := by
    simpa using hab
  have h3 : (openDb cfg (closeDb { abortedBitmap8192 := true } w)).db.lastCommitted = w.db.lastCommitted := rfl
  simp only [State.freshSnap, Snapshot.sees, Snapshot.cb, Db.Defects.none, Bool.false_and, Bool.false_eq_true, if_false,
    h1, h2, h3, hlc', decide_false, Bool.not_false, Bool.and_self, Bool.or_true]

/-- a state after 8192 committed transactions (ids 0 … 8191), a rolled-back INSERT by transaction 8192 and one more commit -/
def wBig : WState :=
  { (WState.init cfg0) with
    db := { Db.State.init [tT] with
            txns := List.replicate 8192 ⟨⟨0, some 0, [], []⟩, .committed, [], 0⟩ ++
                    [⟨⟨8192, some 8191, [], []⟩, .aborted, [], 0⟩, ⟨⟨8193, some 8191, [], [8192]⟩, .committed, [], 0⟩],
            lastCommitted := 8193,
            rows := [⟨(1, 0), "t", [⟨8192, [.int 2, .int 20]⟩], []⟩] },
    nextRow := [("t", 1)], rmeta := [⟨(1, 0), "t", 0⟩] }

example : statusIs wBig.db.txns .aborted 8192 = true ∧ 8192 ≤ 8192 ∧ 8192 ≤ wBig.db.lastCommitted := by decide +kernel

end AxVerif.Reopen.C09
