/-
  Statement-level model for engine `fuzz` (C16).

  The property's oracle for an arbitrary string offered as SQL is "the call returns a result or an error": the model
  answers `ok-or-error` for every well-formed `x` op — it does not (and cannot cheaply) predict how garbage parses.
  For the statements of the small grammar (`q` ops) the model predicts the outcome class where the schema alone
  determines it (`classify`): unknown table / unknown column / wrong arity → `error`; integer division or modulo
  by the literal zero, evaluated for every row of a non-empty untouched table → `error`; a plain projection with
  a plain comparison → `rows`.  Everything here is a total function: parsing is by structural recursion on a depth
  budget, classification by structural recursion on the syntax tree — there is no input on which the model
  panics or loops, which is the shape C16 demands of the implementation.

  Core Lean only.
-/
import AxVerif.Model.Bytes
namespace AxVerif.Fuzz
open AxVerif

/-! ### syntax of the grammar statements -/

mutual
  inductive E
    | col (n : String)
    | int (v : Int)
    | str (b : Bytes)
    | dbl (v : Int)
    | null
    | bool (b : Bool)
    | bin (op : String) (a b : E)
    | un (op : String) (a : E)
    | fn (name : String) (args : EList)
    | agg (name : String) (a : E)
    | countStar
    /-- `arms` = when₁, then₁, when₂, then₂, …; `els` has 0 or 1 element -/
    | case_ (arms : EList) (els : EList)
    | between (neg : Bool) (a b c : E)
    | inList (neg : Bool) (a : E) (xs : EList)
    | exists_ (t : String)
    | inSub (t c : String) (a : E)
    | sSub (t c : String)
  inductive EList
    | nil
    | cons (e : E) (rest : EList)
end

inductive Q
  | sel (tbl : String) (items : EList) (wh : Option E) (group : Option String) (having : Option E)
      (order : Option String) (limit : Option Nat)
  | ins (tbl : String) (vals : EList)
  | upd (tbl col : String) (val : E) (wh : Option E)
  | del (tbl : String) (wh : Option E)

def Q.table : Q → String
  | .sel t .. => t
  | .ins t _ => t
  | .upd t .. => t
  | .del t _ => t

def EList.length : EList → Nat
  | .nil => 0
  | .cons _ r => r.length + 1

/-! ### lexical classes (the same predicates as the Rust engine) -/

def isLower (c : Char) : Bool := 'a' ≤ c ∧ c ≤ 'z'
def isDigit (c : Char) : Bool := '0' ≤ c ∧ c ≤ '9'
def isUpperC (c : Char) : Bool := 'A' ≤ c ∧ c ≤ 'Z'

/-- `[a-z_][a-z0-9_]*`, at most 20 characters -/
def isName (s : String) : Bool :=
  match s.toList with
  | [] => false
  | c :: cs => (isLower c || c == '_') && (c :: cs).length ≤ 20 &&
      (c :: cs).all (fun x => isLower x || isDigit x || x == '_')

def isUpperName (s : String) : Bool :=
  let cs := s.toList
  !cs.isEmpty && cs.length ≤ 20 && cs.all isUpperC

def digitsVal (cs : List Char) : Nat := cs.foldl (fun acc c => acc * 10 + (c.toNat - 48)) 0

/-- optional `-`, 1–19 digits, value within i64 -/
def parseInt (s : String) : Option Int :=
  let cs := s.toList
  let (neg, ds) := match cs with
    | '-' :: r => (true, r)
    | _ => (false, cs)
  if ds.isEmpty || ds.length > 19 || !ds.all isDigit then none
  else
    let n := digitsVal ds
    if neg then (if n ≤ 9223372036854775808 then some (-(n : Int)) else none)
    else (if n ≤ 9223372036854775807 then some (n : Int) else none)

/-- 1–3 digits -/
def parseSmall (s : String) : Option Nat :=
  let cs := s.toList
  if cs.isEmpty || cs.length > 3 || !cs.all isDigit then none else some (digitsVal cs)

def binops : List String :=
  ["add", "sub", "mul", "div", "mod", "eq", "ne", "lt", "le", "gt", "ge", "and", "or", "cat", "like", "nlike"]
def unops : List String := ["not", "neg", "isnull", "notnull"]

/-! ### parsing the prefix token form -/

def parseMany (p : List String → Option (E × List String)) : Nat → List String → Option (EList × List String)
  | 0, ts => some (.nil, ts)
  | k + 1, ts =>
    match p ts with
    | none => none
    | some (e, r) =>
      match parseMany p k r with
      | none => none
      | some (es, r') => some (.cons e es, r')

/-- `budget` = how many more levels of nesting are allowed (the Rust parser allows depths 0..64) -/
def parseE : Nat → List String → Option (E × List String)
  | 0, _ => none
  | _ + 1, [] => none
  | b + 1, t :: ts =>
    if binops.contains t then
      match parseE b ts with
      | none => none
      | some (x, r) =>
        match parseE b r with
        | none => none
        | some (y, r') => some (.bin t x y, r')
    else if unops.contains t then
      match parseE b ts with
      | none => none
      | some (x, r) => some (.un t x, r)
    else if t = "n" then some (.null, ts)
    else if t = "t" then some (.bool true, ts)
    else if t = "f" then some (.bool false, ts)
    else if t = "cntstar" then some (.countStar, ts)
    else if t = "btw" ∨ t = "nbtw" then
      match parseE b ts with
      | none => none
      | some (x, r) =>
        match parseE b r with
        | none => none
        | some (y, r') =>
          match parseE b r' with
          | none => none
          | some (z, r'') => some (.between (t = "nbtw") x y z, r'')
    else
      match t.splitOn "." with
      | ["c", n] => if isName n then some (.col n, ts) else none
      | ["i", v] => (parseInt v).map (fun i => (.int i, ts))
      | ["d", v] => (parseInt v).map (fun i => (.dbl i, ts))
      | ["s", h] => (bytesOfHex h).map (fun bs => (.str bs, ts))
      | ["fn", name, k] =>
        if isUpperName name then
          match parseSmall k with
          | none => none
          | some k =>
            match parseMany (parseE b) k ts with
            | none => none
            | some (args, r) => some (.fn name args, r)
        else none
      | ["agg", name] =>
        if isUpperName name then
          match parseE b ts with
          | none => none
          | some (x, r) => some (.agg name x, r)
        else none
      | ["case", k] =>
        match parseSmall k with
        | none => none
        | some k =>
          match parseMany (parseE b) (2 * k) ts with
          | none => none
          | some (arms, r) =>
            match parseE b r with
            | none => none
            | some (e, r') => some (.case_ arms (.cons e .nil), r')
      | ["casex", k] =>
        match parseSmall k with
        | none => none
        | some k =>
          match parseMany (parseE b) (2 * k) ts with
          | none => none
          | some (arms, r) => some (.case_ arms .nil, r)
      | ["in", k] =>
        match parseSmall k with
        | none => none
        | some k =>
          match parseE b ts with
          | none => none
          | some (x, r) =>
            match parseMany (parseE b) k r with
            | none => none
            | some (xs, r') => some (.inList false x xs, r')
      | ["nin", k] =>
        match parseSmall k with
        | none => none
        | some k =>
          match parseE b ts with
          | none => none
          | some (x, r) =>
            match parseMany (parseE b) k r with
            | none => none
            | some (xs, r') => some (.inList true x xs, r')
      | ["ex", tb] => if isName tb then some (.exists_ tb, ts) else none
      | ["insub", tb, c] =>
        if isName tb ∧ isName c then
          match parseE b ts with
          | none => none
          | some (x, r) => some (.inSub tb c x, r)
        else none
      | ["ssub", tb, c] => if isName tb ∧ isName c then some (.sSub tb c, ts) else none
      | _ => none

/-- depth budget of a top-level expression -/
def topBudget : Nat := 65

def parseWhere : List String → Option (Option E × List String)
  | "nw" :: ts => some (none, ts)
  | "w" :: ts => (parseE topBudget ts).map (fun (e, r) => (some e, r))
  | _ => none

def stripPrefix (p s : String) : Option String :=
  if s.startsWith p then some (s.drop p.length).toString else none

def parseQ (s : String) : Option Q :=
  match s.splitOn "," with
  | "sel" :: tbl :: k :: ts =>
    if !isName tbl then none else
    match parseSmall k with
    | none => none
    | some 0 => none
    | some k =>
      match parseMany (parseE topBudget) k ts with
      | none => none
      | some (items, r) =>
        match parseWhere r with
        | none => none
        | some (wh, r) =>
          match r with
          | g :: r =>
            let group? : Option (Option String) :=
              if g = "ng" then some none
              else match stripPrefix "g." g with
                | some n => if isName n then some (some n) else none
                | none => none
            match group? with
            | none => none
            | some group =>
              let hav? : Option (Option E × List String) := match r with
                | "nh" :: r => some (none, r)
                | "h" :: r => (parseE topBudget r).map (fun (e, r) => (some e, r))
                | _ => none
              match hav? with
              | none => none
              | some (having, r) =>
                match r with
                | [o, l] =>
                  let order? : Option (Option String) :=
                    if o = "no" then some none
                    else match stripPrefix "o." o with
                      | some n => if isName n then some (some n) else none
                      | none => none
                  let limit? : Option (Option Nat) :=
                    if l = "nl" then some none
                    else match stripPrefix "l." l with
                      | some n => (parseSmall n).map some
                      | none => none
                  match order?, limit? with
                  | some order, some limit => some (.sel tbl items wh group having order limit)
                  | _, _ => none
                | _ => none
          | [] => none
  | "ins" :: tbl :: k :: ts =>
    if !isName tbl then none else
    match parseSmall k with
    | none => none
    | some 0 => none
    | some k =>
      match parseMany (parseE topBudget) k ts with
      | some (vals, []) => some (.ins tbl vals)
      | _ => none
  | "upd" :: tbl :: col :: ts =>
    if !isName tbl || !isName col then none else
    match parseE topBudget ts with
    | none => none
    | some (val, r) =>
      match parseWhere r with
      | some (wh, []) => some (.upd tbl col val wh)
      | _ => none
  | "del" :: tbl :: ts =>
    if !isName tbl then none else
    match parseWhere ts with
    | some (wh, []) => some (.del tbl wh)
    | _ => none
  | _ => none

/-! ### schema -/

structure Table where
  name : String
  cols : List (String × Char)

def typeCodes : List Char := ['i', 'I', 'u', 'U', 'f', 'd', 't', 'b']
def probeTable : String := "zz_probe"

def parseCols : List String → List (String × Char) → Option (List (String × Char))
  | [], acc => some acc.reverse
  | c :: rest, acc =>
    match c.splitOn "." with
    | [cn, ty] =>
      match ty.toList with
      | [tc] =>
        if isName cn && typeCodes.contains tc && !(acc.any (fun x => x.1 == cn)) then parseCols rest ((cn, tc) :: acc)
        else none
      | _ => none
    | _ => none

def parseTables : List String → List Table → Option (List Table)
  | [], acc => some acc.reverse
  | t :: rest, acc =>
    match t.splitOn ":" with
    | [name, cols] =>
      if !isName name || name == probeTable || acc.any (fun x => x.name == name) then none
      else
        match parseCols (cols.splitOn ",") [] with
        | none => none
        | some cs =>
          if cs.isEmpty || cs.length > 8 then none else parseTables rest ({ name := name, cols := cs } :: acc)
    | _ => none

def parseSchema (s : String) : Option (List Table) :=
  match parseTables (s.splitOn "/") [] with
  | none => none
  | some ts => if ts.isEmpty || ts.length > 4 then none else some ts

def findTable (schema : List Table) (n : String) : Option Table := schema.find? (fun t => t.name == n)
def Table.hasCol (t : Table) (c : String) : Bool := t.cols.any (fun x => x.1 == c)
def Table.colType (t : Table) (c : String) : Option Char := (t.cols.find? (fun x => x.1 == c)).map (·.2)

/-! ### classification -/

inductive Class
  | rows | error
  deriving DecidableEq, Repr

mutual
  /-- column references outside sub-queries -/
  def colsOf : E → List String
    | .col n => [n]
    | .bin _ a b => colsOf a ++ colsOf b
    | .un _ a => colsOf a
    | .agg _ a => colsOf a
    | .fn _ xs => colsOfL xs
    | .case_ arms els => colsOfL arms ++ colsOfL els
    | .between _ a b c => colsOf a ++ colsOf b ++ colsOf c
    | .inList _ a xs => colsOf a ++ colsOfL xs
    | .inSub _ _ a => colsOf a
    | _ => []
  def colsOfL : EList → List String
    | .nil => []
    | .cons e r => colsOf e ++ colsOfL r
end

mutual
  /-- sub-query references: (table, column if one is named) -/
  def subsOf : E → List (String × Option String)
    | .bin _ a b => subsOf a ++ subsOf b
    | .un _ a => subsOf a
    | .agg _ a => subsOf a
    | .fn _ xs => subsOfL xs
    | .case_ arms els => subsOfL arms ++ subsOfL els
    | .between _ a b c => subsOf a ++ subsOf b ++ subsOf c
    | .inList _ a xs => subsOf a ++ subsOfL xs
    | .exists_ t => [(t, none)]
    | .inSub t c a => (t, some c) :: subsOf a
    | .sSub t c => [(t, some c)]
    | _ => []
  def subsOfL : EList → List (String × Option String)
    | .nil => []
    | .cons e r => subsOf e ++ subsOfL r
end

def arith : List String := ["add", "sub", "mul", "div", "mod"]
def cmps : List String := ["eq", "ne", "lt", "le", "gt", "ge"]

/-- only integer arithmetic over integer literals and INT/BIGINT columns: evaluated strictly, for every row -/
def strictArith (t : Table) : E → Bool
  | .int _ => true
  | .col n => t.colType n == some 'i' || t.colType n == some 'I'
  | .bin op a b => arith.contains op && strictArith t a && strictArith t b
  | _ => false

def isIntZero : E → Bool
  | .int v => v == 0
  | _ => false

def hasDiv0 : E → Bool
  | .bin op a b => ((op == "div" || op == "mod") && isIntZero b) || hasDiv0 a || hasDiv0 b
  | _ => false

def plainItem : E → Bool
  | .col _ | .int _ | .str _ | .null | .bool _ => true
  | _ => false

def plainWhere (t : Table) : E → Bool
  | .bin op (.col n) lit =>
    cmps.contains op &&
    (match t.colType n, lit with
     | some 'i', .int v => v.natAbs < 1000000
     | some 'I', .int v => v.natAbs < 1000000
     | some 't', .str _ => true
     | _, _ => false)
  | _ => false

def EList.all (p : E → Bool) : EList → Bool
  | .nil => true
  | .cons e r => p e && r.all p
def EList.any (p : E → Bool) : EList → Bool
  | .nil => false
  | .cons e r => p e || r.any p

def optCols : Option E → List String
  | none => []
  | some e => colsOf e
def optSubs : Option E → List (String × Option String)
  | none => []
  | some e => subsOf e
def optName : Option String → List String
  | none => []
  | some n => [n]

def Q.cols : Q → List String
  | .sel _ items wh group having order _ => colsOfL items ++ optCols wh ++ optCols having ++ optName group ++ optName order
  | .ins _ vals => colsOfL vals
  | .upd _ col val wh => col :: colsOf val ++ optCols wh
  | .del _ wh => optCols wh

def Q.subs : Q → List (String × Option String)
  | .sel _ items wh _ having _ _ => subsOfL items ++ optSubs wh ++ optSubs having
  | .ins _ vals => subsOfL vals
  | .upd _ _ val wh => subsOf val ++ optSubs wh
  | .del _ wh => optSubs wh

def subOk (schema : List Table) (s : String × Option String) : Bool :=
  match findTable schema s.1 with
  | none => false
  | some t2 => match s.2 with
    | none => true
    | some c => t2.hasCol c

/-- `some c`: the outcome class of `q` is determined by the schema alone.
    `tainted`: an arbitrary string ran before (it may have changed anything); `touched`: tables written by earlier ops. -/
def classify (schema : List Table) (q : Q) (tainted : Bool) (touched : List String) : Option Class :=
  if tainted then none else
  match findTable schema q.table with
  | none => some .error
  | some t =>
    if q.cols.any (fun c => !t.hasCol c) then some .error
    else if q.subs.any (fun s => !subOk schema s) then some .error
    else match q with
      | .ins _ vals => if vals.length ≠ t.cols.length then some .error else none
      | .sel tbl items wh group having _ limit =>
        if !q.subs.isEmpty || group.isSome || having.isSome || limit.isSome then none
        else if wh.isNone && !touched.contains tbl && items.all (strictArith t) && items.any hasDiv0 then some .error
        else if items.all plainItem && (match wh with | none => true | some w => plainWhere t w) then some .rows
        else none
      | _ => none

/-! ### case lines -/

inductive Op
  | x (bytes : Bytes)
  | q (stmt : Q)

def parseOp (w : String) : Option Op :=
  let w := w.trimAscii.toString
  match stripPrefix "x:" w with
  | some h => (bytesOfHex h).map .x
  | none =>
    match stripPrefix "q:" w with
    | some t => (parseQ t).map .q
    | none => none

def parseOps : List String → Option (List Op)
  | [] => some []
  | w :: ws => match parseOp w, parseOps ws with
    | some o, some r => some (o :: r)
    | _, _ => none

structure St where
  tainted : Bool := false
  touched : List String := []

def stepOp (schema : List Table) (st : St) : Op → St × String
  | .x _ => ({ st with tainted := true }, "ok-or-error")
  | .q q =>
    let c := classify schema q st.tainted st.touched
    let st' := match q with
      | .sel .. => st
      | _ => if st.touched.contains q.table then st else { st with touched := st.touched ++ [q.table] }
    (st', match c with
      | some .rows => "rows"
      | some .error => "error"
      | none => "ok-or-error")

def runOps (schema : List Table) : St → List Op → List String
  | _, [] => []
  | st, o :: os => let (st', w) := stepOp schema st o; w :: runOps schema st' os

def allDigits (s : String) : Bool := !s.isEmpty && s.toList.all isDigit

def stepLine (line : String) : String :=
  match line.splitOn "|" with
  | head :: b :: bs =>
    let body := joinWith "|" (b :: bs)
    match words head with
    | ["fz", mode, pool, schema] =>
      if mode ≠ "db" ∧ mode ≠ "sess" then "bad-op" else
      if !allDigits pool || pool.length > 3 then "bad-op" else
      match pool.toNat?, parseSchema schema, parseOps (body.splitOn ";") with
      | some p, some sch, some ops =>
        if p = 0 ∨ p > 8 ∨ ops.length > 2000 then "bad-op"
        else joinWith " " (runOps sch {} ops)
      | _, _, _ => "bad-op"
    | _ => "bad-op"
  | _ => "bad-op"

end AxVerif.Fuzz
