/-
  C09 — clean close and reopen.  Core Lean only.

  The logical MVCC machine of `Model/Db.lean` (rows as version chains with creator ids and delete marks, transaction
  table, snapshots) is wrapped into the machine `W` that also has what a *database file* has and a history of C09 needs:

    * a catalog that changes (CREATE TABLE / DROP TABLE, issued while no session is open), object ids;
    * the hidden `row_id` column: every table has a counter `next_row_id` (kept in its catalog row), every inserted row
      takes the next value — also when the inserting transaction is rolled back later (the counter is not transactional);
    * VACUUM (physical removal of what rolled-back transactions wrote and of rows deleted by committed ones);
    * `closeDb : WState → Stable` — the checkpoint written by `Pager::flush` (what `Database::flush` and `Drop for Database`
      do): every row version and delete mark, the catalog rows (schema, `next_row_id`), the page-zero counters
      `last_stored_object`, `last_created_transaction` (= the next id), `last_committed_transaction`, the set of
      rolled-back transaction ids, the creation-time configuration;
    * `openDb : Config → Stable → WState` — `Database::open`: the page-zero header is loaded, a *fresh* transaction
      coordinator is built that knows nothing but the reloaded aborted ids (`load_aborted_transactions`), the commit log
      used for write-write validation is empty.  Of the configuration passed to `Database::open` only the worker-pool size is used;
      page size, cache size, minimum keys and sibling count are read from page zero (`Model/Config.lean`, C12).

  Nothing is undone physically when a transaction rolls back: its row versions and delete marks stay in the tables and
  are filtered by every snapshot through the set of aborted ids.  After a reopen that set is all that distinguishes a
  rolled-back transaction from a committed one (until VACUUM removes its traces), so `closeDb` must persist it in full and
  must also put the transactions that are still open into it.

  Defect flags (`Defects`, all off = the specification the theorems of `Thm/C09.lean` are about):
    * `abortedBitmap8192` — page zero holds the aborted set as a bitmap of 8192 bits; `mark_transaction_aborted` silently
      ignores larger ids (storage/page.rs).  A transaction with id ≥ 8192 that rolled back counts as committed after reopen.
    * `openTxnAtCloseSurvives` — `Drop for Database` flushed without rolling back the transactions still open (sessions that
      outlive the handle): their ids are in no aborted set, after reopen their rows are committed data.  (fixed)
    * `versionCounterU8` — the tuple header counts versions in a `u8` incremented with `+`; the catalog row of a table gets a
      new version per inserted row (`next_row_id`), so the 256th insert into a table panics.  (fixed)

  The clock and the `(clock, j)` row names of `Model/Db.lean` are bookkeeping of the model (they stand for the physical
  identity and insertion order of rows); they are carried through `Stable` unchanged.
-/
import AxVerif.Model.Db
import AxVerif.Model.Config
namespace AxVerif.Reopen
open AxVerif.Db

structure Defects where
  abortedBitmap8192 : Bool := false
  openTxnAtCloseSurvives : Bool := false
  versionCounterU8 : Bool := false
  deriving Repr

def Defects.none : Defects := {}

/-- `DBConfig`, the configuration fields of page zero and the settings a running engine uses: `Model/Config.lean` (C12) -/
abbrev Config := AxVerif.Config.Config
abbrev Header := AxVerif.Config.Header
abbrev Effective := AxVerif.Config.Effective

/-- in-memory settings of an open database; no statement result depends on them -/
structure Env where
  /-- page size, cache capacity, minimum keys, siblings the pager works with -/
  eff : Effective
  /-- worker threads -/
  pool : Nat
  deriving Repr, DecidableEq

/-- the hidden `row_id` of a physical row -/
structure RowMeta where
  rid : Rid
  table : String
  rowId : Nat
  deriving Repr, DecidableEq

structure WState where
  db : Db.State
  /-- `next_row_id` of every table (a field of its catalog row) -/
  nextRow : List (String × Nat)
  rmeta : List RowMeta
  /-- object id of every table -/
  objs : List (String × Nat)
  /-- page zero `last_stored_object`: the next object id -/
  lastObject : Nat
  /-- configuration fields of page zero (written once, by `create`) -/
  hdr : Header
  env : Env
  deriving Repr

def WState.init (cfg : Config) : WState :=
  { db := Db.State.init [], nextRow := [], rmeta := [], objs := [], lastObject := 0,
    hdr := AxVerif.Config.toHeader {} cfg,
    env := ⟨AxVerif.Config.effectiveAtCreate {} cfg, cfg.poolSize⟩ }

/-- the next transaction id (page zero `last_created_transaction`) -/
def WState.nextTxn (w : WState) : Nat := w.db.txns.length

inductive WErr where
  | exists | notfound
  deriving DecidableEq, Repr

inductive WOp where
  | db (op : Db.Op)
  | create (ts : TableSchema)
  | dropTable (t : String)
  | vacuum
  /-- an empty committed transaction that reports its id -/
  | tid
  /-- `n` empty committed transactions -/
  | burn (n : Nat)
  /-- `SELECT row_id, * FROM t` in an autocommit transaction -/
  | obs (t : String)
  /-- close and open.  `leak = false`: every open session is dropped (= rolled back) first;
      `leak = true`: the handle is dropped while sessions are open, and they are never finished -/
  | reopen (leak : Bool) (cfg : Config)
  deriving Repr

inductive WOut where
  | db (o : Db.Out)
  | created (oid : Nat)
  | dropped
  | err (e : WErr)
  | ok
  | tid (n : Nat)
  | obs (rows : List (Nat × List Val))
  | reopened (eff : Effective)
  | panic
  deriving Repr, DecidableEq

/-! ### pieces -/

/-- an autocommit transaction without logical effect that commits -/
def tickDb (D : Db.Defects) (σ : Db.State) : Db.State :=
  let (σ1, tid) := σ.beginTxn D
  (σ1.commitTxn tid).1

/-- an autocommit transaction that fails: begun, then rolled back -/
def failDb (D : Db.Defects) (σ : Db.State) : Db.State :=
  let (σ1, tid) := σ.beginTxn D
  σ1.abortTxn tid

def burnDb (D : Db.Defects) : Nat → Db.State → Db.State
  | 0, σ => σ
  | n + 1, σ => burnDb D n (tickDb D σ)

def bump (t : String) : List (String × Nat) → List (String × Nat)
  | [] => []
  | (k, n) :: rest => if k == t then (k, n + 1) :: rest else (k, n) :: bump t rest

/-- hands the next row id of its table to every new physical row, in insertion order -/
def assign : List (String × Nat) → List RowMeta → List Row → List (String × Nat) × List RowMeta
  | nr, m, [] => (nr, m)
  | nr, m, r :: rs =>
    match lookup r.table nr with
    | some n => assign (bump r.table nr) (m ++ [⟨r.rid, r.table, n⟩]) rs
    | Option.none => assign nr m rs

def rowIdOf (m : List RowMeta) (rid : Rid) : Nat :=
  match m.find? (fun x => x.rid == rid) with
  | some x => x.rowId
  | Option.none => 0

def statusIs (txns : List Txn) (st : Status) (u : Nat) : Bool :=
  match txns[u]? with
  | some t => t.status == st
  | Option.none => false

/-- VACUUM of one row: what rolled-back transactions wrote goes; a row deleted by a committed transaction goes -/
def vacuumRow (txns : List Txn) (r : Row) : Option Row :=
  let vs := r.versions.filter (fun v => !statusIs txns .aborted v.creator)
  let ds := r.deleters.filter (fun d => !statusIs txns .aborted d)
  if vs.isEmpty then Option.none
  else if ds.any (statusIs txns .committed) then Option.none
  else some { r with versions := vs, deleters := ds }

def vacuumRows (txns : List Txn) (rows : List Row) : List Row := rows.filterMap (vacuumRow txns)

/-- every open session is dropped: its transaction is rolled back -/
def dropAll (σ : Db.State) : Db.State :=
  { (σ.sessions.foldl (fun σ' (p : String × Nat) => σ'.abortTxn p.2) σ) with sessions := [] }

/-! ### close and open -/

/-- the persistent image of a database: what a checkpoint leaves in the file -/
structure Stable where
  cat : Catalog
  nextRow : List (String × Nat)
  objs : List (String × Nat)
  rows : List Row
  /-- the unique-index trees (`Db.State.index`; only maintained by the model when an index defect is switched on) -/
  index : Index
  rmeta : List RowMeta
  lastObject : Nat
  /-- the next transaction id -/
  lastCreatedTxn : Nat
  lastCommittedTxn : Nat
  /-- ids of the rolled-back transactions -/
  aborted : List Nat
  hdr : Header
  /-- bookkeeping of the model, see the file header -/
  clock : Nat
  deriving Repr

def bitmapBits : Nat := 8192

def closeDb (R : Defects) (w : WState) : Stable :=
  let ab := idsWith .aborted w.db.txns 0
  let act := idsWith .active w.db.txns 0
  let marked := if R.openTxnAtCloseSurvives then ab else ab ++ act
  { cat := w.db.cat, nextRow := w.nextRow, objs := w.objs, rows := w.db.rows, index := w.db.index, rmeta := w.rmeta,
    lastObject := w.lastObject, lastCreatedTxn := w.db.txns.length, lastCommittedTxn := w.db.lastCommitted,
    aborted := if R.abortedBitmap8192 then marked.filter (fun i => i < bitmapBits) else marked,
    hdr := w.hdr, clock := w.db.clock }

/-- what the fresh coordinator takes transaction `i` for: rolled back if its id was reloaded, otherwise finished -/
def reloadTxn (aborted : List Nat) (i : Nat) : Txn :=
  ⟨⟨i, Option.none, [], []⟩, if aborted.contains i then .aborted else .committed, [], 0⟩

def openDb (cfg : Config) (st : Stable) : WState :=
  { db := { cat := st.cat, rows := st.rows,
            txns := (List.range st.lastCreatedTxn).map (reloadTxn st.aborted),
            lastCommitted := st.lastCommittedTxn, clog := [], sessions := [], clock := st.clock, index := st.index },
    nextRow := st.nextRow, rmeta := st.rmeta, objs := st.objs, lastObject := st.lastObject, hdr := st.hdr,
    env := ⟨AxVerif.Config.effectiveAtOpen {} st.hdr, cfg.poolSize⟩ }

/-- the same moment in a database that is *not* restarted: every open transaction is rolled back, nothing else happens -/
def quiesce (σ : Db.State) : Db.State :=
  { σ with txns := σ.txns.map (fun t => if t.status = .active then { t with status := .aborted } else t), sessions := [] }

/-! ### the machine -/

def objectsOf (ts : TableSchema) : Nat := 1 + (ts.cols.filter (·.unique)).length

/-- `ideal = true`: `reopen` does not restart anything: the open sessions are dropped (unless leaked), whatever
    transaction is still open is rolled back, the empty transaction that recovery runs is run, the pool is resized.
    This is the machine the restarting one is compared with. -/
def stepCoreW (D : Db.Defects) (R : Defects) (ideal : Bool) (w : WState) : WOp → WState × WOut
  | .db op =>
    let (σ', o) := Db.stepCore D w.db op
    let (nr, m) := assign w.nextRow w.rmeta (σ'.rows.drop w.db.rows.length)
    if R.versionCounterU8 && nr.any (fun p => p.2 > 255) then (w, .panic)
    else ({ w with db := σ', nextRow := nr, rmeta := m }, .db o)
  | .create ts =>
    if (findTable w.db.cat ts.name).isSome then ({ w with db := failDb D w.db }, .err .exists)
    else
      ({ w with db := tickDb D { w.db with cat := w.db.cat ++ [ts] },
                nextRow := w.nextRow ++ [(ts.name, 0)],
                objs := w.objs ++ [(ts.name, w.lastObject)],
                lastObject := w.lastObject + objectsOf ts }, .created w.lastObject)
  | .dropTable t =>
    if (findTable w.db.cat t).isSome then
      ({ w with db := tickDb D { w.db with cat := w.db.cat.filter (fun ts => ts.name != t),
                                            rows := w.db.rows.filter (fun r => r.table != t),
                                            index := w.db.index.filter (fun e => e.table != t) },
                nextRow := erase t w.nextRow, objs := erase t w.objs,
                rmeta := w.rmeta.filter (fun x => x.table != t) }, .dropped)
    else ({ w with db := failDb D w.db }, .err .notfound)
  | .vacuum => ({ w with db := tickDb D { w.db with rows := vacuumRows w.db.txns w.db.rows } }, .ok)
  | .tid => ({ w with db := tickDb D w.db }, .tid w.db.txns.length)
  | .burn n => ({ w with db := burnDb D n w.db }, .ok)
  | .obs t =>
    if (findTable w.db.cat t).isSome then
      let v := view D (w.db.freshSnap D) w.db.rows
      ({ w with db := tickDb D w.db },
       .obs ((v.filter (fun r => r.table == t)).map (fun r => (rowIdOf w.rmeta r.rid, r.vals))))
    else ({ w with db := failDb D w.db }, .err .notfound)
  | .reopen leak cfg =>
    let w1 := if leak then w else { w with db := dropAll w.db }
    if ideal then
      ({ w1 with db := tickDb D (quiesce w1.db), env := ⟨AxVerif.Config.effectiveAtOpen {} w1.hdr, cfg.poolSize⟩ },
       .reopened (AxVerif.Config.effectiveAtOpen {} w1.hdr))
    else
      let w2 := openDb cfg (closeDb R w1)
      ({ w2 with db := tickDb D w2.db }, .reopened w2.env.eff)

/-- one operation; the clock ticks on every operation -/
def stepW (D : Db.Defects) (R : Defects) (ideal : Bool) (w : WState) (op : WOp) : WState × WOut :=
  let (w', o) := stepCoreW D R ideal w op
  ({ w' with db := { w'.db with clock := w'.db.clock + 1 } }, o)

def runFromW (D : Db.Defects) (R : Defects) (ideal : Bool) : WState → List WOp → List WOut → WState × List WOut
  | w, [], acc => (w, acc.reverse)
  | w, op :: ops, acc =>
    let (w', o) := stepW D R ideal w op
    runFromW D R ideal w' ops (o :: acc)

def runW (D : Db.Defects) (R : Defects) (ideal : Bool) (cfg : Config) (ops : List WOp) : WState × List WOut :=
  runFromW D R ideal (WState.init cfg) ops []

/-! ### what can be observed of a state -/

/-- contents (with row ids) of table `t` as a transaction beginning now sees it -/
def tableView (D : Db.Defects) (w : WState) (t : String) : List (Nat × List Val) :=
  ((view D (w.db.freshSnap D) w.db.rows).filter (fun r => r.table == t)).map (fun r => (rowIdOf w.rmeta r.rid, r.vals))

/-- everything a new transaction can find out: catalog (column definitions, constraints), every table's contents -/
def observeAll (D : Db.Defects) (w : WState) : Catalog × List (String × List (Nat × List Val)) :=
  (w.db.cat, w.db.cat.map (fun ts => (ts.name, tableView D w ts.name)))

end AxVerif.Reopen
