/-
  Latch model for C14: threads as small programs over two kinds of resources, as a transition system.  Core Lean only.

  Resources (what the code has)
  * the **pager lock** — `SharedPager = Arc<RwLock<Pager>>`, always taken with `.write()`: one holder at a time.  A page
    fetch is `let frame = self.pager.write().read_page(id)?;` (tree/bplustree.rs:223): the guard is a temporary of that
    statement, so the lock is taken and released *before* the latch of the page is requested (line 224-227).
  * **page latches** — `Frame.inner : Arc<parking_lot::RwLock<page>>` (multithreading/frames.rs:22-68).  `write_arc()`
    waits until nobody holds a guard (a `write` of a thread that itself holds a guard waits for ever).  Read latches are
    taken with `read_arc_recursive()`: a reader is admitted whenever no writer *holds* the lock.  As shipped they were
    taken with `read_arc()`, which under parking_lot's *fair* policy is not admitted while a writer is parked on the
    lock — even if the requester already holds a read guard of it (`Defects.readLatchQueuesBehindWriter`).

  Thread programs (`Instr`): `lockPager`, `unlockPager`, `acq p m` (request the latch of page `p` in mode `m` and wait for
  it), `rel p` (drop one guard of page `p`: `Accessor::release`, end of scope of a temporary tree), `relAll`
  (`Accessor::clear` / drop of the accessor).  Requesting takes two steps — *announce* (the thread parks on the lock:
  `waiting := true`) and *grant* — so that the fairness rule can see who is parked.

  The program shapes extracted from the code are the functions at the end (`readerDescent`, `readerScan`, `readerSearch`,
  `writerOp`, `flushProg`); the acquisition orders are taken from tree/bplustree.rs (see each function's comment).
-/
namespace AxVerif.Latch

inductive Mode where
  | R | W
  deriving DecidableEq, Repr

inductive Instr where
  | lockPager
  | unlockPager
  | acq (p : Nat) (m : Mode)
  | rel (p : Nat)
  | relAll
  deriving DecidableEq, Repr

structure Thread where
  /-- what is left to execute -/
  prog : List Instr
  /-- guards held (a page may occur twice: two read guards of one thread) -/
  held : List (Nat × Mode)
  /-- holds the pager lock -/
  pager : Bool
  /-- parked on the latch requested by the `acq` at the head of `prog` -/
  waiting : Bool
  deriving DecidableEq, Repr

abbrev State := List Thread

/-- deviations of the shipped code from the latch protocol the theorems are about -/
structure Defects where
  /-- `ReadLatch::new` took the latch with `read_arc()`: under parking_lot's fair policy a read request queues behind a
      parked writer even when the requesting thread already holds a read guard of that page (fixed: `read_arc_recursive`,
      which admits a reader whenever no writer *holds* the lock) -/
  readLatchQueuesBehindWriter : Bool := false
  deriving Repr

def Defects.none : Defects := {}

def Thread.start (prog : List Instr) : Thread := ⟨prog, [], false, false⟩

def init (progs : List (List Instr)) : State := progs.map Thread.start

def Thread.finished (t : Thread) : Bool := t.prog.isEmpty

def Thread.holds (t : Thread) (p : Nat) : Bool := t.held.any (fun h => h.1 == p)

def Thread.holdsW (t : Thread) (p : Nat) : Bool := t.held.any (fun h => h.1 == p && h.2 == Mode.W)

/-- parked on page `p` for a write latch -/
def Thread.parkedW (t : Thread) (p : Nat) : Bool :=
  t.waiting && (match t.prog with
    | .acq q .W :: _ => q == p
    | _ => false)

/-- drops the first guard of page `p` -/
def relOne (p : Nat) : List (Nat × Mode) → List (Nat × Mode)
  | [] => []
  | h :: hs => if h.1 == p then hs else h :: relOne p hs

/-- can a *parked* request of mode `m` for page `p` be granted in state `s`?
    write: nobody (the requester included) holds a guard of `p`;
    read: nobody holds the write guard of `p` — and, with the defect (fair, non-re-entrant read lock), no thread is parked
    on `p` for writing. -/
def grantable (D : Defects) (s : State) (p : Nat) : Mode → Bool
  | .W => s.all (fun t => !t.holds p)
  | .R => s.all (fun t => !t.holdsW p && !(D.readLatchQueuesBehindWriter && t.parkedW p))

/-- can thread `t` of state `s` take its next step? -/
def enabled (D : Defects) (s : State) (t : Thread) : Bool :=
  match t.prog with
  | [] => false
  | .lockPager :: _ => s.all (fun u => !u.pager)
  | .unlockPager :: _ => true
  | .acq p m :: _ => if t.waiting then grantable D s p m else true
  | .rel _ :: _ => true
  | .relAll :: _ => true

/-- the thread after its next step (only meaningful when `enabled`) -/
def advance (t : Thread) : Thread :=
  match t.prog with
  | [] => t
  | .lockPager :: rest => { t with prog := rest, pager := true }
  | .unlockPager :: rest => { t with prog := rest, pager := false }
  | .acq p m :: rest =>
    if t.waiting then { t with prog := rest, held := (p, m) :: t.held, waiting := false }
    else { t with waiting := true }
  | .rel p :: rest => { t with prog := rest, held := relOne p t.held }
  | .relAll :: rest => { t with prog := rest, held := [] }

/-- thread `i` takes a step -/
def step (D : Defects) (s : State) (i : Nat) : Option State :=
  match s[i]? with
  | none => none
  | some t => if enabled D s t then some (s.set i (advance t)) else none

inductive Reachable (D : Defects) (s0 : State) : State → Prop
  | init : Reachable D s0 s0
  | step {s s' : State} {i : Nat} : Reachable D s0 s → step D s i = some s' → Reachable D s0 s'

/-- some thread has work left and no thread can move -/
def deadlocked (D : Defects) (s : State) : Bool := s.any (fun t => !t.finished) && s.all (fun t => !enabled D s t)

/-- runs a schedule (thread indices); stops at the first index whose thread cannot move -/
def runSched (D : Defects) : State → List Nat → State
  | s, [] => s
  | s, i :: is =>
    match step D s i with
    | none => s
    | some s' => runSched D s' is

/-! ## Program shapes extracted from the code -/

/-- `Btree::acquire_with_accessor` (tree/bplustree.rs:208-229) for a page the accessor does not hold yet: pager lock
    around `read_page`, released, then the latch is requested. -/
def fetch (p : Nat) (m : Mode) : List Instr := [.lockPager, .unlockPager, .acq p m]

/-- fetches the pages of `ps` that are not in `have` (the accessor skips pages it already holds: `contains(id)`), in order -/
def fetchNew (m : Mode) : List Nat → List Nat → List Instr
  | [], _ => []
  | p :: ps, have_ => if have_.contains p then fetchNew m ps have_ else fetch p m ++ fetchNew m ps (p :: have_)

/-- `get_left_most` (bplustree.rs:451-471), also `get_right_most`, `height`: every page of the path is fetched, read and
    *released before* its child is fetched — no coupling, the thread never waits while it holds a latch. -/
def readerDescent : List Nat → List Instr
  | [] => []
  | p :: ps => fetch p .R ++ [.rel p] ++ readerDescent ps

/-- per row of a leaf the scan operator reads the cell through a *second* tree object (`cursor.get_tree()` +
    `get_row_at`, runtime/ops/seq_scan.rs:93-108; `table.with_cell_at`, schema/catalog.rs:191-233): a fresh accessor, so
    the page is fetched and read-latched again while the iterator's own guard is held, and dropped at the end of the row. -/
def rowReads (leaf : Nat) : Nat → List Instr
  | 0 => []
  | n + 1 => fetch leaf .R ++ [.rel leaf] ++ rowReads leaf n

/-- leaf walk of `BtreePositionalIterator` (bplustree.rs:1972-1983, 2013-2034): rows of the current leaf, then
    `adv()`: the guard of the current leaf is *released*, then the next leaf is fetched. -/
def leafWalk (root : Nat) : List (Nat × Nat) → List Instr
  | [] => []
  | (leaf, rows) :: rest =>
    (if leaf = root then [] else fetch leaf .R) ++ rowReads leaf rows ++ (if leaf = root then [] else [.rel leaf]) ++ leafWalk root rest

/-- `SeqScan::open` + `next` (sequential scan of a table), `iter_forward` (bplustree.rs):
    1. `is_empty` of the caller's tree object latches the root; `iter_forward` lets go of it again;
    2. the tree object the iterator will own latches the **root and keeps it** until the iterator is dropped, and walks
       down the left-most path `path` (interior pages and the first leaf) under it, releasing each page before the next
       is fetched (`get_left_most`);
    3. `BtreePositionalIterator::from_position` on that same object: `validate` latches the first leaf; the leaf walk;
    4. drop of the iterator: everything is released.
    (As shipped the descent of step 2 ran on the caller's object and released the root too: the root could split between
    the descent and step 3 — `Btree iterator received an invalid position`; repaired, and not a matter of deadlocks.)
    `leaves` = (leaf page, number of rows read on it); a single-page table has `path = []`, `leaves = [(root, n)]`. -/
def readerScan (root : Nat) (path : List Nat) (leaves : List (Nat × Nat)) : List Instr :=
  readerDescent [root] ++ fetch root .R ++ readerDescent path ++ leafWalk root leaves ++ [.relAll]

/-- point lookup with a read accessor (`search` / `page_search`, bplustree.rs:248-298; catalog `get_relation`,
    `bind_relation`): every page of the path is latched and kept until the tree object is dropped. -/
def readerSearch (root : Nat) (path : List Nat) : List Instr :=
  fetchNew .R (root :: path) [] ++ [.relAll]

/-- one step of a rebalancing writer after the descent -/
inductive BalStep where
  /-- `get_page_mut(id)` of a sibling, a parent's neighbour, a frontier page or a freshly allocated page -/
  | touch (p : Nat)
  /-- `release(id)` followed by `pager.write().dealloc_page(id)` (bplustree.rs:1334-1341, 963-967) -/
  | free (p : Nat)
  /-- `pager.write().allocate_page()` (bplustree.rs:1013-1014, 1329) -/
  | alloc
  deriving Repr

def balInstrs : List BalStep → List Nat → List Instr
  | [], _ => []
  | .touch p :: rest, have_ =>
    if have_.contains p then balInstrs rest have_ else fetch p .W ++ balInstrs rest (p :: have_)
  | .free p :: rest, have_ => [.rel p, .lockPager, .unlockPager] ++ balInstrs rest (have_.filter (· != p))
  | .alloc :: rest, have_ => [.lockPager, .unlockPager] ++ balInstrs rest have_

/-- insert / update / remove through a write accessor (bplustree.rs:705-933): `page_search` write-latches
    `root :: path` and keeps every latch; `balance` (1165-1472) then touches, in this order per level, bottom-up: for a leaf
    the left then the right sibling (overflow) or the right then the left (underflow) (`balance_siblings`, 1625-1740), the
    parent's previous and next sibling (1216-1233), the loaded siblings left to right (1274-1312), new pages, the right
    frontier, the global right and left frontier (1434-1466); finally `accessor.clear()`.
    The model takes *any* sequence of `BalStep`s over pages of the same tree: the theorems do not depend on the order. -/
def writerOp (root : Nat) (path : List Nat) (bal : List BalStep) : List Instr :=
  fetchNew .W (root :: path) [] ++ balInstrs bal (root :: path) ++ [.relAll]

/-- `Pager::flush` (io/pager.rs:547-564) under `pager.write()`: every cached dirty page is write-latched
    (`with_bytes_mut`) while the pager lock is held. -/
def flushProg (pages : List Nat) : List Instr :=
  [.lockPager] ++ (pages.map (fun p => [Instr.acq p .W, .rel p])).flatten ++ [.unlockPager]

end AxVerif.Latch
