/-
  Page-level model of the pre-image journal (`io/journal.rs`, `Pager::write_block`, `Pager::flush`,
  `Pager::return_to_checkpoint`).

  The database file is a list of pages (contents abstract).  Between two checkpoints the file is overwritten in place
  — dirty pages evicted from the cache (steal), and the page writes of the next checkpoint itself.  The journal holds
  the checkpointed contents of every page of the last checkpoint that has been overwritten since; pages beyond the
  checkpointed length need no copy.  After a crash, `restore` copies the saved pages back and cuts the file to the
  checkpointed length.

  Events are the journal-relevant I/O calls, exactly the tokens of the harness's I/O trace:
    `start b`  (`Ja<b>`)  header written: a journal for a checkpoint of `b` pages
    `save p`   (`J<p>`)   the current contents of page `p` appended to the journal
    `jsync`    (`j`)      journal synced
    `write p v`(`D<p>`)   page `p` written in place
    `dsync`    (`d`)      database file synced
    `done`     (`Jd`)     journal marked DONE: the file is the new checkpoint
    `dropLog`  (`t`)      the log is truncated
    `empty`    (`u`)      journal emptied (before the next `start`)
  `accepts` is the protocol rule the real trace is checked against; `restore_returns_checkpoint` (Thm/C08) proves that
  every accepted trace, cut at any point, with any prefix of the not-yet-synced journal entries surviving, restores to
  the last checkpoint.  Core Lean only.
-/
namespace AxVerif.Journal

abbrev File := List Nat

/-- a write at or beyond the end extends the file (holes are zero pages) -/
def writePage (f : File) (p v : Nat) : File :=
  if p < f.length then f.set p v else f ++ List.replicate (p - f.length) 0 ++ [v]

inductive Mode where
  | fresh     -- no journal yet (database being created): nothing to protect
  | active    -- journal describes the last checkpoint
  | done      -- file is a complete new checkpoint, log not yet dropped
  | dropped   -- … log dropped
  | emptied   -- journal emptied, next header not yet written
deriving DecidableEq, Repr

structure St where
  file : File
  mode : Mode
  base : Nat
  saved : List (Nat × Nat)      -- durable journal entries (page, contents)
  pending : List (Nat × Nat)    -- appended, not yet synced
  ckpt : File                   -- ghost: the file as of the last checkpoint
  synced : File := []           -- the file as of its last fsync (crash model B: later writes may be lost)
  dirty : Bool := false         -- written since its last fsync
deriving Repr

def init : St := { file := [], mode := .fresh, base := 0, saved := [], pending := [], ckpt := [] }

inductive Ev where
  | start (b : Nat)
  | save (p : Nat)
  | jsync
  | write (p v : Nat)
  | dsync
  | done
  | dropLog
  | empty
deriving DecidableEq, Repr

def journaled (s : St) (p : Nat) : Bool := (s.saved ++ s.pending).any (fun e => e.1 == p)
def durablySaved (s : St) (p : Nat) : Bool := s.saved.any (fun e => e.1 == p)

/-- The protocol rule: may event `e` be issued in state `s`? -/
def allowed (s : St) : Ev → Bool
  | .start b => (s.mode == .fresh || s.mode == .emptied) && b == s.file.length && !s.dirty
  | .save p => s.mode == .active && p < s.base && !journaled s p
  | .jsync => true
  | .write p _ => s.mode == .fresh || (s.mode == .active && (s.base ≤ p || durablySaved s p))
  | .dsync => true
  | .done => s.mode == .active && !s.dirty
  | .dropLog => s.mode == .done
  | .empty => s.mode == .dropped

def step (s : St) : Ev → St
  | .start b => { s with mode := .active, base := b, saved := [], pending := [], ckpt := s.file }
  | .save p => { s with pending := s.pending ++ [(p, s.file.getD p 0)] }
  | .jsync => { s with saved := s.saved ++ s.pending, pending := [] }
  | .write p v =>
    let f := writePage s.file p v
    if s.mode == .fresh then { s with file := f, ckpt := f, dirty := true } else { s with file := f, dirty := true }
  | .dsync => { s with synced := s.file, dirty := false }
  | .done => { s with mode := .done, ckpt := s.file }
  | .dropLog => { s with mode := .dropped }
  | .empty => { s with mode := .emptied, saved := [], pending := [] }

/-- run a trace; `none` as soon as an event is not allowed -/
def run : St → List Ev → Option St
  | s, [] => some s
  | s, e :: es => if allowed s e then run (step s e) es else none

def accepts (es : List Ev) : Bool := (run init es).isSome

/-- `Pager::return_to_checkpoint` on the crash image in which the first `k` not-yet-synced entries survived. -/
def restore (s : St) (k : Nat) : File :=
  match s.mode with
  | .active => ((s.saved ++ s.pending.take k).foldl (fun f e => writePage f e.1 e.2) s.file).take s.base
  | _ => s.file

/-- Crash model B: a page of the crash image holds what was written last or what the last fsync saw; the image is at
    least as long as the shorter and at most as long as the longer of the two. -/
def CrashImage (s : St) (g : File) : Prop := ∀ p : Nat, g[p]? = s.file[p]? ∨ g[p]? = s.synced[p]?

/-- `Pager::return_to_checkpoint` on an arbitrary crash image `g` of the database file. -/
def restoreFrom (s : St) (g : File) (k : Nat) : File :=
  match s.mode with
  | .active => ((s.saved ++ s.pending.take k).foldl (fun f e => writePage f e.1 e.2) g).take s.base
  | _ => g

/-- does recovery still have to replay the log?  (`Leftover::DropLog` = no) -/
def logApplies (s : St) : Bool := s.mode == .fresh || s.mode == .active

end AxVerif.Journal
