/-
  Durability model for C01 / C02 / C08.

  Part A (this file, executable, used by the judge): the *logical* meaning of a workload — which units
  (autocommit statements, batches, session commits) exist, what each does, and the committed state after any
  list of acknowledged units — plus the classification of a recovered state against it (lost / extra rows).

  Part B (`Model/Recovery.lean`): the abstract write-ahead-logging protocol (log with forced prefix, stable
  store, checkpoint, crash at any I/O prefix, analysis/undo/redo) about which the theorems are proved.

  Core Lean only.
-/
import AxVerif.Model.Bytes
namespace AxVerif.Durable
open AxVerif

/-! ### workload syntax -/

inductive Dml where
  | crt (t : String)
  | drp (t : String)
  | ins (t : String) (id v : Int)
  | upd (t : String) (id v : Int)
  | del (t : String) (id : Int)
  | alt (t : String)            -- ALTER TABLE t ADD COLUMN …: shows as the marker row (-1, 1) in the harness's reading of the table
deriving Repr, DecidableEq

inductive Op where
  | auto (d : Dml)
  | batch (ds : List Dml)
  | flush
  | vacuum
  | sBegin (s : Nat)
  | sDml (s : Nat) (d : Dml)
  | sCommit (s : Nat)
  | sRollback (s : Nat)
  | sDrop (s : Nat)
deriving Repr, DecidableEq

/-! ### logical state: tables of (id, v) rows, kept in insertion order -/

abbrev Row := Int × Int
abbrev Table := String × List Row
abbrev DbState := List Table

def hasTable (s : DbState) (t : String) : Bool := s.any (fun p => p.1 == t)

def applyDml (s : DbState) : Dml → DbState
  | .crt t => if hasTable s t then s else s ++ [(t, [])]
  | .drp t => s.filter (fun p => p.1 != t)
  | .ins t id v => s.map (fun p => if p.1 == t then (p.1, p.2 ++ [(id, v)]) else p)
  | .upd t id v => s.map (fun p => if p.1 == t then (p.1, p.2.map (fun r => if r.1 == id then (id, v) else r)) else p)
  | .del t id => s.map (fun p => if p.1 == t then (p.1, p.2.filter (fun r => r.1 != id)) else p)
  -- the added column is reported by the harness as a marker row (-1, 1) of the (otherwise empty) side table
  | .alt t => s.map (fun p => if p.1 == t then (p.1, p.2 ++ [((-1 : Int), (1 : Int))]) else p)

def applyDmls (s : DbState) (ds : List Dml) : DbState := ds.foldl applyDml s

/-! ### rendering (same canonical text as the harness) and comparison -/

def insertSorted (r : Row) : List Row → List Row
  | [] => [r]
  | x :: xs => if r.1 < x.1 ∨ (r.1 = x.1 ∧ r.2 ≤ x.2) then r :: x :: xs else x :: insertSorted r xs

def sortRows (rs : List Row) : List Row := rs.foldr insertSorted []

def showRows (rs : List Row) : String :=
  joinWith "," ((sortRows rs).map (fun r => s!"{r.1}={r.2}"))

/-- `tables`: the names the harness dumps (every table the workload ever creates, sorted by the harness). -/
def render (tables : List String) (s : DbState) : String :=
  joinWith "/" (tables.map (fun t =>
    match s.find? (fun p => p.1 == t) with
    | some p => s!"{t}:{showRows p.2}"
    | none => s!"{t}:absent"))

def createdTables (ops : List Op) : List String :=
  let names := ops.foldl (fun acc op =>
    let ds : List Dml := match op with
      | .auto d => [d] | .sDml _ d => [d] | .batch ds => ds | _ => []
    ds.foldl (fun acc d => match d with
      | .crt t => if acc.contains t then acc else acc ++ [t]
      | _ => acc) acc) []
  names

/-- Multiset difference of rows (what is in `a` but not in `b`). -/
def rowsMinus (a b : List Row) : List Row :=
  b.foldl (fun acc r => acc.erase r) a

structure Diff where
  lost : List String     -- "t:id=v" expected (acknowledged) but not recovered
  extra : List String    -- recovered but not expected
deriving Repr

/-- parse `t1:1=10,2=20/t2:absent` -/
def parseRow (s : String) : Option Row :=
  match s.splitOn "=" with
  | [a, b] => match a.toInt?, b.toInt? with
    | some x, some y => some (x, y)
    | _, _ => none
  | _ => none

def parseTableDump (s : String) : Option (String × Option (List Row)) :=
  match s.splitOn ":" with
  | [t, body] =>
    if body == "absent" then some (t, none)
    else if body == "" then some (t, some [])
    else
      let rs := (body.splitOn ",").map parseRow
      if rs.all Option.isSome then some (t, some (rs.filterMap id)) else none
  | _ => none

def parseDump (s : String) : Option (List (String × Option (List Row))) :=
  if s == "-" ∨ s == "" then some [] else
  let ps := (s.splitOn "/").map parseTableDump
  if ps.all Option.isSome then some (ps.filterMap id) else none

def diffState (tables : List String) (expected : DbState) (got : List (String × Option (List Row))) : Diff :=
  tables.foldl (fun d t =>
    let e : Option (List Row) := (expected.find? (fun p => p.1 == t)).map (·.2)
    let g : Option (List Row) := match got.find? (fun p => p.1 == t) with
      | some p => p.2
      | none => none
    match e, g with
    | none, none => d
    | some er, none => { d with lost := d.lost ++ [s!"{t}:table"] ++ er.map (fun r => s!"{t}:{r.1}={r.2}") }
    | none, some gr => { d with extra := d.extra ++ [s!"{t}:table"] ++ gr.map (fun r => s!"{t}:{r.1}={r.2}") }
    | some er, some gr =>
      { lost := d.lost ++ (rowsMinus er gr).map (fun r => s!"{t}:{r.1}={r.2}"),
        extra := d.extra ++ (rowsMinus gr er).map (fun r => s!"{t}:{r.1}={r.2}") })
    { lost := [], extra := [] }

/-! ### parsing of case lines -/

def parseDml : List String → Option Dml
  | ["crt", t] => some (.crt t)
  | ["drp", t] => some (.drp t)
  | ["ins", t, id, v] => match id.toInt?, v.toInt? with
    | some a, some b => some (.ins t a b) | _, _ => none
  | ["upd", t, id, v] => match id.toInt?, v.toInt? with
    | some a, some b => some (.upd t a b) | _, _ => none
  | ["del", t, id] => match id.toInt? with
    | some a => some (.del t a) | none => none
  | ["alt", t] => some (.alt t)
  -- a multi-row UPDATE built to fail on its last row (`UPDATE t SET v = v + 7000 / (id - last)`): whatever the engine
  -- answers, it must leave the table as it was — an UPDATE of a row that does not exist
  | ["updf", t, _] => some (.upd t (-999999) 0)
  | _ => none

def allSome {α : Type} (xs : List (Option α)) : Option (List α) :=
  if xs.all Option.isSome then some (xs.filterMap id) else none

def parseOp (s : String) : Option Op :=
  let ws := words s
  match ws with
  | ["flush"] => some .flush
  | ["vac"] => some .vacuum
  | "batch" :: _ =>
    let body := (s.trimAscii.toString.drop 5).toString
    (allSome ((body.splitOn ",").map (fun p => parseDml (words p)))).map .batch
  | w :: rest =>
    match w.splitOn ":" with
    | [sess, first] =>
      if sess.startsWith "s" then
        match (sess.drop 1).toString.toNat? with
        | some k =>
          match first, rest with
          | "begin", [] => some (.sBegin k)
          | "commit", [] => some (.sCommit k)
          | "rollback", [] => some (.sRollback k)
          | "drop", [] => some (.sDrop k)
          | _, _ => (parseDml (first :: rest)).map (.sDml k)
        | none => none
      else none
    | _ => (parseDml ws).map .auto
  | [] => none

def parseOps (body : String) : Option (List Op) :=
  allSome ((body.splitOn " ; ").map parseOp)

def parseNatList (s : String) : Option (List Nat) :=
  if s == "-" then some [] else allSome ((s.splitOn ",").map String.toNat?)

end AxVerif.Durable
