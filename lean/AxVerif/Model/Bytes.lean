/-
  Shared byte-level helpers for every model: little-endian integers over `List UInt8`,
  hex text for the line protocol, small parsing helpers.
  Core Lean only (no Std / Mathlib) so that the driver links as a native executable.
-/
namespace AxVerif

abbrev Bytes := List UInt8

/-! ### little-endian integers -/

def le16 (n : Nat) : Bytes := [UInt8.ofNat n, UInt8.ofNat (n / 256)]

def le32 (n : Nat) : Bytes :=
  [UInt8.ofNat n, UInt8.ofNat (n / 256), UInt8.ofNat (n / 65536), UInt8.ofNat (n / 16777216)]

def le64 (n : Nat) : Bytes := le32 (n % 4294967296) ++ le32 (n / 4294967296)

def rd16 (a b : UInt8) : Nat := a.toNat + 256 * b.toNat

def rd32 (a b c d : UInt8) : Nat :=
  a.toNat + 256 * b.toNat + 65536 * c.toNat + 16777216 * d.toNat

/-- Read a little-endian u32 from the front of a byte list. -/
def take32 : Bytes → Option (Nat × Bytes)
  | a :: b :: c :: d :: rest => some (rd32 a b c d, rest)
  | _ => none

def take16 : Bytes → Option (Nat × Bytes)
  | a :: b :: rest => some (rd16 a b, rest)
  | _ => none

def take64 (bs : Bytes) : Option (Nat × Bytes) :=
  match take32 bs with
  | none => none
  | some (lo, r1) =>
    match take32 r1 with
    | none => none
    | some (hi, r2) => some (lo + 4294967296 * hi, r2)

/-! ### hex text -/

def hexDigit (n : Nat) : Char :=
  if n < 10 then Char.ofNat (48 + n) else Char.ofNat (87 + n)

def hexOfBytes (bs : Bytes) : String :=
  String.ofList (bs.foldr (fun b acc => hexDigit (b.toNat / 16) :: hexDigit (b.toNat % 16) :: acc) [])

def hexVal (c : Char) : Option Nat :=
  if '0' ≤ c ∧ c ≤ '9' then some (c.toNat - 48)
  else if 'a' ≤ c ∧ c ≤ 'f' then some (c.toNat - 87)
  else if 'A' ≤ c ∧ c ≤ 'F' then some (c.toNat - 55)
  else none

def bytesOfHexChars : List Char → Option Bytes
  | [] => some []
  | [_] => none
  | a :: b :: rest =>
    match hexVal a, hexVal b, bytesOfHexChars rest with
    | some x, some y, some r => some (UInt8.ofNat (16 * x + y) :: r)
    | _, _, _ => none

/-- `-` denotes the empty byte string on the wire (so that fields never vanish when splitting on spaces). -/
def bytesOfHex (s : String) : Option Bytes :=
  if s = "-" then some [] else bytesOfHexChars s.toList

def hexOrDash (bs : Bytes) : String :=
  if bs.isEmpty then "-" else hexOfBytes bs

/-! ### tiny text helpers for the protocol -/

def words (line : String) : List String :=
  (line.trimAscii.toString.splitOn " ").filter (fun w => w ≠ "")

def joinWith (sep : String) : List String → String
  | [] => ""
  | [x] => x
  | x :: xs => x ++ sep ++ joinWith sep xs

end AxVerif
