/-
  Model of the page cache (`io/cache.rs`) and of the part of the pager (`io/pager.rs`) that moves pages
  between the cache and the database file, as the code has them.

  * `Cache`   = `PageCache`: an insertion-ordered map (IndexMap with `swap_remove`), a capacity and an eviction
                cursor.  A frame is *free* when nobody outside the cache holds a reference to it
                (`Frame::is_free` = `Arc::strong_count ≤ 1`); the references held outside are the `handles`.
  * `Mem`     = the cache plus the references held outside it (pins) and the frames that left the cache while
                still referenced (`detached`): what the facade engine `seq` drives.
  * `Pager`   = `Mem` + a flat disk (`page ↦ value`, with the file length in pages) + the page counter:
                `read_page`, `cache_frame` (write-back of an evicted dirty frame), `allocate_page`,
                `try_with_page_mut`, `flush` (the checkpoint), re-open.

  A page's content is abstracted to one number (the harness keeps an 8-byte payload in every page).
  Core Lean only.
-/
namespace AxVerif.Cache

/-- One flag per shipped defect; all off = the behaviour the theorems are about. -/
structure Defects where
  /-- `PageCache::clear` sets `capacity = 0` (io/cache.rs:183): after any checkpoint the cache holds one frame. -/
  clearZeroesCapacity : Bool := false
  /-- `PageCache::evict` never moves its cursor back (io/cache.rs:128-142): frames before the cursor are never
      reconsidered, and once the cursor has run past the end every eviction fails. -/
  cursorForwardOnly : Bool := false
  /-- `Pager::open` builds its cache with `DEFAULT_CACHE_SIZE` instead of the size stored in page zero. -/
  openIgnoresCacheSize : Bool := false
  /-- the cache size is narrowed into the header with `as u16` (io/pager.rs:132, storage/page.rs:133): 65536 is
      recorded as 0. Intended: saturate at 65535. -/
  cacheSizeWraps : Bool := false
deriving Repr, DecidableEq

def Defects.none : Defects := {}

/-- A frame of the cache. `fid` identifies the in-memory buffer (the `Arc` allocation): handles refer to it. -/
structure Frame where
  page : Nat
  fid : Nat
  val : Nat
  dirty : Bool
deriving Repr, DecidableEq

/-- a write through a latch / `try_with_page_mut`: new content, dirty bit set -/
def Frame.setVal (v : Nat) (g : Frame) : Frame := { g with val := v, dirty := true }

structure Cache where
  capacity : Nat
  frames : List Frame
  cursor : Nat
deriving Repr, DecidableEq

def Cache.empty (capacity : Nat) : Cache := { capacity, frames := [], cursor := 0 }

/-! ### IndexMap primitives -/

/-- `IndexMap::swap_remove_index`: the last entry takes the place of the removed one. -/
def swapRemoveAt (l : List Frame) (i : Nat) : List Frame :=
  match l.getLast? with
  | none => l
  | some y =>
    if i + 1 = l.length then l.dropLast
    else if i + 1 < l.length then (l.set i y).dropLast
    else l

/-- index of the first entry with the given page id -/
def indexOfPage (p : Nat) : List Frame → Nat → Option Nat
  | [], _ => none
  | f :: fs, i => if f.page = p then some i else indexOfPage p fs (i + 1)

/-- first index `≥ base` (counting the head of the list as `base`) whose frame satisfies `free` -/
def firstFree (free : Frame → Bool) : List Frame → Nat → Option Nat
  | [], _ => none
  | f :: fs, i => if free f then some i else firstFree free fs (i + 1)

/-- `frames.get(&id)` -/
def Cache.get (c : Cache) (p : Nat) : Option Frame := c.frames.find? (fun f => f.page = p)

inductive EvictResult where
  | empty                 -- `Ok(None)`: nothing in the cache
  | victim (f : Frame)    -- `Ok(Some(frame))`
  | oom                   -- `Err(OutOfMemory)`
deriving Repr, DecidableEq

/-- `PageCache::evict`. `free f` = nobody outside the cache references `f`.

    Intended behaviour (and the code after the fix): one sweep over all frames starting at the cursor and wrapping
    around; the cursor stops on the victim's slot.  As shipped (`cursorForwardOnly`): the sweep stops at the end. -/
def Cache.evict (D : Defects) (free : Frame → Bool) (c : Cache) : Cache × EvictResult :=
  let n := c.frames.length
  if n = 0 then (c, .empty)
  else if D.cursorForwardOnly then
    if c.cursor ≤ n then
      match firstFree free (c.frames.drop c.cursor) c.cursor with
      | some i =>
        match c.frames[i]? with
        | some f => ({ c with frames := swapRemoveAt c.frames i, cursor := i }, .victim f)
        | none => (c, .oom)  -- unreachable
      | none => ({ c with cursor := n + 1 }, .oom)
    else (c, .oom)
  else
    let start := if c.cursor < n then c.cursor else 0
    match firstFree free (c.frames.drop start) start with
    | some i =>
      match c.frames[i]? with
      | some f => ({ c with frames := swapRemoveAt c.frames i, cursor := i }, .victim f)
      | none => (c, .oom)  -- unreachable
    | none =>
      match firstFree free (c.frames.take start) 0 with
      | some i =>
        match c.frames[i]? with
        | some f => ({ c with frames := swapRemoveAt c.frames i, cursor := i }, .victim f)
        | none => (c, .oom)  -- unreachable
      | none => ({ c with cursor := if start = 0 then n else start }, .oom)

inductive InsertResult where
  | replaced (old : Frame)            -- the page was cached: its frame is replaced in place, `Ok(None)`
  | inserted (evicted : Option Frame) -- `Ok(evicted)`
  | oom
deriving Repr, DecidableEq

/-- `PageCache::insert` -/
def Cache.insert (D : Defects) (free : Frame → Bool) (c : Cache) (f : Frame) : Cache × InsertResult :=
  match c.get f.page with
  | some old => ({ c with frames := c.frames.map (fun g => if g.page = f.page then f else g) }, .replaced old)
  | none =>
    if c.capacity ≤ c.frames.length then
      match c.evict D free with
      | (c', .oom) => (c', .oom)
      | (c', .empty) => ({ c' with frames := c'.frames ++ [f] }, .inserted none)
      | (c', .victim v) => ({ c' with frames := c'.frames ++ [f] }, .inserted (some v))
    else ({ c with frames := c.frames ++ [f] }, .inserted none)

/-- `PageCache::remove` (`swap_remove` by key); the caller decides what happens to the removed frame. -/
def Cache.remove (c : Cache) (p : Nat) : Cache × Option Frame :=
  match indexOfPage p c.frames 0 with
  | none => (c, none)
  | some i => ({ c with frames := swapRemoveAt c.frames i }, c.frames[i]?)

/-- `PageCache::clear`: every frame leaves the cache, pinned or not. -/
def Cache.clear (D : Defects) (c : Cache) : Cache × List Frame :=
  ({ capacity := if D.clearZeroesCapacity then 0 else c.capacity, frames := [], cursor := 0 }, c.frames)

/-- `PageCache::drain` -/
def Cache.drain (c : Cache) : Cache × List Frame := ({ c with frames := [], cursor := 0 }, c.frames)

def Cache.setCapacity (c : Cache) (n : Nat) : Cache := { c with capacity := n }

/-! ### the cache together with the references held outside it -/

structure Handle where
  hid : Nat
  fid : Nat
  /-- page number of the frame (immutable; `MemFrame::page_number`) -/
  page : Nat
deriving Repr, DecidableEq

structure Mem where
  cache : Cache
  handles : List Handle := []
  /-- frames that were taken out of the cache while referenced; only reachable through their handles -/
  detached : List Frame := []
  nextFid : Nat := 0
  nextHid : Nat := 0
deriving Repr

def Mem.init (capacity : Nat) : Mem := { cache := Cache.empty capacity }

/-- `Frame::is_free` for a frame held by the cache: no handle refers to it -/
def Mem.free (m : Mem) (f : Frame) : Bool := m.handles.all (fun h => h.fid != f.fid)

def Mem.handle? (m : Mem) (k : Nat) : Option Handle := m.handles.find? (fun h => h.hid = k)

/-- a frame that left the cache is kept only while someone references it -/
def Mem.park (m : Mem) (f : Frame) : Mem :=
  if m.free f then m else { m with detached := f :: m.detached }

def Mem.parkAll (m : Mem) : List Frame → Mem
  | [] => m
  | f :: fs => (m.park f).parkAll fs

/-- the frame a handle refers to: in the cache, or detached -/
def Mem.frameOf (m : Mem) (fid : Nat) : Option Frame :=
  match m.cache.frames.find? (fun f => f.fid = fid) with
  | some f => some f
  | none => m.detached.find? (fun f => f.fid = fid)

def updFid (fid : Nat) (g : Frame → Frame) (l : List Frame) : List Frame :=
  l.map (fun f => if f.fid = fid then g f else f)

/-- apply `g` to the frame with the given identity, wherever it lives -/
def Mem.updateFrame (m : Mem) (fid : Nat) (g : Frame → Frame) : Mem :=
  { m with cache := { m.cache with frames := updFid fid g m.cache.frames }, detached := updFid fid g m.detached }

def Mem.addHandle (m : Mem) (f : Frame) : Mem × Nat :=
  ({ m with handles := m.handles ++ [{ hid := m.nextHid, fid := f.fid, page := f.page }], nextHid := m.nextHid + 1 },
   m.nextHid)

def Mem.dropHandle (m : Mem) (k : Nat) : Mem :=
  let m' := { m with handles := m.handles.filter (fun h => h.hid != k) }
  -- a detached frame whose last reference goes away is freed
  { m' with detached := m'.detached.filter (fun f => !(m'.free f)) }

/-! ### engine `seq`: operations on the bare cache -/

inductive COp where
  | ins (p v : Nat) (dirty : Bool)
  | get (p : Nat)
  | pin (p : Nat)
  | unpin (k : Nat)
  | hread (k : Nat)
  | hwrite (k v : Nat)
  | hdirty (k : Nat)
  | evict
  | rm (p : Nat)
  | clear
  | drain
  | setcap (n : Nat)
  | stat
  /-- `n` inserts of fresh clean frames for two reserved page ids in turn: a compact way to ask for tens of thousands
      of evictions; answered with the number of evictions -/
  | churn (n : Nat)
deriving Repr, DecidableEq

def showBool (b : Bool) : String := if b then "1" else "0"
def showFrame (f : Frame) : String := s!"{f.page}:{f.val}:{showBool f.dirty}"
def showFrames (fs : List Frame) : String := "[" ++ ",".intercalate (fs.map showFrame) ++ "]"

def churnBase : Nat := 1099511627776

def Mem.churnLoop (D : Defects) : Nat → Mem → Nat → Nat → Mem × String
  | 0, m, _, ev => (m, s!"churn {ev}")
  | k + 1, m, i, ev =>
    let f : Frame := { page := churnBase + i % 2, fid := m.nextFid, val := 0, dirty := false }
    let m := { m with nextFid := m.nextFid + 1 }
    match m.cache.insert D m.free f with
    | (c, .oom) => ({ m with cache := c }, "oom")
    | (c, .replaced old) => Mem.churnLoop D k (({ m with cache := c }).park old) (i + 1) ev
    | (c, .inserted none) => Mem.churnLoop D k { m with cache := c } (i + 1) ev
    | (c, .inserted (some _)) => Mem.churnLoop D k { m with cache := c } (i + 1) (ev + 1)

def Mem.cstep (D : Defects) (m : Mem) : COp → Mem × String
  | .ins p v d =>
    let f : Frame := { page := p, fid := m.nextFid, val := v, dirty := d }
    let m := { m with nextFid := m.nextFid + 1 }
    match m.cache.insert D m.free f with
    | (c, .oom) => ({ m with cache := c }, "oom")
    | (c, .replaced old) => (({ m with cache := c }).park old, "rep")
    | (c, .inserted none) => ({ m with cache := c }, "ins -")
    | (c, .inserted (some v)) => ({ m with cache := c }, s!"ins ev={showFrame v}")
  | .get p =>
    match m.cache.get p with
    | some f => (m, s!"hit {f.val} {showBool f.dirty}")
    | none => (m, "miss")
  | .pin p =>
    match m.cache.get p with
    | some f => let (m', k) := m.addHandle f; (m', s!"h{k}")
    | none => (m, "miss")
  | .unpin k =>
    match m.handle? k with
    | some _ => (m.dropHandle k, "ok")
    | none => (m, "nohandle")
  | .hread k =>
    match m.handle? k with
    | some h => match m.frameOf h.fid with
      | some f => (m, s!"val {f.val} {showBool f.dirty}")
      | none => (m, "lost")  -- unreachable
    | none => (m, "nohandle")
  | .hwrite k v =>
    match m.handle? k with
    | some h => (m.updateFrame h.fid (Frame.setVal v), "ok")
    | none => (m, "nohandle")
  | .hdirty k =>
    match m.handle? k with
    | some h => (m.updateFrame h.fid (fun f => { f with dirty := true }), "ok")
    | none => (m, "nohandle")
  | .evict =>
    match m.cache.evict D m.free with
    | (c, .oom) => ({ m with cache := c }, "oom")
    | (c, .empty) => ({ m with cache := c }, "none")
    | (c, .victim v) => ({ m with cache := c }, s!"ev={showFrame v}")
  | .rm p =>
    match m.cache.remove p with
    | (c, some f) =>
      let m' := { m with cache := c }
      if m.free f then (m', s!"rm {showFrame f} n={c.frames.length}")
      else (m'.park f, s!"rm - n={c.frames.length}")
    | (c, none) => ({ m with cache := c }, s!"rm - n={c.frames.length}")
  | .clear =>
    let (c, fs) := m.cache.clear D
    (({ m with cache := c }).parkAll fs, s!"clear {showFrames fs}")
  | .drain =>
    let (c, fs) := m.cache.drain
    (({ m with cache := c }).parkAll fs, s!"drain {showFrames fs}")
  | .setcap n => ({ m with cache := m.cache.setCapacity n }, "ok")
  | .stat => (m, s!"cap={m.cache.capacity} n={m.cache.frames.length}")
  | .churn n => m.churnLoop D n 0 0

def Mem.crun (D : Defects) : Mem → List COp → Mem × List String
  | m, [] => (m, [])
  | m, op :: ops =>
    let (m', o) := m.cstep D op
    let (m'', os) := Mem.crun D m' ops
    (m'', o :: os)

/-! ### the pager: cache + disk -/

/-- The database file: the value of every page ever written (latest first) and the file length in pages. -/
structure Disk where
  writes : List (Nat × Nat) := []
  len : Nat := 1   -- page zero is written when the file is created
deriving Repr

def Disk.read (d : Disk) (p : Nat) : Nat := (d.writes.lookup p).getD 0
def Disk.write (d : Disk) (p v : Nat) : Disk := { writes := (p, v) :: d.writes, len := max d.len (p + 1) }

structure Pager where
  mem : Mem
  disk : Disk := {}
  /-- `total_pages` of the header: the next page id to hand out -/
  total : Nat := 1
  /-- cache size the database was created with (persisted in page zero) -/
  cfgCache : Nat
  /-- page ids consumed by an `allocate_page` that failed with out-of-memory: the caller never learnt them, the page
      never reached the cache or the file, nobody may refer to it (the harness does not) -/
  lost : List Nat := []
deriving Repr

def Pager.init (capacity : Nat) : Pager := { mem := Mem.init capacity, cfgCache := capacity }

/-- the cache size as recorded in the u16 field of page zero -/
def headerCacheSize (D : Defects) (n : Nat) : Nat := if D.cacheSizeWraps then n % 65536 else min n 65535

def defaultCacheSize : Nat := 10000

inductive POp where
  | alloc
  | read (p : Nat)
  | write (p v : Nat)
  | pin (p : Nat)
  | unpin (k : Nat)
  | hread (k : Nat)
  | hwrite (k v : Nat)
  | flush
  | reopen
  | disk (p : Nat)
deriving Repr, DecidableEq

inductive Out where
  | ok
  | page (p : Nat)     -- allocated page id
  | val (v : Nat)      -- bytes read
  | handle (k : Nat)
  | diskVal (v : Nat)
  | eof
  | oom                -- "Buffer pool got out of memory"
  | io                 -- any other I/O error (page zero requested, read past the end of the file)
  | nohandle
  | lost               -- the operation names a page whose allocation failed; not executed
deriving Repr, DecidableEq

def Out.show : Out → String
  | .ok => "ok" | .page p => s!"a{p}" | .val v => s!"r{v}" | .handle k => s!"h{k}" | .diskVal v => s!"d{v}"
  | .eof => "eof" | .oom => "oom" | .io => "io" | .nohandle => "nohandle" | .lost => "lost"

/-- `Pager::cache_frame`: insert; an evicted dirty frame is written back. `none` = out of memory. -/
def Pager.cacheFrame (D : Defects) (s : Pager) (f : Frame) : Pager × Bool :=
  match s.mem.cache.insert D s.mem.free f with
  | (c, .oom) => ({ s with mem := { s.mem with cache := c } }, false)
  | (c, .replaced old) => ({ s with mem := ({ s.mem with cache := c }).park old }, true)
  | (c, .inserted none) => ({ s with mem := { s.mem with cache := c } }, true)
  | (c, .inserted (some v)) =>
    let s' := { s with mem := { s.mem with cache := c } }
    (if v.dirty then { s' with disk := s'.disk.write v.page v.val } else s', true)

inductive ReadResult where
  | frame (f : Frame)
  | oom
  | io
deriving Repr, DecidableEq

/-- `Pager::read_page`: cache, else disk + `cache_frame`. -/
def Pager.readPage (D : Defects) (s : Pager) (p : Nat) : Pager × ReadResult :=
  if p = 0 then (s, .io)
  else match s.mem.cache.get p with
  | some f => (s, .frame f)
  | none =>
    if s.disk.len ≤ p then (s, .io)
    else
      let f : Frame := { page := p, fid := s.mem.nextFid, val := s.disk.read p, dirty := false }
      let s := { s with mem := { s.mem with nextFid := s.mem.nextFid + 1 } }
      match s.cacheFrame D f with
      | (s', true) => (s', .frame f)
      | (s', false) => (s', .oom)

/-- write back every dirty frame of the list (`Pager::flush` after `cache.clear()`) -/
def writeBack (d : Disk) : List Frame → Disk
  | [] => d
  | f :: fs => writeBack (if f.dirty then d.write f.page f.val else d) fs

def Pager.flush (D : Defects) (s : Pager) : Pager :=
  let (c, fs) := s.mem.cache.clear D
  { s with mem := ({ s.mem with cache := c }).parkAll fs, disk := writeBack s.disk fs }

def Pager.step (D : Defects) (s : Pager) : POp → Pager × Out
  | .alloc =>
    -- `allocate_page` with an empty free list: new id, fresh dirty frame, `cache_frame`
    let id := s.total
    let f : Frame := { page := id, fid := s.mem.nextFid, val := 0, dirty := true }
    let s := { s with total := s.total + 1, mem := { s.mem with nextFid := s.mem.nextFid + 1 } }
    match s.cacheFrame D f with
    | (s', true) => (s', .page id)
    | (s', false) => ({ s' with lost := id :: s'.lost }, .oom)
  | .read p =>
    if s.lost.contains p then (s, .lost) else
    match s.readPage D p with
    | (s', .frame f) => (s', .val f.val)
    | (s', .oom) => (s', .oom)
    | (s', .io) => (s', .io)
  | .write p v =>
    -- `try_with_page_mut`: read_page, mark dirty, mutate
    if s.lost.contains p then (s, .lost) else
    match s.readPage D p with
    | (s', .frame f) =>
      ({ s' with mem := s'.mem.updateFrame f.fid (Frame.setVal v) }, .ok)
    | (s', .oom) => (s', .oom)
    | (s', .io) => (s', .io)
  | .pin p =>
    if s.lost.contains p then (s, .lost) else
    match s.readPage D p with
    | (s', .frame f) => let (m, k) := s'.mem.addHandle f; ({ s' with mem := m }, .handle k)
    | (s', .oom) => (s', .oom)
    | (s', .io) => (s', .io)
  | .unpin k =>
    match s.mem.handle? k with
    | some _ => ({ s with mem := s.mem.dropHandle k }, .ok)
    | none => (s, .nohandle)
  | .hread k =>
    match s.mem.handle? k with
    | some h => match s.mem.frameOf h.fid with
      | some f => (s, .val f.val)
      | none => (s, .nohandle)  -- unreachable
    | none => (s, .nohandle)
  | .hwrite k v =>
    match s.mem.handle? k with
    | some h => ({ s with mem := s.mem.updateFrame h.fid (Frame.setVal v) }, .ok)
    | none => (s, .nohandle)
  | .flush => (s.flush D, .ok)
  | .reopen =>
    -- checkpoint, drop the pager, `Pager::open`
    let s := s.flush D
    let cap := if D.openIgnoresCacheSize then defaultCacheSize else headerCacheSize D s.cfgCache
    ({ s with mem := { s.mem with cache := Cache.empty cap } }, .ok)
  | .disk p =>
    if s.lost.contains p then (s, .lost) else
    if p < s.disk.len then (s, .diskVal (s.disk.read p)) else (s, .eof)

def Pager.run (D : Defects) : Pager → List POp → Pager × List Out
  | s, [] => (s, [])
  | s, op :: ops =>
    let (s', o) := s.step D op
    let (s'', os) := Pager.run D s' ops
    (s'', o :: os)

end AxVerif.Cache
