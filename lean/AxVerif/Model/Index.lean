/-
  C06 — model of a unique secondary index and of its maintenance (runtime/dml.rs `maintain_secondary_indexes`,
  runtime/ddl.rs `populate_index`, runtime/ops/index_scan.rs).

  An index of the engine is a B+tree keyed by the indexed columns; the value of an entry is the row id of the row it
  stands for, and every entry carries a delete mark (the MVCC stamp, reduced to the committed state: the models of
  C03/C04 are about what other snapshots see).  A tree keyed by the key is a finite map: the model keeps the entries as
  an association list with pairwise different keys and enumerates them in key order (`Index.ordered`).

  Core Lean only.
-/
import AxVerif.Model.Sql
namespace AxVerif.Index
open AxVerif.Sql

/-- One flag per defect of the shipped index code. All off = the specification. -/
structure Defects where
  /-- UPDATE of an indexed column leaves the index entry under the old key.  Shipped behaviour, asserted by the pinned test
      `runtime::tests::test_index_maintained_on_update`: a listed finding. -/
  indexUpdateKeepsOldKey : Bool := false
  deriving Repr, Inhabited

/-- a table as the storage layer sees it: rows with their row ids -/
abbrev Rows := List (Nat × Row)

structure Entry where
  key : List Value
  rid : Nat
  /-- delete mark: the entry stays in the tree, scans skip it -/
  dead : Bool := false
  deriving DecidableEq, Repr, Inhabited

structure Index where
  /-- indexed columns of the table, in key order -/
  cols : List Nat
  entries : List Entry
  deriving Repr, Inhabited

/-- the key of a row: its values in the indexed columns -/
def keyOf (cols : List Nat) (row : Row) : List Value := cols.map (fun c => row.getD c .null)

def hasNull (k : List Value) : Bool := k.any (· == .null)

/-- entries scans can see -/
def Index.live (ix : Index) : List Entry := ix.entries.filter (fun e => !e.dead)

/-! ### maintenance, entry level (what `Btree::insert / update` do to the tree) -/

/-- `maintain_secondary_indexes`, INSERT arm: search the key; found and carrying a delete mark: the entry is *replaced* by
    the new one; found and live: nothing is done; not found: inserted. -/
def insertEntry (e : Entry) : List Entry → List Entry
  | [] => [e]
  | x :: xs =>
    if x.key = e.key then (if x.dead then e :: xs else x :: xs)
    else x :: insertEntry e xs

/-- `maintain_secondary_indexes`, DELETE arm: the entry found under the key, if visible, gets a delete mark. -/
def markDead (key : List Value) : List Entry → List Entry
  | [] => []
  | x :: xs =>
    if x.key = key then (if x.dead then x :: xs else { x with dead := true } :: xs)
    else x :: markDead key xs

/-- a row with NULL in an indexed column has no entry (NULLs never collide) -/
def Index.insert (ix : Index) (rid : Nat) (row : Row) : Index :=
  let k := keyOf ix.cols row
  if hasNull k then ix else { ix with entries := insertEntry { key := k, rid := rid } ix.entries }

def Index.delete (ix : Index) (row : Row) : Index :=
  let k := keyOf ix.cols row
  if hasNull k then ix else { ix with entries := markDead k ix.entries }

/-- UPDATE: an index none of whose columns is assigned is skipped; otherwise the entry moves from the old key to the
    new one (the key of a tree entry cannot change in place).  Shipped: the entry stays where it is. -/
def Index.update (D : Defects) (ix : Index) (rid : Nat) (old new : Row) (assigned : List Nat) : Index :=
  if ix.cols.any (fun c => assigned.contains c) then
    if D.indexUpdateKeepsOldKey then ix else (ix.delete old).insert rid new
  else ix

/-- `populate_index`: every visible row of the table gets its entry -/
def populate (cols : List Nat) (rows : Rows) : Index :=
  rows.foldl (fun ix r => ix.insert r.1 r.2) { cols := cols, entries := [] }

/-! ### row-level operations on a table and the matching index maintenance -/

inductive Op where
  | insert (rid : Nat) (row : Row)
  | delete (rid : Nat)
  /-- the row `rid` becomes `new`; `assigned` = the columns named in SET -/
  | update (rid : Nat) (new : Row) (assigned : List Nat)
  deriving Repr, Inhabited

def fetch (rows : Rows) (rid : Nat) : Option Row := (rows.find? (fun r => r.1 == rid)).map (·.2)

def apply (rows : Rows) : Op → Rows
  | .insert rid row => rows ++ [(rid, row)]
  | .delete rid => rows.filter (fun r => r.1 != rid)
  | .update rid new _ => rows.map (fun r => if r.1 == rid then (rid, new) else r)

def maintain (D : Defects) (ix : Index) (rows : Rows) : Op → Index
  | .insert rid row => ix.insert rid row
  | .delete rid => match fetch rows rid with
    | some old => ix.delete old
    | none => ix
  | .update rid new assigned => match fetch rows rid with
    | some old => ix.update D rid old new assigned
    | none => ix

/-! ### scanning -/

/-- a bound of an index range: position in the key, value, inclusive? -/
structure Bound where
  pos : Nat
  value : Value
  inclusive : Bool
  deriving Repr, Inhabited

/-- `IndexScan::evaluate_bounds`: a start bound holds when `value < key[pos]` (or `=` when inclusive), an end bound when
    `value > key[pos]`; a comparison with NULL never holds -/
def boundOk (start : Bool) (key : List Value) (b : Bound) : Bool :=
  match key[b.pos]? with
  | none => false
  | some kv =>
    let strict := if start then cmp3 .lt b.value kv else cmp3 .gt b.value kv
    strict == some true || (b.inclusive && cmp3 .eq b.value kv == some true)

def boundsOk (lo hi : List Bound) (key : List Value) : Bool :=
  lo.all (boundOk true key) && hi.all (boundOk false key)

/-- key order of the tree: lexicographic, column by column -/
def leEntry (a b : Entry) : Bool :=
  cmpKeys false (a.key.map (fun _ => true)) a.key b.key != .gt

/-- the live entries in key order, as the forward iterator of the tree delivers them -/
def Index.ordered (ix : Index) : List Entry := sortBy leEntry ix.live

/-- `IndexScan::next`: entries inside the bounds, each followed to its row by row id -/
def scan (ix : Index) (rows : Rows) (lo hi : List Bound) : List Row :=
  (ix.ordered.filter (fun e => boundsOk lo hi e.key)).filterMap (fun e => fetch rows e.rid)

/-! ### consistency -/

/-- keys of the entries are pairwise different (it is a tree keyed by the key) -/
def KeysDistinct (ix : Index) : Prop := (ix.entries.map (·.key)).Nodup

/-- the (key, row id) pairs of the rows that have an entry: those without NULL in an indexed column -/
def rowPairs (cols : List Nat) (rows : Rows) : List (List Value × Nat) :=
  (rows.filter (fun r => !hasNull (keyOf cols r.2))).map (fun r => (keyOf cols r.2, r.1))

def livePairs (ix : Index) : List (List Value × Nat) := ix.live.map (fun e => (e.key, e.rid))

/-- The index agrees with its table: the live entries are exactly the (key, row id) pairs of the rows. -/
def IndexConsistent (ix : Index) (rows : Rows) : Prop :=
  KeysDistinct ix ∧ (livePairs ix).Perm (rowPairs ix.cols rows)

/-- row ids identify rows -/
def RidsDistinct (rows : Rows) : Prop := (rows.map (·.1)).Nodup

/-- decidable versions, for examples and for the driver -/
def keysDistinctB (ix : Index) : Bool :=
  let ks := ix.entries.map (·.key)
  ks.length == ks.eraseDups.length

def permB {α} [BEq α] : List α → List α → Bool
  | [], ys => ys.isEmpty
  | x :: xs, ys => ys.contains x && permB xs (ys.erase x)

def consistentB (ix : Index) (rows : Rows) : Bool :=
  keysDistinctB ix && permB (livePairs ix) (rowPairs ix.cols rows)

/-! ### entries with transaction stamps: what INSERT and DELETE of one transaction do to the index

`maintain_secondary_indexes` stamps a new entry with the inserting transaction (`xmin`) and marks a deleted one with the
deleting transaction (`xmax`); scans see an entry whose creator they see and whose deleter they do not see. -/

structure TEntry where
  key : List Value
  rid : Nat
  xmin : Nat
  xmax : Option Nat := none
  deriving DecidableEq, Repr, Inhabited

structure TxDefects where
  /-- a delete mark frees the entry for re-use only if the deleter committed before the inserter's snapshot: the
      transaction's OWN delete does not count (the seeded change of wave 2; never shipped) -/
  reuseNeedsCommittedDelete : Bool := false
  /-- an entry without delete mark is kept even if the transaction that created it was rolled back
      (shipped; repaired by 5b107bb) -/
  keepsAbortedInsert : Bool := false
  deriving Repr, Inhabited

/-- the transactions whose effects `self` sees: itself and those committed before its snapshot -/
def seen (committed : List Nat) (self t : Nat) : Bool := t == self || committed.contains t

def TEntry.visible (committed : List Nat) (self : Nat) (e : TEntry) : Bool :=
  seen committed self e.xmin && !(match e.xmax with
    | some x => seen committed self x
    | none => false)

/-- INSERT arm: the entry found under the key is taken over if it is free — it carries a delete mark, or the
    transaction that created it was rolled back; otherwise it is kept; no entry under the key: a new one -/
def tInsert (D : TxDefects) (committed aborted : List Nat) (tid : Nat) (key : List Value) (rid : Nat) :
    List TEntry → List TEntry
  | [] => [{ key := key, rid := rid, xmin := tid }]
  | x :: xs =>
    if x.key = key then
      let free := (!D.keepsAbortedInsert && aborted.contains x.xmin) ||
        (match x.xmax with
          | none => false
          | some d => if D.reuseNeedsCommittedDelete then committed.contains d else true)
      if free then { key := key, rid := rid, xmin := tid } :: xs else x :: xs
    else x :: tInsert D committed aborted tid key rid xs

/-- DELETE arm: the entry under the key, if the deleting transaction sees it, gets its delete mark -/
def tDelete (committed : List Nat) (tid : Nat) (key : List Value) : List TEntry → List TEntry
  | [] => []
  | x :: xs =>
    if x.key = key then (if x.visible committed tid then { x with xmax := some tid } :: xs else x :: xs)
    else x :: tDelete committed tid key xs

/-- the (key, row id) pairs a reader sees -/
def tPairs (committed : List Nat) (self : Nat) (es : List TEntry) : List (List Value × Nat) :=
  (es.filter (TEntry.visible committed self)).map (fun e => (e.key, e.rid))

end AxVerif.Index
