/-
  Logical database model shared by the history properties (C03, C04; to be extended for C07, C09, C13, C15).
  Core Lean only.  Three layers, each usable on its own:

  1. **Logical SQL layer** (`Val`, `TableSchema`, `Stmt`, `View`, `Effect`, `planStmt`): a statement is *planned*
     against a `View` (the rows the executing transaction can see, in row-id order) and yields row-level
     `Effect`s (`ins` / `upd` / `del`) plus an output.  Predicates, casts, NOT NULL / UNIQUE checks and error
     classes live only here; neither store below knows about them.

  2. **MVCC machine** (`Row` = version chain + delete marks, `Snapshot`, `Txn`, `State`, `step`): what the code
     does.  `view D s rows` is `TupleReader::parse_for_snapshot` applied to every row, `applyEffect` is
     `Tuple::add_version_with` / `Tuple::delete` / insert, `beginTxn/commitTxn/abortTxn` are the
     `TransactionCoordinator`.  A `Defects` record switches the shipped deviations on; `{}` (all false) is the
     specification the theorems of `Thm/C04.lean`, `Thm/C03.lean` are about.

  3. **Abstract snapshot-isolation machine** (`Spec.State`, `Spec.step`): no versions, no snapshots, no
     transaction ids.  `begin` copies the committed database, statements are planned against
     `base ⊕ own effects`, `commit` is first-committer-wins on row ids against the write sets committed since
     `begin`, rollback forgets.  `Thm/C04.read_is_snapshot` proves that machine 2 with `Defects.none` produces
     exactly the outputs of machine 3 on every history.

  Row ids are `(clock, j)`: `clock` ticks once per operation of the history (also for `nop`), `j` numbers the rows
  inserted by that operation.  They are not observable (SELECT * hides the row id) and make "the history with a
  transaction erased" (`nop` in place of its operations) allocate the same ids as the full history.
-/
namespace AxVerif.Db

/-! ## 1. Logical SQL layer -/

inductive Val where
  | int (n : Int)
  | null
  | text (s : String)
  deriving DecidableEq, Repr, Inhabited

inductive ColType where
  | big | int | text
  deriving DecidableEq, Repr

structure Col where
  name : String
  ty : ColType
  notNull : Bool := false
  unique : Bool := false
  deriving Repr

structure TableSchema where
  name : String
  cols : List Col
  /-- multi-column UNIQUE / PRIMARY KEY constraints, as lists of column indices
      (a single-column one may also be given by the column's `unique` flag) -/
  uniques : List (List Nat) := []
  deriving Repr

abbrev Catalog := List TableSchema

inductive CmpOp where
  | eq | ne | lt | le | gt | ge
  deriving DecidableEq, Repr

structure Pred where
  col : String
  op : CmpOp
  val : Val
  deriving Repr

inductive Stmt where
  | sel (table : String) (pred : Option Pred)
  | ins (table : String) (rows : List (List Val))
  | upd (table : String) (col : String) (add : Bool) (val : Val) (pred : Option Pred)
  | del (table : String) (pred : Option Pred)
  deriving Repr

/-- error classes of the line protocol -/
inductive Err where
  | conflict | constraint | notfound | type | other
  deriving DecidableEq, Repr

abbrev Rid := Nat × Nat

/-- a row as a transaction sees it -/
structure ARow where
  rid : Rid
  table : String
  vals : List Val
  deriving Repr, DecidableEq

/-- what a transaction can see, all tables, in row-id (= insertion) order -/
abbrev View := List ARow

/-- row-level effect of a statement -/
inductive Effect where
  | ins (rid : Rid) (table : String) (vals : List Val)
  | upd (rid : Rid) (col : Nat) (v : Val)
  | del (rid : Rid)
  deriving Repr, DecidableEq

def Effect.rid : Effect → Rid
  | .ins r _ _ => r
  | .upd r _ _ => r
  | .del r => r

def ARow.apply (r : ARow) : Effect → Option ARow
  | .ins _ _ _ => some r
  | .upd rid c x => if r.rid = rid then some { r with vals := r.vals.set c x } else some r
  | .del rid => if r.rid = rid then none else some r

def View.apply (v : View) (e : Effect) : View :=
  match e with
  | .ins rid t vals => v ++ [⟨rid, t, vals⟩]
  | e => v.filterMap (fun r => r.apply e)

def View.applyAll (v : View) (es : List Effect) : View := es.foldl View.apply v

/-- row ids are ordered lexicographically (operation index, row index) = insertion order -/
def ridLt (a b : Rid) : Prop := a.1 < b.1 ∨ (a.1 = b.1 ∧ a.2 < b.2)

instance (a b : Rid) : Decidable (ridLt a b) := inferInstanceAs (Decidable (_ ∨ _))

/-- insertion into a view kept in row-id order -/
def insertRid (x : ARow) : View → View
  | [] => [x]
  | y :: ys => if ridLt x.rid y.rid then x :: y :: ys else y :: insertRid x ys

/-- `base` with the rows whose id is in `ws` replaced by what `mine` has for them (nothing = deleted) -/
def takeOver (base mine : View) (ws : List Rid) : View :=
  (mine.filter (fun r => ws.contains r.rid)).foldr insertRid (base.filter (fun r => !ws.contains r.rid))

/-- output of one statement -/
inductive SOut where
  | okN (n : Nat)
  | rows (rs : List (List Val))
  | err (e : Err)
  deriving Repr, DecidableEq

def SOut.isErr : SOut → Bool
  | .err _ => true
  | _ => false

/-- output of one operation of a history -/
inductive Out where
  | ok
  | stmt (o : SOut)
  /-- commit refused: write-write `conflict`, or `constraint` (the committed database would violate one) -/
  | refused (e : Err)
  | noSession
  | batch (outs : List SOut)
  | batchErr (e : Err)
  | none
  deriving Repr, DecidableEq

def findTable (cat : Catalog) (t : String) : Option TableSchema := cat.find? (fun ts => ts.name == t)

def colIndexAux (c : String) : List Col → Nat → Option (Nat × Col)
  | [], _ => none
  | x :: xs, i => if x.name == c then some (i, x) else colIndexAux c xs (i + 1)

def colIndex (ts : TableSchema) (c : String) : Option (Nat × Col) := colIndexAux c ts.cols 0

def cmpVal (op : CmpOp) : Val → Val → Bool
  | .int a, .int b =>
    match op with
    | .eq => a == b | .ne => a != b | .lt => a < b | .le => a ≤ b | .gt => a > b | .ge => a ≥ b
  | .text a, .text b =>
    match op with
    | .eq => a == b | .ne => a != b | .lt => a < b | .le => a ≤ b | .gt => a > b | .ge => a ≥ b
  | _, _ => false

/-- `none` = no WHERE clause; the column index is resolved at bind time -/
def rowMatches (p : Option (Nat × CmpOp × Val)) (vals : List Val) : Bool :=
  match p with
  | none => true
  | some (i, op, c) => cmpVal op (vals.getD i .null) c

def bindPred (ts : TableSchema) : Option Pred → Except Err (Option (Nat × CmpOp × Val))
  | none => .ok none
  | some p =>
    match colIndex ts p.col with
    | none => .error .notfound
    | some (i, _) => .ok (some (i, p.op, p.val))

/-- cast of a literal to a column type (`try_cast`) -/
def castVal (ty : ColType) : Val → Except Err Val
  | .null => .ok .null
  | .int n => match ty with
    | .text => .error .type
    | _ => .ok (.int n)
  | .text s => match ty with
    | .text => .ok (.text s)
    | _ => .error .type

def castRow : List Col → List Val → Except Err (List Val)
  | [], _ => .ok []
  | _ :: _, [] => .ok []
  | c :: cs, v :: vs =>
    match castVal c.ty v with
    | .error e => .error e
    | .ok v' => match castRow cs vs with
      | .error e => .error e
      | .ok r => .ok (v' :: r)

def notNullOk : List Col → List Val → Bool
  | c :: cs, v :: vs => (!(c.notNull && v == .null)) && notNullOk cs vs
  | _, _ => true

def singleKeys : List Col → Nat → List (List Nat)
  | [], _ => []
  | c :: cs, i => if c.unique then [i] :: singleKeys cs (i + 1) else singleKeys cs (i + 1)

/-- the UNIQUE / PRIMARY KEY constraints of a table, each a list of column indices -/
def TableSchema.keySets (ts : TableSchema) : List (List Nat) := singleKeys ts.cols 0 ++ ts.uniques

def keyOf (cols : List Nat) (vals : List Val) : List Val := cols.map (fun i => vals.getD i .null)

/-- is there a visible row of `table`, other than `self`, with the same key on `cols`?  (a key containing NULL never collides) -/
def dupKey (v : View) (table : String) (self : Option Rid) (cols : List Nat) (vals : List Val) : Bool :=
  !(keyOf cols vals).contains .null &&
    v.any (fun r => r.table == table && some r.rid != self && keyOf cols r.vals == keyOf cols vals)

structure Defects where
  /-- `Tuple::add_version_with` writes the header `(original xmin, xmax = None)`: every version carries the inserter's
      id, is built on the latest physical values and clears the delete mark (pinned by `test_session_rollback_updates`) -/
  updateKeepsInserterXmin : Bool := false
  /-- `record_write` is never called: write sets are empty, commit validation cannot fail -/
  writeSetNeverRecorded : Bool := false
  /-- `Snapshot.xmax = None` while `last_committed = 0` (fixed) -/
  xmaxNoneSeesAll : Bool := false
  /-- `parse_for_snapshot` walks the deltas of a row the reader itself deleted (fixed) -/
  ownDeleteWalksDeltas : Bool := false
  /-- `Tuple::delete` returns early when a delete mark exists, even a rolled-back one (fixed) -/
  deleteKeepsStaleXmax : Bool := false
  /-- the header has one `xmax` slot: a second deleter overwrites the first one's mark -/
  deleteMarkSingleSlot : Bool := false
  /-- a statement failing inside a session keeps the effects of the rows processed before the failure -/
  stmtNotAtomicInSession : Bool := false
  /-- the unique index is not touched when an UPDATE changes an indexed column: the old key stays blocked, the new
      key is not registered (pinned by `test_index_maintained_on_update`) -/
  indexNotMaintainedOnKeyUpdate : Bool := false
  /-- the unique index holds one entry per key: an INSERT that finds a live entry (of a transaction it does not see)
      adds nothing, one that finds a delete-marked entry or the entry of a transaction in its snapshot's aborted set
      replaces it, a DELETE marks whatever entry carries the key -/
  indexOneEntryPerKey : Bool := false
  /-- uniqueness is only probed when a statement runs, against the statement's snapshot; nothing is re-checked at
      commit, so two open transactions inserting the same key both commit -/
  uniqueNotRecheckedAtCommit : Bool := false
  /-- the check at commit is not a re-check of the constraints on what the committed database would become: the keys a
      transaction INSERTed travel in its write set (`record_key_write`), and its commit is refused exactly when a
      transaction that committed since its begin inserted one of them.  Keys that came into being another way (UPDATE
      of a key column) are not covered, a key whose row was deleted again still counts -/
  commitChecksInsertedKeysOnly : Bool := false
  /-- (catalog, `Model/Ddl.lean`) the name index holds one entry per name: CREATE TABLE is refused with a conflict while
      the entry of that name was written by another transaction the creator does not see and that has not rolled back
      (still open, or committed after the creator's snapshot) — first creator wins where the specification lets both
      create and refuses the second committer -/
  createRefusedWhileNameHeld : Bool := false
  deriving Repr

def Defects.none : Defects := {}

/-- with one of the index defects on, uniqueness is decided by probing the (deviating) physical index -/
def Defects.usesIndex (D : Defects) : Bool := D.indexNotMaintainedOnKeyUpdate || D.indexOneEntryPerKey

structure Snapshot where
  xid : Nat
  xmax : Option Nat
  active : List Nat
  aborted : List Nat
  deriving Repr

/-- `Snapshot::is_committed_before_snapshot` -/
def Snapshot.cb (s : Snapshot) (t : Nat) : Bool :=
  (match s.xmax with
   | some m => !(decide (m < t))
   | none => true) && !s.active.contains t && !s.aborted.contains t

/-- `t`'s work is visible to `s`: own or committed before -/
def Snapshot.sees (s : Snapshot) (t : Nat) : Bool := t == s.xid || s.cb t

/-! ### the physical unique index (only consulted when an index defect is switched on) -/

structure IxEntry where
  table : String
  cols : List Nat
  key : List Val
  rid : Rid
  xmin : Nat
  xmax : Option Nat
  deriving Repr

abbrev Index := List IxEntry

def IxEntry.is (e : IxEntry) (table : String) (cols : List Nat) (key : List Val) : Bool :=
  e.table == table && e.cols == cols && e.key == key

/-- `parse_for_snapshot` on an index entry (a tuple without history) -/
def IxEntry.visible (s : Snapshot) (e : IxEntry) : Bool :=
  (match e.xmax with
   | some x => !(s.sees x)
   | none => true) && s.sees e.xmin

/-- `ConstraintValidator::search_index` -/
def ixProbe (D : Defects) (s : Snapshot) (ix : Index) (table : String) (cols : List Nat) (vals : List Val)
    (self : Option Rid) : Bool :=
  let k := keyOf cols vals
  !k.contains .null &&
    (if D.indexOneEntryPerKey then
      match ix.find? (fun e => e.is table cols k) with
      | some e => e.visible s && some e.rid != self
      | none => false
    else ix.any (fun e => e.is table cols k && e.visible s && some e.rid != self))

def replaceFirst (p : IxEntry → Bool) (new : IxEntry) : Index → Index
  | [] => []
  | e :: es => if p e then new :: es else e :: replaceFirst p new es

/-- index maintenance of an INSERT (`maintain_secondary_indexes`, insert arm); `aborted` = the inserter's snapshot's
    aborted set: an entry written by one of those transactions (left by a rolled-back INSERT) is taken over -/
def ixInsert (D : Defects) (me : Nat) (ix : Index) (table : String) (cols : List Nat) (vals : List Val) (rid : Rid)
    (aborted : List Nat := []) : Index :=
  let k := keyOf cols vals
  let new : IxEntry := ⟨table, cols, k, rid, me, none⟩
  if k.contains .null then ix
  else if D.indexOneEntryPerKey then
    match ix.find? (fun e => e.is table cols k) with
    | some e =>
      if aborted.contains e.xmin || e.xmax.isSome then replaceFirst (fun e => e.is table cols k) new ix else ix
    | none => ix ++ [new]
  else ix ++ [new]

/-- index maintenance of a DELETE (delete arm): the entry found under the key gets the delete mark if it is visible -/
def ixDelete (D : Defects) (s : Snapshot) (ix : Index) (table : String) (cols : List Nat) (vals : List Val) (rid : Rid) :
    Index :=
  let k := keyOf cols vals
  if k.contains .null then ix
  else ix.map (fun e =>
    if e.is table cols k && (D.indexOneEntryPerKey || e.rid == rid) && e.visible s then { e with xmax := some s.xid }
    else e)

def ixUpdate (D : Defects) (s : Snapshot) (ix : Index) (table : String) (cols : List Nat) (old new : List Val)
    (rid : Rid) : Index :=
  if D.indexNotMaintainedOnKeyUpdate then ix
  else if keyOf cols old == keyOf cols new then ix
  else ixInsert D s.xid (ixDelete D s ix table cols old rid) table cols new rid s.aborted

/-- the index after one row-level effect; `v` = the writer's view before the effect -/
def ixApply (D : Defects) (cat : Catalog) (s : Snapshot) (v : View) (ix : Index) : Effect → Index
  | .ins rid t vals =>
    match findTable cat t with
    | none => ix
    | some ts => ts.keySets.foldl (fun ix cols => ixInsert D s.xid ix t cols vals rid s.aborted) ix
  | .upd rid c x =>
    match v.find? (fun r => r.rid == rid) with
    | none => ix
    | some r =>
      match findTable cat r.table with
      | none => ix
      | some ts => ts.keySets.foldl (fun ix cols => ixUpdate D s ix r.table cols r.vals (r.vals.set c x) rid) ix
  | .del rid =>
    match v.find? (fun r => r.rid == rid) with
    | none => ix
    | some r =>
      match findTable cat r.table with
      | none => ix
      | some ts => ts.keySets.foldl (fun ix cols => ixDelete D s ix r.table cols r.vals rid) ix

def ixApplyAll (D : Defects) (cat : Catalog) (s : Snapshot) : View → Index → List Effect → Index
  | _, ix, [] => ix
  | v, ix, e :: es => ixApplyAll D cat s (v.apply e) (ixApply D cat s v ix e) es

/-- how a statement decides uniqueness: `none` = against its view (specification);
    `some` = by probing the physical index, as the code does (only with an index defect on) -/
structure Probe where
  D : Defects
  s : Snapshot
  cat : Catalog
  ix : Index

def Probe.step (pb : Option Probe) (v : View) (e : Effect) : Option Probe :=
  pb.map (fun p => { p with ix := ixApply p.D p.cat p.s v p.ix e })

/-- the UPDATE arm of `maintain_secondary_indexes` as shipped: for an index containing the updated column `ci` it
    fails with a type error — after the row was rewritten — when the old key contains NULL (the old entry cannot be
    built) or when the column before `ci` belongs to the same index (it looks the assignment up under the wrong
    index and compares it with that column's type); otherwise it changes nothing -/
def ixUpdateFails (pb : Option Probe) (ts : TableSchema) (ci : Nat) (old : List Val) : Bool :=
  match pb with
  | none => false
  | some p => p.D.indexNotMaintainedOnKeyUpdate &&
      ts.keySets.any (fun K => K.contains ci && ((keyOf K old).contains .null || (ci ≥ 1 && K.contains (ci - 1))))

/-- UNIQUE / PRIMARY KEY check of a candidate row (`validate_unique_constraints`): every key set of the table -/
def uniqueOk (pb : Option Probe) (v : View) (ts : TableSchema) (self : Option Rid) (vals : List Val) : Bool :=
  match pb with
  | none => ts.keySets.all (fun cols => !dupKey v ts.name self cols vals)
  | some p => ts.keySets.all (fun cols => !ixProbe p.D p.s p.ix ts.name cols vals self)

/-- result of planning: effects emitted so far, output (an `err` output = the statement failed after emitting `effs`) -/
structure Plan where
  effs : List Effect
  out : SOut
  deriving Repr

/-- one more row processed successfully -/
def Plan.cons (e : Effect) (p : Plan) : Plan :=
  ⟨e :: p.effs, match p.out with
    | .okN n => .okN (n + 1)
    | o => o⟩

/-- INSERT, row by row: cast, NOT NULL, UNIQUE (against the view including the rows inserted so far), insert.
    `j` = index of the next inserted row within the operation. -/
def planIns (ts : TableSchema) (clock : Nat) : Option Probe → View → List (List Val) → Nat → Plan
  | _, _, [], _ => ⟨[], .okN 0⟩
  | pb, v, r :: rs, j =>
    match castRow ts.cols r with
    | .error e => ⟨[], .err e⟩
    | .ok r' =>
      if !notNullOk ts.cols r' then ⟨[], .err .constraint⟩
      else if !uniqueOk pb v ts none r' then ⟨[], .err .constraint⟩
      else
        let e := Effect.ins (clock, j) ts.name r'
        (planIns ts clock (Probe.step pb v e) (v.apply e) rs (j + 1)).cons e

/-- new value of the assigned column for one row -/
def newValue (c : Col) (add : Bool) (x : Val) (cur : Val) : Except Err Val :=
  if add then
    match c.ty, x, cur with
    | .text, _, _ => .error .type
    | _, .int k, .int n => .ok (.int (n + k))
    | _, .int _, .null => .ok .null
    | _, .null, _ => .ok .null
    | _, _, _ => .error .type
  else castVal c.ty x

/-- UPDATE over the rows of the scan (the view at statement start), checks against the evolving view. -/
def planUpd (ts : TableSchema) (ci : Nat) (c : Col) (add : Bool) (x : Val) (p : Option (Nat × CmpOp × Val)) :
    Option Probe → View → List ARow → Plan
  | _, _, [] => ⟨[], .okN 0⟩
  | pb, v, r :: rs =>
    if r.table == ts.name && rowMatches p r.vals then
      match newValue c add x (r.vals.getD ci .null) with
      | .error e => ⟨[], .err e⟩
      | .ok nv =>
        if c.notNull && nv == .null then ⟨[], .err .constraint⟩
        else if !uniqueOk pb v ts (some r.rid) (r.vals.set ci nv) then ⟨[], .err .constraint⟩
        else
          let e := Effect.upd r.rid ci nv
          if ixUpdateFails pb ts ci r.vals then ⟨[e], .err .type⟩
          else (planUpd ts ci c add x p (Probe.step pb v e) (v.apply e) rs).cons e
    else planUpd ts ci c add x p pb v rs

def planDel (t : String) (p : Option (Nat × CmpOp × Val)) : List ARow → Plan
  | [] => ⟨[], .okN 0⟩
  | r :: rs =>
    if r.table == t && rowMatches p r.vals then (planDel t p rs).cons (Effect.del r.rid)
    else planDel t p rs

/-- rows of a table matching a bound predicate, in view order -/
def evalQuery (t : String) (p : Option (Nat × CmpOp × Val)) (v : View) : List (List Val) :=
  (v.filter (fun r => r.table == t && rowMatches p r.vals)).map (·.vals)

/-- Plans one statement against view `v`.  `j0` = number of rows already inserted by this operation (batches). -/
def planStmt (pb : Option Probe) (cat : Catalog) (clock : Nat) (j0 : Nat) (v : View) : Stmt → Plan
  | .sel t p =>
    match findTable cat t with
    | none => ⟨[], .err .notfound⟩
    | some ts => match bindPred ts p with
      | .error e => ⟨[], .err e⟩
      | .ok bp => ⟨[], .rows (evalQuery t bp v)⟩
  | .ins t rows =>
    match findTable cat t with
    | none => ⟨[], .err .notfound⟩
    | some ts =>
      if rows.any (fun r => r.length != ts.cols.length) then ⟨[], .err .other⟩
      else planIns ts clock pb v rows j0
  | .upd t col add x p =>
    match findTable cat t with
    | none => ⟨[], .err .notfound⟩
    | some ts => match colIndex ts col with
      | none => ⟨[], .err .notfound⟩
      | some (ci, c) => match bindPred ts p with
        | .error e => ⟨[], .err e⟩
        | .ok bp => planUpd ts ci c add x bp pb v v
  | .del t p =>
    match findTable cat t with
    | none => ⟨[], .err .notfound⟩
    | some ts => match bindPred ts p with
      | .error e => ⟨[], .err e⟩
      | .ok bp => planDel t bp v

def countIns : List Effect → Nat
  | [] => 0
  | .ins _ _ _ :: es => countIns es + 1
  | _ :: es => countIns es

/-- every row satisfies NOT NULL, and no two rows of a table agree on a (fully non-NULL) UNIQUE / PRIMARY KEY key -/
def constraintsHold (cat : Catalog) (v : View) : Bool :=
  v.all (fun r => match findTable cat r.table with
    | Option.none => true
    | some ts => notNullOk ts.cols r.vals && uniqueOk Option.none v ts (some r.rid) r.vals)

/-! ## operations of a history -/

inductive Op where
  | begin (s : String)
  | commit (s : String)
  | rollback (s : String)
  | drop (s : String)
  | exec (s : String) (st : Stmt)
  /-- `Database::execute`: its own transaction, committed on success, aborted on failure -/
  | auto (st : Stmt)
  /-- `Database::execute_batch`: one transaction, stops at the first failing statement -/
  | batch (sts : List Stmt)
  /-- an autocommit transaction without logical effect (DDL on the static catalog, warm-up) -/
  | tick
  /-- placeholder of an erased operation: only the clock advances -/
  | nop
  deriving Repr

/-! ## 2. MVCC machine -/

structure Version where
  creator : Nat
  vals : List Val
  deriving Repr

/-- physical row: version chain (newest first) and delete marks -/
structure Row where
  rid : Rid
  table : String
  versions : List Version
  deleters : List Nat
  deriving Repr

/-- `TupleReader::parse_for_snapshot`: the values of the row for this snapshot -/
def rowVisible (D : Defects) (s : Snapshot) (r : Row) : Option (List Val) :=
  if D.ownDeleteWalksDeltas then
    if r.deleters.any s.cb then none
    else match r.versions with
      | [] => none
      | h :: tl =>
        if s.sees h.creator && !r.deleters.contains s.xid then some h.vals
        else (tl.find? (fun v => s.cb v.creator)).map (·.vals)
  else
    if r.deleters.any s.sees then none
    else (r.versions.find? (fun v => s.sees v.creator)).map (·.vals)

def Row.toARow (D : Defects) (s : Snapshot) (r : Row) : Option ARow :=
  (rowVisible D s r).map (fun vals => ⟨r.rid, r.table, vals⟩)

def view (D : Defects) (s : Snapshot) (rows : List Row) : View := rows.filterMap (Row.toARow D s)

/-- `DmlExecutor::update` + `Tuple::add_version_with` -/
def Row.update (D : Defects) (s : Snapshot) (c : Nat) (x : Val) (r : Row) : Row :=
  match rowVisible D s r with
  | none => r
  | some vis =>
    if D.updateKeepsInserterXmin then
      match r.versions with
      | [] => r
      | h :: _ => { r with versions := ⟨h.creator, h.vals.set c x⟩ :: r.versions, deleters := [] }
    else { r with versions := ⟨s.xid, vis.set c x⟩ :: r.versions }

/-- `DmlExecutor::delete` + `Tuple::delete` -/
def Row.delete (D : Defects) (s : Snapshot) (r : Row) : Row :=
  match rowVisible D s r with
  | none => r
  | some _ =>
    if D.deleteKeepsStaleXmax && !r.deleters.isEmpty then r
    else if D.deleteMarkSingleSlot then { r with deleters := [s.xid] }
    else { r with deleters := s.xid :: r.deleters }

def Row.apply (D : Defects) (s : Snapshot) (r : Row) : Effect → Row
  | .ins _ _ _ => r
  | .upd rid c x => if r.rid = rid then r.update D s c x else r
  | .del rid => if r.rid = rid then r.delete D s else r

def applyEffect (D : Defects) (s : Snapshot) (rows : List Row) (e : Effect) : List Row :=
  match e with
  | .ins rid t vals => rows ++ [⟨rid, t, [⟨s.xid, vals⟩], []⟩]
  | e => rows.map (fun r => r.apply D s e)

def applyEffects (D : Defects) (s : Snapshot) (rows : List Row) (es : List Effect) : List Row :=
  es.foldl (applyEffect D s) rows

inductive Status where
  | active | committed | aborted
  deriving DecidableEq, Repr

structure Txn where
  snap : Snapshot
  status : Status
  /-- row ids written (`record_write`) -/
  ws : List Rid
  /-- `start_ts`: number of commits when the transaction began -/
  startTs : Nat
  deriving Repr

structure State where
  cat : Catalog
  rows : List Row
  /-- transaction table: `txns[i]` is transaction `i`; the next id is `txns.length` -/
  txns : List Txn
  lastCommitted : Nat
  /-- commit log: (id, write set) in commit order; `tuple_commits` = last index per row id, `commit_counter` = length -/
  clog : List (Nat × List Rid)
  sessions : List (String × Nat)
  clock : Nat
  /-- the physical unique indexes (maintained only when an index defect is on, see `Defects.usesIndex`) -/
  index : Index := []
  deriving Repr

def State.init (cat : Catalog) : State :=
  { cat, rows := [], txns := [], lastCommitted := 0, clog := [], sessions := [], clock := 0 }

def idsWith (st : Status) : List Txn → Nat → List Nat
  | [], _ => []
  | t :: ts, i => if t.status = st then i :: idsWith st ts (i + 1) else idsWith st ts (i + 1)

/-- `TransactionCoordinator::snapshot` for the next transaction id -/
def State.freshSnap (D : Defects) (σ : State) : Snapshot :=
  { xid := σ.txns.length,
    xmax := if D.xmaxNoneSeesAll && σ.lastCommitted == 0 then Option.none else some σ.lastCommitted,
    active := idsWith .active σ.txns 0,
    aborted := idsWith .aborted σ.txns 0 }

/-- `TransactionCoordinator::begin` -/
def State.beginTxn (D : Defects) (σ : State) : State × Nat :=
  ({ σ with txns := σ.txns ++ [⟨σ.freshSnap D, .active, [], σ.clog.length⟩] }, σ.txns.length)

def setStatus (txns : List Txn) (tid : Nat) (st : Status) : List Txn :=
  txns.modify tid (fun t => { t with status := st })

def overlaps (a b : List Rid) : Bool := a.any (fun x => b.contains x)

/-- `validate_write_set`: some row of the write set was committed at or after `start_ts` -/
def conflictIn (clog : List (Nat × List Rid)) (t : Txn) : Bool :=
  (clog.drop t.startTs).any (fun e => overlaps e.2 t.ws)

/-- `TransactionCoordinator::commit`; returns false on a write-write conflict (the transaction is then aborted) -/
def State.commitTxn (σ : State) (tid : Nat) : State × Bool :=
  match σ.txns[tid]? with
  | Option.none => (σ, false)
  | some t =>
    if conflictIn σ.clog t then ({ σ with txns := setStatus σ.txns tid .aborted }, false)
    else ({ σ with txns := setStatus σ.txns tid .committed,
                   lastCommitted := if tid > σ.lastCommitted then tid else σ.lastCommitted,
                   clog := σ.clog ++ [(tid, t.ws)] }, true)

/-- `TransactionCoordinator::abort` -/
def State.abortTxn (σ : State) (tid : Nat) : State :=
  { σ with txns := setStatus σ.txns tid .aborted }

/-- the key entries of `tid`'s write set (`ThreadContext::record_key_write`): table, key columns and (fully non-NULL)
    key of every row it inserted, under every key set of the table -/
def insertedKeys (cat : Catalog) (rows : List Row) (tid : Nat) : List (String × List Nat × List Val) :=
  rows.flatMap (fun r =>
    match r.versions.getLast?, findTable cat r.table with
    | some v, some ts =>
      if v.creator == tid then
        (ts.keySets.filter (fun K => !(keyOf K v.vals).contains .null)).map (fun K => (r.table, K, keyOf K v.vals))
      else []
    | _, _ => [])

/-- `validate_write_set` over the key entries: a transaction that committed since `tid` began inserted one of the keys
    `tid` inserted -/
def State.keyTaken (σ : State) (tid : Nat) : Bool :=
  match σ.txns[tid]? with
  | Option.none => false
  | some t =>
    (σ.clog.drop t.startTs).any (fun e =>
      (insertedKeys σ.cat σ.rows e.1).any (fun k => (insertedKeys σ.cat σ.rows tid).contains k))

/-- commit as the sessions see it: first-committer-wins validation, then the constraints are re-checked on what the
    committed database would become; `none` = committed -/
def State.commitC (D : Defects) (σ : State) (tid : Nat) : State × Option Err :=
  if (σ.commitTxn tid).2 then
    if (D.commitChecksInsertedKeysOnly && σ.keyTaken tid) || (!D.commitChecksInsertedKeysOnly &&
        !D.uniqueNotRecheckedAtCommit &&
        !constraintsHold σ.cat (view D ((σ.commitTxn tid).1.freshSnap D) (σ.commitTxn tid).1.rows)) then
      (σ.abortTxn tid, some .constraint)
    else ((σ.commitTxn tid).1, Option.none)
  else ((σ.commitTxn tid).1, some .conflict)

def outOfCommit (r : Option Err) (o : Out) : Out :=
  match r with
  | Option.none => o
  | some e => .refused e

def State.snapOf (σ : State) (tid : Nat) : Snapshot :=
  match σ.txns[tid]? with
  | some t => t.snap
  | Option.none => ⟨tid, Option.none, [], []⟩

/-- applies effects as transaction `tid` and records the write set -/
def State.write (D : Defects) (σ : State) (tid : Nat) (es : List Effect) : State :=
  { σ with rows := applyEffects D (σ.snapOf tid) σ.rows es,
           txns := if D.writeSetNeverRecorded then σ.txns
                   else σ.txns.modify tid (fun t => { t with ws := t.ws ++ es.map Effect.rid }),
           index := if D.usesIndex then ixApplyAll D σ.cat (σ.snapOf tid) (view D (σ.snapOf tid) σ.rows) σ.index es
                    else σ.index }

def lookup (k : String) : List (String × α) → Option α
  | [] => Option.none
  | (k', v) :: rest => if k' == k then some v else lookup k rest

def erase (k : String) : List (String × α) → List (String × α)
  | [] => []
  | (k', v) :: rest => if k' == k then erase k rest else (k', v) :: erase k rest

/-- one statement of transaction `tid` inside a session -/
def State.stmt (D : Defects) (σ : State) (tid : Nat) (j0 : Nat) (st : Stmt) : State × Plan :=
  let pb : Option Probe := if D.usesIndex then some ⟨D, σ.snapOf tid, σ.cat, σ.index⟩ else Option.none
  let p := planStmt pb σ.cat σ.clock j0 (view D (σ.snapOf tid) σ.rows) st
  if p.out.isErr && !D.stmtNotAtomicInSession then (σ, p) else (σ.write D tid p.effs, p)

/-- statements of a batch, stopping at the first failure -/
def State.batch (D : Defects) : State → Nat → Nat → List Stmt → State × List SOut × Option Err
  | σ, _, _, [] => (σ, [], Option.none)
  | σ, tid, j0, st :: sts =>
    let (σ', p) := σ.stmt D tid j0 st
    match p.out with
    | .err e => (σ', [], some e)
    | o =>
      let (σ'', outs, r) := State.batch D σ' tid (j0 + countIns p.effs) sts
      (σ'', o :: outs, r)

def State.endSession (σ : State) (s : String) : State := { σ with sessions := erase s σ.sessions }

def stepCore (D : Defects) (σ : State) : Op → State × Out
  | .begin s =>
    let σ1 := match lookup s σ.sessions with
      | some old => (σ.abortTxn old).endSession s
      | Option.none => σ
    let (σ2, tid) := σ1.beginTxn D
    ({ σ2 with sessions := (s, tid) :: σ2.sessions }, .ok)
  | .commit s =>
    match lookup s σ.sessions with
    | Option.none => (σ, .noSession)
    | some tid =>
      let (σ1, r) := σ.commitC D tid
      (σ1.endSession s, outOfCommit r .ok)
  | .rollback s =>
    match lookup s σ.sessions with
    | Option.none => (σ, .noSession)
    | some tid => ((σ.abortTxn tid).endSession s, .ok)
  | .drop s =>
    match lookup s σ.sessions with
    | Option.none => (σ, .noSession)
    | some tid => ((σ.abortTxn tid).endSession s, .ok)
  | .exec s st =>
    match lookup s σ.sessions with
    | Option.none => (σ, .noSession)
    | some tid =>
      let (σ1, p) := σ.stmt D tid 0 st
      (σ1, .stmt p.out)
  | .auto st =>
    let (σ1, tid) := σ.beginTxn D
    let (σ2, p) := σ1.stmt D tid 0 st
    if p.out.isErr then (σ2.abortTxn tid, .stmt p.out)
    else
      let (σ3, r) := σ2.commitC D tid
      (σ3, outOfCommit r (.stmt p.out))
  | .batch sts =>
    let (σ1, tid) := σ.beginTxn D
    match State.batch D σ1 tid 0 sts with
    | (σ2, _, some e) => (σ2.abortTxn tid, .batchErr e)
    | (σ2, outs, Option.none) =>
      let (σ3, r) := σ2.commitC D tid
      (σ3, match r with
        | Option.none => .batch outs
        | some e => .batchErr e)
  | .tick =>
    let (σ1, tid) := σ.beginTxn D
    let (σ2, _) := σ1.commitTxn tid
    (σ2, .ok)
  | .nop => (σ, .none)

/-- one operation of a history; the clock ticks on every operation -/
def step (D : Defects) (σ : State) (op : Op) : State × Out :=
  let (σ', o) := stepCore D σ op
  ({ σ' with clock := σ'.clock + 1 }, o)

def runFrom (D : Defects) : State → List Op → List Out → State × List Out
  | σ, [], acc => (σ, acc.reverse)
  | σ, op :: ops, acc =>
    let (σ', o) := step D σ op
    runFrom D σ' ops (o :: acc)

def run (D : Defects) (cat : Catalog) (ops : List Op) : State × List Out := runFrom D (State.init cat) ops []

/-! ## 3. Abstract snapshot-isolation machine (the specification) -/

namespace Spec

structure ATxn where
  /-- the committed database when the transaction began -/
  base : View
  /-- its own row-level writes so far, in order -/
  effs : List Effect
  /-- number of transactions that had committed when it began -/
  beginIdx : Nat
  deriving Repr

/-- what the transaction sees: committed-at-begin ⊕ own writes -/
def ATxn.view (a : ATxn) : View := a.base.applyAll a.effs

def ATxn.ws (a : ATxn) : List Rid := a.effs.map Effect.rid

structure State where
  cat : Catalog
  committed : View
  /-- (number of commits at its begin, write set) of the committed transactions, in commit order -/
  log : List (Nat × List Rid)
  sessions : List (String × ATxn)
  clock : Nat
  deriving Repr

def State.init (cat : Catalog) : State := { cat, committed := [], log := [], sessions := [], clock := 0 }

def State.beginTxn (α : State) : ATxn := ⟨α.committed, [], α.log.length⟩

/-- some transaction that committed after `a` began wrote a row that `a` wrote -/
def conflict (log : List (Nat × List Rid)) (a : ATxn) : Bool := (log.drop a.beginIdx).any (fun e => overlaps e.2 a.ws)

/-- first-committer-wins commit: refused on a conflict; otherwise the committed database takes over the
    transaction's final version of every row it wrote (inserted, updated or deleted), all other rows are unchanged -/
def State.commitTxn (α : State) (a : ATxn) : State × Bool :=
  if conflict α.log a then (α, false)
  else ({ α with committed := takeOver α.committed a.view a.ws, log := α.log ++ [(a.beginIdx, a.ws)] }, true)

/-- commit as the sessions see it: additionally refused when the committed database would violate a constraint -/
def State.commitC (α : State) (a : ATxn) : State × Option Err :=
  if (α.commitTxn a).2 then
    if !constraintsHold α.cat (α.commitTxn a).1.committed then (α, some .constraint)
    else ((α.commitTxn a).1, Option.none)
  else (α, some .conflict)

/-- a statement is atomic: a failing one contributes no effect -/
def stmt (cat : Catalog) (clock : Nat) (a : ATxn) (j0 : Nat) (st : Stmt) : ATxn × Plan :=
  let p := planStmt Option.none cat clock j0 a.view st
  if p.out.isErr then (a, p) else ({ a with effs := a.effs ++ p.effs }, p)

def batch (cat : Catalog) (clock : Nat) : ATxn → Nat → List Stmt → ATxn × List SOut × Option Err
  | a, _, [] => (a, [], Option.none)
  | a, j0, st :: sts =>
    let (a', p) := stmt cat clock a j0 st
    match p.out with
    | .err e => (a', [], some e)
    | o =>
      let (a'', outs, r) := batch cat clock a' (j0 + countIns p.effs) sts
      (a'', o :: outs, r)

def stepCore (α : State) : Op → State × Out
  | .begin s => ({ α with sessions := (s, α.beginTxn) :: erase s α.sessions }, .ok)
  | .commit s =>
    match lookup s α.sessions with
    | Option.none => (α, .noSession)
    | some a =>
      let (α1, r) := α.commitC a
      ({ α1 with sessions := erase s α1.sessions }, outOfCommit r .ok)
  | .rollback s =>
    match lookup s α.sessions with
    | Option.none => (α, .noSession)
    | some _ => ({ α with sessions := erase s α.sessions }, .ok)
  | .drop s =>
    match lookup s α.sessions with
    | Option.none => (α, .noSession)
    | some _ => ({ α with sessions := erase s α.sessions }, .ok)
  | .exec s st =>
    match lookup s α.sessions with
    | Option.none => (α, .noSession)
    | some a =>
      let (a', p) := stmt α.cat α.clock a 0 st
      ({ α with sessions := (s, a') :: erase s α.sessions }, .stmt p.out)
  | .auto st =>
    let (a', p) := stmt α.cat α.clock α.beginTxn 0 st
    if p.out.isErr then (α, .stmt p.out)
    else
      let (α1, r) := α.commitC a'
      (α1, outOfCommit r (.stmt p.out))
  | .batch sts =>
    match batch α.cat α.clock α.beginTxn 0 sts with
    | (_, _, some e) => (α, .batchErr e)
    | (a', outs, Option.none) =>
      let (α1, r) := α.commitC a'
      (α1, match r with
        | Option.none => .batch outs
        | some e => .batchErr e)
  | .tick => ({ α with log := α.log ++ [(α.log.length, [])] }, .ok)
  | .nop => (α, .none)

def step (α : State) (op : Op) : State × Out :=
  let (α', o) := stepCore α op
  ({ α' with clock := α'.clock + 1 }, o)

def runFrom : State → List Op → List Out → State × List Out
  | α, [], acc => (α, acc.reverse)
  | α, op :: ops, acc =>
    let (α', o) := step α op
    runFrom α' ops (o :: acc)

def run (cat : Catalog) (ops : List Op) : State × List Out := runFrom (State.init cat) ops []

end Spec

/-! ## 4. Checker for observed histories -/

/-- an observed history: the operations in the order in which they took effect (for engine `hist` the order of the
    case line; for a multi-threaded run the order of the begin / statement / commit tickets) and what each answered -/
structure Observed where
  ops : List Op
  outs : List Out

/-- Is the observation what the abstract snapshot-isolation machine answers to these operations?
    (soundness: `Thm/C04.checkSI_sound`) -/
def checkSI (cat : Catalog) (obs : Observed) : Bool := decide ((Spec.run cat obs.ops).2 = obs.outs)

end AxVerif.Db
